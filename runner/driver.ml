(* modelrun: reads one case per line on stdin, prints one result per line.
   The only hand-written OCaml: tokenising, N <-> decimal, printing. *)


open BinNums
let rec pos_of_z (z : Z.t) : positive =
  if Z.equal z Z.one then Coq_xH
  else if Z.testbit z 0 then Coq_xI (pos_of_z (Z.shift_right z 1))
  else Coq_xO (pos_of_z (Z.shift_right z 1))
let n_of_z (z : Z.t) : coq_N = if Z.sign z <= 0 then N0 else Npos (pos_of_z z)
let rec z_of_pos (p : positive) : Z.t =
  match p with
  | Coq_xH -> Z.one
  | Coq_xO q -> Z.shift_left (z_of_pos q) 1
  | Coq_xI q -> Z.succ (Z.shift_left (z_of_pos q) 1)
let z_of_n (x : coq_N) : Z.t = match x with N0 -> Z.zero | Npos p -> z_of_pos p
let n_of_string s = n_of_z (Z.of_string s)
let string_of_n x = Z.to_string (z_of_n x)
let n_of_int i = n_of_z (Z.of_int i)
let int_of_n x = Z.to_int (z_of_n x)

module Nat_conv = struct
  let rec nat_of_int (i : int) : Datatypes.nat = if i <= 0 then Datatypes.O else Datatypes.S (nat_of_int (i - 1))
end

let split_on c s = Stdlib.List.filter (fun t -> t <> "") (Stdlib.String.split_on_char c s)

(* ---------- fs: free-space manager ---------- *)
let ferr_str = function
  | FreeSpace.EArg -> "arg" | FreeSpace.ESpace -> "space"
  | FreeSpace.EDup -> "dup" | FreeSpace.ECorrupt -> "corrupt"

let fs_getters (s : FreeSpace.fs) =
  Stdlib.Printf.sprintf "%s,%s,%s,%s"
    (string_of_n (FreeSpace.get_total_free s))
    (string_of_n (FreeSpace.get_chunks s))
    (string_of_n (FreeSpace.get_largest s))
    (string_of_n (FreeSpace.get_fragmentation s))

(* fs <device_bytes> op*   op = a<n> | r<start>,<count> *)
let run_fs toks =
  match toks with
  | dev :: ops ->
    let b = Stdlib.Buffer.create 256 in
    (match FreeSpace.initialize (n_of_string dev) with
     | FreeSpace.FErr _ -> Stdlib.Buffer.add_string b "initerr"
     | FreeSpace.FOk s0 ->
       Stdlib.Buffer.add_string b ("init:" ^ fs_getters s0);
       let s = ref s0 in
       Stdlib.List.iter (fun op ->
           let body = Stdlib.String.sub op 1 (Stdlib.String.length op - 1) in
           (match op.[0] with
            | 'a' ->
              let (r, s') = FreeSpace.alloc (n_of_string body) !s in
              s := s';
              (match r with
               | FreeSpace.FOk a -> Stdlib.Buffer.add_string b (" ok" ^ string_of_n a)
               | FreeSpace.FErr e -> Stdlib.Buffer.add_string b (" " ^ ferr_str e))
            | 'r' ->
              (match Stdlib.String.split_on_char ',' body with
               | [a; c] ->
                 let (r, s') = FreeSpace.release (n_of_string a) (n_of_string c) !s in
                 s := s';
                 (match r with
                  | FreeSpace.FOk _ -> Stdlib.Buffer.add_string b " ok"
                  | FreeSpace.FErr e -> Stdlib.Buffer.add_string b (" " ^ ferr_str e))
               | _ -> failwith "bad release op")
            | _ -> failwith "bad fs op");
           Stdlib.Buffer.add_string b (":" ^ fs_getters !s)) ops);
    Stdlib.Buffer.contents b
  | _ -> failwith "fs: missing device size"


(* ---------- byte helpers ---------- *)
let byte_table : coq_N array = Array.init 256 n_of_int

let read_file path =
  let ic = open_in_bin path in
  let len = in_channel_length ic in
  let s = really_input_string ic len in
  close_in ic; s

(* image file -> list of 4096-byte blocks (trailing partial block dropped) *)
let image_of_string (s : string) : coq_N list list =
  let nblocks = Stdlib.String.length s / 4096 in
  let rec blk base i acc = if i < 0 then acc else blk base (i - 1) (byte_table.(Char.code s.[base + i]) :: acc) in
  let rec go b acc = if b < 0 then acc else go (b - 1) (blk (b * 4096) 4095 [] :: acc) in
  go (nblocks - 1) []

let bytes_of_hex (h : string) : coq_N list =
  if h = "-" then [] else
  let n = Stdlib.String.length h / 2 in
  let rec go i acc = if i < 0 then acc else
      go (i - 1) (byte_table.(int_of_string ("0x" ^ Stdlib.String.sub h (2 * i) 2)) :: acc) in
  go (n - 1) []

let hex_of_bytes (l : coq_N list) : string =
  if l = [] then "-" else
  let b = Stdlib.Buffer.create 64 in
  Stdlib.List.iter (fun x -> Stdlib.Buffer.add_string b (Stdlib.Printf.sprintf "%02x" (int_of_n x))) l;
  Stdlib.Buffer.contents b

let fnv_prime = 0x100000001b3L
let fnv_init = 0xcbf29ce484222325L
let fnv_step h (x : coq_N) = Int64.mul (Int64.logxor h (Int64.of_int (int_of_n x))) fnv_prime
let fnv_bytes (l : coq_N list) = Stdlib.List.fold_left fnv_step fnv_init l
let fnv_image (img : coq_N list list) =
  Stdlib.List.fold_left (fun h b -> Stdlib.List.fold_left fnv_step h b) fnv_init img

let opt k toks default =
  let pre = k ^ "=" in
  let n = Stdlib.String.length pre in
  try
    let t = Stdlib.List.find (fun t -> Stdlib.String.length t >= n && Stdlib.String.sub t 0 n = pre) toks in
    Stdlib.String.sub t n (Stdlib.String.length t - n)
  with Not_found -> default

(* ---------- open: Recovery.open_image on an image file ---------- *)
let rerr_str = function
  | Recovery.EInvalidMetadata -> "invalid-metadata"
  | Recovery.ECorrupt -> "corrupt"
  | Recovery.EAmbiguous -> "ambiguous"
  | Recovery.EInvalidDevice -> "invalid-device"
  | Recovery.EFree e -> "free-" ^ ferr_str e
  | Recovery.ERetire -> "retire"
  | Recovery.EJournalExhausted -> "journal-exhausted"

let open_result_string (orig : coq_N list list) ((r, final) : Recovery.opened Recovery.res * coq_N list list) =
  match r with
  | Recovery.Panic -> "PANIC"
  | Recovery.Rej e ->
    (match e with
     | Recovery.EInvalidMetadata | Recovery.EInvalidDevice ->
       Stdlib.Printf.sprintf "err %s unchanged=%d post=%016Lx" (rerr_str e)
         (if final = orig then 1 else 0) (fnv_image final)
     | _ -> Stdlib.Printf.sprintf "err %s post=%016Lx" (rerr_str e) (fnv_image final))
  | Recovery.Ok o ->
    let keys = Stdlib.Buffer.create 256 in
    Stdlib.List.iter (fun (e : Recovery.entry) ->
        let v = match Recovery.read_value o.Recovery.o_version o.Recovery.o_img e with
          | Some bytes -> Stdlib.Printf.sprintf "%016Lx" (fnv_bytes bytes)
          | None -> "err" in
        Stdlib.Buffer.add_string keys
          (Stdlib.Printf.sprintf "%s:%s:%s:%s:%s:%s;" (hex_of_bytes e.Recovery.e_key)
             (string_of_n e.Recovery.e_ts) (string_of_n e.Recovery.e_exp)
             (string_of_n e.Recovery.e_vlen) (string_of_n e.Recovery.e_sector) v))
      o.Recovery.o_idx;
    let f = o.Recovery.o_fs in
    Stdlib.Printf.sprintf "ok v=%s n=%s mem=%s disk=%s free=%s,%s,%s amb=%s keys=%s post=%016Lx"
      (string_of_n o.Recovery.o_version) (string_of_n o.Recovery.o_count)
      (string_of_n o.Recovery.o_mem) (string_of_n o.Recovery.o_disk)
      (string_of_n (FreeSpace.get_total_free f)) (string_of_n (FreeSpace.get_chunks f))
      (string_of_n (FreeSpace.get_largest f))
      (string_of_n o.Recovery.o_ambiguous)
      (let k = Stdlib.Buffer.contents keys in if k = "" then "-" else k)
      (fnv_image o.Recovery.o_img)

(* open <path> ro=<0|1> allow=<0|1> ttl=<0|1> now=<n> recsize=<n> *)
let run_open toks =
  match toks with
  | path :: rest ->
    let raw = read_file path in
    let img = image_of_string raw in
    if Stdlib.String.length raw > 16 * 4096 && Stdlib.String.for_all (fun c -> c = '\000') raw then "fresh" else
    let cfg = { Recovery.c_ro = (opt "ro" rest "0" = "1");
                Recovery.c_allow_ambiguous = (opt "allow" rest "0" = "1");
                Recovery.c_now = (if opt "ttl" rest "0" = "1" then Some (n_of_string (opt "now" rest "0")) else None);
                Recovery.c_recsize = n_of_string (opt "recsize" rest "0") } in
    let r = Recovery.open_image cfg img in
    (match Sys.getenv_opt "VERIF_DUMP_POST" with
     | Some out ->
       let oc = open_out_bin out in
       Stdlib.List.iter (fun b -> Stdlib.List.iter (fun x -> output_char oc (Char.chr (int_of_n x))) b) (snd r);
       close_out oc
     | None -> ());
    open_result_string img r
  | _ -> failwith "open: missing path"

(* ---------- pure codec functions ---------- *)
let parse_exts (s : string) : (coq_N * coq_N) list =
  if s = "-" then [] else
  Stdlib.List.map (fun e -> match Stdlib.String.split_on_char ':' e with
      | [a; b] -> (n_of_string a, n_of_string b) | _ -> failwith "bad extent")
    (Stdlib.String.split_on_char ',' s)
let exts_str (l : (coq_N * coq_N) list) =
  if l = [] then "-" else
  Stdlib.String.concat "," (Stdlib.List.map (fun (a, b) -> string_of_n a ^ ":" ^ string_of_n b) l)
let hash_str l = Stdlib.Printf.sprintf "%016Lx" (fnv_bytes l)

let run_codec toks =
  match toks with
  | "crc" :: seed :: h :: _ -> string_of_n (Crc32c.crc32c (n_of_string seed) (bytes_of_hex h))
  | "rtok" :: sector :: h :: _ -> string_of_n (Codec.record_token (n_of_string sector) (bytes_of_hex h))
  | "stok" :: sector :: h :: _ -> string_of_n (Codec.seq_token (n_of_string sector) (bytes_of_hex h))
  | "marker" :: sector :: remaining :: blocks :: _ ->
    let run = Codec.marker_run (n_of_string sector) (n_of_string remaining) (Nat_conv.nat_of_int (int_of_string blocks)) in
    let all = Stdlib.List.concat run in
    Stdlib.Printf.sprintf "%s %d" (hash_str all) (Stdlib.List.length all)
  | "jenc" :: gen :: state :: exts :: _ ->
    let g = n_of_string gen and e = parse_exts exts in
    if state = "1" then
      (if MetaJournal.encode_active_ok g e then
         let img = MetaJournal.encode_journal g Constants.coq_JOURNAL_ACTIVE e in
         Stdlib.Printf.sprintf "ok %s %d" (hash_str img) (Stdlib.List.length img)
       else "err")
    else
      (if g = N0 then "err" else
         let img = MetaJournal.encode_journal g Constants.coq_JOURNAL_CLEAR [] in
         Stdlib.Printf.sprintf "ok %s %d" (hash_str img) (Stdlib.List.length img))
  | "jdec" :: total :: h :: _ ->
    let d = bytes_of_hex h in
    let rec take n l = if n = 0 then [] else match l with [] -> [] | x :: t -> x :: take (n - 1) t in
    let rec drop n l = if n = 0 then l else match l with [] -> [] | _ :: t -> drop (n - 1) t in
    (match MetaJournal.decode_journal (take 12288 d) (drop 12288 d) (n_of_string total) with
     | None -> "corrupt"
     | Some ((g, slot), e) -> Stdlib.Printf.sprintf "ok %s %s %s" (string_of_n g) (string_of_n slot) (exts_str e))
  | "menc" :: v :: recs :: size :: dev :: blk :: frag :: created :: updated :: _ ->
    let m = { MetaJournal.m_version = n_of_string v; m_records = n_of_string recs; m_size = n_of_string size;
              m_device = n_of_string dev; m_block = n_of_string blk; m_frag = n_of_string frag;
              m_created = n_of_string created; m_updated = n_of_string updated; m_generation = N0;
              m_tail = Bytes.zeros (Nat_conv.nat_of_int 48) } in
    hex_of_bytes (MetaJournal.encode_meta m)
  | "mdec" :: h :: _ ->
    (match MetaJournal.decode_meta (bytes_of_hex h) with
     | None -> "none"
     | Some m -> Stdlib.Printf.sprintf "ok %s %s %s %s %s %s %s"
                   (string_of_n m.MetaJournal.m_version) (string_of_n m.MetaJournal.m_records)
                   (string_of_n m.MetaJournal.m_size) (string_of_n m.MetaJournal.m_device)
                   (string_of_n m.MetaJournal.m_frag) (string_of_n m.MetaJournal.m_updated)
                   (string_of_n m.MetaJournal.m_generation))
  | "ser" :: v :: key :: value :: ts :: exp :: _ ->
    let r = { Codec.r_key = bytes_of_hex key; r_value = bytes_of_hex value; r_ts = n_of_string ts; r_exp = n_of_string exp } in
    let ver = n_of_string v in
    let d = Codec.serialize ver r in
    let klen = n_of_int (Stdlib.List.length r.Codec.r_key) and vlen = n_of_int (Stdlib.List.length r.Codec.r_value) in
    Stdlib.Printf.sprintf "%s %d hdr=%s total=%s blocks=%s" (hash_str d) (Stdlib.List.length d)
      (string_of_n (Codec.header_size ver klen)) (string_of_n (Codec.total_size ver klen vlen))
      (string_of_n (Codec.extent_blocks ver klen vlen))
  | "parse" :: v :: h :: _ ->
    (match Codec.parse_head (n_of_string v) (bytes_of_hex h) with
     | None -> "PANIC"
     | Some None -> "none"
     | Some (Some (((k, vl), ts), ex)) ->
       Stdlib.Printf.sprintf "ok %s %s %s %s" (hex_of_bytes k) (string_of_n vl) (string_of_n ts) (string_of_n ex))
  | "hrange" :: v :: h :: _ -> if Codec.header_range_ok (n_of_string v) (bytes_of_hex h) then "some" else "none"
  | "stamp" :: v :: sector :: h :: _ -> hash_str (Codec.stamp (n_of_string v) (n_of_string sector) (bytes_of_hex h))
  | "holds" :: h :: key :: vlen :: ts :: _ ->
    if Codec.sector_holds (bytes_of_hex h) (bytes_of_hex key) (n_of_string vlen) (n_of_string ts) then "true" else "false"
  | "coalesce" :: exts :: _ ->
    (match MetaJournal.coalesce (parse_exts exts) with None -> "err" | Some l -> "ok " ^ exts_str l)
  | _ -> failwith "codec: unknown function"

(* readdev <path>: the independent reader of the documented layout (read-only, no TTL filtering) *)
let run_readdev toks =
  match toks with
  | path :: _ ->
    let img = image_of_string (read_file path) in
    let cfg = { Recovery.c_ro = true; Recovery.c_allow_ambiguous = true; Recovery.c_now = None;
                Recovery.c_recsize = N0 } in
    (match Recovery.open_image cfg img with
     | (Recovery.Panic, _) -> "PANIC"
     | (Recovery.Rej e, _) -> "unreadable " ^ rerr_str e
     | (Recovery.Ok o, _) ->
       let blk i = Stdlib.List.nth img i in
       let mb = if MetaJournal.select_meta (blk 0) (blk 7) then blk 7 else blk 0 in
       let (recs, size) = match MetaJournal.decode_meta mb with
         | Some m -> (string_of_n m.MetaJournal.m_records, string_of_n m.MetaJournal.m_size)
         | None -> ("?", "?") in
       let total = n_of_int (Stdlib.List.length img) in
       let journal = match MetaJournal.decode_journal (Recovery.slot_bytes img N0) (Recovery.slot_bytes img (n_of_int 1)) total with
         | Some (_, []) -> "clear" | Some _ -> "active" | None -> "corrupt" in
       let keys = Stdlib.Buffer.create 256 in
       Stdlib.List.iter (fun (e : Recovery.entry) ->
           let v = match Recovery.read_value o.Recovery.o_version img e with
             | Some bytes -> Stdlib.Printf.sprintf "%016Lx" (fnv_bytes bytes) | None -> "err" in
           Stdlib.Buffer.add_string keys
             (Stdlib.Printf.sprintf "%s:%s:%s:%s:%s;" (hex_of_bytes e.Recovery.e_key)
                (string_of_n e.Recovery.e_ts) (string_of_n e.Recovery.e_exp) (string_of_n e.Recovery.e_vlen) v))
         o.Recovery.o_idx;
       Stdlib.Printf.sprintf "flushed v=%s n=%s size=%s journal=%s keys=%s"
         (string_of_n o.Recovery.o_version) recs size journal
         (let k = Stdlib.Buffer.contents keys in if k = "" then "-" else k))
  | _ -> failwith "readdev: missing path"

(* ---------- lww: the sequential reference map ---------- *)
(* value specs: hex, "-" (empty), @z<len> (zeros), @r<seed>,<len> (xorshift64 bytes) *)
let gen_bytes (spec : string) : coq_N list =
  if Stdlib.String.length spec > 0 && spec.[0] = '@' then begin
    let body = Stdlib.String.sub spec 2 (Stdlib.String.length spec - 2) in
    match spec.[1] with
    | 'z' -> Stdlib.List.init (int_of_string body) (fun _ -> N0)
    | 'r' ->
      (match Stdlib.String.split_on_char ',' body with
       | [seed; len] ->
         let x = ref (Int64.logor (Int64.mul (Int64.of_string seed) 0x9E3779B97F4A7C15L) 1L) in
         Stdlib.List.init (int_of_string len) (fun _ ->
             x := Int64.logxor !x (Int64.shift_left !x 13);
             x := Int64.logxor !x (Int64.shift_right_logical !x 7);
             x := Int64.logxor !x (Int64.shift_left !x 17);
             byte_table.(Int64.to_int (Int64.logand !x 0xffL)))
       | _ -> failwith "bad @r spec")
    | _ -> failwith "bad value spec"
  end else bytes_of_hex spec

let z_of_coqz (z : BinNums.coq_Z) : Z.t = match z with
  | Z0 -> Z.zero | Zpos p -> z_of_pos p | Zneg p -> Z.neg (z_of_pos p)
let coqz_of_z (z : Z.t) : BinNums.coq_Z =
  if Z.sign z = 0 then Z0 else if Z.sign z > 0 then Zpos (pos_of_z z) else Zneg (pos_of_z (Z.neg z))

let lww_err = function
  | Lww.KeyNotFound -> "notfound" | Lww.Older -> "older" | Lww.OutOfMemory -> "oom"
  | Lww.InvalidKeySize -> "badkey" | Lww.InvalidValueSize -> "badvalue" | Lww.TtlNotEnabled -> "ttloff"
  | Lww.Unsupported -> "unsupported" | Lww.InvalidOperation -> "invalidop" | Lww.JsonError -> "json"

let fnv_string (s : string) =
  let h = ref fnv_init in
  Stdlib.String.iter (fun c -> h := Int64.mul (Int64.logxor !h (Int64.of_int (Char.code c))) fnv_prime) s; !h

let lww_out = function
  | Lww.OBool b -> if b then "true" else "false"
  | Lww.OUnit -> "ok"
  | Lww.OVal v -> Stdlib.Printf.sprintf "val:%016Lx:%d" (fnv_bytes v) (Stdlib.List.length v)
  | Lww.OInt z -> "int:" ^ Z.to_string (z_of_coqz z)
  | Lww.ONat n -> "nat:" ^ string_of_n n
  | Lww.OOptNat None -> "none"
  | Lww.OOptNat (Some n) -> "some:" ^ string_of_n n
  | Lww.OPairs l ->
    let b = Stdlib.Buffer.create 64 in
    Stdlib.List.iter (fun (k, v) -> Stdlib.Buffer.add_string b (hex_of_bytes k); Stdlib.Buffer.add_char b ':';
                       Stdlib.Buffer.add_string b (Stdlib.Printf.sprintf "%016Lx;" (fnv_bytes v))) l;
    Stdlib.Printf.sprintf "pairs:%d:%016Lx" (Stdlib.List.length l) (fnv_string (Stdlib.Buffer.contents b))
  | Lww.OErr e -> "err:" ^ lww_err e
  | Lww.OUndecided -> "UNDECIDED"
  | Lww.OClock n -> "CLOCK:" ^ string_of_n n

let lww_snapshot (s : Lww.st) =
  let b = Stdlib.Buffer.create 256 in
  Stdlib.List.iter (fun (k, g) ->
      Stdlib.Buffer.add_string b (Stdlib.Printf.sprintf "%s:%s:%s:%d;" (hex_of_bytes k)
                                    (string_of_n g.Lww.g_ts) (string_of_n g.Lww.g_exp) (Stdlib.List.length g.Lww.g_val)))
    s.Lww.kv;
  Stdlib.Printf.sprintf "%016Lx" (fnv_string (Stdlib.Buffer.contents b))

let opt_n k toks = let v = opt k toks "-" in if v = "-" then None else Some (n_of_string v)

let split_ops (toks : string list) : string list list =
  let rec go cur acc = function
    | [] -> Stdlib.List.rev (Stdlib.List.rev cur :: acc)
    | "|" :: t -> go [] (Stdlib.List.rev cur :: acc) t
    | x :: t -> go (x :: cur) acc t in
  go [] [] toks

let run_lww toks =
  match split_ops toks with
  | [] -> failwith "lww: empty"
  | head :: ops ->
    let c = { Lww.persistent = (opt "p" head "0" = "1"); Lww.ttl_on = (opt "ttl" head "0" = "1");
              Lww.version = n_of_string (opt "ver" head "3"); Lww.limit = opt_n "lim" head;
              Lww.recsize = n_of_string (opt "R" head "0") } in
    let st = ref Lww.init in
    let outs = ref [] in
    let stop = ref false in
    Stdlib.List.iter (fun o ->
        if not !stop then begin
          match o with
          | [] -> ()
          | name :: args ->
            let key k = gen_bytes (opt k args "-") in
            let env = { Lww.e_shard = n_of_string (opt "sh" args "0"); Lww.e_clk = n_of_string (opt "clk" args "0");
                        Lww.e_tb = n_of_string (opt "tb" args "0"); Lww.e_ta = n_of_string (opt "ta" args "0");
                        Lww.e_aux = n_of_string (opt "aux" args "0");
                        Lww.e_patched = (let p = opt "pj" args "ERR" in if p = "ERR" then None else Some (gen_bytes p)) } in
            let tsopt = opt_n "ts" args in
            let ttl = n_of_string (opt "ttl" args "0") in
            let emit res =
              outs := Stdlib.Printf.sprintf "%s m=%s n=%d s=%s" res (string_of_n !st.Lww.mem)
                  (Stdlib.List.length !st.Lww.kv) (lww_snapshot !st) :: !outs;
              if res = "UNDECIDED" then stop := true in
            (match name with
             | "reopen" ->
               let shards = let v = opt "shards" args "-" in if v = "-" then [] else
                   Stdlib.List.map (fun e -> match Stdlib.String.split_on_char ':' e with
                       | [k; sh] -> (bytes_of_hex k, n_of_string sh) | _ -> failwith "bad shard")
                     (Stdlib.String.split_on_char ',' v) in
               let clk = parse_exts (opt "clocks" args "-") in
               (match Lww.reopen c !st env.Lww.e_tb env.Lww.e_ta shards clk with
                | Lww.ReOk s' -> st := s'; emit "reopened"
                | Lww.ReUndecided -> emit "UNDECIDED"
                | Lww.ReClock -> emit "CLOCK:13")
             | "dump" ->
               let b = Stdlib.Buffer.create 256 in
               let und = ref false in
               Stdlib.List.iter (fun (k, g) ->
                   let v = match Lww.expired c g env.Lww.e_tb env.Lww.e_ta with
                     | Lww.Yes -> "expired" | Lww.Unknown -> und := true; "?"
                     | Lww.No -> Stdlib.Printf.sprintf "%016Lx" (fnv_bytes g.Lww.g_val) in
                   Stdlib.Buffer.add_string b (Stdlib.Printf.sprintf "%s:%s:%s:%s;" (hex_of_bytes k)
                                                 (string_of_n g.Lww.g_ts) (string_of_n g.Lww.g_exp) v)) !st.Lww.kv;
               if !und then emit "UNDECIDED" else emit (Stdlib.Printf.sprintf "dump:%016Lx" (fnv_string (Stdlib.Buffer.contents b)))
             | _ ->
               let op = match name with
                 | "ins" -> Lww.Insert (key "k", key "v", tsopt, ttl, opt "api" args "0" = "1")
                 | "get" -> Lww.Get (key "k")
                 | "size" -> Lww.GetSize (key "k")
                 | "has" -> Lww.Contains (key "k")
                 | "len" -> Lww.Len
                 | "del" -> Lww.Delete (key "k", tsopt)
                 | "incr" -> Lww.Incr (key "k", coqz_of_z (Z.of_string (opt "d" args "0")), tsopt, ttl)
                 | "ifabs" -> Lww.InsertIfAbsent (key "k", key "v")
                 | "cas" -> Lww.Cas (key "k", key "x", key "v", tsopt, ttl)
                 | "json" -> Lww.JsonPatch (key "k", tsopt)
                 | "uttl" -> Lww.UpdateTtl (key "k", ttl)
                 | "gttl" -> Lww.GetTtl (key "k")
                 | "range" -> Lww.Range (key "a", key "b", n_of_string (opt "lim" args "0"))
                 | "flush" -> Lww.Flush
                 | other -> failwith ("lww: unknown op " ^ other) in
               let (s', o) = Lww.step c !st op env in
               st := s'; emit (lww_out o))
        end) ops;
    Stdlib.String.concat " | " (Stdlib.List.rev !outs)

(* ---------- monitor: a real device trace must follow the journal discipline ---------- *)
let run_monitor toks =
  match toks with
  | base :: _ ->
    let lines = Stdlib.String.split_on_char '\n' (read_file (base ^ ".trace")) in
    let data = read_file (base ^ ".data") in
    let total = ref N0 in
    let evs = ref [] in
    let nev = ref 0 in
    let bytes_at at len = Stdlib.List.init len (fun i -> byte_table.(Char.code data.[at + i])) in
    Stdlib.List.iter (fun l ->
        let t = split_on ' ' l in
        match t with
        | "BLOCKS" :: b :: _ -> total := n_of_string b
        | _ :: "W" :: rest when opt "applied" rest "0" = "1" ->
          incr nev;
          let off = int_of_string (opt "off" rest "0") and len = int_of_string (opt "len" rest "0")
          and at = int_of_string (opt "at" rest "0") in
          let block = off / 4096 in
          if block = 0 || block = 7 then begin
            match MetaJournal.decode_meta (bytes_at at len) with
            | Some m -> evs := Monitor.MMeta (block = 7, m.MetaJournal.m_generation) :: !evs
            | None -> evs := Monitor.MMetaBad :: !evs
          end else if block >= 1 && block < 7 then begin
            let slot = (block - 1) / 3 in
            if (block - 1) mod 3 <> 0 then evs := Monitor.MJournalBad (n_of_int slot) :: !evs
            else begin
              let img = bytes_at at len @ Stdlib.List.init (max 0 (12288 - len)) (fun _ -> N0) in
              match MetaJournal.decode_slot img !total with
              | Some (g, exts) -> evs := Monitor.MJournal (n_of_int slot, g, exts <> [], exts) :: !evs
              | None -> evs := Monitor.MJournalBad (n_of_int slot) :: !evs
            end
          end else
            evs := Monitor.MData (n_of_int block, n_of_int (len / 4096)) :: !evs
        | _ :: "F" :: rest ->
          incr nev;
          evs := Monitor.MFsync (opt "ok" rest "0" = "1") :: !evs
        | _ -> ()) lines;
    let init =
      match toks with
      | _ :: image :: _ ->
        (* a recovery trace: start from the journal / metadata state of the image recovery opened *)
        let img = read_file image in
        let bytes_of at len = Stdlib.List.init len (fun i -> byte_table.(Char.code img.[at + i])) in
        let slot k = if Stdlib.String.length img >= (4 + 3 * k) * 4096 then MetaJournal.decode_slot (bytes_of ((1 + 3 * k) * 4096) 12288) !total else None in
        let mg k = if Stdlib.String.length img >= (k + 1) * 4096 then (match MetaJournal.decode_meta (bytes_of (k * 4096) 4096) with Some m -> Some m.MetaJournal.m_generation | None -> None) else None in
        Monitor.minit_of_image (slot 0) (slot 1) (mg 0) (mg 7)
      | _ -> Monitor.minit in
    (match Monitor.mrun init (Stdlib.List.rev !evs) N0 with
     | (Monitor.Accept _, _) -> Stdlib.Printf.sprintf "accepted events=%d" !nev
     | (Monitor.Reject w, i) -> Stdlib.Printf.sprintf "rejected rule=%s at-device-event=%s" (string_of_n w) (string_of_n i))
  | _ -> failwith "monitor: missing trace"

(* ---------- cache: ClockCache public API ---------- *)
let run_cache toks =
  match split_ops toks with
  | [] -> failwith "cache: empty"
  | head :: ops ->
    let c = ref (Cache.cache_new (n_of_string (opt "E" head "0"))) in
    let outs = ref [] in
    Stdlib.List.iter (fun o ->
        match o with
        | [] -> ()
        | name :: args ->
          let res = match name with
            | "get" ->
              let (r, c') = Cache.cget !c (gen_bytes (opt "k" args "-")) in
              c := c';
              (match r with Some v -> Stdlib.Printf.sprintf "hit:%016Lx" (fnv_bytes v) | None -> "miss")
            | "ins" -> c := Cache.cinsert !c (gen_bytes (opt "k" args "-")) (gen_bytes (opt "v" args "-")); "ok"
            | "rm" -> c := Cache.cremove !c (gen_bytes (opt "k" args "-")); "ok"
            | "evict" -> c := Cache.cevict !c; "ok"
            | "clear" -> c := Cache.cclear !c; "ok"
            | "adj" -> c := Cache.cadjust !c (n_of_string (opt "h" args "0")) (n_of_string (opt "l" args "0")); "ok"
            | other -> failwith ("cache: unknown op " ^ other) in
          outs := Stdlib.Printf.sprintf "%s m=%s ev=%s hw=%s lw=%s" res (string_of_n !c.Cache.cmem)
              (string_of_n !c.Cache.evictions) (string_of_n !c.Cache.high) (string_of_n !c.Cache.low) :: !outs) ops;
    Stdlib.String.concat " | " (Stdlib.List.rev !outs)

(* ---------- migrate: what the destination must contain, from the source image alone ---------- *)
let run_migrate toks =
  match toks with
  | src :: rest ->
    let img = image_of_string (read_file src) in
    (match Migration.migrate_spec img (opt "allow" rest "0" = "1") (opt "dstexists" rest "0" = "1") with
     | Datatypes.Coq_inr e ->
       let k = match e with
         | Migration.MCurrentFormat _ -> "current-format" | Migration.MKeyTooLarge -> "key-too-large"
         | Migration.MAmbiguous -> "ambiguous" | Migration.MStore e -> rerr_str e
         | Migration.MDestinationExists -> "destination-exists" | Migration.MPanic -> "PANIC" in
       Stdlib.Printf.sprintf "err %s srcsame=1 published=0 tempfiles=0" k
     | Datatypes.Coq_inl r ->
       let b = Stdlib.Buffer.create 256 in
       Stdlib.List.iter (fun (m : Migration.mrecord) ->
           let v = match m.Migration.mr_val with
             | Some bytes -> Stdlib.Printf.sprintf "%016Lx" (fnv_bytes bytes) | None -> "err" in
           Stdlib.Buffer.add_string b
             (Stdlib.Printf.sprintf "%s:%s:%s:%s;" (hex_of_bytes m.Migration.mr_key)
                (string_of_n m.Migration.mr_ts) (string_of_n m.Migration.mr_exp) v))
         r.Migration.rep_records;
       Stdlib.Printf.sprintf "ok srcver=%s n=%d amb=%s dstver=3 contents=%016Lx srcsame=1 published=1 tempfiles=0"
         (string_of_n r.Migration.rep_version) (Stdlib.List.length r.Migration.rep_records)
         (string_of_n r.Migration.rep_ambiguous) (fnv_string (Stdlib.Buffer.contents b)))
  | _ -> failwith "migrate: missing source"


(* ---------- conc / hist: the concurrency model (Sched) and the history checker (Lin) ---------- *)
let sched_val (t : string) : Sched.coq_val =
  let body = Stdlib.String.sub t 1 (Stdlib.String.length t - 1) in
  match t.[0] with
  | 'b' -> Sched.VB (n_of_string body)
  | 'j' -> Sched.VJ (Stdlib.List.map n_of_string (split_on '_' body))
  | 'c' -> Sched.VC (coqz_of_z (Z.of_string body))
  | _ -> failwith ("bad value token " ^ t)

let sched_val_str (v : Sched.coq_val) : string = match v with
  | Sched.VB n -> "b" ^ string_of_n n
  | Sched.VJ l -> "j" ^ Stdlib.String.concat "_" (Stdlib.List.map string_of_n l)
  | Sched.VC z -> "c" ^ Z.to_string (z_of_coqz z)

let sched_ts t = if t = "-" then None else Some (n_of_string t)

let sched_op (t : string) : Sched.op =
  match Stdlib.String.split_on_char '.' t with
  | ["g"; k] -> Sched.OGet (n_of_string k)
  | ["u"; k; v; ts] -> Sched.OUpsert (n_of_string k, sched_val v, sched_ts ts)
  | ["d"; k; ts] -> Sched.ODelete (n_of_string k, sched_ts ts)
  | ["c"; k; e; n; ts] -> Sched.OCas (n_of_string k, sched_val e, sched_val n, sched_ts ts)
  | ["n"; k; d; ts] -> Sched.OIncr (n_of_string k, coqz_of_z (Z.of_string d), sched_ts ts)
  | ["a"; k; v] -> Sched.OIfAbsent (n_of_string k, sched_val v)
  | ["p"; k; pj; ts] -> Sched.OPatch (n_of_string k, n_of_string pj, sched_ts ts)
  | _ -> failwith ("bad op token " ^ t)

let sched_resp_str (r : Sched.resp) : string = match r with
  | Sched.RVal v -> "v:" ^ sched_val_str v
  | Sched.RNotFound -> "nf" | Sched.ROlder -> "older"
  | Sched.RBool true -> "true" | Sched.RBool false -> "false"
  | Sched.RUnit -> "ok" | Sched.RInt z -> "i:" ^ Z.to_string (z_of_coqz z)
  | Sched.RInvalid -> "invalid" | Sched.RPatchErr -> "perr"

let sched_resp (t : string) : Sched.resp =
  if t = "nf" then Sched.RNotFound else if t = "older" then Sched.ROlder
  else if t = "true" then Sched.RBool true else if t = "false" then Sched.RBool false
  else if t = "ok" then Sched.RUnit else if t = "invalid" then Sched.RInvalid
  else if t = "perr" then Sched.RPatchErr
  else if Stdlib.String.length t > 2 && Stdlib.String.sub t 0 2 = "v:" then Sched.RVal (sched_val (Stdlib.String.sub t 2 (Stdlib.String.length t - 2)))
  else if Stdlib.String.length t > 2 && Stdlib.String.sub t 0 2 = "i:" then Sched.RInt (coqz_of_z (Z.of_string (Stdlib.String.sub t 2 (Stdlib.String.length t - 2))))
  else failwith ("bad response token " ^ t)

let kv_arg toks name =
  let pre = name ^ "=" in
  let l = Stdlib.String.length pre in
  match Stdlib.List.find_opt (fun t -> Stdlib.String.length t >= l && Stdlib.String.sub t 0 l = pre) toks with
  | Some t -> Stdlib.String.sub t l (Stdlib.String.length t - l)
  | None -> failwith ("missing " ^ name)

(* conc shards=K:SH,.. prog=op|op;op|op sched=0,1,.. keys=K,K *)
let run_conc toks =
  let shards = Stdlib.List.map (fun t -> match Stdlib.String.split_on_char ':' t with
      | [k; sh] -> (n_of_string k, n_of_string sh) | _ -> failwith "bad shard") (split_on ',' (kv_arg toks "shards")) in
  let progs = Stdlib.List.map (fun th -> Stdlib.List.map sched_op (split_on '|' th))
      (Stdlib.String.split_on_char ';' (kv_arg toks "prog")) in
  let sched = Stdlib.List.map (fun t -> Nat_conv.nat_of_int (int_of_string t)) (split_on ',' (kv_arg toks "sched")) in
  let keys = Stdlib.List.map n_of_string (split_on ',' (kv_arg toks "keys")) in
  let w0 = Sched.init_world shards progs in
  let w = Sched.finish (Nat_conv.nat_of_int 2000) (Sched.run w0 sched) in
  let b = Stdlib.Buffer.create 256 in
  Stdlib.List.iteri (fun i th ->
      if i > 0 then Stdlib.Buffer.add_char b ';';
      Stdlib.Buffer.add_string b (Stdlib.Printf.sprintf "t%d=" i);
      Stdlib.Buffer.add_string b (Stdlib.String.concat "," (Stdlib.List.rev_map sched_resp_str th.Sched.t_out));
      if th.Sched.t_ops <> [] then Stdlib.Buffer.add_string b "!unfinished") w.Sched.w_th;
  Stdlib.Buffer.add_string b " final=";
  Stdlib.Buffer.add_string b (Stdlib.String.concat "," (Stdlib.List.map (fun k ->
      string_of_n k ^ ":" ^ (match Sched.abs w.Sched.w_sh k with Some (v, _) -> sched_val_str v | None -> "-")) keys));
  Stdlib.Buffer.contents b

(* hist id,op,inv,res,resp ...   -> lin=1 | lin=0 *)
let run_hist toks =
  let h = Stdlib.List.map (fun t -> match Stdlib.String.split_on_char ',' t with
      | [id; op; inv; res; resp] ->
        { Lin.h_id = n_of_string id; Lin.h_op = sched_op op; Lin.h_inv = n_of_string inv;
          Lin.h_res = n_of_string res; Lin.h_resp = sched_resp resp }
      | _ -> failwith ("bad history item " ^ t)) toks in
  if Lin.lin_check h then "lin=1" else "lin=0"

(* pins [k=v ...] p<s>,<n> u<s>,<n> w<s>,<n> ... -> ok | hit@<index> *)
let run_pins toks =
  let evs = Stdlib.List.filter_map (fun t ->
      if Stdlib.String.contains t '=' then None else
        let body = Stdlib.String.sub t 1 (Stdlib.String.length t - 1) in
        match Stdlib.String.split_on_char ',' body with
        | [s; n] ->
          let s = n_of_string s and n = n_of_string n in
          Some (match t.[0] with
              | 'p' -> Extent.EPin (s, n) | 'u' -> Extent.EUnpin (s, n) | 'w' -> Extent.EWrite (s, n)
              | _ -> failwith ("bad pin event " ^ t))
        | _ -> failwith ("bad pin event " ^ t)) toks in
  match Extent.emon [] evs N0 with
  | None -> "ok"
  | Some i -> "hit@" ^ string_of_n i

(* inflight P P M0 K0 M1 F1 C0 ...  (P push, M mark_in_flight, K sq.push ok (ghost), F sq.push failed,
   C completion); the drop comes last -> complete=<bits> bufs=<F|L per buffer> *)
let run_inflight toks =
  let st = ref InFlight.ifinit in
  let comp = Stdlib.Buffer.create 16 in
  Stdlib.List.iter (fun t ->
      let idx () = Nat_conv.nat_of_int (int_of_string (Stdlib.String.sub t 1 (Stdlib.String.length t - 1))) in
      let ev = match t.[0] with
        | 'P' -> InFlight.Push
        | 'M' -> InFlight.MarkInFlight (idx ())
        | 'K' -> InFlight.SqPushOk (idx ())
        | 'F' -> InFlight.SqPushFail (idx ())
        | 'C' ->
          let i = idx () in
          Stdlib.Buffer.add_char comp (if Stdlib.List.nth_opt !st.InFlight.inflight (int_of_string (Stdlib.String.sub t 1 (Stdlib.String.length t - 1))) = Some true then '1' else '0');
          InFlight.Complete i
        | _ -> failwith ("bad inflight token " ^ t) in
      st := InFlight.ifstep !st ev) toks;
  st := InFlight.ifstep !st InFlight.DropAll;
  "complete=" ^ Stdlib.Buffer.contents comp ^ " bufs=" ^
  Stdlib.String.concat "" (Stdlib.List.map (function InFlight.Freed -> "F" | InFlight.Leaked -> "L" | InFlight.Owned -> "O") !st.InFlight.bufs)

(* swp K<d> P<k>,<exp>,<v> T<k>,<exp> D<k> G<k> S X<k> L<i>,<k> R<i>  (Model.Sweep events)
   -> <client results joined by ;> final=<k>:<v>:<exp>;... removed=<n> *)
let run_swp toks =
  let st = ref Sweep.sinit in
  let outs = ref [] in
  Stdlib.List.iter (fun t ->
      let body = Stdlib.String.sub t 1 (Stdlib.String.length t - 1) in
      let args = Stdlib.List.map n_of_string (Stdlib.List.filter (fun x -> x <> "") (Stdlib.String.split_on_char ',' body)) in
      let ev = match t.[0], args with
        | 'K', [d] -> Sweep.ETick d
        | 'P', [k; e; v] -> Sweep.EPut (k, e, v)
        | 'T', [k; e] -> Sweep.ETtl (k, e)
        | 'D', [k] -> Sweep.EDel k
        | 'G', [k] -> Sweep.EGet k
        | 'S', [] -> Sweep.ESample
        | 'X', [k] -> Sweep.EProc k
        | 'L', [i; k] -> Sweep.ELazySee (i, k)
        | 'R', [i] -> Sweep.ELazyRetire i
        | 'I', [k; d] -> Sweep.EIncr (k, d)
        | _ -> failwith ("bad sweep event " ^ t) in
      let (s', o) = Sweep.sstep !st ev in
      st := s';
      (match t.[0], o with
       | 'G', Sweep.SVal None -> outs := "g:-" :: !outs
       | 'G', Sweep.SVal (Some v) -> outs := ("g:" ^ string_of_n v) :: !outs
       | 'T', Sweep.SBool b -> outs := (if b then "t:1" else "t:0") :: !outs
       | 'D', Sweep.SBool b -> outs := (if b then "d:1" else "d:0") :: !outs
       | 'I', Sweep.SVal None -> outs := "i:-" :: !outs
       | 'I', Sweep.SVal (Some v) -> outs := ("i:" ^ string_of_n v) :: !outs
       | _ -> ())) toks;
  let tbl = Stdlib.List.sort compare (Stdlib.List.map (fun (k, g) -> (Z.to_int (z_of_n k), g)) !st.Sweep.ss_tbl) in
  Stdlib.String.concat ";" (Stdlib.List.rev !outs) ^ " final=" ^
  Stdlib.String.concat ";" (Stdlib.List.map (fun (k, g) -> Stdlib.Printf.sprintf "%d:%s:%s" k (string_of_n g.Sweep.sg_val) (string_of_n g.Sweep.sg_exp)) tbl) ^
  " n=" ^ string_of_int (Stdlib.List.length tbl) ^
  " removed=" ^ string_of_int (Stdlib.List.length !st.Sweep.ss_log)

(* scn <a> <b> <limit> P<k>,<v>,<vis> D<k> S ...  (Model.Scan events) -> <k>:<v>;... *)
let run_scn toks =
  match toks with
  | a :: b :: limit :: evs ->
    let a = n_of_string a and b = n_of_string b and limit = Nat_conv.nat_of_int (int_of_string limit) in
    let w = ref Scan.winit in
    Stdlib.List.iter (fun t ->
        let body = Stdlib.String.sub t 1 (Stdlib.String.length t - 1) in
        let args = Stdlib.List.filter (fun x -> x <> "") (Stdlib.String.split_on_char ',' body) in
        let ev = match t.[0], args with
          | 'P', [k; v; vis] -> Scan.MPut (n_of_string k, n_of_string v, vis = "1")
          | 'D', [k] -> Scan.MDel (n_of_string k)
          | 'S', [] -> Scan.SStep
          | _ -> failwith ("bad scan event " ^ t) in
        w := Scan.wstep a b limit !w ev) evs;
    Stdlib.String.concat ";" (Stdlib.List.map (fun (k, v) -> string_of_n k ^ ":" ^ string_of_n v) !w.Scan.w_out)
  | _ -> failwith "bad scan case"

(* abuf <capacity> L<n> C ... (Model.AlignedBuf) -> cap=<c> counter=+<alloc> <ok|panic>:<len> ... after-drop=+0 *)
let run_abuf toks =
  match toks with
  | capacity :: ops ->
    let b = ref (AlignedBuf.ab_new (n_of_string capacity)) in
    let buf = Stdlib.Buffer.create 64 in
    Stdlib.Buffer.add_string buf ("cap=" ^ string_of_n !b.AlignedBuf.ab_cap ^ " counter=+" ^ string_of_n !b.AlignedBuf.ab_alloc);
    Stdlib.List.iter (fun t ->
        let op = match t.[0] with
          | 'C' -> AlignedBuf.AClear
          | 'L' -> AlignedBuf.ASetLen (n_of_string (Stdlib.String.sub t 1 (Stdlib.String.length t - 1)))
          | _ -> failwith ("bad abuf op " ^ t) in
        let (b', o) = AlignedBuf.ab_step !b op in
        b := b';
        Stdlib.Buffer.add_string buf ((match o with AlignedBuf.AOk -> " ok" | AlignedBuf.APanic -> " panic") ^ ":" ^ string_of_n !b.AlignedBuf.ab_len)) ops;
    Stdlib.Buffer.add_string buf " after-drop=+0";
    Stdlib.Buffer.contents buf
  | _ -> failwith "bad abuf case"

(* fp <device bytes> F<i>,<i>,... (E<id>,<blocks> | R<id> | X)*  (Model.FailPath, with deletions) -> one result per flush, joined by " | " *)
let run_fp toks =
  match toks with
  | dev :: faults :: ops ->
    let fs0 = match FreeSpace.initialize (n_of_string dev) with FreeSpace.FOk s -> s | FreeSpace.FErr _ -> failwith "bad device size" in
    let body = Stdlib.String.sub faults 1 (Stdlib.String.length faults - 1) in
    let failing = Stdlib.List.map Z.of_string (Stdlib.List.filter (fun x -> x <> "") (Stdlib.String.split_on_char ',' body)) in
    let fault i = Stdlib.List.exists (fun z -> Z.equal z (z_of_n i)) failing in
    let rs = ref (FailPath.rinit fs0) in
    let outs = ref [] in
    Stdlib.List.iter (fun t ->
        if t = "X" then begin
          let (rs', r) = FailPath.rflush fault !rs in
          rs := rs';
          let st = !rs.FailPath.r_core in
          let rstr = match r with FailPath.ROk -> "ok" | FailPath.RIo -> "io" | FailPath.RIndet -> "indet" | FailPath.RSpace -> "space" in
          let f = st.FailPath.f_fs in
          let durable = Stdlib.List.sort compare (Stdlib.List.map (fun (id, (s, _)) -> string_of_n id ^ ":" ^ string_of_n s) st.FailPath.f_durable) in
          outs := Stdlib.Printf.sprintf "r=%s free=%s,%s,%s usage=%s durable=%s calls=%s" rstr
              (string_of_n (FreeSpace.get_total_free f)) (string_of_n (FreeSpace.get_chunks f)) (string_of_n (FreeSpace.get_largest f))
              (string_of_n st.FailPath.f_usage) (Stdlib.String.concat "," durable) (string_of_n st.FailPath.f_calls) :: !outs
        end else begin
          let body = Stdlib.String.sub t 1 (Stdlib.String.length t - 1) in
          match t.[0], Stdlib.String.split_on_char ',' body with
          | 'E', [id; blocks] -> rs := FailPath.renqueue !rs (n_of_string id) (n_of_string blocks)
          | 'R', [id] -> rs := FailPath.rdelete !rs (n_of_string id)
          | _ -> failwith ("bad failpath op " ^ t)
        end) ops;
    Stdlib.String.concat " | " (Stdlib.List.rev !outs)
  | _ -> failwith "bad failpath case"

(* gate <start> <sector>,<refcount>,<succ or -1>,<safe> ...  (Model.Gate) -> <answer> <memo bits> *)
let run_gate toks =
  match toks with
  | start :: nodes ->
    let l = Stdlib.List.map (fun t -> match Stdlib.String.split_on_char ',' t with
        | [s; r; c; f] ->
          { Gate.gn_sector = n_of_string s; Gate.gn_ref = n_of_string r;
            Gate.gn_succ = (if c = "-1" then None else Some (Nat_conv.nat_of_int (int_of_string c))); Gate.gn_safe = (f = "1") }
        | _ -> failwith ("bad gate node " ^ t)) nodes in
    let (a, l') = Gate.gate l (Nat_conv.nat_of_int (int_of_string start)) in
    (if a then "1 " else "0 ") ^ Stdlib.String.concat "" (Stdlib.List.map (fun n -> if n.Gate.gn_safe then "1" else "0") l')
  | _ -> failwith "bad gate case"

(* cgen <code>,<a>,<b>,<c> ...  (Model.CacheGen layer A) -> one result per op: - or the number *)
let run_cgen toks =
  let ops = Stdlib.List.map (fun t -> match Stdlib.String.split_on_char ',' t with
      | [c; a; b; d] ->
        let a = n_of_string a and b = n_of_string b and d = n_of_string d in
        (match int_of_string c with
         | 0 -> CacheGen.ANew (a, b, d) | 1 -> CacheGen.ADead a | 2 -> CacheGen.ADrop a
         | 3 -> CacheGen.AGetFor (a, b) | 4 -> CacheGen.AInsFor (a, b, d) | 5 -> CacheGen.ARemFor (a, b)
         | 6 -> CacheGen.AEntryValue (a, b) | 7 -> CacheGen.AEntryRemove (a, b)
         | 8 -> CacheGen.AGet a | 9 -> CacheGen.AIns (a, b) | _ -> CacheGen.ARem a)
      | _ -> failwith ("bad cgen op " ^ t)) toks in
  Stdlib.String.concat " " (Stdlib.List.map (fun r -> match r with None -> "-" | Some v -> string_of_n v) (CacheGen.arun CacheGen.ainit ops))

(* clk <start> <code>,<x> ...  (Model.Clock, calls run alone) -> <issued>:<shard after> per op *)
let run_clk toks =
  match toks with
  | start :: ops ->
    let s = ref (Clock.kinit (n_of_string start)) in
    Stdlib.String.concat " " (Stdlib.List.map (fun t -> match Stdlib.String.split_on_char ',' t with
        | [c; x] ->
          let x = n_of_string x in
          if c = "0" then begin
            s := Clock.next_alone !s (n_of_int 1) x;
            let r = match (!s).Clock.k_line with Clock.MNext (_, _, r, _) :: _ -> r | _ -> N0 in
            string_of_n r ^ ":" ^ string_of_n (!s).Clock.k_shard
          end else begin
            s := Clock.observe_alone !s (n_of_int 1) x;
            "0:" ^ string_of_n (!s).Clock.k_shard
          end
        | _ -> failwith ("bad clk op " ^ t)) ops)
  | _ -> failwith "bad clk case"

(* fpb <device bytes> F<i,j,..> E<id>,<blocks> ... X ...  (Model.FailBatches: the pass over several
   journal transactions) -> one line per flush *)
let run_fpb toks =
  match toks with
  | dev :: faults :: ops ->
    let fs0 = match FreeSpace.initialize (n_of_string dev) with FreeSpace.FOk s -> s | FreeSpace.FErr _ -> failwith "bad device size" in
    let body = Stdlib.String.sub faults 1 (Stdlib.String.length faults - 1) in
    let failing = Stdlib.List.map Z.of_string (Stdlib.List.filter (fun x -> x <> "") (Stdlib.String.split_on_char ',' body)) in
    let fault i = Stdlib.List.exists (fun z -> Z.equal z (z_of_n i)) failing in
    let st = ref (FailPath.finit fs0) in
    let outs = ref [] in
    Stdlib.List.iter (fun t ->
        if t = "X" then begin
          let (st', r) = FailBatches.pflush fault !st in
          st := st';
          let rstr = match r with FailPath.ROk -> "ok" | FailPath.RIo -> "io" | FailPath.RIndet -> "indet" | FailPath.RSpace -> "space" in
          let f = (!st).FailPath.f_fs in
          let durable = Stdlib.List.sort compare (Stdlib.List.map (fun (id, (s, _)) -> string_of_n id ^ ":" ^ string_of_n s) (!st).FailPath.f_durable) in
          outs := Stdlib.Printf.sprintf "r=%s free=%s,%s,%s usage=%s durable=%s calls=%s" rstr
              (string_of_n (FreeSpace.get_total_free f)) (string_of_n (FreeSpace.get_chunks f)) (string_of_n (FreeSpace.get_largest f))
              (string_of_n (!st).FailPath.f_usage) (Stdlib.String.concat "," durable) (string_of_n (!st).FailPath.f_calls) :: !outs
        end else begin
          let body = Stdlib.String.sub t 1 (Stdlib.String.length t - 1) in
          match t.[0], Stdlib.String.split_on_char ',' body with
          | 'E', [id; blocks] -> st := FailPath.enqueue !st (n_of_string id) (n_of_string blocks)
          | _ -> failwith ("bad failpath op " ^ t)
        end) ops;
    Stdlib.String.concat " | " (Stdlib.List.rev !outs)
  | _ -> failwith "bad failpath case"

(* csch <event> ...  (Model.CacheGen layer B, cache on; the script the harness ran on the real store)
   P<k>,<gen> put | T<k> update_ttl | D<k> delete | F<k>+<k> flush (keys whose current generation was
   offloaded) | G<k> read | H<k> read held after its device read | R<k> the held read returns *)
let run_csch toks =
  let s = ref CacheGen.binit in
  let ts = ref 1 and rid = ref 100 and held = ref None in
  let step e = s := CacheGen.bstep true !s e in
  let cur k = Sched.aget k (!s).CacheGen.b_tbl in
  let uncache k o = match o with Some g -> step (CacheGen.BUncache (k, g)) | None -> () in
  let last_out () = match (!s).CacheGen.b_out with
    | ((_, k), Some (_, v)) :: _ -> string_of_n k ^ ":" ^ string_of_n v
    | ((_, _), None) :: _ -> "nf"
    | [] -> "none" in
  let fresh () = incr rid; n_of_int !rid in
  let read_now i =
    let reads = CacheGen.will_read_device !s i in
    step (CacheGen.BResolve (i, false)); step (CacheGen.BFill (i, not reads)); last_out () in
  Stdlib.String.concat " " (Stdlib.List.map (fun t ->
      let body = Stdlib.String.sub t 1 (Stdlib.String.length t - 1) in
      match t.[0] with
      | 'P' -> (match Stdlib.String.split_on_char ',' body with
          | [k; g] -> let k = n_of_string k in let o = cur k in
            incr ts; step (CacheGen.BPut (k, n_of_string g, n_of_int !ts, N0)); uncache k o; "-"
          | _ -> failwith "bad P")
      | 'T' -> let k = n_of_string body in let o = cur k in
        incr ts; step (CacheGen.BTtl (k, n_of_int !ts, N0));
        if cur k = o then "nf" else (uncache k o; "ok")
      | 'D' -> let k = n_of_string body in let o = cur k in
        step (CacheGen.BDel k); (match o with Some _ -> uncache k o; "ok" | None -> "nf")
      | 'F' -> Stdlib.List.iter (fun ks -> if ks <> "" then
                                  match cur (n_of_string ks) with Some g -> step (CacheGen.BOffload g) | None -> ())
                 (Stdlib.String.split_on_char '+' body); "-"
      | 'G' -> let k = n_of_string body in let i = fresh () in
        let before = Stdlib.List.length (!s).CacheGen.b_out in
        step (CacheGen.BStart (i, k));
        if Stdlib.List.length (!s).CacheGen.b_out > before then last_out () else read_now i
      | 'H' -> let k = n_of_string body in let i = fresh () in
        step (CacheGen.BStart (i, k)); held := Some i;
        if CacheGen.will_read_device !s i then "parked" else "not-parked"
      | 'R' -> (match !held with
          | Some i -> held := None;
            (* the device read happened when it was held; staleness cannot arise: no flush runs while it is held *)
            step (CacheGen.BResolve (i, false)); step (CacheGen.BFill (i, false)); last_out ()
          | None -> "no-held-reader")
      | _ -> failwith ("bad csch event " ^ t)) toks)

let run_note _ = "note"

let handlers : (string * (string list -> string)) list ref =
  ref [ ("fs", run_fs); ("open", run_open); ("note", run_note); ("codec", run_codec); ("readdev", run_readdev); ("lww", run_lww); ("monitor", run_monitor); ("cache", run_cache); ("migrate", run_migrate); ("conc", run_conc); ("hist", run_hist); ("pins", run_pins); ("inflight", run_inflight); ("swp", run_swp); ("scn", run_scn); ("abuf", run_abuf); ("fp", run_fp); ("gate", run_gate); ("cgen", run_cgen); ("clk", run_clk); ("fpb", run_fpb); ("csch", run_csch) ]


let () =
  (try
     while true do
       let line = input_line stdin in
       match split_on ' ' line with
       | [] -> ()
       | id :: kind :: rest ->
         let out =
           try (Stdlib.List.assoc kind !handlers) rest
           with
           | Not_found -> "MODEL-ERROR unknown-kind " ^ kind
           | Failure m -> "MODEL-ERROR " ^ m
           | Stack_overflow -> "MODEL-ERROR stack-overflow"
         in
         print_string id; print_char ' '; print_endline out
       | _ -> print_endline "MODEL-ERROR short-line"
     done
   with End_of_file -> ())
