(* modelrun: reads one case per line on stdin, prints one result per line.
   The only hand-written OCaml: tokenising, N <-> decimal, printing. *)


open BinNums
let rec pos_of_z (z : Z.t) : positive =
  if Z.equal z Z.one then Coq_xH
  else if Z.testbit z 0 then Coq_xI (pos_of_z (Z.shift_right z 1))
  else Coq_xO (pos_of_z (Z.shift_right z 1))
let n_of_z (z : Z.t) : coq_N = if Z.sign z <= 0 then N0 else Npos (pos_of_z z)
let rec z_of_pos (p : positive) : Z.t =
  match p with
  | Coq_xH -> Z.one
  | Coq_xO q -> Z.shift_left (z_of_pos q) 1
  | Coq_xI q -> Z.succ (Z.shift_left (z_of_pos q) 1)
let z_of_n (x : coq_N) : Z.t = match x with N0 -> Z.zero | Npos p -> z_of_pos p
let n_of_string s = n_of_z (Z.of_string s)
let string_of_n x = Z.to_string (z_of_n x)
let n_of_int i = n_of_z (Z.of_int i)
let int_of_n x = Z.to_int (z_of_n x)

let split_on c s = Stdlib.List.filter (fun t -> t <> "") (Stdlib.String.split_on_char c s)

(* ---------- fs: free-space manager ---------- *)
let ferr_str = function
  | FreeSpace.EArg -> "arg" | FreeSpace.ESpace -> "space"
  | FreeSpace.EDup -> "dup" | FreeSpace.ECorrupt -> "corrupt"

let fs_getters (s : FreeSpace.fs) =
  Stdlib.Printf.sprintf "%s,%s,%s,%s"
    (string_of_n (FreeSpace.get_total_free s))
    (string_of_n (FreeSpace.get_chunks s))
    (string_of_n (FreeSpace.get_largest s))
    (string_of_n (FreeSpace.get_fragmentation s))

(* fs <device_bytes> op*   op = a<n> | r<start>,<count> *)
let run_fs toks =
  match toks with
  | dev :: ops ->
    let b = Stdlib.Buffer.create 256 in
    (match FreeSpace.initialize (n_of_string dev) with
     | FreeSpace.FErr _ -> Stdlib.Buffer.add_string b "initerr"
     | FreeSpace.FOk s0 ->
       Stdlib.Buffer.add_string b ("init:" ^ fs_getters s0);
       let s = ref s0 in
       Stdlib.List.iter (fun op ->
           let body = Stdlib.String.sub op 1 (Stdlib.String.length op - 1) in
           (match op.[0] with
            | 'a' ->
              let (r, s') = FreeSpace.alloc (n_of_string body) !s in
              s := s';
              (match r with
               | FreeSpace.FOk a -> Stdlib.Buffer.add_string b (" ok" ^ string_of_n a)
               | FreeSpace.FErr e -> Stdlib.Buffer.add_string b (" " ^ ferr_str e))
            | 'r' ->
              (match Stdlib.String.split_on_char ',' body with
               | [a; c] ->
                 let (r, s') = FreeSpace.release (n_of_string a) (n_of_string c) !s in
                 s := s';
                 (match r with
                  | FreeSpace.FOk _ -> Stdlib.Buffer.add_string b " ok"
                  | FreeSpace.FErr e -> Stdlib.Buffer.add_string b (" " ^ ferr_str e))
               | _ -> failwith "bad release op")
            | _ -> failwith "bad fs op");
           Stdlib.Buffer.add_string b (":" ^ fs_getters !s)) ops);
    Stdlib.Buffer.contents b
  | _ -> failwith "fs: missing device size"


(* ---------- byte helpers ---------- *)
let byte_table : coq_N array = Array.init 256 n_of_int

let read_file path =
  let ic = open_in_bin path in
  let len = in_channel_length ic in
  let s = really_input_string ic len in
  close_in ic; s

(* image file -> list of 4096-byte blocks (trailing partial block dropped) *)
let image_of_string (s : string) : coq_N list list =
  let nblocks = Stdlib.String.length s / 4096 in
  let rec blk base i acc = if i < 0 then acc else blk base (i - 1) (byte_table.(Char.code s.[base + i]) :: acc) in
  let rec go b acc = if b < 0 then acc else go (b - 1) (blk (b * 4096) 4095 [] :: acc) in
  go (nblocks - 1) []

let bytes_of_hex (h : string) : coq_N list =
  if h = "-" then [] else
  let n = Stdlib.String.length h / 2 in
  let rec go i acc = if i < 0 then acc else
      go (i - 1) (byte_table.(int_of_string ("0x" ^ Stdlib.String.sub h (2 * i) 2)) :: acc) in
  go (n - 1) []

let hex_of_bytes (l : coq_N list) : string =
  if l = [] then "-" else
  let b = Stdlib.Buffer.create 64 in
  Stdlib.List.iter (fun x -> Stdlib.Buffer.add_string b (Stdlib.Printf.sprintf "%02x" (int_of_n x))) l;
  Stdlib.Buffer.contents b

let fnv_prime = 0x100000001b3L
let fnv_init = 0xcbf29ce484222325L
let fnv_step h (x : coq_N) = Int64.mul (Int64.logxor h (Int64.of_int (int_of_n x))) fnv_prime
let fnv_bytes (l : coq_N list) = Stdlib.List.fold_left fnv_step fnv_init l
let fnv_image (img : coq_N list list) =
  Stdlib.List.fold_left (fun h b -> Stdlib.List.fold_left fnv_step h b) fnv_init img

let opt k toks default =
  let pre = k ^ "=" in
  let n = Stdlib.String.length pre in
  try
    let t = Stdlib.List.find (fun t -> Stdlib.String.length t >= n && Stdlib.String.sub t 0 n = pre) toks in
    Stdlib.String.sub t n (Stdlib.String.length t - n)
  with Not_found -> default

(* ---------- open: Recovery.open_image on an image file ---------- *)
let rerr_str = function
  | Recovery.EInvalidMetadata -> "invalid-metadata"
  | Recovery.ECorrupt -> "corrupt"
  | Recovery.EAmbiguous -> "ambiguous"
  | Recovery.EInvalidDevice -> "invalid-device"
  | Recovery.EFree e -> "free-" ^ ferr_str e
  | Recovery.ERetire -> "retire"
  | Recovery.EJournalExhausted -> "journal-exhausted"

let open_result_string (orig : coq_N list list) ((r, final) : Recovery.opened Recovery.res * coq_N list list) =
  match r with
  | Recovery.Panic -> "PANIC"
  | Recovery.Rej e ->
    (match e with
     | Recovery.EInvalidMetadata | Recovery.EInvalidDevice ->
       Stdlib.Printf.sprintf "err %s unchanged=%d post=%016Lx" (rerr_str e)
         (if final = orig then 1 else 0) (fnv_image final)
     | _ -> Stdlib.Printf.sprintf "err %s post=%016Lx" (rerr_str e) (fnv_image final))
  | Recovery.Ok o ->
    let keys = Stdlib.Buffer.create 256 in
    Stdlib.List.iter (fun (e : Recovery.entry) ->
        let v = match Recovery.read_value o.Recovery.o_version o.Recovery.o_img e with
          | Some bytes -> Stdlib.Printf.sprintf "%016Lx" (fnv_bytes bytes)
          | None -> "err" in
        Stdlib.Buffer.add_string keys
          (Stdlib.Printf.sprintf "%s:%s:%s:%s:%s:%s;" (hex_of_bytes e.Recovery.e_key)
             (string_of_n e.Recovery.e_ts) (string_of_n e.Recovery.e_exp)
             (string_of_n e.Recovery.e_vlen) (string_of_n e.Recovery.e_sector) v))
      o.Recovery.o_idx;
    let f = o.Recovery.o_fs in
    Stdlib.Printf.sprintf "ok v=%s n=%s mem=%s disk=%s free=%s,%s,%s amb=%s keys=%s post=%016Lx"
      (string_of_n o.Recovery.o_version) (string_of_n o.Recovery.o_count)
      (string_of_n o.Recovery.o_mem) (string_of_n o.Recovery.o_disk)
      (string_of_n (FreeSpace.get_total_free f)) (string_of_n (FreeSpace.get_chunks f))
      (string_of_n (FreeSpace.get_largest f))
      (string_of_n o.Recovery.o_ambiguous)
      (let k = Stdlib.Buffer.contents keys in if k = "" then "-" else k)
      (fnv_image o.Recovery.o_img)

(* open <path> ro=<0|1> allow=<0|1> ttl=<0|1> now=<n> recsize=<n> *)
let run_open toks =
  match toks with
  | path :: rest ->
    let raw = read_file path in
    let img = image_of_string raw in
    if Stdlib.String.length raw > 16 * 4096 && Stdlib.String.for_all (fun c -> c = '\000') raw then "fresh" else
    let cfg = { Recovery.c_ro = (opt "ro" rest "0" = "1");
                Recovery.c_allow_ambiguous = (opt "allow" rest "0" = "1");
                Recovery.c_now = (if opt "ttl" rest "0" = "1" then Some (n_of_string (opt "now" rest "0")) else None);
                Recovery.c_recsize = n_of_string (opt "recsize" rest "0") } in
    open_result_string img (Recovery.open_image cfg img)
  | _ -> failwith "open: missing path"

let run_note _ = "note"

let handlers : (string * (string list -> string)) list ref =
  ref [ ("fs", run_fs); ("open", run_open); ("note", run_note) ]


let () =
  (try
     while true do
       let line = input_line stdin in
       match split_on ' ' line with
       | [] -> ()
       | id :: kind :: rest ->
         let out =
           try (Stdlib.List.assoc kind !handlers) rest
           with
           | Not_found -> "MODEL-ERROR unknown-kind " ^ kind
           | Failure m -> "MODEL-ERROR " ^ m
           | Stack_overflow -> "MODEL-ERROR stack-overflow"
         in
         print_string id; print_char ' '; print_endline out
       | _ -> print_endline "MODEL-ERROR short-line"
     done
   with End_of_file -> ())
