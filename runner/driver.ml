(* modelrun: reads one case per line on stdin, prints one result per line.
   The only hand-written OCaml: tokenising, N <-> decimal, printing. *)


open BinNums
let rec pos_of_z (z : Z.t) : positive =
  if Z.equal z Z.one then Coq_xH
  else if Z.testbit z 0 then Coq_xI (pos_of_z (Z.shift_right z 1))
  else Coq_xO (pos_of_z (Z.shift_right z 1))
let n_of_z (z : Z.t) : coq_N = if Z.sign z <= 0 then N0 else Npos (pos_of_z z)
let rec z_of_pos (p : positive) : Z.t =
  match p with
  | Coq_xH -> Z.one
  | Coq_xO q -> Z.shift_left (z_of_pos q) 1
  | Coq_xI q -> Z.succ (Z.shift_left (z_of_pos q) 1)
let z_of_n (x : coq_N) : Z.t = match x with N0 -> Z.zero | Npos p -> z_of_pos p
let n_of_string s = n_of_z (Z.of_string s)
let string_of_n x = Z.to_string (z_of_n x)
let n_of_int i = n_of_z (Z.of_int i)
let int_of_n x = Z.to_int (z_of_n x)

let split_on c s = Stdlib.List.filter (fun t -> t <> "") (Stdlib.String.split_on_char c s)

(* ---------- fs: free-space manager ---------- *)
let ferr_str = function
  | FreeSpace.EArg -> "arg" | FreeSpace.ESpace -> "space"
  | FreeSpace.EDup -> "dup" | FreeSpace.ECorrupt -> "corrupt"

let fs_getters (s : FreeSpace.fs) =
  Stdlib.Printf.sprintf "%s,%s,%s,%s"
    (string_of_n (FreeSpace.get_total_free s))
    (string_of_n (FreeSpace.get_chunks s))
    (string_of_n (FreeSpace.get_largest s))
    (string_of_n (FreeSpace.get_fragmentation s))

(* fs <device_bytes> op*   op = a<n> | r<start>,<count> *)
let run_fs toks =
  match toks with
  | dev :: ops ->
    let b = Stdlib.Buffer.create 256 in
    (match FreeSpace.initialize (n_of_string dev) with
     | FreeSpace.FErr _ -> Stdlib.Buffer.add_string b "initerr"
     | FreeSpace.FOk s0 ->
       Stdlib.Buffer.add_string b ("init:" ^ fs_getters s0);
       let s = ref s0 in
       Stdlib.List.iter (fun op ->
           let body = Stdlib.String.sub op 1 (Stdlib.String.length op - 1) in
           (match op.[0] with
            | 'a' ->
              let (r, s') = FreeSpace.alloc (n_of_string body) !s in
              s := s';
              (match r with
               | FreeSpace.FOk a -> Stdlib.Buffer.add_string b (" ok" ^ string_of_n a)
               | FreeSpace.FErr e -> Stdlib.Buffer.add_string b (" " ^ ferr_str e))
            | 'r' ->
              (match Stdlib.String.split_on_char ',' body with
               | [a; c] ->
                 let (r, s') = FreeSpace.release (n_of_string a) (n_of_string c) !s in
                 s := s';
                 (match r with
                  | FreeSpace.FOk _ -> Stdlib.Buffer.add_string b " ok"
                  | FreeSpace.FErr e -> Stdlib.Buffer.add_string b (" " ^ ferr_str e))
               | _ -> failwith "bad release op")
            | _ -> failwith "bad fs op");
           Stdlib.Buffer.add_string b (":" ^ fs_getters !s)) ops);
    Stdlib.Buffer.contents b
  | _ -> failwith "fs: missing device size"

let handlers : (string * (string list -> string)) list ref = ref [ ("fs", run_fs) ]

let () =
  (try
     while true do
       let line = input_line stdin in
       match split_on ' ' line with
       | [] -> ()
       | id :: kind :: rest ->
         let out =
           try (Stdlib.List.assoc kind !handlers) rest
           with
           | Not_found -> "MODEL-ERROR unknown-kind " ^ kind
           | Failure m -> "MODEL-ERROR " ^ m
           | Stack_overflow -> "MODEL-ERROR stack-overflow"
         in
         print_string id; print_char ' '; print_endline out
       | _ -> print_endline "MODEL-ERROR short-line"
     done
   with End_of_file -> ())
