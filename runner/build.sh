#!/bin/sh
# Build modelrun: extract the Coq model to OCaml (one .ml per Coq module) and compile the driver.
set -e
HERE="$(cd "$(dirname "$0")" && pwd)"
OUT="${VERIF_BUILD:-$HERE/../.build}/runner"
rm -rf "$OUT/gen"
mkdir -p "$OUT/gen"
cd "$OUT/gen"
coqc -q -Q "$HERE/../coq" Feox -o "$OUT/gen/Extract.vo" "$HERE/../coq/Extract/Extract.v" >/dev/null
cp "$HERE/driver.ml" driver.ml
SORTED=$(ocamlfind ocamldep -sort *.ml *.mli)
ocamlfind ocamlopt -O3 -package zarith -linkpkg -w -a $SORTED -o ../modelrun 2>/dev/null \
  || ocamlfind ocamlopt -package zarith -linkpkg -w -a $SORTED -o ../modelrun
echo "built $OUT/modelrun"
