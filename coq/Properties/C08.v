(* C08 -- reads racing with flush, retirement and reuse return only genuine values.
   Model/Extent.v: one durable generation's extent, any number of readers (acquire_extent /
   pread / release + identity check), the retirement pipeline of the write-buffer worker (set the
   retired bit, wait for zero readers, write markers, wait again, release) and later owners that
   overwrite the freed blocks.  The theorems hold for every number of readers and every schedule. *)
From Coq Require Import List NArith Bool Arith.
From Feox Require Import Model.Extent Proofs.ExtentProofs.
Import ListNotations.

(* the protocol invariant holds in every reachable state *)
Theorem protocol_invariant_reachable :
  forall sched s, EInv s -> EInv (erun s sched)

(* what a reader gets: while pinned the pread sees the generation's own record; a completed
   read returned exactly that or reported a stale extent -- never a deletion marker, never
   another key's bytes *).
Proof. exact erun_EInv. Qed.
Check protocol_invariant_reachable :
  forall sched s, EInv s -> EInv (erun s sched)

(* what a reader gets: while pinned the pread sees the generation's own record; a completed
   read returned exactly that or reported a stale extent -- never a deletion marker, never
   another key's bytes *).
Print Assumptions protocol_invariant_reachable.

Theorem read_returns_the_generation_or_stale :
  forall n sched i,
  let s := erun (einit n) sched in
  (forall c, nth_error (rs s) i = Some (RGot c) -> c = CData) /\
  (forall r, nth_error (rs s) i = Some (RDone r) -> r = Some CData \/ r = None)

(* the device blocks of a generation are not overwritten while a reader is still reading them *).
Proof. exact read_is_genuine. Qed.
Check read_returns_the_generation_or_stale :
  forall n sched i,
  let s := erun (einit n) sched in
  (forall c, nth_error (rs s) i = Some (RGot c) -> c = CData) /\
  (forall r, nth_error (rs s) i = Some (RDone r) -> r = Some CData \/ r = None)

(* the device blocks of a generation are not overwritten while a reader is still reading them *).
Print Assumptions read_returns_the_generation_or_stale.

Theorem blocks_change_only_when_unpinned :
  forall s a, EInv s -> cont (estep s a) <> cont s -> readers s = 0.
Proof. exact pinned_not_overwritten. Qed.
Check blocks_change_only_when_unpinned :
  forall s a, EInv s -> cont (estep s a) <> cont s -> readers s = 0.
Print Assumptions blocks_change_only_when_unpinned.

Theorem retired_bit_stops_new_readers :
  forall s i, retired s = true -> nth_error (rs s) i = Some RStart ->
  nth_error (rs (estep s (Reader i))) i = Some (RDone None) /\ readers (estep s (Reader i)) = readers s

(* the run-time monitor applied to real pin/write traces flags a write exactly when it overlaps an open pin *).
Proof. exact no_new_reader_after_bit. Qed.
Check retired_bit_stops_new_readers :
  forall s i, retired s = true -> nth_error (rs s) i = Some RStart ->
  nth_error (rs (estep s (Reader i))) i = Some (RDone None) /\ readers (estep s (Reader i)) = readers s

(* the run-time monitor applied to real pin/write traces flags a write exactly when it overlaps an open pin *).
Print Assumptions retired_bit_stops_new_readers.

Theorem monitor_flags_write_into_pinned_extent :
  forall pinned0 i s n t,
  emon pinned0 (EWrite s n :: t) i = Some i <-> existsb (fun p => overlaps s n (fst p) (snd p)) pinned0 = true

(* ... and it is exact over whole traces: it accepts iff no write of the trace overlaps a pin that
   is open at the moment the write is issued *).
Proof. exact emon_flags_overlap. Qed.
Check monitor_flags_write_into_pinned_extent :
  forall pinned0 i s n t,
  emon pinned0 (EWrite s n :: t) i = Some i <-> existsb (fun p => overlaps s n (fst p) (snd p)) pinned0 = true

(* ... and it is exact over whole traces: it accepts iff no write of the trace overlaps a pin that
   is open at the moment the write is issued *).
Print Assumptions monitor_flags_write_into_pinned_extent.

Theorem monitor_accepts_iff_no_write_into_an_open_pin :
  forall evs pinned0 i,
  emon pinned0 evs i = None <->
  forall j s n, nth_error evs j = Some (EWrite s n) ->
    existsb (fun p => overlaps s n (fst p) (snd p)) (pins_after pinned0 (firstn j evs)) = false.
Proof. exact emon_none_iff_no_write_into_open_pin. Qed.
Check monitor_accepts_iff_no_write_into_an_open_pin :
  forall evs pinned0 i,
  emon pinned0 evs i = None <->
  forall j s n, nth_error evs j = Some (EWrite s n) ->
    existsb (fun p => overlaps s n (fst p) (snd p)) (pins_after pinned0 (firstn j evs)) = false.
Print Assumptions monitor_accepts_iff_no_write_into_an_open_pin.
(* non-vacuity: a reader pinned before the retirer starts holds the markers back *)
Example pinned_reader_delays_markers :
  let s := erun (einit 2) [Reader 0; Retirer; Retirer; Retirer; Reader 1; Reader 0; Retirer; Retirer] in
  w s = WBit /\ cont s = CData /\ nth_error (rs s) 1 = Some (RDone None) /\ nth_error (rs s) 0 = Some (RGot CData).
Proof. vm_compute. repeat split; reflexivity. Qed.
Example release_lets_retirement_proceed :
  let s := erun (einit 1) [Reader 0; Retirer; Reader 0; Reader 0; Retirer; Retirer; Retirer; Retirer; Reuser 7%N] in
  cont s = COther 7%N /\ nth_error (rs s) 0 = Some (RDone (Some CData)).
Proof. vm_compute. split; reflexivity. Qed.
Example monitor_example :
  emon [] [EPin 20 2; EWrite 30 1; EWrite 21 1; EUnpin 20 2]%N 0%N = Some 2%N /\
  emon [] [EPin 20 2; EUnpin 20 2; EWrite 21 1]%N 0%N = None.
Proof. vm_compute. split; reflexivity. Qed.
