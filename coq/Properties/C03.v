(* C03 -- any crash leaves a file that reopens to authentic, untorn, recent contents.
   Statement over the abstract device / journal protocol of Model/Device.v: cells are extents,
   a torn write leaves junk, a crash keeps ANY sub-multiset of the un-synced writes in order,
   each possibly torn.  The block-level scan (alignment, tokens, marker spans, len = keys) is
   Model/Recovery.v, tied to the real code on crash images by execution (engine `crash`). *)
From Coq Require Import List NArith Bool.
From Feox Require Import Model.Device Proofs.CrashProofs.
Import ListNotations.
Local Open Scope N_scope.

(* the protocol invariant holds in every state reachable from a quiescent one *)
Theorem invariant_reachable :
  forall s s', PInv s -> reach s s' -> PInv s'

(* At every point of every history (every protocol state), for every crash image: the device
   reopens, no torn cell is seen by the scan, and the logical contents are those before or those
   after the transaction in flight -- never a mixture. *).
Proof. exact reach_PInv. Qed.
Check invariant_reachable :
  forall s s', PInv s -> reach s s' -> PInv s'

(* At every point of every history (every protocol state), for every crash image: the device
   reopens, no torn cell is seen by the scan, and the logical contents are those before or those
   after the transaction in flight -- never a mixture. *).
Print Assumptions invariant_reachable.

Theorem crash_reopens_atomically :
  forall s d,
  PInv s -> crash_image (dv s) d ->
  exists seen, recover d = Some seen /\
    ((forall k, contents seen k = before s k) \/ (forall k, contents seen k = after s k))

(* writing new records into free extents is an admissible transaction ... *).
Proof. exact crash_atomic. Qed.
Check crash_reopens_atomically :
  forall s d,
  PInv s -> crash_image (dv s) d ->
  exists seen, recover d = Some seen /\
    ((forall k, contents seen k = before s k) \/ (forall k, contents seen k = after s k))

(* writing new records into free extents is an admissible transaction ... *).
Print Assumptions crash_reopens_atomically.

Theorem new_records_admissible :
  forall (t : txn) (c0 : list cell),
  (forall i, In i (t_exts t) -> (i < length c0)%nat /\ forall g, nth i c0 CZero <> CGen g) ->
  (forall i c, In (i, c) (t_new t) -> In i (t_exts t) /\ c <> CJunk) ->
  txn_ok t c0

(* ... and so is retiring extents whose generations are superseded by a strictly newer generation
   of the same key stored outside them (retire only after the successor is durable) *).
Proof. exact write_batch_ok. Qed.
Check new_records_admissible :
  forall (t : txn) (c0 : list cell),
  (forall i, In i (t_exts t) -> (i < length c0)%nat /\ forall g, nth i c0 CZero <> CGen g) ->
  (forall i c, In (i, c) (t_new t) -> In i (t_exts t) /\ c <> CJunk) ->
  txn_ok t c0

(* ... and so is retiring extents whose generations are superseded by a strictly newer generation
   of the same key stored outside them (retire only after the successor is durable) *).
Print Assumptions new_records_admissible.

Theorem retirement_admissible :
  forall (exts : list nat) (c0 : list cell),
  NoDup exts ->
  (forall i, In i exts -> (i < length c0)%nat) ->
  (forall i g, In i exts -> nth i c0 CZero = CGen g ->
     exists j g', ~ In j exts /\ nth j c0 CZero = CGen g' /\ gk g' = gk g /\ gts g < gts g') ->
  txn_ok (mktxn exts (map (fun i => (i, CMarker)) exts)) c0.
Proof. exact retire_ok. Qed.
Check retirement_admissible :
  forall (exts : list nat) (c0 : list cell),
  NoDup exts ->
  (forall i, In i exts -> (i < length c0)%nat) ->
  (forall i g, In i exts -> nth i c0 CZero = CGen g ->
     exists j g', ~ In j exts /\ nth j c0 CZero = CGen g' /\ gk g' = gk g /\ gts g < gts g') ->
  txn_ok (mktxn exts (map (fun i => (i, CMarker)) exts)) c0.
Print Assumptions retirement_admissible.
(* non-vacuity: a concrete transaction on a concrete disk; a crash with a torn record write and a
   lost journal clear recovers the old contents; with the clear applied, the new contents *)
Definition g1 := mkgen 7 100 1.
Definition g2 := mkgen 7 200 2.
Definition d0 := mkdisk (SValid 4 JClear) (SValid 3 JClear) [CGen g1; CZero; CMarker].
Definition t1 := mktxn [1%nat] [(1%nat, CGen g2)].
Example txn_admissible : txn_ok t1 (cells d0).
Proof.
  apply write_batch_ok.
  - intros i [<-|[]]. split; [simpl; auto|]. intros g; simpl; discriminate.
  - intros i c [[= <- <-]|[]]. split; [left; auto|discriminate].
Qed.
Example crash_examples :
  (* journal active durable, record write torn *)
  option_map (fun l => contents l 7) (recover (mkdisk (SValid 4 JClear) (SValid 5 (JActive [1%nat])) [CGen g1; CJunk; CMarker])) = Some (Some g1) /\
  (* everything durable, clear applied *)
  option_map (fun l => contents l 7) (recover (mkdisk (SValid 6 JClear) (SValid 5 (JActive [1%nat])) [CGen g1; CGen g2; CMarker])) = Some (Some g2) /\
  (* a torn cell outside any journaled extent would make the open fail: the protocol never produces it *)
  recover (mkdisk (SValid 4 JClear) (SValid 3 JClear) [CGen g1; CJunk; CMarker]) = None.
Proof. vm_compute. repeat split; reflexivity. Qed.
