(* C03 -- any crash leaves a file that reopens to authentic, untorn, recent contents.
   Statement over the abstract device / journal protocol of Model/Device.v: cells are extents,
   a torn write leaves junk, a crash keeps ANY sub-multiset of the un-synced writes in order,
   each possibly torn.  The block-level scan (alignment, tokens, marker spans, len = keys) is
   Model/Recovery.v, tied to the real code on crash images by execution (engine `crash`). *)
From Coq Require Import List NArith Bool.
From Feox Require Import Model.Device Proofs.CrashProofs.
From Feox Require Gen.Constants Model.Bytes Model.Codec Model.FreeSpace Model.Recovery Proofs.ScanAcceptsProofs Proofs.ScanQuiescentProofs Proofs.ScanGenerationsProofs.
From Feox Require Model.MetaJournal Proofs.FreeSpaceProofs Proofs.MetaJournalProofs Proofs.ReplayRollbackProofs.
Import ListNotations.
Local Open Scope N_scope.

(* the protocol invariant holds in every state reachable from a quiescent one *)
Theorem invariant_reachable :
  forall s s', PInv s -> reach s s' -> PInv s'

(* At every point of every history (every protocol state), for every crash image: the device
   reopens, no torn cell is seen by the scan, and the logical contents are those before or those
   after the transaction in flight -- never a mixture. *).
Proof. exact reach_PInv. Qed.
Check invariant_reachable :
  forall s s', PInv s -> reach s s' -> PInv s'

(* At every point of every history (every protocol state), for every crash image: the device
   reopens, no torn cell is seen by the scan, and the logical contents are those before or those
   after the transaction in flight -- never a mixture. *).
Print Assumptions invariant_reachable.

Theorem crash_reopens_atomically :
  forall s d,
  PInv s -> crash_image (dv s) d ->
  exists seen, recover d = Some seen /\
    ((forall k, contents seen k = before s k) \/ (forall k, contents seen k = after s k))

(* writing new records into free extents is an admissible transaction ... *).
Proof. exact crash_atomic. Qed.
Check crash_reopens_atomically :
  forall s d,
  PInv s -> crash_image (dv s) d ->
  exists seen, recover d = Some seen /\
    ((forall k, contents seen k = before s k) \/ (forall k, contents seen k = after s k))

(* writing new records into free extents is an admissible transaction ... *).
Print Assumptions crash_reopens_atomically.

Theorem new_records_admissible :
  forall (t : txn) (c0 : list cell),
  (forall i, In i (t_exts t) -> (i < length c0)%nat /\ forall g, nth i c0 CZero <> CGen g) ->
  (forall i c, In (i, c) (t_new t) -> In i (t_exts t) /\ c <> CJunk) ->
  txn_ok t c0

(* ... and so is retiring extents whose generations are superseded by a strictly newer generation
   of the same key stored outside them (retire only after the successor is durable) *).
Proof. exact write_batch_ok. Qed.
Check new_records_admissible :
  forall (t : txn) (c0 : list cell),
  (forall i, In i (t_exts t) -> (i < length c0)%nat /\ forall g, nth i c0 CZero <> CGen g) ->
  (forall i c, In (i, c) (t_new t) -> In i (t_exts t) /\ c <> CJunk) ->
  txn_ok t c0

(* ... and so is retiring extents whose generations are superseded by a strictly newer generation
   of the same key stored outside them (retire only after the successor is durable) *).
Print Assumptions new_records_admissible.

Theorem retirement_admissible :
  forall (exts : list nat) (c0 : list cell),
  NoDup exts ->
  (forall i, In i exts -> (i < length c0)%nat) ->
  (forall i g, In i exts -> nth i c0 CZero = CGen g ->
     exists j g', ~ In j exts /\ nth j c0 CZero = CGen g' /\ gk g' = gk g /\ gts g < gts g') ->
  txn_ok (mktxn exts (map (fun i => (i, CMarker)) exts)) c0

(* ---- at the byte level (Model/Recovery.v, Proofs/ScanGenerationsProofs.v): a data area that holds
   ANY number of generations of each key in any order -- what a crash between an update and the
   retirement of the superseded generation leaves --, completed marker runs and free blocks.  The
   scan ends without error and computes exactly the newest-wins fold over the records in device
   order (an older generation than the indexed one is queued for retirement, a generation at least
   as new replaces it and the replaced extent is released and queued); hence every key the scan
   exposes carries one generation, a generation that is on the device, and it is at least as new
   as every generation of that key on the device ---- *).
Proof. exact retire_ok. Qed.
Check retirement_admissible :
  forall (exts : list nat) (c0 : list cell),
  NoDup exts ->
  (forall i, In i exts -> (i < length c0)%nat) ->
  (forall i g, In i exts -> nth i c0 CZero = CGen g ->
     exists j g', ~ In j exts /\ nth j c0 CZero = CGen g' /\ gk g' = gk g /\ gts g < gts g') ->
  txn_ok (mktxn exts (map (fun i => (i, CMarker)) exts)) c0

(* ---- at the byte level (Model/Recovery.v, Proofs/ScanGenerationsProofs.v): a data area that holds
   ANY number of generations of each key in any order -- what a crash between an update and the
   retirement of the superseded generation leaves --, completed marker runs and free blocks.  The
   scan ends without error and computes exactly the newest-wins fold over the records in device
   order (an older generation than the indexed one is queued for retirement, a generation at least
   as new replaces it and the replaced extent is released and queued); hence every key the scan
   exposes carries one generation, a generation that is on the device, and it is at least as new
   as every generation of that key on the device ---- *).
Print Assumptions retirement_admissible.

Theorem scan_keeps_the_newest_generation_of_every_key :
  forall c version total jl img its st0 fuel,
  Recovery.c_ro c = false -> Codec.has_token version = true -> total <= Recovery.U64MAX ->
  (length its < fuel)%nat ->
  Recovery.rs_fs st0 = FreeSpace.mkfs [] (total * Constants.FEOX_BLOCK_SIZE) 0 0 ->
  Recovery.rs_last_end st0 = Constants.FEOX_DATA_START_BLOCK -> Recovery.rs_idx st0 = [] ->
  total * Constants.FEOX_BLOCK_SIZE < FreeSpace.U64 ->
  Forall (ScanQuiescentProofs.item_ok version) its ->
  skipn (N.to_nat Constants.FEOX_DATA_START_BLOCK) img = ScanQuiescentProofs.ilayout version Constants.FEOX_DATA_START_BLOCK its ->
  total = Constants.FEOX_DATA_START_BLOCK + ScanQuiescentProofs.isum version its -> 0 < ScanQuiescentProofs.isum version its ->
  exists st',
    Recovery.scan fuel c version total img Constants.FEOX_DATA_START_BLOCK st0 jl = Recovery.Ok st' /\
    ScanGenerationsProofs.sem_of st' =
      fold_left (ScanGenerationsProofs.sem_step version) (ScanGenerationsProofs.placed version Constants.FEOX_DATA_START_BLOCK its)
                (ScanGenerationsProofs.sem_of st0) /\
    (forall r s, In (r, s) (ScanGenerationsProofs.placed version Constants.FEOX_DATA_START_BLOCK its) ->
                 exists e, Recovery.idx_find (Codec.r_key r) (Recovery.rs_idx st') = Some e /\ Codec.r_ts r <= Recovery.e_ts e) /\
    (forall k e, Recovery.idx_find k (Recovery.rs_idx st') = Some e ->
                 exists r s, In (r, s) (ScanGenerationsProofs.placed version Constants.FEOX_DATA_START_BLOCK its) /\
                             e = ScanQuiescentProofs.entry_of version r s).
Proof. exact ScanGenerationsProofs.scan_keeps_the_newest_generation_of_every_key. Qed.
Check scan_keeps_the_newest_generation_of_every_key :
  forall c version total jl img its st0 fuel,
  Recovery.c_ro c = false -> Codec.has_token version = true -> total <= Recovery.U64MAX ->
  (length its < fuel)%nat ->
  Recovery.rs_fs st0 = FreeSpace.mkfs [] (total * Constants.FEOX_BLOCK_SIZE) 0 0 ->
  Recovery.rs_last_end st0 = Constants.FEOX_DATA_START_BLOCK -> Recovery.rs_idx st0 = [] ->
  total * Constants.FEOX_BLOCK_SIZE < FreeSpace.U64 ->
  Forall (ScanQuiescentProofs.item_ok version) its ->
  skipn (N.to_nat Constants.FEOX_DATA_START_BLOCK) img = ScanQuiescentProofs.ilayout version Constants.FEOX_DATA_START_BLOCK its ->
  total = Constants.FEOX_DATA_START_BLOCK + ScanQuiescentProofs.isum version its -> 0 < ScanQuiescentProofs.isum version its ->
  exists st',
    Recovery.scan fuel c version total img Constants.FEOX_DATA_START_BLOCK st0 jl = Recovery.Ok st' /\
    ScanGenerationsProofs.sem_of st' =
      fold_left (ScanGenerationsProofs.sem_step version) (ScanGenerationsProofs.placed version Constants.FEOX_DATA_START_BLOCK its)
                (ScanGenerationsProofs.sem_of st0) /\
    (forall r s, In (r, s) (ScanGenerationsProofs.placed version Constants.FEOX_DATA_START_BLOCK its) ->
                 exists e, Recovery.idx_find (Codec.r_key r) (Recovery.rs_idx st') = Some e /\ Codec.r_ts r <= Recovery.e_ts e) /\
    (forall k e, Recovery.idx_find k (Recovery.rs_idx st') = Some e ->
                 exists r s, In (r, s) (ScanGenerationsProofs.placed version Constants.FEOX_DATA_START_BLOCK its) /\
                             e = ScanQuiescentProofs.entry_of version r s).
Print Assumptions scan_keeps_the_newest_generation_of_every_key.
(* non-vacuity: a concrete transaction on a concrete disk; a crash with a torn record write and a
   lost journal clear recovers the old contents; with the clear applied, the new contents *)
Definition g1 := mkgen 7 100 1.
Definition g2 := mkgen 7 200 2.
Definition d0 := mkdisk (SValid 4 JClear) (SValid 3 JClear) [CGen g1; CZero; CMarker].
Definition t1 := mktxn [1%nat] [(1%nat, CGen g2)].
Example txn_admissible : txn_ok t1 (cells d0).
Proof.
  apply write_batch_ok.
  - intros i [<-|[]]. split; [simpl; auto|]. intros g; simpl; discriminate.
  - intros i c [[= <- <-]|[]]. split; [left; auto|discriminate].
Qed.
Example crash_examples :
  (* journal active durable, record write torn *)
  option_map (fun l => contents l 7) (recover (mkdisk (SValid 4 JClear) (SValid 5 (JActive [1%nat])) [CGen g1; CJunk; CMarker])) = Some (Some g1) /\
  (* everything durable, clear applied *)
  option_map (fun l => contents l 7) (recover (mkdisk (SValid 6 JClear) (SValid 5 (JActive [1%nat])) [CGen g1; CGen g2; CMarker])) = Some (Some g2) /\
  (* a torn cell outside any journaled extent would make the open fail: the protocol never produces it *)
  recover (mkdisk (SValid 4 JClear) (SValid 3 JClear) [CGen g1; CJunk; CMarker]) = None.
Proof. vm_compute. repeat split; reflexivity. Qed.

(* non-vacuity: two generations of key k1 in both device orders around another key; the newer one
   (timestamp 30) is indexed either way, the older extent is queued for retirement *)
Example newest_generation_wins_either_order :
  let old := Codec.mkrec [107; 49] [1; 1] 20 0 in
  let new := Codec.mkrec [107; 49] [2; 2; 2] 30 0 in
  let other := Codec.mkrec [107; 50] [9] 5 0 in
  let run its :=
    let img := repeat (repeat 0 Codec.BLOCK) 16 ++ ScanQuiescentProofs.ilayout 3 16 its in
    match Recovery.scan 6 (Recovery.mkcfg false false None 168) 3 19 img 16
            (Recovery.mkrs [] (FreeSpace.mkfs [] (19 * 4096) 0 0) 0 0 0 [] 16 0) [] with
    | Recovery.Ok st => (map (fun e => (Recovery.e_key e, Recovery.e_ts e, Recovery.e_sector e)) (Recovery.rs_idx st),
                         Recovery.rs_retired st, Recovery.rs_count st)
    | _ => ([], [], 99)
    end in
  run [ScanQuiescentProofs.IRec old; ScanQuiescentProofs.IRec other; ScanQuiescentProofs.IRec new]
    = ([([107; 49], 30, 18); ([107; 50], 5, 17)], [(16, 1)], 2) /\
  run [ScanQuiescentProofs.IRec new; ScanQuiescentProofs.IRec other; ScanQuiescentProofs.IRec old]
    = ([([107; 49], 30, 16); ([107; 50], 5, 17)], [(18, 1)], 2).
Proof. vm_compute. split; reflexivity. Qed.

(* ---- at the byte level, a crash inside a write batch: a file at rest whose journal is ACTIVE and
   names the extent of one record (the batch that was in flight).  The open replays the journal --
   the extent is overwritten with a completed run of retirement markers, a CLEAR record follows --
   and then reads the file like any file at rest: every other record is reported, the journaled
   one is gone (all or nothing), its blocks are free, and the file the open leaves behind is itself
   a file at rest with the same length ---- *)

Theorem crashed_batch_is_rolled_back :
  forall c img m jgen jslot its1 r its2,
  Recovery.c_ro c = false -> Recovery.c_now c = None ->
  (17 <= length img)%nat ->
  let total := N.of_nat (length img) in
  let mb := if MetaJournal.select_meta (Recovery.nth_block img 0) (Recovery.nth_block img (N.to_nat Constants.FEOX_METADATA_BACKUP_BLOCK))
            then Recovery.nth_block img (N.to_nat Constants.FEOX_METADATA_BACKUP_BLOCK) else Recovery.nth_block img 0 in
  let v := MetaJournal.m_version m in
  let s := Constants.FEOX_DATA_START_BLOCK + ScanQuiescentProofs.isum v its1 in
  let n := ScanAcceptsProofs.need_of v r in
  Bytes.list_eqb (firstn 8 mb) MetaJournal.SIGNATURE = true -> MetaJournal.decode_meta mb = Some m -> Codec.has_token v = true ->
  MetaJournal.decode_journal (Recovery.slot_bytes img 0) (Recovery.slot_bytes img 1) total = Some (jgen, jslot, [(s, n)]) ->
  jgen < Recovery.U64MAX ->
  total * Constants.FEOX_BLOCK_SIZE < FreeSpace.U64 ->
  Forall (ScanQuiescentProofs.item_ok v) (its1 ++ ScanQuiescentProofs.IRec r :: its2) -> ScanAcceptsProofs.distinct_keys (ScanQuiescentProofs.recs_of (its1 ++ its2)) ->
  skipn (N.to_nat Constants.FEOX_DATA_START_BLOCK) img = ScanQuiescentProofs.ilayout v Constants.FEOX_DATA_START_BLOCK (its1 ++ ScanQuiescentProofs.IRec r :: its2) ->
  exists o img',
    Recovery.open_image c img = (Recovery.Ok o, img') /\
    length img' = length img /\
    skipn (N.to_nat Constants.FEOX_DATA_START_BLOCK) img' = ScanQuiescentProofs.ilayout v Constants.FEOX_DATA_START_BLOCK (its1 ++ ScanQuiescentProofs.IMark n :: its2) /\
    (forall r', In r' (ScanQuiescentProofs.recs_of (its1 ++ its2)) -> exists s', Recovery.idx_find (Codec.r_key r') (Recovery.o_idx o) = Some (ScanQuiescentProofs.entry_of v r' s')) /\
    Recovery.o_count o = N.of_nat (length (ScanQuiescentProofs.recs_of (its1 ++ its2))) /\
    (forall b, Constants.FEOX_DATA_START_BLOCK <= b < total ->
               (FreeSpaceProofs.free (Recovery.o_fs o) b <-> ~ ScanQuiescentProofs.covered v Constants.FEOX_DATA_START_BLOCK (its1 ++ ScanQuiescentProofs.IMark n :: its2) b)) /\
    img' = ReplayRollbackProofs.rolled_back img jgen jslot s n.
Proof. exact ReplayRollbackProofs.crashed_batch_is_rolled_back. Qed.
Check crashed_batch_is_rolled_back :
  forall c img m jgen jslot its1 r its2,
  Recovery.c_ro c = false -> Recovery.c_now c = None ->
  (17 <= length img)%nat ->
  let total := N.of_nat (length img) in
  let mb := if MetaJournal.select_meta (Recovery.nth_block img 0) (Recovery.nth_block img (N.to_nat Constants.FEOX_METADATA_BACKUP_BLOCK))
            then Recovery.nth_block img (N.to_nat Constants.FEOX_METADATA_BACKUP_BLOCK) else Recovery.nth_block img 0 in
  let v := MetaJournal.m_version m in
  let s := Constants.FEOX_DATA_START_BLOCK + ScanQuiescentProofs.isum v its1 in
  let n := ScanAcceptsProofs.need_of v r in
  Bytes.list_eqb (firstn 8 mb) MetaJournal.SIGNATURE = true -> MetaJournal.decode_meta mb = Some m -> Codec.has_token v = true ->
  MetaJournal.decode_journal (Recovery.slot_bytes img 0) (Recovery.slot_bytes img 1) total = Some (jgen, jslot, [(s, n)]) ->
  jgen < Recovery.U64MAX ->
  total * Constants.FEOX_BLOCK_SIZE < FreeSpace.U64 ->
  Forall (ScanQuiescentProofs.item_ok v) (its1 ++ ScanQuiescentProofs.IRec r :: its2) -> ScanAcceptsProofs.distinct_keys (ScanQuiescentProofs.recs_of (its1 ++ its2)) ->
  skipn (N.to_nat Constants.FEOX_DATA_START_BLOCK) img = ScanQuiescentProofs.ilayout v Constants.FEOX_DATA_START_BLOCK (its1 ++ ScanQuiescentProofs.IRec r :: its2) ->
  exists o img',
    Recovery.open_image c img = (Recovery.Ok o, img') /\
    length img' = length img /\
    skipn (N.to_nat Constants.FEOX_DATA_START_BLOCK) img' = ScanQuiescentProofs.ilayout v Constants.FEOX_DATA_START_BLOCK (its1 ++ ScanQuiescentProofs.IMark n :: its2) /\
    (forall r', In r' (ScanQuiescentProofs.recs_of (its1 ++ its2)) -> exists s', Recovery.idx_find (Codec.r_key r') (Recovery.o_idx o) = Some (ScanQuiescentProofs.entry_of v r' s')) /\
    Recovery.o_count o = N.of_nat (length (ScanQuiescentProofs.recs_of (its1 ++ its2))) /\
    (forall b, Constants.FEOX_DATA_START_BLOCK <= b < total ->
               (FreeSpaceProofs.free (Recovery.o_fs o) b <-> ~ ScanQuiescentProofs.covered v Constants.FEOX_DATA_START_BLOCK (its1 ++ ScanQuiescentProofs.IMark n :: its2) b)) /\
    img' = ReplayRollbackProofs.rolled_back img jgen jslot s n.
Print Assumptions crashed_batch_is_rolled_back.
(* non-vacuity: a 20-block file -- free block, a two-block record named by an ACTIVE journal record
   in slot 0, a one-block record -- meets the premises; the open reports the second record only *)
Example a_crashed_batch :
  let r1 := Codec.mkrec [107; 49] (repeat 7 5000) 11 0 in
  let r2 := Codec.mkrec [107; 50] [1; 2; 3] 12 99 in
  let m := MetaJournal.mkmeta 3 2 5033 (20 * 4096) 4096 0 1 2 4 (repeat 0 48) in
  let z := repeat 0 Codec.BLOCK in
  let j := MetaJournal.encode_journal 5 Constants.JOURNAL_ACTIVE [(17, 2)] in
  let jb := Recovery.chunk_blocks (j ++ Bytes.zeros (3 * Codec.BLOCK - length j)) 3 in
  let img := [MetaJournal.meta_block m] ++ jb ++ [z; z; z; MetaJournal.meta_block m; z; z; z; z; z; z; z; z]
             ++ ScanQuiescentProofs.ilayout 3 16 ([ScanQuiescentProofs.IFree] ++ ScanQuiescentProofs.IRec r1 :: [ScanQuiescentProofs.IRec r2]) in
  length img = 20%nat /\
  MetaJournal.decode_journal (Recovery.slot_bytes img 0) (Recovery.slot_bytes img 1) 20
    = Some (5, 0, [(16 + ScanQuiescentProofs.isum 3 [ScanQuiescentProofs.IFree], ScanAcceptsProofs.need_of 3 r1)]) /\
  match Recovery.open_image (Recovery.mkcfg false false None 168) img with
  | (Recovery.Ok o, img') => map (fun e => (Recovery.e_key e, Recovery.e_sector e)) (Recovery.o_idx o) = [([107; 50], 19)] /\
                    FreeSpace.runs (Recovery.o_fs o) = [(16, 3)] /\
                    skipn 16 img' = ScanQuiescentProofs.ilayout 3 16 ([ScanQuiescentProofs.IFree] ++ ScanQuiescentProofs.IMark 2 :: [ScanQuiescentProofs.IRec r2])
  | _ => False
  end.
Proof. vm_compute. repeat split; reflexivity. Qed.
