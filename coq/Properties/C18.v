(* C18 -- calls, flush and close always terminate (PARTIAL).
   Termination of compiled, multi-threaded Rust is not something an executable Gallina model can
   exhibit.  What is proved is the classical sufficient condition for the absence of lock-order
   deadlocks, applied to the nesting relation of the store's locks as it is *regenerated from the
   source on every run* (Gen/LockSites.v, tools/gen_locks.py): the relation respects a rank, hence
   no set of threads that acquire locks along it can be stuck on each other.  Everything else --
   condition variables, channels, bounded retry loops, the sweeper's self-join, the kernel -- is
   exercised by the watchdog runs, not proved. *)
From Coq Require Import List NArith Bool.
From Feox Require Import Gen.LockSites Model.Locks Proofs.LocksProofs.
Import ListNotations.
Local Open Scope N_scope.

(* finite check over the regenerated relation: every "acquired while held" pair goes up in rank
   (retirement flush < retirement pending < metadata < device < free space < shard buffer < ...) *)
Theorem lock_nesting_of_the_source_is_ranked :
  ranked lock_edges = true.
Proof. exact lock_edges_ranked. Qed.
Check lock_nesting_of_the_source_is_ranked :
  ranked lock_edges = true.
Print Assumptions lock_nesting_of_the_source_is_ranked.

Theorem ranked_nesting_excludes_deadlock :
  forall edges l, ranked edges = true -> Forall (follows edges) l -> ~ stuck l.
Proof. exact ranked_edges_exclude_deadlock. Qed.
Check ranked_nesting_excludes_deadlock :
  forall edges l, ranked edges = true -> Forall (follows edges) l -> ~ stuck l.
Print Assumptions ranked_nesting_excludes_deadlock.

Theorem no_lock_order_deadlock_in_the_store :
  forall l, Forall (follows lock_edges) l -> ~ stuck l.
Proof. exact no_deadlock_on_store_locks. Qed.
Check no_lock_order_deadlock_in_the_store :
  forall l, Forall (follows lock_edges) l -> ~ stuck l.
Print Assumptions no_lock_order_deadlock_in_the_store.
(* non-vacuity: two threads taking device and free-space locks in opposite orders are stuck *)
Example opposite_orders_are_stuck :
  stuck [mkthr [4] (Some 5); mkthr [5] (Some 4)].
Proof.
  split; [discriminate|]. intros a [<-|[<-|[]]]; cbn.
  - exists 5. split; [reflexivity|]. exists (mkthr [5] (Some 4)). split; [right; left; reflexivity | left; reflexivity].
  - exists 4. split; [reflexivity|]. exists (mkthr [4] (Some 5)). split; [left; reflexivity | left; reflexivity].
Qed.
Example the_relation_is_not_empty : (4, 5) = nth 5 lock_edges (0, 0) \/ In (4, 5) lock_edges.
Proof. right. vm_compute. tauto. Qed.
