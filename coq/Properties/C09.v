(* C09 -- I/O failures are reported, contained and never destroy durable data (partial).
   Proved over the abstract device (Model/Device.v): what holds at EVERY state of the protocol, so
   in particular at the state in which a device call fails.  The failure-handling code itself
   (scrub of the touched extents through the journal, quarantine, poisoning, requeueing, error
   propagation) is tied by execution: the Coq monitor must accept the faulted device histories and
   the fault engine evaluates the property on the real store. *)
From Coq Require Import List NArith Bool.
From Feox Require Import Model.Device Proofs.CrashProofs.
From Feox Require Model.FreeSpace Proofs.FreeSpaceProofs Model.FailPath Proofs.FailPathProofs Model.Gate Proofs.GateProofs Model.FailBatches Proofs.FailBatchesProofs.
Import ListNotations.
Local Open Scope N_scope.

(* a failed write-before or fsync changes nothing on the device *)
Theorem failed_call_changes_no_crash_image :
  forall v d, crash_image v d <-> crash_image (mkdev (durable v) (pending v)) d

(* whatever part of a journaled batch reached the device, the journaled extents contain it *).
Proof. exact failed_call_keeps_crash_images. Qed.
Check failed_call_changes_no_crash_image :
  forall v d, crash_image v d <-> crash_image (mkdev (durable v) (pending v)) d

(* whatever part of a journaled batch reached the device, the journaled extents contain it *).
Print Assumptions failed_call_changes_no_crash_image.

Theorem failed_batch_is_contained :
  forall exts ws d d',
  (forall i c, In (i, c) ws -> In i exts) ->
  crash_from d (map (fun ic => WCell (fst ic) (snd ic)) ws) d' ->
  s0 d' = s0 d /\ s1 d' = s1 d /\ wipe exts (cells d') = wipe exts (cells d)

(* at the state where the failure happens (any reachable state) recovering the device as it stands,
   or after any crash, yields the contents before or after the transaction in flight *).
Proof. exact journaled_writes_are_contained. Qed.
Check failed_batch_is_contained :
  forall exts ws d d',
  (forall i c, In (i, c) ws -> In i exts) ->
  crash_from d (map (fun ic => WCell (fst ic) (snd ic)) ws) d' ->
  s0 d' = s0 d /\ s1 d' = s1 d /\ wipe exts (cells d') = wipe exts (cells d)

(* at the state where the failure happens (any reachable state) recovering the device as it stands,
   or after any crash, yields the contents before or after the transaction in flight *).
Print Assumptions failed_batch_is_contained.

Theorem failure_never_destroys_durable_data :
  forall s d,
  PInv s -> crash_image (dv s) d ->
  exists seen, recover d = Some seen /\
    ((forall k, contents seen k = before s k) \/ (forall k, contents seen k = after s k))

(* ... never older than the last acknowledgement *).
Proof. exact crash_atomic. Qed.
Check failure_never_destroys_durable_data :
  forall s d,
  PInv s -> crash_image (dv s) d ->
  exists seen, recover d = Some seen /\
    ((forall k, contents seen k = before s k) \/ (forall k, contents seen k = after s k))

(* ... never older than the last acknowledgement *).
Print Assumptions failure_never_destroys_durable_data.

Theorem acknowledged_survives_failures :
  forall s_ack s d,
  PInv s_ack -> ph s_ack = Idle -> reach s_ack s -> crash_image (dv s) d ->
  exists s_i seen, reach s_ack s_i /\ ph s_i = Idle /\ recover d = Some seen /\
    forall k, contents seen k = contents (cells (durable (dv s_i))) k

(* the scrub of a failed batch (journal ACTIVE(exts) again, markers, clear): from the failure to its
   end every crash image, and the device as it stands after each fsync, recovers the cells the
   batch found -- the contents before the batch *).
Proof. exact ack_durable. Qed.
Check acknowledged_survives_failures :
  forall s_ack s d,
  PInv s_ack -> ph s_ack = Idle -> reach s_ack s -> crash_image (dv s) d ->
  exists s_i seen, reach s_ack s_i /\ ph s_i = Idle /\ recover d = Some seen /\
    forall k, contents seen k = contents (cells (durable (dv s_i))) k

(* the scrub of a failed batch (journal ACTIVE(exts) again, markers, clear): from the failure to its
   end every crash image, and the device as it stands after each fsync, recovers the cells the
   batch found -- the contents before the batch *).
Print Assumptions acknowledged_survives_failures.

Theorem scrub_of_a_failed_batch_is_restartable :
  forall d c g exts ws,
  replay_start d c g exts -> (forall i cl, In (i, cl) ws -> In i exts) ->
  let seen := wipe exts (cells d) in
  let d1 := scrub_synced d c g exts ws in
  (forall d', crash_image (scrub_stage0 d ws) d' -> recover d' = Some seen) /\
  (forall d', crash_image (scrub_stage1 d c g exts ws) d' -> recover d' = Some seen) /\
  recover d1 = Some seen /\
  (forall d', crash_image (replay_stage1 d1 exts) d' -> recover d' = Some seen) /\
  (forall d', crash_image (replay_stage2 d1 (negb c) (g + 1) exts) d' -> recover d' = Some seen) /\
  recover (replay_done d1 (negb c) (g + 1) exts) = Some seen

(* ---- the failure-handling code itself (Model/FailPath.v: process_write_batch,
   failed_batch_outcome, cleanup_failed_allocations, release_scrubbed_allocations,
   release_allocations, quarantine, poison, over the real allocator model); every fault oracle,
   i.e. every choice of failing device calls, every sequence of inserts and flushes ---- *)

(* a flush answers Ok only when the device is not poisoned and every entry queued before it has
   been published; whatever it answers, no entry is lost (all published, or all still queued in
   order); a poisoned device never answers Ok again; a quarantined reservation stays with its entry *).
Proof. exact scrub_preserves_contents. Qed.
Check scrub_of_a_failed_batch_is_restartable :
  forall d c g exts ws,
  replay_start d c g exts -> (forall i cl, In (i, cl) ws -> In i exts) ->
  let seen := wipe exts (cells d) in
  let d1 := scrub_synced d c g exts ws in
  (forall d', crash_image (scrub_stage0 d ws) d' -> recover d' = Some seen) /\
  (forall d', crash_image (scrub_stage1 d c g exts ws) d' -> recover d' = Some seen) /\
  recover d1 = Some seen /\
  (forall d', crash_image (replay_stage1 d1 exts) d' -> recover d' = Some seen) /\
  (forall d', crash_image (replay_stage2 d1 (negb c) (g + 1) exts) d' -> recover d' = Some seen) /\
  recover (replay_done d1 (negb c) (g + 1) exts) = Some seen

(* ---- the failure-handling code itself (Model/FailPath.v: process_write_batch,
   failed_batch_outcome, cleanup_failed_allocations, release_scrubbed_allocations,
   release_allocations, quarantine, poison, over the real allocator model); every fault oracle,
   i.e. every choice of failing device calls, every sequence of inserts and flushes ---- *)

(* a flush answers Ok only when the device is not poisoned and every entry queued before it has
   been published; whatever it answers, no entry is lost (all published, or all still queued in
   order); a poisoned device never answers Ok again; a quarantined reservation stays with its entry *).
Print Assumptions scrub_of_a_failed_batch_is_restartable.

Theorem flush_is_honest_under_any_failures :
  forall fault d f cs,
  d < FreeSpace.U64 -> FreeSpace.initialize d = FreeSpace.FOk f ->
  let st := FailPathProofs.fcalls fault (FailPath.finit f) cs in
  forall st' r, FailPath.flush fault st = (st', r) ->
  (r = FailPath.ROk -> FailPath.f_poison st' = false /\ FailPath.f_queue st' = []) /\
  ((FailPath.f_queue st' = [] /\ exists pub, FailPath.f_durable st' = pub ++ FailPath.f_durable st /\
      map fst pub = map FailPath.pe_id (FailPath.f_queue st)) \/
   (r <> FailPath.ROk /\ FailPath.f_durable st' = FailPath.f_durable st /\
      map FailPath.pe_id (FailPath.f_queue st') = map FailPath.pe_id (FailPath.f_queue st))) /\
  (FailPath.f_poison st = true -> FailPath.f_poison st' = true /\ r <> FailPath.ROk) /\
  (forall e, In e (FailPath.f_queue st) -> FailPath.pe_quar e = true -> FailPath.f_queue st' <> [] -> In e (FailPath.f_queue st'))

(* extents that may hold bytes of a failed batch and have not been scrubbed are never free, hence
   never handed to another record: a reservation is given back only clean or scrubbed *).
Proof. exact FailPathProofs.flush_is_honest. Qed.
Check flush_is_honest_under_any_failures :
  forall fault d f cs,
  d < FreeSpace.U64 -> FreeSpace.initialize d = FreeSpace.FOk f ->
  let st := FailPathProofs.fcalls fault (FailPath.finit f) cs in
  forall st' r, FailPath.flush fault st = (st', r) ->
  (r = FailPath.ROk -> FailPath.f_poison st' = false /\ FailPath.f_queue st' = []) /\
  ((FailPath.f_queue st' = [] /\ exists pub, FailPath.f_durable st' = pub ++ FailPath.f_durable st /\
      map fst pub = map FailPath.pe_id (FailPath.f_queue st)) \/
   (r <> FailPath.ROk /\ FailPath.f_durable st' = FailPath.f_durable st /\
      map FailPath.pe_id (FailPath.f_queue st') = map FailPath.pe_id (FailPath.f_queue st))) /\
  (FailPath.f_poison st = true -> FailPath.f_poison st' = true /\ r <> FailPath.ROk) /\
  (forall e, In e (FailPath.f_queue st) -> FailPath.pe_quar e = true -> FailPath.f_queue st' <> [] -> In e (FailPath.f_queue st'))

(* extents that may hold bytes of a failed batch and have not been scrubbed are never free, hence
   never handed to another record: a reservation is given back only clean or scrubbed *).
Print Assumptions flush_is_honest_under_any_failures.

Theorem unscrubbed_extents_are_never_free :
  forall fault d f cs x b,
  d < FreeSpace.U64 -> FreeSpace.initialize d = FreeSpace.FOk f ->
  let st := FailPathProofs.fcalls fault (FailPath.finit f) cs in
  In x (FailPath.f_maydata st) -> FailPathProofs.blk_in b x -> ~ FreeSpaceProofs.free (FailPath.f_fs st) b
(* the same with deletes of published records and their retirement (journal, markers, clear, one
   release per group), including the reclaim-and-retry of a pass the allocator refused: Ok only when
   not poisoned, the queue empty and every pending retirement done; entries are published all or
   none; the extents waiting for retirement are given back all at once or not at all *).
Proof. exact FailPathProofs.unscrubbed_extents_are_never_free. Qed.
Check unscrubbed_extents_are_never_free :
  forall fault d f cs x b,
  d < FreeSpace.U64 -> FreeSpace.initialize d = FreeSpace.FOk f ->
  let st := FailPathProofs.fcalls fault (FailPath.finit f) cs in
  In x (FailPath.f_maydata st) -> FailPathProofs.blk_in b x -> ~ FreeSpaceProofs.free (FailPath.f_fs st) b
(* the same with deletes of published records and their retirement (journal, markers, clear, one
   release per group), including the reclaim-and-retry of a pass the allocator refused: Ok only when
   not poisoned, the queue empty and every pending retirement done; entries are published all or
   none; the extents waiting for retirement are given back all at once or not at all *).
Print Assumptions unscrubbed_extents_are_never_free.

Theorem flush_with_deletes_is_honest :
  forall fault d f cs,
  d < FreeSpace.U64 -> FreeSpace.initialize d = FreeSpace.FOk f ->
  let rs := FailPathProofs.rcalls fault (FailPath.rinit f) cs in
  forall rs' r, FailPath.rflush fault rs = (rs', r) ->
  (r = FailPath.ROk -> FailPath.f_queue (FailPath.r_core rs') = [] /\ FailPath.r_pending rs' = [] /\ FailPath.f_poison (FailPath.r_core rs') = false) /\
  ((FailPath.f_queue (FailPath.r_core rs') = [] /\ exists pub, FailPath.f_durable (FailPath.r_core rs') = pub ++ FailPath.f_durable (FailPath.r_core rs) /\
      map fst pub = map FailPath.pe_id (FailPath.f_queue (FailPath.r_core rs))) \/
   (FailPath.f_durable (FailPath.r_core rs') = FailPath.f_durable (FailPath.r_core rs) /\
      map FailPath.pe_id (FailPath.f_queue (FailPath.r_core rs')) = map FailPath.pe_id (FailPath.f_queue (FailPath.r_core rs)))) /\
  (FailPath.r_pending rs' = FailPath.r_pending rs \/ FailPath.r_pending rs' = []) /\
  (FailPath.f_poison (FailPath.r_core rs) = true -> FailPath.f_poison (FailPath.r_core rs') = true /\ r <> FailPath.ROk)
(* ---- the retirement gate (Model/Gate.v = Record::successor_is_durable_or_deleted): the extent
   of a superseded generation is retired only when this answers true ---- *)

(* a positive answer means that the generation was deleted outright, or that its successor chain
   reaches a generation that is on the device or ends in a deleted one -- so the newest durable
   generation of a key is never the one that is retired; the memo bits stay sound *).
Proof. exact FailPathProofs.flush_with_deletes_is_honest. Qed.
Check flush_with_deletes_is_honest :
  forall fault d f cs,
  d < FreeSpace.U64 -> FreeSpace.initialize d = FreeSpace.FOk f ->
  let rs := FailPathProofs.rcalls fault (FailPath.rinit f) cs in
  forall rs' r, FailPath.rflush fault rs = (rs', r) ->
  (r = FailPath.ROk -> FailPath.f_queue (FailPath.r_core rs') = [] /\ FailPath.r_pending rs' = [] /\ FailPath.f_poison (FailPath.r_core rs') = false) /\
  ((FailPath.f_queue (FailPath.r_core rs') = [] /\ exists pub, FailPath.f_durable (FailPath.r_core rs') = pub ++ FailPath.f_durable (FailPath.r_core rs) /\
      map fst pub = map FailPath.pe_id (FailPath.f_queue (FailPath.r_core rs))) \/
   (FailPath.f_durable (FailPath.r_core rs') = FailPath.f_durable (FailPath.r_core rs) /\
      map FailPath.pe_id (FailPath.f_queue (FailPath.r_core rs')) = map FailPath.pe_id (FailPath.f_queue (FailPath.r_core rs)))) /\
  (FailPath.r_pending rs' = FailPath.r_pending rs \/ FailPath.r_pending rs' = []) /\
  (FailPath.f_poison (FailPath.r_core rs) = true -> FailPath.f_poison (FailPath.r_core rs') = true /\ r <> FailPath.ROk)
(* ---- the retirement gate (Model/Gate.v = Record::successor_is_durable_or_deleted): the extent
   of a superseded generation is retired only when this answers true ---- *)

(* a positive answer means that the generation was deleted outright, or that its successor chain
   reaches a generation that is on the device or ends in a deleted one -- so the newest durable
   generation of a key is never the one that is retired; the memo bits stay sound *).
Print Assumptions flush_with_deletes_is_honest.

Theorem gate_true_means_superseded_durably_or_deleted :
  forall l x l',
  GateProofs.memo_ok l -> Gate.gate l x = (true, l') ->
  GateProofs.memo_ok l' /\
  forall me, nth_error l x = Some me -> Gate.gn_succ me = None \/ exists s, Gate.gn_succ me = Some s /\ GateProofs.good l s.
Proof. exact GateProofs.gate_true_means_superseded_durably_or_deleted. Qed.
Check gate_true_means_superseded_durably_or_deleted :
  forall l x l',
  GateProofs.memo_ok l -> Gate.gate l x = (true, l') ->
  GateProofs.memo_ok l' /\
  forall me, nth_error l x = Some me -> Gate.gn_succ me = None \/ exists s, Gate.gn_succ me = Some s /\ GateProofs.good l s.
Print Assumptions gate_true_means_superseded_durably_or_deleted.

Theorem good_chain_reaches_durable_or_deleted :
  forall l c, GateProofs.good l c ->
  exists d n, GateProofs.reach l c d /\ nth_error l d = Some n /\ (0 < Gate.gn_sector n \/ (Gate.gn_succ n = None /\ Gate.gn_ref n = 0))

(* it refuses only when the chain ends in a live generation that is not on the device yet *).
Proof. exact GateProofs.good_unfolds. Qed.
Check good_chain_reaches_durable_or_deleted :
  forall l c, GateProofs.good l c ->
  exists d n, GateProofs.reach l c d /\ nth_error l d = Some n /\ (0 < Gate.gn_sector n \/ (Gate.gn_succ n = None /\ Gate.gn_ref n = 0))

(* it refuses only when the chain ends in a live generation that is not on the device yet *).
Print Assumptions good_chain_reaches_durable_or_deleted.

Theorem gate_false_means_successor_not_durable :
  forall l x l',
  GateProofs.forward l -> Gate.gate l x = (false, l') ->
  l' = l /\ exists me s, nth_error l x = Some me /\ Gate.gn_succ me = Some s /\ ~ GateProofs.good l s

(* publishing, deleting and superseding generations never invalidate a memo bit *).
Proof. exact GateProofs.gate_false_means_successor_not_durable. Qed.
Check gate_false_means_successor_not_durable :
  forall l x l',
  GateProofs.forward l -> Gate.gate l x = (false, l') ->
  l' = l /\ exists me s, nth_error l x = Some me /\ Gate.gn_succ me = Some s /\ ~ GateProofs.good l s

(* publishing, deleting and superseding generations never invalidate a memo bit *).
Print Assumptions gate_false_means_successor_not_durable.

Theorem gate_memo_stays_sound :
  forall l e, GateProofs.memo_ok l -> GateProofs.memo_ok (GateProofs.gstep l e)

(* ---- a shard holding more entries than one allocation-journal transaction names
   (Model/FailBatches.v: flush_worker_shards cuts the pass into batches of
   ALLOCATION_JOURNAL_MAX_ENTRIES, stops at the first batch that fails and puts back what that batch
   returns followed by every entry not yet attempted).  For every fault oracle, every sequence of
   inserts and flushes, any queue length: Ok only when nothing is left and the device is not
   poisoned; whatever the answer, every queued entry is afterwards published or still queued,
   none is lost and none counted twice; a poisoned device never answers Ok again ---- *).
Proof. exact GateProofs.memo_stays_sound. Qed.
Check gate_memo_stays_sound :
  forall l e, GateProofs.memo_ok l -> GateProofs.memo_ok (GateProofs.gstep l e)

(* ---- a shard holding more entries than one allocation-journal transaction names
   (Model/FailBatches.v: flush_worker_shards cuts the pass into batches of
   ALLOCATION_JOURNAL_MAX_ENTRIES, stops at the first batch that fails and puts back what that batch
   returns followed by every entry not yet attempted).  For every fault oracle, every sequence of
   inserts and flushes, any queue length: Ok only when nothing is left and the device is not
   poisoned; whatever the answer, every queued entry is afterwards published or still queued,
   none is lost and none counted twice; a poisoned device never answers Ok again ---- *).
Print Assumptions gate_memo_stays_sound.

Theorem batched_flush_is_honest_under_any_failures :
  forall fault d f cs,
  d < FreeSpace.U64 -> FreeSpace.initialize d = FreeSpace.FOk f ->
  let st := FailBatchesProofs.pcalls fault (FailPath.finit f) cs in
  forall st' r, FailBatches.pflush fault st = (st', r) ->
  (r = FailPath.ROk -> FailPath.f_queue st' = [] /\ FailPath.f_poison st' = false) /\
  (exists pub, FailPath.f_durable st' = pub ++ FailPath.f_durable st /\
               (forall i, In i (FailBatchesProofs.ids (FailPath.f_queue st)) <->
                          In i (map fst pub) \/ In i (FailBatchesProofs.ids (FailPath.f_queue st'))) /\
               (length pub + length (FailPath.f_queue st') = length (FailPath.f_queue st))%nat) /\
  (FailPath.f_poison st = true -> FailPath.f_poison st' = true /\ r <> FailPath.ROk).
Proof. exact FailBatchesProofs.batched_flush_is_honest. Qed.
Check batched_flush_is_honest_under_any_failures :
  forall fault d f cs,
  d < FreeSpace.U64 -> FreeSpace.initialize d = FreeSpace.FOk f ->
  let st := FailBatchesProofs.pcalls fault (FailPath.finit f) cs in
  forall st' r, FailBatches.pflush fault st = (st', r) ->
  (r = FailPath.ROk -> FailPath.f_queue st' = [] /\ FailPath.f_poison st' = false) /\
  (exists pub, FailPath.f_durable st' = pub ++ FailPath.f_durable st /\
               (forall i, In i (FailBatchesProofs.ids (FailPath.f_queue st)) <->
                          In i (map fst pub) \/ In i (FailBatchesProofs.ids (FailPath.f_queue st'))) /\
               (length pub + length (FailPath.f_queue st') = length (FailPath.f_queue st))%nat) /\
  (FailPath.f_poison st = true -> FailPath.f_poison st' = true /\ r <> FailPath.ROk).
Print Assumptions batched_flush_is_honest_under_any_failures.

Theorem unscrubbed_extents_are_never_free_over_batches :
  forall fault d f cs x b,
  d < FreeSpace.U64 -> FreeSpace.initialize d = FreeSpace.FOk f ->
  let st := FailBatchesProofs.pcalls fault (FailPath.finit f) cs in
  In x (FailPath.f_maydata st) -> FailPathProofs.blk_in b x -> ~ FreeSpaceProofs.free (FailPath.f_fs st) b.
Proof. exact FailBatchesProofs.unscrubbed_extents_are_never_free_batched. Qed.
Check unscrubbed_extents_are_never_free_over_batches :
  forall fault d f cs x b,
  d < FreeSpace.U64 -> FreeSpace.initialize d = FreeSpace.FOk f ->
  let st := FailBatchesProofs.pcalls fault (FailPath.finit f) cs in
  In x (FailPath.f_maydata st) -> FailPathProofs.blk_in b x -> ~ FreeSpaceProofs.free (FailPath.f_fs st) b.
Print Assumptions unscrubbed_extents_are_never_free_over_batches.
(* non-vacuity of the failure-handling theorems: three inserts on a 64-block device; the record
   write fails three times (calls 2, 3, 4: the first pwrite of each attempt), the scrub goes through
   and the second flush publishes everything; with call 5 failing too (the scrub's intent write) the
   device is poisoned and the entries stay quarantined *)
Example failed_batch_is_scrubbed_and_retried :
  match FreeSpace.initialize 262144 with
  | FreeSpace.FOk f =>
      let cs := [FailPathProofs.CInsert 1 2; FailPathProofs.CInsert 2 1; FailPathProofs.CInsert 3 3; FailPathProofs.CFlush] in
      let scrubbed := FailPathProofs.fcalls (fun i => (i =? 2) || (i =? 3) || (i =? 4)) (FailPath.finit f) cs in
      let poisoned := FailPathProofs.fcalls (fun i => (i =? 2) || (i =? 3) || (i =? 4) || (i =? 5)) (FailPath.finit f) cs in
      length (FailPath.f_queue scrubbed) = 3%nat /\ FailPath.f_poison scrubbed = false /\ FailPath.f_usage scrubbed = 0 /\
      snd (FailPath.flush (fun _ => false) scrubbed) = FailPath.ROk /\
      FailPath.f_poison poisoned = true /\ FailPath.f_usage poisoned = 6 /\
      snd (FailPath.flush (fun _ => false) poisoned) = FailPath.RIndet
  | FreeSpace.FErr _ => False
  end.
Proof. vm_compute. repeat split. Qed.

(* non-vacuity with deletes: a 19-block device (3 data blocks) is filled, one record is deleted, a
   two-block record arrives: the pass is refused for space, the retirement gives one block back,
   the retried pass is refused again (one block is not enough); after a second delete it fits *)
Example reclaim_and_retry_on_a_full_device :
  match FreeSpace.initialize 77824 with
  | FreeSpace.FOk f =>
      let quiet := fun _ : N => false in
      let rs1 := FailPathProofs.rcalls quiet (FailPath.rinit f)
                   [FailPathProofs.RCInsert 1 1; FailPathProofs.RCInsert 2 1; FailPathProofs.RCInsert 3 1; FailPathProofs.RCFlush;
                    FailPathProofs.RCInsert 4 2; FailPathProofs.RCDelete 1] in
      let (rs2, r2) := FailPath.rflush quiet rs1 in
      let (rs3, r3) := FailPath.rflush quiet (FailPath.rdelete rs2 2) in
      r2 = FailPath.RSpace /\ FailPath.r_pending rs2 = [] /\ FailPath.f_usage (FailPath.r_core rs2) = 2 /\
      r3 = FailPath.ROk /\ FailPath.f_usage (FailPath.r_core rs3) = 3 /\ length (FailPath.f_durable (FailPath.r_core rs3)) = 2%nat
  | FreeSpace.FErr _ => False
  end.
Proof. vm_compute. repeat split. Qed.

(* non-vacuity of the gate theorems: A (durable) -> B (superseded in memory, never written) -> C
   (live, not durable): the gate refuses to retire A; once C is on the device it agrees and marks
   A and B *)
Example gate_waits_for_the_end_of_the_chain :
  let chain := [Gate.mkgn 16 0 (Some 1%nat) false; Gate.mkgn 0 0 (Some 2%nat) false; Gate.mkgn 0 1 None false] in
  fst (Gate.gate chain 0) = false /\
  Gate.gate (GateProofs.gstep chain (GateProofs.GPublish 2 40)) 0 =
    (true, [Gate.mkgn 16 0 (Some 1%nat) true; Gate.mkgn 0 0 (Some 2%nat) true; Gate.mkgn 40 1 None false]).
Proof. vm_compute. split; reflexivity. Qed.
(* non-vacuity for the batched pass: 1030 one-block entries; without failures everything is
   published in two transactions; with the first device call of the second batch failing, the first
   1024 stay published, the other six stay queued and their reservations are given back *)
Example two_batches :
  match FreeSpace.initialize (8192 * 4096) with
  | FreeSpace.FOk f =>
      let cs := map (fun i => FailPathProofs.CInsert (N.of_nat i + 1) 1) (seq 0 1030) in
      let run fault :=
        let st := FailBatchesProofs.pcalls fault (FailPath.finit f) cs in
        let '(st', r) := FailBatches.pflush fault st in
        (r, length (FailPath.f_queue st'), length (FailPath.f_durable st'), FailPath.f_usage st') in
      run (fun _ => false) = (FailPath.ROk, 0%nat, 1030%nat, 1030) /\
      run (fun i => i =? 1030) = (FailPath.RIo, 6%nat, 1024%nat, 1024)
  | _ => False
  end.
Proof. vm_compute. split; reflexivity. Qed.
