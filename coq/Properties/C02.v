(* C02 -- acknowledged data survives any later crash.  An acknowledgement (flush() == Ok, clean
   close) is a quiescent protocol state: every transaction issued before it is complete. *)
From Coq Require Import List NArith Bool.
From Feox Require Import Model.Device Proofs.CrashProofs.
From Feox Require Model.Gate Proofs.GateProofs.
Import ListNotations.
Local Open Scope N_scope.

(* For every history continuing from an acknowledgement, every later state and every crash image
   of it (any subset / tearing of the un-synced writes): the device reopens, and its contents are
   exactly the contents of some quiescent state AT OR AFTER the acknowledgement -- so every key
   has the state it had at the acknowledgement or a later one from the history, never an earlier
   one; an acknowledged delete does not come back, an acknowledged value is not replaced by an
   older generation. *)
Theorem acknowledged_state_survives :
  forall s_ack s d,
  PInv s_ack -> ph s_ack = Idle -> reach s_ack s -> crash_image (dv s) d ->
  exists s_i seen, reach s_ack s_i /\ ph s_i = Idle /\ recover d = Some seen /\
    forall k, contents seen k = contents (cells (durable (dv s_i))) k

(* a quiescent state satisfies the invariant the theorem starts from *).
Proof. exact ack_durable. Qed.
Check acknowledged_state_survives :
  forall s_ack s d,
  PInv s_ack -> ph s_ack = Idle -> reach s_ack s -> crash_image (dv s) d ->
  exists s_i seen, reach s_ack s_i /\ ph s_i = Idle /\ recover d = Some seen /\
    forall k, contents seen k = contents (cells (durable (dv s_i))) k

(* a quiescent state satisfies the invariant the theorem starts from *).
Print Assumptions acknowledged_state_survives.

Theorem quiescent_is_invariant :
  forall s, quiescent s -> PInv s

(* within one transaction the outcome is all-or-nothing *).
Proof. exact quiescent_PInv. Qed.
Check quiescent_is_invariant :
  forall s, quiescent s -> PInv s

(* within one transaction the outcome is all-or-nothing *).
Print Assumptions quiescent_is_invariant.

Theorem transaction_all_or_nothing :
  forall s d,
  PInv s -> crash_image (dv s) d ->
  exists seen, recover d = Some seen /\
    ((forall k, contents seen k = before s k) \/ (forall k, contents seen k = after s k))
(* ---- the retirement gate (Model/Gate.v = Record::successor_is_durable_or_deleted): the extent
   of a superseded generation is retired only when this answers true ---- *)

(* a positive answer means that the generation was deleted outright, or that its successor chain
   reaches a generation that is on the device or ends in a deleted one -- so the newest durable
   generation of a key is never the one that is retired; the memo bits stay sound *).
Proof. exact crash_atomic. Qed.
Check transaction_all_or_nothing :
  forall s d,
  PInv s -> crash_image (dv s) d ->
  exists seen, recover d = Some seen /\
    ((forall k, contents seen k = before s k) \/ (forall k, contents seen k = after s k))
(* ---- the retirement gate (Model/Gate.v = Record::successor_is_durable_or_deleted): the extent
   of a superseded generation is retired only when this answers true ---- *)

(* a positive answer means that the generation was deleted outright, or that its successor chain
   reaches a generation that is on the device or ends in a deleted one -- so the newest durable
   generation of a key is never the one that is retired; the memo bits stay sound *).
Print Assumptions transaction_all_or_nothing.

Theorem gate_true_means_superseded_durably_or_deleted :
  forall l x l',
  GateProofs.memo_ok l -> Gate.gate l x = (true, l') ->
  GateProofs.memo_ok l' /\
  forall me, nth_error l x = Some me -> Gate.gn_succ me = None \/ exists s, Gate.gn_succ me = Some s /\ GateProofs.good l s.
Proof. exact GateProofs.gate_true_means_superseded_durably_or_deleted. Qed.
Check gate_true_means_superseded_durably_or_deleted :
  forall l x l',
  GateProofs.memo_ok l -> Gate.gate l x = (true, l') ->
  GateProofs.memo_ok l' /\
  forall me, nth_error l x = Some me -> Gate.gn_succ me = None \/ exists s, Gate.gn_succ me = Some s /\ GateProofs.good l s.
Print Assumptions gate_true_means_superseded_durably_or_deleted.

Theorem good_chain_reaches_durable_or_deleted :
  forall l c, GateProofs.good l c ->
  exists d n, GateProofs.reach l c d /\ nth_error l d = Some n /\ (0 < Gate.gn_sector n \/ (Gate.gn_succ n = None /\ Gate.gn_ref n = 0))

(* it refuses only when the chain ends in a live generation that is not on the device yet *).
Proof. exact GateProofs.good_unfolds. Qed.
Check good_chain_reaches_durable_or_deleted :
  forall l c, GateProofs.good l c ->
  exists d n, GateProofs.reach l c d /\ nth_error l d = Some n /\ (0 < Gate.gn_sector n \/ (Gate.gn_succ n = None /\ Gate.gn_ref n = 0))

(* it refuses only when the chain ends in a live generation that is not on the device yet *).
Print Assumptions good_chain_reaches_durable_or_deleted.

Theorem gate_false_means_successor_not_durable :
  forall l x l',
  GateProofs.forward l -> Gate.gate l x = (false, l') ->
  l' = l /\ exists me s, nth_error l x = Some me /\ Gate.gn_succ me = Some s /\ ~ GateProofs.good l s

(* publishing, deleting and superseding generations never invalidate a memo bit *).
Proof. exact GateProofs.gate_false_means_successor_not_durable. Qed.
Check gate_false_means_successor_not_durable :
  forall l x l',
  GateProofs.forward l -> Gate.gate l x = (false, l') ->
  l' = l /\ exists me s, nth_error l x = Some me /\ Gate.gn_succ me = Some s /\ ~ GateProofs.good l s

(* publishing, deleting and superseding generations never invalidate a memo bit *).
Print Assumptions gate_false_means_successor_not_durable.

Theorem gate_memo_stays_sound :
  forall l e, GateProofs.memo_ok l -> GateProofs.memo_ok (GateProofs.gstep l e).
Proof. exact GateProofs.memo_stays_sound. Qed.
Check gate_memo_stays_sound :
  forall l e, GateProofs.memo_ok l -> GateProofs.memo_ok (GateProofs.gstep l e).
Print Assumptions gate_memo_stays_sound.
Example quiescent_example :
  quiescent (mkps (mkdev (mkdisk (SValid 4 JClear) (SValid 3 JClear) [CZero; CMarker]) []) Idle 4 false [CZero; CMarker]).
Proof. repeat split; simpl; auto. left; reflexivity. Qed.
