(* C02 -- acknowledged data survives any later crash.  An acknowledgement (flush() == Ok, clean
   close) is a quiescent protocol state: every transaction issued before it is complete. *)
From Coq Require Import List NArith Bool.
From Feox Require Import Model.Device Proofs.CrashProofs.
Import ListNotations.
Local Open Scope N_scope.

(* For every history continuing from an acknowledgement, every later state and every crash image
   of it (any subset / tearing of the un-synced writes): the device reopens, and its contents are
   exactly the contents of some quiescent state AT OR AFTER the acknowledgement -- so every key
   has the state it had at the acknowledgement or a later one from the history, never an earlier
   one; an acknowledged delete does not come back, an acknowledged value is not replaced by an
   older generation. *)
Theorem acknowledged_state_survives :
  forall s_ack s d,
  PInv s_ack -> ph s_ack = Idle -> reach s_ack s -> crash_image (dv s) d ->
  exists s_i seen, reach s_ack s_i /\ ph s_i = Idle /\ recover d = Some seen /\
    forall k, contents seen k = contents (cells (durable (dv s_i))) k

(* a quiescent state satisfies the invariant the theorem starts from *).
Proof. exact ack_durable. Qed.
Check acknowledged_state_survives :
  forall s_ack s d,
  PInv s_ack -> ph s_ack = Idle -> reach s_ack s -> crash_image (dv s) d ->
  exists s_i seen, reach s_ack s_i /\ ph s_i = Idle /\ recover d = Some seen /\
    forall k, contents seen k = contents (cells (durable (dv s_i))) k

(* a quiescent state satisfies the invariant the theorem starts from *).
Print Assumptions acknowledged_state_survives.

Theorem quiescent_is_invariant :
  forall s, quiescent s -> PInv s

(* within one transaction the outcome is all-or-nothing *).
Proof. exact quiescent_PInv. Qed.
Check quiescent_is_invariant :
  forall s, quiescent s -> PInv s

(* within one transaction the outcome is all-or-nothing *).
Print Assumptions quiescent_is_invariant.

Theorem transaction_all_or_nothing :
  forall s d,
  PInv s -> crash_image (dv s) d ->
  exists seen, recover d = Some seen /\
    ((forall k, contents seen k = before s k) \/ (forall k, contents seen k = after s k)).
Proof. exact crash_atomic. Qed.
Check transaction_all_or_nothing :
  forall s d,
  PInv s -> crash_image (dv s) d ->
  exists seen, recover d = Some seen /\
    ((forall k, contents seen k = before s k) \/ (forall k, contents seen k = after s k)).
Print Assumptions transaction_all_or_nothing.
Example quiescent_example :
  quiescent (mkps (mkdev (mkdisk (SValid 4 JClear) (SValid 3 JClear) [CZero; CMarker]) []) Idle 4 false [CZero; CMarker]).
Proof. repeat split; simpl; auto. left; reflexivity. Qed.
