(* C07 -- concurrent operations on a key are atomic and timestamp-ordered (linearizable).
   Model/Sched.v renders the per-key protocol of operations.rs / internal.rs / atomic.rs /
   json_patch.rs at the granularity of hook H7 (one hash-table access per step).  The main
   theorem holds for every number of threads, every program and every schedule, with no bound.
   Model/Lin.v is an executable checker for real histories; it is proved sound. *)
From Coq Require Import List NArith ZArith Bool Permutation.
From Feox Require Import Model.Sched Model.Lin Proofs.SchedProofs Proofs.SchedJustify Proofs.LinProofs.
Import ListNotations.
Local Open Scope N_scope.

(* every schedule: the commits, in the order of the responses, are a legal sequential
   last-writer-wins history (up to flagged refusals that change nothing) ending in the final
   contents, and every thread received exactly the responses of its own commits in program order *)
Theorem all_schedules_linearizable :
  forall shards progs sched fuel,
  let w := finish fuel (run (init_world shards progs) sched) in
  lin_rel (fun _ => None) (map snd (w_log w)) (abs (w_sh w)) /\
  forall i th, nth_error (w_th w) i = Some th ->
    nth_error progs i = Some (map c_op (commits_of i (w_log w)) ++ t_ops th) /\
    rev (t_out th) = map c_resp (commits_of i (w_log w))

(* one step of one thread: either nothing visible changes, or the call commits: its response is
   the sequential spec's response on the current contents (guarded re-validation with pointer
   identity makes the optimistic read current), or it is a flagged refusal with no effect *).
Proof. exact every_schedule_linearizable. Qed.
Check all_schedules_linearizable :
  forall shards progs sched fuel,
  let w := finish fuel (run (init_world shards progs) sched) in
  lin_rel (fun _ => None) (map snd (w_log w)) (abs (w_sh w)) /\
  forall i th, nth_error (w_th w) i = Some th ->
    nth_error progs i = Some (map c_op (commits_of i (w_log w)) ++ t_ops th) /\
    rev (t_out th) = map c_resp (commits_of i (w_log w))

(* one step of one thread: either nothing visible changes, or the call commits: its response is
   the sequential spec's response on the current contents (guarded re-validation with pointer
   identity makes the optimistic read current), or it is a flagged refusal with no effect *).
Print Assumptions all_schedules_linearizable.

Theorem guarded_step_is_linearization_point :
  forall s o p s' r c, table_ok s -> pc_ok s o p -> opstep s o p = (s', r, c) -> step_post s o s' r c

(* the commit is a step of the answering call itself, so it lies between invocation and response *).
Proof. exact opstep_sim. Qed.
Check guarded_step_is_linearization_point :
  forall s o p s' r c, table_ok s -> pc_ok s o p -> opstep s o p = (s', r, c) -> step_post s o s' r c

(* the commit is a step of the answering call itself, so it lies between invocation and response *).
Print Assumptions guarded_step_is_linearization_point.

Theorem commit_lies_within_the_call :
  forall w i c, w_log (tstep w i) = w_log w ++ [(i, c)] ->
  exists th rest, nth_error (w_th w) i = Some th /\ t_ops th = c_op c :: rest /\
    (table_ok (w_sh w) -> pc_ok (w_sh w) (c_op c) (t_pc th) ->
     nth_error (w_th (tstep w i)) i = Some (mkth rest PStart (c_resp c :: t_out th))).
Proof. exact commit_is_own_step. Qed.
Check commit_lies_within_the_call :
  forall w i c, w_log (tstep w i) = w_log w ++ [(i, c)] ->
  exists th rest, nth_error (w_th w) i = Some th /\ t_ops th = c_op c :: rest /\
    (table_ok (w_sh w) -> pc_ok (w_sh w) (c_op c) (t_pc th) ->
     nth_error (w_th (tstep w i)) i = Some (mkth rest PStart (c_resp c :: t_out th))).
Print Assumptions commit_lies_within_the_call.

Theorem accepted_write_never_lands_on_newer :
  forall st1 c st2 v0 t0, commit_ok st1 c st2 -> st1 = Some (v0, t0) -> st2 <> st1 -> t0 < c_ts c.
Proof. exact accepted_write_on_older. Qed.
Check accepted_write_never_lands_on_newer :
  forall st1 c st2 v0 t0, commit_ok st1 c st2 -> st1 = Some (v0, t0) -> st2 <> st1 -> t0 < c_ts c.
Print Assumptions accepted_write_never_lands_on_newer.

Theorem no_increment_is_lost :
  forall k st0 log st,
  lin_rel st0 log st -> st0 k = None -> Forall (incr_commit k) log ->
  match counter_after k log with
  | None => st k = None
  | Some z => exists t, st k = Some (VC z, t)
  end.
Proof. exact no_lost_increment. Qed.
Check no_increment_is_lost :
  forall k st0 log st,
  lin_rel st0 log st -> st0 k = None -> Forall (incr_commit k) log ->
  match counter_after k log with
  | None => st k = None
  | Some z => exists t, st k = Some (VC z, t)
  end.
Print Assumptions no_increment_is_lost.

Theorem one_insert_if_absent_wins :
  forall k st0 log st,
  lin_rel st0 log st -> Forall (not_delete_of k) log ->
  (length (filter (ifabsent_win k) log) + (match st0 k with Some _ => 1 | None => 0 end) <= 1)%nat /\
  (length (filter (ifabsent_win k) log) = 1%nat \/ st0 k <> None -> st k <> None)

(* the first permitted deviation is always justified: a write refused as older although the spec
   would have accepted it is preceded, in the commit log, by an accepted delete of the same key
   with an equal or newer timestamp (so that delete was invoked before the rejection) *).
Proof. exact one_winner_insert_if_absent. Qed.
Check one_insert_if_absent_wins :
  forall k st0 log st,
  lin_rel st0 log st -> Forall (not_delete_of k) log ->
  (length (filter (ifabsent_win k) log) + (match st0 k with Some _ => 1 | None => 0 end) <= 1)%nat /\
  (length (filter (ifabsent_win k) log) = 1%nat \/ st0 k <> None -> st k <> None)

(* the first permitted deviation is always justified: a write refused as older although the spec
   would have accepted it is preceded, in the commit log, by an accepted delete of the same key
   with an equal or newer timestamp (so that delete was invoked before the rejection) *).
Print Assumptions one_insert_if_absent_wins.

Theorem older_refusal_is_justified :
  forall shards progs sched fuel,
  Forall (Forall explicit_pos) progs ->
  justified_log (w_log (finish fuel (run (init_world shards progs) sched)))

(* the second permitted deviation is always justified: when a compare-and-swap is answered with the
   flagged "no swap" (the value it would find now equals the expected one), the key has been
   modified since that call read it -- its modification counter, which every accepted insert,
   replace and delete of the key bumps by one, is above the value the call saw at its read *).
Proof. exact older_refusals_are_justified. Qed.
Check older_refusal_is_justified :
  forall shards progs sched fuel,
  Forall (Forall explicit_pos) progs ->
  justified_log (w_log (finish fuel (run (init_world shards progs) sched)))

(* the second permitted deviation is always justified: when a compare-and-swap is answered with the
   flagged "no swap" (the value it would find now equals the expected one), the key has been
   modified since that call read it -- its modification counter, which every accepted insert,
   replace and delete of the key bumps by one, is above the value the call saw at its read *).
Print Assumptions older_refusal_is_justified.

Theorem cas_refusal_is_justified :
  forall shards progs sched i,
  let w := run (init_world shards progs) sched in
  forall th k e n tso rest ts ex g v0 s' r cm,
  nth_error (w_th w) i = Some th -> t_ops th = OCas k e n tso :: rest -> t_pc th = PCGuard ts ex g v0 ->
  opstep (w_sh w) (OCas k e n tso) (PCGuard ts ex g v0) = (s', r, Some cm) -> c_dev cm = true ->
  v0 < kver (w_sh w) k

(* ... and every unit of that counter is an accepted, logged modification of the key by the thread
   that took the step; all other steps leave every table entry and every counter alone *).
Proof. exact cas_refusals_are_justified. Qed.
Check cas_refusal_is_justified :
  forall shards progs sched i,
  let w := run (init_world shards progs) sched in
  forall th k e n tso rest ts ex g v0 s' r cm,
  nth_error (w_th w) i = Some th -> t_ops th = OCas k e n tso :: rest -> t_pc th = PCGuard ts ex g v0 ->
  opstep (w_sh w) (OCas k e n tso) (PCGuard ts ex g v0) = (s', r, Some cm) -> c_dev cm = true ->
  v0 < kver (w_sh w) k

(* ... and every unit of that counter is an accepted, logged modification of the key by the thread
   that took the step; all other steps leave every table entry and every counter alone *).
Print Assumptions cas_refusal_is_justified.

Theorem modification_counter_counts_commits :
  forall s o p s' r c, opstep s o p = (s', r, c) ->
  (tbl s' = tbl s /\ ver s' = ver s) \/
  ((forall k, k <> key_of o -> aget k (tbl s') = aget k (tbl s) /\ kver s' k = kver s k) /\
   kver s' (key_of o) = kver s (key_of o) + 1 /\
   exists cm, c = Some cm /\ c_dev cm = false /\ c_op cm = o)

(* the history checker used on real executions is sound *).
Proof. exact opstep_tblver. Qed.
Check modification_counter_counts_commits :
  forall s o p s' r c, opstep s o p = (s', r, c) ->
  (tbl s' = tbl s /\ ver s' = ver s) \/
  ((forall k, k <> key_of o -> aget k (tbl s') = aget k (tbl s) /\ kver s' k = kver s k) /\
   kver s' (key_of o) = kver s (key_of o) + 1 /\
   exists cm, c = Some cm /\ c_dev cm = false /\ c_op cm = o)

(* the history checker used on real executions is sound *).
Print Assumptions modification_counter_counts_commits.

Theorem history_checker_sound :
  forall h, lin_check h = true ->
  exists w, Permutation (map item_hop w) h /\ rt_ok w /\ replay h [] w.
Proof. exact lin_check_sound. Qed.
Check history_checker_sound :
  forall h, lin_check h = true ->
  exists w, Permutation (map item_hop w) h /\ rt_ok w /\ replay h [] w.
Print Assumptions history_checker_sound.

Theorem dropped_calls_are_refusals :
  forall all x, justified all x = true ->
  h_resp x = ROlder \/ (h_resp x = RBool false /\ exists k e n t, h_op x = OCas k e n t).
Proof. exact dropped_is_refusal. Qed.
Check dropped_calls_are_refusals :
  forall all x, justified all x = true ->
  h_resp x = ROlder \/ (h_resp x = RBool false /\ exists k e n t, h_op x = OCas k e n t).
Print Assumptions dropped_calls_are_refusals.
(* non-vacuity: a lost-update race -- two increments read the same counter; the second commit
   re-validates, retries and still adds up *)
Example racing_increments_add_up :
  let w := finish 100 (run (init_world [(0, 3)] [[OIncr 0 1%Z None; OIncr 0 1%Z None]; [OIncr 0 5%Z None]]) [0%nat; 0%nat; 0%nat; 0%nat; 1%nat; 0%nat; 1%nat; 0%nat; 1%nat]) in
  option_map fst (abs (w_sh w) 0) = Some (VC 7%Z) /\ length (w_log w) = 3%nat.
Proof. vm_compute. split; reflexivity. Qed.
Example checker_rejects_a_lost_update :
  lin_check [mkh 1 (OIncr 0 1%Z None) 0 5 (RInt 1%Z); mkh 2 (OIncr 0 1%Z None) 1 4 (RInt 1%Z); mkh 3 (OGet 0) 6 7 (RVal (VC 1%Z))] = false.
Proof. vm_compute. reflexivity. Qed.
Example checker_accepts_the_serial_history :
  lin_check [mkh 1 (OIncr 0 1%Z None) 0 5 (RInt 1%Z); mkh 2 (OIncr 0 1%Z None) 1 4 (RInt 2%Z); mkh 3 (OGet 0) 6 7 (RVal (VC 2%Z))] = true.
Proof. vm_compute. reflexivity. Qed.
