(* C12 -- automatic versions strictly increase per key.  The clock rules are checked by the
   reference map on every observed shard value (auto_ok / observe / clocks_cover); here: what
   those rules imply, and the witness that the unrestricted statement is false (known finding F2:
   an accepted timestamp >= 2^64-2 saturates the shard). *)
From Coq Require Import List NArith ZArith Bool.
From Feox Require Import Gen.Constants Model.Bytes Model.Lww Proofs.LwwProofs.
Import ListNotations.
Local Open Scope N_scope.

(* an issued automatic timestamp exceeds everything its shard has seen, unless the shard is saturated *)
Theorem auto_exceeds_all_seen :
  forall last clk tb ta, auto_ok last clk tb ta = true -> last <> U64M -> last < clk

(* therefore: with the shard at or above the key's current timestamp and not saturated
   (not KnownClass), an automatically timestamped insert, delete, swap or patch is never answered Older *).
Proof. exact auto_exceeds. Qed.
Check auto_exceeds_all_seen :
  forall last clk tb ta, auto_ok last clk tb ta = true -> last <> U64M -> last < clk

(* therefore: with the shard at or above the key's current timestamp and not saturated
   (not KnownClass), an automatically timestamped insert, delete, swap or patch is never answered Older *).
Print Assumptions auto_exceeds_all_seen.

Theorem auto_never_rejected_as_older :
  forall c s e k old,
  find k (kv s) = Some old ->
  g_ts old <= clock_get (e_shard e) (clocks s) -> clock_get (e_shard e) (clocks s) <> U64M ->
  (forall v ttl api, snd (step c s (Insert k v None ttl api) e) <> OErr Older) /\
  snd (step c s (Delete k None) e) <> OErr Older /\
  (forall x v ttl, snd (step c s (Cas k x v None ttl) e) <> OErr Older) /\
  snd (step c s (JsonPatch k None) e) <> OErr Older

(* an explicit timestamp carried by a failing call is not absorbed into the clock *).
Proof. exact auto_never_older. Qed.
Check auto_never_rejected_as_older :
  forall c s e k old,
  find k (kv s) = Some old ->
  g_ts old <= clock_get (e_shard e) (clocks s) -> clock_get (e_shard e) (clocks s) <> U64M ->
  (forall v ttl api, snd (step c s (Insert k v None ttl api) e) <> OErr Older) /\
  snd (step c s (Delete k None) e) <> OErr Older /\
  (forall x v ttl, snd (step c s (Cas k x v None ttl) e) <> OErr Older) /\
  snd (step c s (JsonPatch k None) e) <> OErr Older

(* an explicit timestamp carried by a failing call is not absorbed into the clock *).
Print Assumptions auto_never_rejected_as_older.

Theorem failed_explicit_timestamp_not_absorbed :
  forall c s e k v t ttl api,
  t <> 0 -> is_err (snd (step c s (Insert k v (Some t) ttl api) e)) = true ->
  clocks (fst (step c s (Insert k v (Some t) ttl api) e)) = clocks s

(* the unrestricted statement is FALSE of the faithful model: witness (replayed on the real store
   by the check as known finding F2) *).
Proof. exact failed_explicit_not_absorbed. Qed.
Check failed_explicit_timestamp_not_absorbed :
  forall c s e k v t ttl api,
  t <> 0 -> is_err (snd (step c s (Insert k v (Some t) ttl api) e)) = true ->
  clocks (fst (step c s (Insert k v (Some t) ttl api) e)) = clocks s

(* the unrestricted statement is FALSE of the faithful model: witness (replayed on the real store
   by the check as known finding F2) *).
Print Assumptions failed_explicit_timestamp_not_absorbed.

Theorem unrestricted_statement_refuted :
  let c := mkcfg false false 3 None 168 in
  let a := [97] in let b := [98] in
  let e1 := mkenv 5 (U64M - 1) 1000 1001 0 None in
  let e2 := mkenv 5 U64M 1002 1003 0 None in
  let e3 := mkenv 5 U64M 1004 1005 0 None in
  let e4 := mkenv 5 U64M 1006 1007 0 None in
  let s1 := fst (step c init (Insert a [1] (Some (U64M - 1)) 0 false) e1) in
  let s2 := fst (step c s1 (Insert a [2] None 0 false) e2) in
  let s3 := fst (step c s2 (Insert b [3] None 0 false) e3) in
  snd (step c s3 (Insert b [4] None 0 false) e4) = OErr Older.
Proof. exact clock_saturation_refuted. Qed.
Check unrestricted_statement_refuted :
  let c := mkcfg false false 3 None 168 in
  let a := [97] in let b := [98] in
  let e1 := mkenv 5 (U64M - 1) 1000 1001 0 None in
  let e2 := mkenv 5 U64M 1002 1003 0 None in
  let e3 := mkenv 5 U64M 1004 1005 0 None in
  let e4 := mkenv 5 U64M 1006 1007 0 None in
  let s1 := fst (step c init (Insert a [1] (Some (U64M - 1)) 0 false) e1) in
  let s2 := fst (step c s1 (Insert a [2] None 0 false) e2) in
  let s3 := fst (step c s2 (Insert b [3] None 0 false) e3) in
  snd (step c s3 (Insert b [4] None 0 false) e4) = OErr Older.
Print Assumptions unrestricted_statement_refuted.
