(* C12 -- automatic versions strictly increase per key.  The clock rules are checked by the
   reference map on every observed shard value (auto_ok / observe / clocks_cover); here: what
   those rules imply, and the witness that the unrestricted statement is false (known finding F2:
   an accepted timestamp >= 2^64-2 saturates the shard). *)
From Coq Require Import List NArith ZArith Bool.
From Feox Require Import Gen.Constants Model.Bytes Model.Lww Proofs.LwwProofs.
From Feox Require Import Model.Clock Proofs.ClockProofs.
Import ListNotations.
Local Open Scope N_scope.

(* an issued automatic timestamp exceeds everything its shard has seen, unless the shard is saturated *)
Theorem auto_exceeds_all_seen :
  forall last clk tb ta, auto_ok last clk tb ta = true -> last <> U64M -> last < clk

(* therefore: with the shard at or above the key's current timestamp and not saturated
   (not KnownClass), an automatically timestamped insert, delete, swap or patch is never answered Older *).
Proof. exact auto_exceeds. Qed.
Check auto_exceeds_all_seen :
  forall last clk tb ta, auto_ok last clk tb ta = true -> last <> U64M -> last < clk

(* therefore: with the shard at or above the key's current timestamp and not saturated
   (not KnownClass), an automatically timestamped insert, delete, swap or patch is never answered Older *).
Print Assumptions auto_exceeds_all_seen.

Theorem auto_never_rejected_as_older :
  forall c s e k old,
  find k (kv s) = Some old ->
  g_ts old <= clock_get (e_shard e) (clocks s) -> clock_get (e_shard e) (clocks s) <> U64M ->
  (forall v ttl api, snd (step c s (Insert k v None ttl api) e) <> OErr Older) /\
  snd (step c s (Delete k None) e) <> OErr Older /\
  (forall x v ttl, snd (step c s (Cas k x v None ttl) e) <> OErr Older) /\
  snd (step c s (JsonPatch k None) e) <> OErr Older

(* an explicit timestamp carried by a failing call is not absorbed into the clock *).
Proof. exact auto_never_older. Qed.
Check auto_never_rejected_as_older :
  forall c s e k old,
  find k (kv s) = Some old ->
  g_ts old <= clock_get (e_shard e) (clocks s) -> clock_get (e_shard e) (clocks s) <> U64M ->
  (forall v ttl api, snd (step c s (Insert k v None ttl api) e) <> OErr Older) /\
  snd (step c s (Delete k None) e) <> OErr Older /\
  (forall x v ttl, snd (step c s (Cas k x v None ttl) e) <> OErr Older) /\
  snd (step c s (JsonPatch k None) e) <> OErr Older

(* an explicit timestamp carried by a failing call is not absorbed into the clock *).
Print Assumptions auto_never_rejected_as_older.

Theorem failed_explicit_timestamp_not_absorbed :
  forall c s e k v t ttl api,
  t <> 0 -> is_err (snd (step c s (Insert k v (Some t) ttl api) e)) = true ->
  clocks (fst (step c s (Insert k v (Some t) ttl api) e)) = clocks s

(* the unrestricted statement is FALSE of the faithful model: witness (replayed on the real store
   by the check as known finding F2) *).
Proof. exact failed_explicit_not_absorbed. Qed.
Check failed_explicit_timestamp_not_absorbed :
  forall c s e k v t ttl api,
  t <> 0 -> is_err (snd (step c s (Insert k v (Some t) ttl api) e)) = true ->
  clocks (fst (step c s (Insert k v (Some t) ttl api) e)) = clocks s

(* the unrestricted statement is FALSE of the faithful model: witness (replayed on the real store
   by the check as known finding F2) *).
Print Assumptions failed_explicit_timestamp_not_absorbed.

Theorem unrestricted_statement_refuted :
  let c := mkcfg false false 3 None 168 in
  let a := [97] in let b := [98] in
  let e1 := mkenv 5 (U64M - 1) 1000 1001 0 None in
  let e2 := mkenv 5 U64M 1002 1003 0 None in
  let e3 := mkenv 5 U64M 1004 1005 0 None in
  let e4 := mkenv 5 U64M 1006 1007 0 None in
  let s1 := fst (step c init (Insert a [1] (Some (U64M - 1)) 0 false) e1) in
  let s2 := fst (step c s1 (Insert a [2] None 0 false) e2) in
  let s3 := fst (step c s2 (Insert b [3] None 0 false) e3) in
  snd (step c s3 (Insert b [4] None 0 false) e4) = OErr Older

(* --- one shard of VersionClock under concurrency (Model/Clock.v): any number of threads inside
   next / observe, every atomic access its own step, weak compare-exchange failures included --- *)

(* the shard never goes back *).
Proof. exact clock_saturation_refuted. Qed.
Check unrestricted_statement_refuted :
  let c := mkcfg false false 3 None 168 in
  let a := [97] in let b := [98] in
  let e1 := mkenv 5 (U64M - 1) 1000 1001 0 None in
  let e2 := mkenv 5 U64M 1002 1003 0 None in
  let e3 := mkenv 5 U64M 1004 1005 0 None in
  let e4 := mkenv 5 U64M 1006 1007 0 None in
  let s1 := fst (step c init (Insert a [1] (Some (U64M - 1)) 0 false) e1) in
  let s2 := fst (step c s1 (Insert a [2] None 0 false) e2) in
  let s3 := fst (step c s2 (Insert b [3] None 0 false) e3) in
  snd (step c s3 (Insert b [4] None 0 false) e4) = OErr Older

(* --- one shard of VersionClock under concurrency (Model/Clock.v): any number of threads inside
   next / observe, every atomic access its own step, weak compare-exchange failures included --- *)

(* the shard never goes back *).
Print Assumptions unrestricted_statement_refuted.

Theorem shard_value_never_decreases :
  forall es s, KInv s -> k_shard s <= k_shard (krun s es)

(* a timestamp handed out by next is at least the caller's wall clock and exceeds every timestamp
   handed out earlier on the shard and every timestamp whose observe had returned earlier, unless
   it is 2^64-1 (saturation: KnownClass of finding F2) *).
Proof. exact krun_mono. Qed.
Check shard_value_never_decreases :
  forall es s, KInv s -> k_shard s <= k_shard (krun s es)

(* a timestamp handed out by next is at least the caller's wall clock and exceeds every timestamp
   handed out earlier on the shard and every timestamp whose observe had returned earlier, unless
   it is 2^64-1 (saturation: KnownClass of finding F2) *).
Print Assumptions shard_value_never_decreases.

Theorem issued_timestamp_exceeds_everything_before :
  forall v es l1 t w r b l2 m,
    k_line (krun (kinit v) es) = l1 ++ MNext t w r b :: l2 -> In m l2 ->
    clamp w = w /\ w <= r /\ (mval m < r \/ r = U64M)

(* once observe(ts) has returned, the shard covers ts for ever (recovery and explicit timestamps
   are folded in through observe) *).
Proof. exact issued_exceeds_everything_before. Qed.
Check issued_timestamp_exceeds_everything_before :
  forall v es l1 t w r b l2 m,
    k_line (krun (kinit v) es) = l1 ++ MNext t w r b :: l2 -> In m l2 ->
    clamp w = w /\ w <= r /\ (mval m < r \/ r = U64M)

(* once observe(ts) has returned, the shard covers ts for ever (recovery and explicit timestamps
   are folded in through observe) *).
Print Assumptions issued_timestamp_exceeds_everything_before.

Theorem observed_timestamp_stays_covered :
  forall v es t ts,
    In (MObs t ts) (k_line (krun (kinit v) es)) -> ts <> U64M -> ts <= k_shard (krun (kinit v) es)

(* run alone, next and observe are the clock rules of the reference map -- the rules the
   sequence engines compare with the real shard after every call *).
Proof. exact observed_is_covered. Qed.
Check observed_timestamp_stays_covered :
  forall v es t ts,
    In (MObs t ts) (k_line (krun (kinit v) es)) -> ts <> U64M -> ts <= k_shard (krun (kinit v) es)

(* run alone, next and observe are the clock rules of the reference map -- the rules the
   sequence engines compare with the real shard after every call *).
Print Assumptions observed_timestamp_stays_covered.

Theorem next_alone_obeys_the_reference_rule :
  forall s t wall tb ta,
    KInv s -> tb <= clamp wall -> clamp wall <= ta ->
    k_shard (next_alone s t wall) = next_val (clamp wall) (k_shard s) /\
    auto_ok (k_shard s) (k_shard (next_alone s t wall)) tb ta = true.
Proof. exact next_alone_is_auto_ok. Qed.
Check next_alone_obeys_the_reference_rule :
  forall s t wall tb ta,
    KInv s -> tb <= clamp wall -> clamp wall <= ta ->
    k_shard (next_alone s t wall) = next_val (clamp wall) (k_shard s) /\
    auto_ok (k_shard s) (k_shard (next_alone s t wall)) tb ta = true.
Print Assumptions next_alone_obeys_the_reference_rule.

Theorem observe_alone_is_the_reference_rule :
  forall s t ts, KInv s -> k_shard (observe_alone s t ts) = observe (k_shard s) (clamp ts)

(* and the mechanism of F2 inside this model: at 2^64-1 two automatic timestamps in a row are equal *).
Proof. exact observe_alone_is_observe. Qed.
Check observe_alone_is_the_reference_rule :
  forall s t ts, KInv s -> k_shard (observe_alone s t ts) = observe (k_shard s) (clamp ts)

(* and the mechanism of F2 inside this model: at 2^64-1 two automatic timestamps in a row are equal *).
Print Assumptions observe_alone_is_the_reference_rule.

Theorem saturated_shard_repeats_a_timestamp :
  exists v es t1 w1 b1 t2 w2 b2,
    k_line (krun (kinit v) es) = [MNext t2 w2 U64M b2; MNext t1 w1 U64M b1].
Proof. exact saturated_shard_repeats. Qed.
Check saturated_shard_repeats_a_timestamp :
  exists v es t1 w1 b1 t2 w2 b2,
    k_line (krun (kinit v) es) = [MNext t2 w2 U64M b2; MNext t1 w1 U64M b1].
Print Assumptions saturated_shard_repeats_a_timestamp.
(* non-vacuity: three threads racing on one shard; the loser of a compare-exchange retries with the
   value it saw and still gets a larger timestamp *)
Example clock_race :
  let es := [KNextLoad 1 50; KNextLoad 2 40; KObsLoad 3 70; KNextCas 1 false; KNextCas 2 false;
             KObsCas 3 false; KObsCas 3 false; KNextCas 2 true; KNextCas 2 false] in
  k_line (krun (kinit 10) es) = [MNext 2 40 71 70; MObs 3 70; MNext 1 50 50 10]
  /\ k_shard (krun (kinit 10) es) = 71 /\ KInv (kinit 10).
Proof. split; [vm_compute; reflexivity|]. split; [vm_compute; reflexivity|apply kinit_inv]. Qed.
