(* C04 -- recovery is idempotent, restartable and never discards a live record.
   Over the abstract device of Model/Device.v: recovery's own repair writes (journal replay =
   re-marking the extents of an active journal, then clearing it) and its post-scan retirements
   (losers, expired winners = a retirement transaction of the ordinary protocol). *)
From Coq Require Import List NArith Bool.
From Feox Require Import Model.Device Proofs.CrashProofs.
Import ListNotations.
Local Open Scope N_scope.

(* Starting from any disk on which recovery selects an ACTIVE journal (every crash image of the
   protocol with the active slot durable is one), with `seen` = what the scan sees:
   - every crash image (any subset / tearing) of the marker writes recovers to the same `seen`;
   - every crash image around the final journal clear recovers to the same `seen`;
   - the completed repair recovers to the same `seen` (idempotent);
   - the repair writes only cells that are markers in `seen`: it touches no live record. *)
Theorem replay_idempotent_restartable :
  forall d c g exts,
  replay_start d c g exts ->
  let seen := wipe exts (cells d) in
  recover d = Some seen /\
  (forall d', crash_image (replay_stage1 d exts) d' -> recover d' = Some seen) /\
  (forall d', crash_image (replay_stage2 d c g exts) d' -> recover d' = Some seen) /\
  recover (replay_done d c g exts) = Some seen /\
  (forall i, In i exts -> (i < length (cells d))%nat -> nth i seen CZero = CMarker)

(* post-scan retirement of losers / superseded generations is an admissible transaction, hence by
   crash_atomic every crash inside it leaves the logical contents unchanged ... *).
Proof. exact replay_restartable. Qed.
Check replay_idempotent_restartable :
  forall d c g exts,
  replay_start d c g exts ->
  let seen := wipe exts (cells d) in
  recover d = Some seen /\
  (forall d', crash_image (replay_stage1 d exts) d' -> recover d' = Some seen) /\
  (forall d', crash_image (replay_stage2 d c g exts) d' -> recover d' = Some seen) /\
  recover (replay_done d c g exts) = Some seen /\
  (forall i, In i exts -> (i < length (cells d))%nat -> nth i seen CZero = CMarker)

(* post-scan retirement of losers / superseded generations is an admissible transaction, hence by
   crash_atomic every crash inside it leaves the logical contents unchanged ... *).
Print Assumptions replay_idempotent_restartable.

Theorem loser_retirement_admissible :
  forall (exts : list nat) (c0 : list cell),
  NoDup exts ->
  (forall i, In i exts -> (i < length c0)%nat) ->
  (forall i g, In i exts -> nth i c0 CZero = CGen g ->
     exists j g', ~ In j exts /\ nth j c0 CZero = CGen g' /\ gk g' = gk g /\ gts g < gts g') ->
  txn_ok (mktxn exts (map (fun i => (i, CMarker)) exts)) c0.
Proof. exact retire_ok. Qed.
Check loser_retirement_admissible :
  forall (exts : list nat) (c0 : list cell),
  NoDup exts ->
  (forall i, In i exts -> (i < length c0)%nat) ->
  (forall i g, In i exts -> nth i c0 CZero = CGen g ->
     exists j g', ~ In j exts /\ nth j c0 CZero = CGen g' /\ gk g' = gk g /\ gts g < gts g') ->
  txn_ok (mktxn exts (map (fun i => (i, CMarker)) exts)) c0.
Print Assumptions loser_retirement_admissible.

Theorem crash_inside_retirement_changes_nothing :
  forall s d,
  PInv s -> crash_image (dv s) d ->
  exists seen, recover d = Some seen /\
    ((forall k, contents seen k = before s k) \/ (forall k, contents seen k = after s k)).
Proof. exact crash_atomic. Qed.
Check crash_inside_retirement_changes_nothing :
  forall s d,
  PInv s -> crash_image (dv s) d ->
  exists seen, recover d = Some seen /\
    ((forall k, contents seen k = before s k) \/ (forall k, contents seen k = after s k)).
Print Assumptions crash_inside_retirement_changes_nothing.
(* non-vacuity: a crashed disk with an active journal over a torn cell *)
Example replay_example :
  replay_start (mkdisk (SValid 4 JClear) (SValid 5 (JActive [1%nat])) [CGen (mkgen 7 100 1); CJunk; CMarker]) true 5 [1%nat].
Proof. repeat split; simpl; auto. Qed.
