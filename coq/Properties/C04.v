(* C04 -- recovery is idempotent, restartable and never discards a live record.
   Over the abstract device of Model/Device.v: recovery's own repair writes (journal replay =
   re-marking the extents of an active journal, then clearing it) and its post-scan retirements
   (losers, expired winners = a retirement transaction of the ordinary protocol). *)
From Coq Require Import List NArith Bool.
From Feox Require Import Model.Device Proofs.CrashProofs.
From Feox Require Gen.Constants Model.Bytes Model.Codec Model.FreeSpace Model.MetaJournal Model.Recovery Proofs.ScanAcceptsProofs Proofs.ScanQuiescentProofs.
From Feox Require Proofs.ReplayRollbackProofs.
Import ListNotations.
Local Open Scope N_scope.

(* Starting from any disk on which recovery selects an ACTIVE journal (every crash image of the
   protocol with the active slot durable is one), with `seen` = what the scan sees:
   - every crash image (any subset / tearing) of the marker writes recovers to the same `seen`;
   - every crash image around the final journal clear recovers to the same `seen`;
   - the completed repair recovers to the same `seen` (idempotent);
   - the repair writes only cells that are markers in `seen`: it touches no live record. *)
Theorem replay_idempotent_restartable :
  forall d c g exts,
  replay_start d c g exts ->
  let seen := wipe exts (cells d) in
  recover d = Some seen /\
  (forall d', crash_image (replay_stage1 d exts) d' -> recover d' = Some seen) /\
  (forall d', crash_image (replay_stage2 d c g exts) d' -> recover d' = Some seen) /\
  recover (replay_done d c g exts) = Some seen /\
  (forall i, In i exts -> (i < length (cells d))%nat -> nth i seen CZero = CMarker)

(* post-scan retirement of losers / superseded generations is an admissible transaction, hence by
   crash_atomic every crash inside it leaves the logical contents unchanged ... *).
Proof. exact replay_restartable. Qed.
Check replay_idempotent_restartable :
  forall d c g exts,
  replay_start d c g exts ->
  let seen := wipe exts (cells d) in
  recover d = Some seen /\
  (forall d', crash_image (replay_stage1 d exts) d' -> recover d' = Some seen) /\
  (forall d', crash_image (replay_stage2 d c g exts) d' -> recover d' = Some seen) /\
  recover (replay_done d c g exts) = Some seen /\
  (forall i, In i exts -> (i < length (cells d))%nat -> nth i seen CZero = CMarker)

(* post-scan retirement of losers / superseded generations is an admissible transaction, hence by
   crash_atomic every crash inside it leaves the logical contents unchanged ... *).
Print Assumptions replay_idempotent_restartable.

Theorem loser_retirement_admissible :
  forall (exts : list nat) (c0 : list cell),
  NoDup exts ->
  (forall i, In i exts -> (i < length c0)%nat) ->
  (forall i g, In i exts -> nth i c0 CZero = CGen g ->
     exists j g', ~ In j exts /\ nth j c0 CZero = CGen g' /\ gk g' = gk g /\ gts g < gts g') ->
  txn_ok (mktxn exts (map (fun i => (i, CMarker)) exts)) c0.
Proof. exact retire_ok. Qed.
Check loser_retirement_admissible :
  forall (exts : list nat) (c0 : list cell),
  NoDup exts ->
  (forall i, In i exts -> (i < length c0)%nat) ->
  (forall i g, In i exts -> nth i c0 CZero = CGen g ->
     exists j g', ~ In j exts /\ nth j c0 CZero = CGen g' /\ gk g' = gk g /\ gts g < gts g') ->
  txn_ok (mktxn exts (map (fun i => (i, CMarker)) exts)) c0.
Print Assumptions loser_retirement_admissible.

Theorem crash_inside_retirement_changes_nothing :
  forall s d,
  PInv s -> crash_image (dv s) d ->
  exists seen, recover d = Some seen /\
    ((forall k, contents seen k = before s k) \/ (forall k, contents seen k = after s k))

(* ---- at the byte level, files at rest (Model/Recovery.v): open_image on a file whose metadata
   decodes, whose journal is clear and whose data area is any quiescent layout writes nothing, so
   opening it again -- any number of times -- gives the same answer ---- *).
Proof. exact crash_atomic. Qed.
Check crash_inside_retirement_changes_nothing :
  forall s d,
  PInv s -> crash_image (dv s) d ->
  exists seen, recover d = Some seen /\
    ((forall k, contents seen k = before s k) \/ (forall k, contents seen k = after s k))

(* ---- at the byte level, files at rest (Model/Recovery.v): open_image on a file whose metadata
   decodes, whose journal is clear and whose data area is any quiescent layout writes nothing, so
   opening it again -- any number of times -- gives the same answer ---- *).
Print Assumptions crash_inside_retirement_changes_nothing.

Theorem reopening_a_file_at_rest_changes_nothing :
  forall c img m jgen jslot its n,
  Recovery.c_ro c = false -> Recovery.c_now c = None ->
  (17 <= length img)%nat ->
  let total := N.of_nat (length img) in
  let mb := if MetaJournal.select_meta (Recovery.nth_block img 0) (Recovery.nth_block img (N.to_nat Constants.FEOX_METADATA_BACKUP_BLOCK))
            then Recovery.nth_block img (N.to_nat Constants.FEOX_METADATA_BACKUP_BLOCK) else Recovery.nth_block img 0 in
  Bytes.list_eqb (firstn 8 mb) MetaJournal.SIGNATURE = true -> MetaJournal.decode_meta mb = Some m ->
  Codec.has_token (MetaJournal.m_version m) = true ->
  MetaJournal.decode_journal (Recovery.slot_bytes img 0) (Recovery.slot_bytes img 1) total = Some (jgen, jslot, []) ->
  total * Constants.FEOX_BLOCK_SIZE < FreeSpace.U64 ->
  Forall (ScanQuiescentProofs.item_ok (MetaJournal.m_version m)) its ->
  ScanAcceptsProofs.distinct_keys (ScanQuiescentProofs.recs_of its) ->
  skipn (N.to_nat Constants.FEOX_DATA_START_BLOCK) img =
    ScanQuiescentProofs.ilayout (MetaJournal.m_version m) Constants.FEOX_DATA_START_BLOCK its ->
  ScanQuiescentProofs.reopen c n img = Recovery.open_image c img /\ snd (Recovery.open_image c img) = img.
Proof. exact ScanQuiescentProofs.reopening_a_quiescent_file_changes_nothing. Qed.
Check reopening_a_file_at_rest_changes_nothing :
  forall c img m jgen jslot its n,
  Recovery.c_ro c = false -> Recovery.c_now c = None ->
  (17 <= length img)%nat ->
  let total := N.of_nat (length img) in
  let mb := if MetaJournal.select_meta (Recovery.nth_block img 0) (Recovery.nth_block img (N.to_nat Constants.FEOX_METADATA_BACKUP_BLOCK))
            then Recovery.nth_block img (N.to_nat Constants.FEOX_METADATA_BACKUP_BLOCK) else Recovery.nth_block img 0 in
  Bytes.list_eqb (firstn 8 mb) MetaJournal.SIGNATURE = true -> MetaJournal.decode_meta mb = Some m ->
  Codec.has_token (MetaJournal.m_version m) = true ->
  MetaJournal.decode_journal (Recovery.slot_bytes img 0) (Recovery.slot_bytes img 1) total = Some (jgen, jslot, []) ->
  total * Constants.FEOX_BLOCK_SIZE < FreeSpace.U64 ->
  Forall (ScanQuiescentProofs.item_ok (MetaJournal.m_version m)) its ->
  ScanAcceptsProofs.distinct_keys (ScanQuiescentProofs.recs_of its) ->
  skipn (N.to_nat Constants.FEOX_DATA_START_BLOCK) img =
    ScanQuiescentProofs.ilayout (MetaJournal.m_version m) Constants.FEOX_DATA_START_BLOCK its ->
  ScanQuiescentProofs.reopen c n img = Recovery.open_image c img /\ snd (Recovery.open_image c img) = img.
Print Assumptions reopening_a_file_at_rest_changes_nothing.
(* non-vacuity: a crashed disk with an active journal over a torn cell *)
Example replay_example :
  replay_start (mkdisk (SValid 4 JClear) (SValid 5 (JActive [1%nat])) [CGen (mkgen 7 100 1); CJunk; CMarker]) true 5 [1%nat].
Proof. repeat split; simpl; auto. Qed.

(* ---- the same for a crash inside a write batch (Proofs/ReplayRollbackProofs.v): a file at rest
   whose journal is ACTIVE and names one record's extent.  The first open replays the journal and
   leaves a file at rest behind (C03: crashed_batch_is_rolled_back); opening THAT file again -- any
   number of times -- writes nothing and gives the same answer: its metadata copies are where they
   were, its journal decodes to clear (the CLEAR record of generation + 1 in the other slot wins
   over the ACTIVE one), its data area is a quiescent layout ---- *)

Theorem recovery_from_a_crashed_batch_is_idempotent :
  forall c img m jgen jslot its1 r its2 k,
  Recovery.c_ro c = false -> Recovery.c_now c = None ->
  (17 <= length img)%nat ->
  let total := N.of_nat (length img) in
  let mb := if MetaJournal.select_meta (Recovery.nth_block img 0) (Recovery.nth_block img (N.to_nat Constants.FEOX_METADATA_BACKUP_BLOCK))
            then Recovery.nth_block img (N.to_nat Constants.FEOX_METADATA_BACKUP_BLOCK) else Recovery.nth_block img 0 in
  let v := MetaJournal.m_version m in
  let s := Constants.FEOX_DATA_START_BLOCK + ScanQuiescentProofs.isum v its1 in
  let n := ScanAcceptsProofs.need_of v r in
  Bytes.list_eqb (firstn 8 mb) MetaJournal.SIGNATURE = true -> MetaJournal.decode_meta mb = Some m -> Codec.has_token v = true ->
  MetaJournal.decode_journal (Recovery.slot_bytes img 0) (Recovery.slot_bytes img 1) total = Some (jgen, jslot, [(s, n)]) ->
  jgen < Recovery.U64MAX ->
  total * Constants.FEOX_BLOCK_SIZE < FreeSpace.U64 ->
  Forall (ScanQuiescentProofs.item_ok v) (its1 ++ ScanQuiescentProofs.IRec r :: its2) -> ScanAcceptsProofs.distinct_keys (ScanQuiescentProofs.recs_of (its1 ++ its2)) ->
  skipn (N.to_nat Constants.FEOX_DATA_START_BLOCK) img = ScanQuiescentProofs.ilayout v Constants.FEOX_DATA_START_BLOCK (its1 ++ ScanQuiescentProofs.IRec r :: its2) ->
  let img' := snd (Recovery.open_image c img) in
  ScanQuiescentProofs.reopen c k img' = Recovery.open_image c img' /\ snd (Recovery.open_image c img') = img'.
Proof. exact ReplayRollbackProofs.recovery_from_a_crashed_batch_is_idempotent. Qed.
Check recovery_from_a_crashed_batch_is_idempotent :
  forall c img m jgen jslot its1 r its2 k,
  Recovery.c_ro c = false -> Recovery.c_now c = None ->
  (17 <= length img)%nat ->
  let total := N.of_nat (length img) in
  let mb := if MetaJournal.select_meta (Recovery.nth_block img 0) (Recovery.nth_block img (N.to_nat Constants.FEOX_METADATA_BACKUP_BLOCK))
            then Recovery.nth_block img (N.to_nat Constants.FEOX_METADATA_BACKUP_BLOCK) else Recovery.nth_block img 0 in
  let v := MetaJournal.m_version m in
  let s := Constants.FEOX_DATA_START_BLOCK + ScanQuiescentProofs.isum v its1 in
  let n := ScanAcceptsProofs.need_of v r in
  Bytes.list_eqb (firstn 8 mb) MetaJournal.SIGNATURE = true -> MetaJournal.decode_meta mb = Some m -> Codec.has_token v = true ->
  MetaJournal.decode_journal (Recovery.slot_bytes img 0) (Recovery.slot_bytes img 1) total = Some (jgen, jslot, [(s, n)]) ->
  jgen < Recovery.U64MAX ->
  total * Constants.FEOX_BLOCK_SIZE < FreeSpace.U64 ->
  Forall (ScanQuiescentProofs.item_ok v) (its1 ++ ScanQuiescentProofs.IRec r :: its2) -> ScanAcceptsProofs.distinct_keys (ScanQuiescentProofs.recs_of (its1 ++ its2)) ->
  skipn (N.to_nat Constants.FEOX_DATA_START_BLOCK) img = ScanQuiescentProofs.ilayout v Constants.FEOX_DATA_START_BLOCK (its1 ++ ScanQuiescentProofs.IRec r :: its2) ->
  let img' := snd (Recovery.open_image c img) in
  ScanQuiescentProofs.reopen c k img' = Recovery.open_image c img' /\ snd (Recovery.open_image c img') = img'.
Print Assumptions recovery_from_a_crashed_batch_is_idempotent.
(* non-vacuity: the 20-block file of C03's example a_crashed_batch (free block, a two-block record
   named by an ACTIVE journal record, a one-block record): opened, and the result opened twice more *)
Example a_crashed_batch_reopened :
  let r1 := Codec.mkrec [107; 49] (repeat 7 5000) 11 0 in
  let r2 := Codec.mkrec [107; 50] [1; 2; 3] 12 99 in
  let m := MetaJournal.mkmeta 3 2 5033 (20 * 4096) 4096 0 1 2 4 (repeat 0 48) in
  let z := repeat 0 Codec.BLOCK in
  let j := MetaJournal.encode_journal 5 Constants.JOURNAL_ACTIVE [(17, 2)] in
  let jb := Recovery.chunk_blocks (j ++ Bytes.zeros (3 * Codec.BLOCK - length j)) 3 in
  let img := [MetaJournal.meta_block m] ++ jb ++ [z; z; z; MetaJournal.meta_block m; z; z; z; z; z; z; z; z]
             ++ ScanQuiescentProofs.ilayout 3 16 ([ScanQuiescentProofs.IFree] ++ ScanQuiescentProofs.IRec r1 :: [ScanQuiescentProofs.IRec r2]) in
  let c := Recovery.mkcfg false false None 168 in
  let img' := snd (Recovery.open_image c img) in
  img' <> img /\
  ScanQuiescentProofs.reopen c 2 img' = Recovery.open_image c img' /\ snd (Recovery.open_image c img') = img' /\
  MetaJournal.decode_journal (Recovery.slot_bytes img' 0) (Recovery.slot_bytes img' 1) 20 = Some (6, 1, []).
Proof.
  vm_compute. split; [discriminate|]. repeat split; reflexivity.
Qed.
