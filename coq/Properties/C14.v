(* C14 -- range queries return exactly the live keys in range, ordered, with current values
   (sequential part).  range_spec = the live (present, unexpired) bindings inside the inclusive
   bounds, in ascending byte order; the query returns its first `limit` elements. *)
From Coq Require Import List NArith ZArith Bool.
From Feox Require Import Gen.Constants Model.Bytes Model.Lww Proofs.LwwProofs.
Import ListNotations.
Local Open Scope N_scope.

Theorem range_query_exact :
  forall c l a b tb ta, sorted l ->
  (forall k g, In (k, g) l -> expired c g tb ta <> Unknown) ->
  forall lim, range_collect c l a b lim tb ta = Some (firstn lim (range_spec c l a b tb ta))

(* every returned pair is a genuine, unexpired binding of that key inside the bounds *).
Proof. exact range_exact. Qed.
Check range_query_exact :
  forall c l a b tb ta, sorted l ->
  (forall k g, In (k, g) l -> expired c g tb ta <> Unknown) ->
  forall lim, range_collect c l a b lim tb ta = Some (firstn lim (range_spec c l a b tb ta))

(* every returned pair is a genuine, unexpired binding of that key inside the bounds *).
Print Assumptions range_query_exact.

Theorem range_results_genuine :
  forall c l a b tb ta k v, In (k, v) (range_spec c l a b tb ta) ->
  in_range a b k = true /\ exists g, In (k, g) l /\ v = g_val g /\ expired c g tb ta = No.
Proof. exact range_spec_in. Qed.
Check range_results_genuine :
  forall c l a b tb ta k v, In (k, v) (range_spec c l a b tb ta) ->
  in_range a b k = true /\ exists g, In (k, g) l /\ v = g_val g /\ expired c g tb ta = No.
Print Assumptions range_results_genuine.
Example range_example :
  let c := mkcfg false false 3 None 168 in
  let e := mkenv 0 0 10 11 0 None in
  let s1 := fst (step c init (Insert [2] [7] (Some 5) 0 false) e) in
  let s2 := fst (step c s1 (Insert [1] [8] (Some 5) 0 false) e) in
  let s3 := fst (step c s2 (Insert [3] [9] (Some 5) 0 false) e) in
  snd (step c s3 (Range [1] [2] 10) e) = OPairs [([1], [8]); ([2], [7])] /\
  snd (step c s3 (Range [3] [1] 10) e) = OPairs [] /\
  snd (step c s3 (Range [] [9] 2) e) = OPairs [([1], [8]); ([2], [7])].
Proof. vm_compute. repeat split; reflexivity. Qed.
