(* C14 -- range queries return exactly the live keys in range, ordered, with current values
   (sequential part).  range_spec = the live (present, unexpired) bindings inside the inclusive
   bounds, in ascending byte order; the query returns its first `limit` elements. *)
From Coq Require Import List NArith ZArith Bool.
From Feox Require Import Gen.Constants Model.Bytes Model.Lww Proofs.LwwProofs.
From Feox Require Model.Sched Model.Scan Proofs.ScanProofs.
Import ListNotations.
Local Open Scope N_scope.

Theorem range_query_exact :
  forall c l a b tb ta, sorted l ->
  (forall k g, In (k, g) l -> expired c g tb ta <> Unknown) ->
  forall lim, range_collect c l a b lim tb ta = Some (firstn lim (range_spec c l a b tb ta))

(* every returned pair is a genuine, unexpired binding of that key inside the bounds *).
Proof. exact range_exact. Qed.
Check range_query_exact :
  forall c l a b tb ta, sorted l ->
  (forall k g, In (k, g) l -> expired c g tb ta <> Unknown) ->
  forall lim, range_collect c l a b lim tb ta = Some (firstn lim (range_spec c l a b tb ta))

(* every returned pair is a genuine, unexpired binding of that key inside the bounds *).
Print Assumptions range_query_exact.

Theorem range_results_genuine :
  forall c l a b tb ta k v, In (k, v) (range_spec c l a b tb ta) ->
  in_range a b k = true /\ exists g, In (k, g) l /\ v = g_val g /\ expired c g tb ta = No
(* ---- concurrent clauses (Model/Scan.v): a scan racing with writers; every schedule ---- *)

(* the result, finished or not, is strictly ascending (hence no key twice), inside the bounds and
   within the limit *).
Proof. exact range_spec_in. Qed.
Check range_results_genuine :
  forall c l a b tb ta k v, In (k, v) (range_spec c l a b tb ta) ->
  in_range a b k = true /\ exists g, In (k, g) l /\ v = g_val g /\ expired c g tb ta = No
(* ---- concurrent clauses (Model/Scan.v): a scan racing with writers; every schedule ---- *)

(* the result, finished or not, is strictly ascending (hence no key twice), inside the bounds and
   within the limit *).
Print Assumptions range_results_genuine.

Theorem scan_result_sorted_bounded_limited :
  forall a b limit es,
  let w := Scan.wrun a b limit Scan.winit es in
  Scan.ascending (Scan.w_out w) = true /\
  (forall k, In k (ScanProofs.keys (Scan.w_out w)) -> a <= k /\ k <= b) /\
  (length (Scan.w_out w) <= limit)%nat

(* every returned value was written to its key *).
Proof. exact ScanProofs.scan_result_sorted_bounded_limited. Qed.
Check scan_result_sorted_bounded_limited :
  forall a b limit es,
  let w := Scan.wrun a b limit Scan.winit es in
  Scan.ascending (Scan.w_out w) = true /\
  (forall k, In k (ScanProofs.keys (Scan.w_out w)) -> a <= k /\ k <= b) /\
  (length (Scan.w_out w) <= limit)%nat

(* every returned value was written to its key *).
Print Assumptions scan_result_sorted_bounded_limited.

Theorem scan_values_are_genuine :
  forall a b limit es k v,
  In (k, v) (Scan.w_out (Scan.wrun a b limit Scan.winit es)) -> In (k, v) (Scan.w_hist (Scan.wrun a b limit Scan.winit es))

(* a key inside the bounds that stays linked, untouched and visible from before the scan's first
   step is in the result of the finished scan with its value, unless the limit cut the scan short,
   whatever happens to the other keys meanwhile *).
Proof. exact ScanProofs.scan_values_are_genuine. Qed.
Check scan_values_are_genuine :
  forall a b limit es k v,
  In (k, v) (Scan.w_out (Scan.wrun a b limit Scan.winit es)) -> In (k, v) (Scan.w_hist (Scan.wrun a b limit Scan.winit es))

(* a key inside the bounds that stays linked, untouched and visible from before the scan's first
   step is in the result of the finished scan with its value, unless the limit cut the scan short,
   whatever happens to the other keys meanwhile *).
Print Assumptions scan_values_are_genuine.

Theorem stable_key_is_returned :
  forall a b limit pre post k0 n0 v0,
  forallb (fun e => negb (Scan.is_scan e)) pre = true ->
  let w1 := Scan.wrun a b limit Scan.winit pre in
  Sched.aget k0 (Scan.w_idx w1) = Some n0 -> Sched.aget n0 (Scan.w_slot w1) = Some (Scan.mkcell v0 true) ->
  forallb (fun e => negb (Scan.touches k0 e)) post = true ->
  let w2 := Scan.wrun a b limit w1 post in
  Scan.w_pos w2 = Scan.PEnd -> (length (Scan.w_out w2) < limit)%nat -> a <= k0 -> k0 <= b ->
  In (k0, v0) (Scan.w_out w2)

(* a key that is not linked when the scan starts (never written, or deleted beforehand) and is not
   written while it runs is not in the result *).
Proof. exact ScanProofs.stable_key_is_returned. Qed.
Check stable_key_is_returned :
  forall a b limit pre post k0 n0 v0,
  forallb (fun e => negb (Scan.is_scan e)) pre = true ->
  let w1 := Scan.wrun a b limit Scan.winit pre in
  Sched.aget k0 (Scan.w_idx w1) = Some n0 -> Sched.aget n0 (Scan.w_slot w1) = Some (Scan.mkcell v0 true) ->
  forallb (fun e => negb (Scan.touches k0 e)) post = true ->
  let w2 := Scan.wrun a b limit w1 post in
  Scan.w_pos w2 = Scan.PEnd -> (length (Scan.w_out w2) < limit)%nat -> a <= k0 -> k0 <= b ->
  In (k0, v0) (Scan.w_out w2)

(* a key that is not linked when the scan starts (never written, or deleted beforehand) and is not
   written while it runs is not in the result *).
Print Assumptions stable_key_is_returned.

Theorem absent_key_is_not_returned :
  forall a b limit pre post k0,
  forallb (fun e => negb (Scan.is_scan e)) pre = true ->
  let w1 := Scan.wrun a b limit Scan.winit pre in
  Sched.aget k0 (Scan.w_idx w1) = None ->
  forallb (fun e => negb (Scan.touches k0 e)) post = true ->
  ~ In k0 (ScanProofs.keys (Scan.w_out (Scan.wrun a b limit w1 post))).
Proof. exact ScanProofs.absent_key_is_not_returned. Qed.
Check absent_key_is_not_returned :
  forall a b limit pre post k0,
  forallb (fun e => negb (Scan.is_scan e)) pre = true ->
  let w1 := Scan.wrun a b limit Scan.winit pre in
  Sched.aget k0 (Scan.w_idx w1) = None ->
  forallb (fun e => negb (Scan.touches k0 e)) post = true ->
  ~ In k0 (ScanProofs.keys (Scan.w_out (Scan.wrun a b limit w1 post))).
Print Assumptions absent_key_is_not_returned.
Example range_example :
  let c := mkcfg false false 3 None 168 in
  let e := mkenv 0 0 10 11 0 None in
  let s1 := fst (step c init (Insert [2] [7] (Some 5) 0 false) e) in
  let s2 := fst (step c s1 (Insert [1] [8] (Some 5) 0 false) e) in
  let s3 := fst (step c s2 (Insert [3] [9] (Some 5) 0 false) e) in
  snd (step c s3 (Range [1] [2] 10) e) = OPairs [([1], [8]); ([2], [7])] /\
  snd (step c s3 (Range [3] [1] 10) e) = OPairs [] /\
  snd (step c s3 (Range [] [9] 2) e) = OPairs [([1], [8]); ([2], [7])].
Proof. vm_compute. repeat split; reflexivity. Qed.

(* non-vacuity of the concurrent clauses: keys 10, 20, 30 are written, the scan starts, 20 is
   deleted and re-created and 15 and 25 are inserted while it runs; 10 and 30, untouched, are
   returned, in order, and the scan ends *)
Example scan_under_churn :
  let pre := [Scan.MPut 10 1 true; Scan.MPut 20 2 true; Scan.MPut 30 3 true] in
  let post := [Scan.SStep; Scan.MDel 20; Scan.SStep; Scan.MPut 25 9 true; Scan.SStep; Scan.MPut 20 7 true; Scan.MPut 15 8 true;
               Scan.SStep; Scan.SStep; Scan.SStep; Scan.SStep; Scan.SStep; Scan.SStep] in
  let w := Scan.wrun 0 100 10 Scan.winit (pre ++ post) in
  Scan.w_pos w = Scan.PEnd /\ Scan.w_out w = [(10, 1); (25, 9); (30, 3)].
Proof. vm_compute. split; reflexivity. Qed.
