(* C19 -- write-behind is bounded: accepted writes reach the device without explicit flush.
   Model/WriteBehind.v: S shard buffers, W workers, ownership by stride, the periodic coordinator
   and the workers' passes.  What is proved is the schedule's logic -- nothing queued can be
   overlooked, for any S, any W >= 1 and any interleaving; that a woken worker runs and that its
   I/O completes within the stated time is a property of the runtime, measured by the tie. *)
From Coq Require Import List Arith Bool.
From Feox Require Import Model.WriteBehind Proofs.WriteBehindProofs.
From Feox Require Import Model.Backlog Proofs.BacklogProofs.
Import ListNotations.

Theorem worker_owns_its_residue_class :
  forall W S w s, 0 < W -> w < W -> (In s (shards_of W S w) <-> s < S /\ s mod W = w).
Proof. exact shards_of_spec. Qed.
Check worker_owns_its_residue_class :
  forall W S w s, 0 < W -> w < W -> (In s (shards_of W S w) <-> s < S /\ s mod W = w).
Print Assumptions worker_owns_its_residue_class.

Theorem every_shard_has_one_owner :
  forall W S s, 0 < W -> s < S ->
  In s (shards_of W S (s mod W)) /\ s mod W < W /\
  forall w, w < W -> In s (shards_of W S w) -> w = s mod W.
Proof. exact every_shard_has_exactly_one_owner. Qed.
Check every_shard_has_one_owner :
  forall W S s, 0 < W -> s < S ->
  In s (shards_of W S (s mod W)) /\ s mod W < W /\
  forall w, w < W -> In s (shards_of W S w) -> w = s mod W.
Print Assumptions every_shard_has_one_owner.

Theorem coordinator_wakes_the_owner :
  forall W S st s x, 0 < W -> s < S -> In x (nth s (bufs st) []) ->
  nth (s mod W) (woken (wstep W S st Tick)) false = true.
Proof. exact tick_wakes_owner. Qed.
Check coordinator_wakes_the_owner :
  forall W S st s x, 0 < W -> s < S -> In x (nth s (bufs st) []) ->
  nth (s mod W) (woken (wstep W S st Tick)) false = true.
Print Assumptions coordinator_wakes_the_owner.

Theorem coordinator_wakes_worker0_for_retirements :
  forall W S st x, 0 < W -> In x (retq st) -> nth 0 (woken (wstep W S st Tick)) false = true.
Proof. exact tick_wakes_worker0_for_retirements. Qed.
Check coordinator_wakes_worker0_for_retirements :
  forall W S st x, 0 < W -> In x (retq st) -> nth 0 (woken (wstep W S st Tick)) false = true.
Print Assumptions coordinator_wakes_worker0_for_retirements.

Theorem queued_entry_flushed_once_owner_ran :
  forall W S st s x evs1 evs2,
  0 < W -> s < S -> S = length (bufs st) ->
  ~ In (Add s x) (evs1 ++ Run (s mod W) :: evs2) ->
  ~ In x (nth s (bufs (wrun W S st (evs1 ++ Run (s mod W) :: evs2))) []).
Proof. exact queued_entry_is_flushed_by_owner. Qed.
Check queued_entry_flushed_once_owner_ran :
  forall W S st s x evs1 evs2,
  0 < W -> s < S -> S = length (bufs st) ->
  ~ In (Add s x) (evs1 ++ Run (s mod W) :: evs2) ->
  ~ In x (nth s (bufs (wrun W S st (evs1 ++ Run (s mod W) :: evs2))) []).
Print Assumptions queued_entry_flushed_once_owner_ran.

Theorem worker0_pass_drains_retirements :
  forall W S st, retq (wstep W S st (Run 0)) = []

(* --- Model/Backlog.v: the counters the coordinator really reads.  A pass is Drain ... Finish with
   anything in between; Finish may send any of the entries back (failed pass, entries whose turn
   has not come) --- *)

(* in every reachable state the counter of a shard is the length of its queue (checked on the real
   store under the shard's lock through hook H15) *).
Proof. exact run0_drains_retirements. Qed.
Check worker0_pass_drains_retirements :
  forall W S st, retq (wstep W S st (Run 0)) = []

(* --- Model/Backlog.v: the counters the coordinator really reads.  A pass is Drain ... Finish with
   anything in between; Finish may send any of the entries back (failed pass, entries whose turn
   has not come) --- *)

(* in every reachable state the counter of a shard is the length of its queue (checked on the real
   store under the shard's lock through hook H15) *).
Print Assumptions worker0_pass_drains_retirements.

Theorem shard_counter_is_its_backlog :
  forall W S evs s, s < S ->
    nth s (b_cnts (brun W S (binit W S) evs)) 0 = length (nth s (b_bufs (brun W S (binit W S) evs)) [])

(* hence the next tick wakes the owner of every shard that has anything queued *).
Proof. exact counter_is_the_backlog. Qed.
Check shard_counter_is_its_backlog :
  forall W S evs s, s < S ->
    nth s (b_cnts (brun W S (binit W S) evs)) 0 = length (nth s (b_bufs (brun W S (binit W S) evs)) [])

(* hence the next tick wakes the owner of every shard that has anything queued *).
Print Assumptions shard_counter_is_its_backlog.

Theorem tick_wakes_the_owner_of_any_backlog :
  forall W S evs s x, 0 < W -> s < S ->
    In x (nth s (b_bufs (brun W S (binit W S) evs)) []) ->
    nth (s mod W) (b_woken (bstep W S (brun W S (binit W S) evs) BTick)) false = true

(* nothing accepted is dropped: it is written, queued (and counted), or in its owner's hands *).
Proof. exact tick_wakes_owner_of_backlog. Qed.
Check tick_wakes_the_owner_of_any_backlog :
  forall W S evs s x, 0 < W -> s < S ->
    In x (nth s (b_bufs (brun W S (binit W S) evs)) []) ->
    nth (s mod W) (b_woken (bstep W S (brun W S (binit W S) evs) BTick)) false = true

(* nothing accepted is dropped: it is written, queued (and counted), or in its owner's hands *).
Print Assumptions tick_wakes_the_owner_of_any_backlog.

Theorem accepted_entry_is_written_queued_or_in_hand :
  forall W S evs1 evs2 s x, s < S ->
    somewhere (brun W S (binit W S) (evs1 ++ BAdd s x :: evs2)) x

(* and a pass that sends nothing back writes everything it took *).
Proof. exact accepted_entry_is_never_dropped. Qed.
Check accepted_entry_is_written_queued_or_in_hand :
  forall W S evs1 evs2 s x, s < S ->
    somewhere (brun W S (binit W S) (evs1 ++ BAdd s x :: evs2)) x

(* and a pass that sends nothing back writes everything it took *).
Print Assumptions accepted_entry_is_written_queued_or_in_hand.

Theorem completed_pass_writes_all_it_took :
  forall W S st s x,
    BlInv S st -> s < S -> nth s (b_hand st) [] = [] -> In x (nth s (b_bufs st) []) ->
    In x (b_written (bstep W S (bstep W S st (BDrain s)) (BFinish s []))).
Proof. exact completed_pass_writes_what_it_took. Qed.
Check completed_pass_writes_all_it_took :
  forall W S st s x,
    BlInv S st -> s < S -> nth s (b_hand st) [] = [] -> In x (nth s (b_bufs st) []) ->
    In x (b_written (bstep W S (bstep W S st (BDrain s)) (BFinish s []))).
Print Assumptions completed_pass_writes_all_it_took.
Example three_workers_seven_shards :
  shards_of 3 7 0 = [0; 3; 6] /\ shards_of 3 7 1 = [1; 4] /\ shards_of 3 7 2 = [2; 5].
Proof. vm_compute. repeat split; reflexivity. Qed.
Example one_period :
  let st0 := mkwb [[]; []; []; []] [] [false; false] in
  let st := wrun 2 4 st0 [Add 3 11; Add 0 12; Tick; Add 3 13; Run 1; Run 0] in
  bufs st = [[]; []; []; []] /\ woken st = [false; false].
Proof. vm_compute. split; reflexivity. Qed.
Example failed_pass_keeps_everything_counted :
  let st := brun 2 4 (binit 2 4) [BAdd 3 11; BAdd 3 12; BDrain 3; BAdd 3 13; BFinish 3 [false; true]; BTick] in
  b_bufs st = [[]; []; []; [12; 13]] /\ b_cnts st = [0; 0; 0; 2] /\ b_written st = [11] /\ b_woken st = [false; true].
Proof. vm_compute. repeat split; reflexivity. Qed.
