(* C13 -- memory accounting is exact and the limit is never exceeded by admitted writes
   (sequential part: for every call sequence). *)
From Coq Require Import List NArith ZArith Bool.
From Feox Require Import Gen.Constants Model.Bytes Model.Lww Proofs.LwwProofs.
From Feox Require Model.MemLimit Proofs.MemLimitProofs.
Import ListNotations.
Local Open Scope N_scope.

(* after every call of every sequence: memory_usage = sum over live keys of (R + |key| + |value|) *)
Theorem accounting_exact_every_call :
  forall c s o e, Inv c s -> Inv c (fst (step c s o e)).
Proof. exact step_Inv. Qed.
Check accounting_exact_every_call :
  forall c s o e, Inv c s -> Inv c (fst (step c s o e)).
Print Assumptions accounting_exact_every_call.

Theorem accounting_exact_every_sequence :
  forall c ops s, Inv c s -> Inv c (frun c s ops)

(* ... and after a clean reopen (recovery) *).
Proof. exact frun_Inv. Qed.
Check accounting_exact_every_sequence :
  forall c ops s, Inv c s -> Inv c (frun c s ops)

(* ... and after a clean reopen (recovery) *).
Print Assumptions accounting_exact_every_sequence.

Theorem accounting_exact_after_reopen :
  forall c s tb ta shards clk s',
  Inv c s -> reopen c s tb ta shards clk = ReOk s' -> Inv c s'

(* with a limit configured no call pushes usage above it *).
Proof. exact reopen_Inv. Qed.
Check accounting_exact_after_reopen :
  forall c s tb ta shards clk s',
  Inv c s -> reopen c s tb ta shards clk = ReOk s' -> Inv c s'

(* with a limit configured no call pushes usage above it *).
Print Assumptions accounting_exact_after_reopen.

Theorem limit_never_exceeded :
  forall c s o e lim,
  limit c = Some lim -> mem s <= lim -> mem (fst (step c s o e)) <= lim

(* a write refused for memory (or for any other reason) changes neither contents nor the counter *).
Proof. exact limit_respected. Qed.
Check limit_never_exceeded :
  forall c s o e lim,
  limit c = Some lim -> mem s <= lim -> mem (fst (step c s o e)) <= lim

(* a write refused for memory (or for any other reason) changes neither contents nor the counter *).
Print Assumptions limit_never_exceeded.

Theorem refused_write_changes_nothing :
  forall c s o e,
  is_err (snd (step c s o e)) = true ->
  (kv (fst (step c s o e)) = kv s /\ mem (fst (step c s o e)) = mem s) \/
  (exists k delta ts ttl old, o = Incr k delta ts ttl /\ find k (kv s) = Some old /\
     expired c old (e_tb e) (e_ta e) = Yes /\ kv (fst (step c s o e)) = remove k (kv s))

(* the concurrent clause: reserve_memory is a compare-exchange loop on one counter; for any number
   of threads and any interleaving of loads, compare-exchanges, commits, drops and releases the
   counter never exceeds the limit, and it always equals what the threads account for *).
Proof. exact error_leaves_contents. Qed.
Check refused_write_changes_nothing :
  forall c s o e,
  is_err (snd (step c s o e)) = true ->
  (kv (fst (step c s o e)) = kv s /\ mem (fst (step c s o e)) = mem s) \/
  (exists k delta ts ttl old, o = Incr k delta ts ttl /\ find k (kv s) = Some old /\
     expired c old (e_tb e) (e_ta e) = Yes /\ kv (fst (step c s o e)) = remove k (kv s))

(* the concurrent clause: reserve_memory is a compare-exchange loop on one counter; for any number
   of threads and any interleaving of loads, compare-exchanges, commits, drops and releases the
   counter never exceeds the limit, and it always equals what the threads account for *).
Print Assumptions refused_write_changes_nothing.

Theorem concurrent_reservations_never_exceed_the_limit :
  forall lim n evs,
  let s := MemLimit.mrun (MemLimit.minit lim n) evs in
  MemLimit.usage s <= MemLimit.limit s /\ MemLimit.limit s = lim /\
  MemLimit.usage s = MemLimitProofs.owned_sum (MemLimit.ths s).
Proof. exact MemLimitProofs.usage_never_exceeds_the_limit. Qed.
Check concurrent_reservations_never_exceed_the_limit :
  forall lim n evs,
  let s := MemLimit.mrun (MemLimit.minit lim n) evs in
  MemLimit.usage s <= MemLimit.limit s /\ MemLimit.limit s = lim /\
  MemLimit.usage s = MemLimitProofs.owned_sum (MemLimit.ths s).
Print Assumptions concurrent_reservations_never_exceed_the_limit.

Theorem refused_reservation_has_no_effect :
  forall s i cur a o,
  nth_error (MemLimit.ths s) i = Some (MemLimit.mkmth (MemLimit.MLoaded cur a) o) -> MemLimit.limit s < cur + a ->
  MemLimit.usage (MemLimit.mstep s (MemLimit.MCas i)) = MemLimit.usage s /\
  MemLimitProofs.owned_sum (MemLimit.ths (MemLimit.mstep s (MemLimit.MCas i))) = MemLimitProofs.owned_sum (MemLimit.ths s).
Proof. exact MemLimitProofs.refused_reservation_changes_nothing. Qed.
Check refused_reservation_has_no_effect :
  forall s i cur a o,
  nth_error (MemLimit.ths s) i = Some (MemLimit.mkmth (MemLimit.MLoaded cur a) o) -> MemLimit.limit s < cur + a ->
  MemLimit.usage (MemLimit.mstep s (MemLimit.MCas i)) = MemLimit.usage s /\
  MemLimitProofs.owned_sum (MemLimit.ths (MemLimit.mstep s (MemLimit.MCas i))) = MemLimitProofs.owned_sum (MemLimit.ths s).
Print Assumptions refused_reservation_has_no_effect.
(* Inv unfolds to exactly the accounting equation; zero when everything is deleted *)
Example inv_is_accounting : forall c s, Inv c s -> mem s = sum_mem c (kv s).
Proof. intros c s [_ H]; exact H. Qed.
Example all_deleted_zero : forall c s, Inv c s -> kv s = [] -> mem s = 0.
Proof. intros c s [_ H] E. rewrite H, E. reflexivity. Qed.
Example refusal_example :
  let c := mkcfg false false 3 (Some 400) 168 in
  let e := mkenv 0 5 10 11 0 None in
  let s1 := fst (step c init (Insert [1] (repeat 0 100) (Some 5) 0 false) e) in
  mem s1 = 269 /\ snd (step c s1 (Insert [2] (repeat 0 100) (Some 5) 0 false) e) = OErr OutOfMemory.
Proof. vm_compute. split; reflexivity. Qed.
