(* C17 -- opening arbitrary or damaged files fails cleanly: no panic, no hang, no takeover.
   Statements about Model.Recovery.open_image (byte-level model of open + recovery). *)
From Coq Require Import List NArith Bool.
From Feox Require Import Gen.Constants Model.Bytes Model.Codec Model.MetaJournal Model.FreeSpace Model.Recovery
                         Proofs.RecoveryProofs Proofs.OpenContainedProofs.
Import ListNotations.
Local Open Scope N_scope.

(* For EVERY image (any list of byte blocks of any content and length), every configuration
   (read-only or not, TTL on or off, ambiguous markers allowed or not, any clock value):
   the open terminates (the function is total; its fuel is never exhausted and every scan step
   strictly advances -- both would be the `Panic` outcome) and no out-of-range slice is taken. *)
Theorem open_never_panics : forall c img, fst (open_image c img) <> Panic.
Proof. exact open_image_no_panic. Qed.
Check open_never_panics : forall c img, fst (open_image c img) <> Panic.
Print Assumptions open_never_panics.

(* Every single scan iteration on a non-empty remainder either rejects the image or moves the
   scan position strictly forward (no endless loop), whatever the block contains. *)
Theorem scan_progress : forall c version total sector rest st jl, rest <> [] ->
  match scan_step c version total sector rest st jl with
  | Ok (Advance next _ _) => sector < next
  | Rej _ => True
  | Panic => False
  end.
Proof. exact scan_step_good. Qed.
Check scan_progress : forall c version total sector rest st jl, rest <> [] ->
  match scan_step c version total sector rest st jl with
  | Ok (Advance next _ _) => sector < next
  | Rej _ => True
  | Panic => False
  end.
Print Assumptions scan_progress.

(* An open that fails for size or metadata reasons leaves the image byte-identical. *)
Theorem rejected_for_size_or_metadata_untouched : forall c img e,
  fst (open_image c img) = Rej e -> (e = EInvalidMetadata \/ e = EInvalidDevice) ->
  snd (open_image c img) = img.
Proof. exact open_image_rejected_untouched. Qed.
Check rejected_for_size_or_metadata_untouched : forall c img e,
  fst (open_image c img) = Rej e -> (e = EInvalidMetadata \/ e = EInvalidDevice) ->
  snd (open_image c img) = img.
Print Assumptions rejected_for_size_or_metadata_untouched.

(* A file that is not recognisably a FeOx device (the selected metadata copy lacks the signature
   or does not validate) is rejected as InvalidMetadata, unmodified. *)
Theorem not_feox_rejected_untouched : forall c img,
  (17 <= length img)%nat ->
  (let mb := if select_meta (nth_block img 0) (nth_block img (N.to_nat FEOX_METADATA_BACKUP_BLOCK))
             then nth_block img (N.to_nat FEOX_METADATA_BACKUP_BLOCK) else nth_block img 0 in
   list_eqb (firstn 8 mb) SIGNATURE = false \/ decode_meta mb = None) ->
  open_image c img = (Rej EInvalidMetadata, img).
Proof. exact open_image_unrecognised. Qed.
Check not_feox_rejected_untouched : forall c img,
  (17 <= length img)%nat ->
  (let mb := if select_meta (nth_block img 0) (nth_block img (N.to_nat FEOX_METADATA_BACKUP_BLOCK))
             then nth_block img (N.to_nat FEOX_METADATA_BACKUP_BLOCK) else nth_block img 0 in
   list_eqb (firstn 8 mb) SIGNATURE = false \/ decode_meta mb = None) ->
  open_image c img = (Rej EInvalidMetadata, img).
Print Assumptions not_feox_rejected_untouched.

(* parse_record never takes an out-of-range slice, whatever key length the header declares *)
Theorem parse_never_out_of_range : forall version data, parse_head version data <> None.
Proof. exact parse_head_total. Qed.
Check parse_never_out_of_range : forall version data, parse_head version data <> None.
Print Assumptions parse_never_out_of_range.

(* Whatever the file holds and however the open ends (every image, every configuration, every
   outcome): the length of the file stays, and the primary metadata block, the backup metadata block
   and every other block in front of the data area outside the two journal slots keep every byte.
   Journal replay, scan and both retirements of recovery write only into the journal slots and into
   the data area: a damaged file can make the open fail, it cannot make it overwrite the metadata. *)
Theorem open_never_touches_the_metadata_or_reserved_blocks : forall c img,
  length (snd (open_image c img)) = length img /\
  forall k, (k <= N.to_nat FEOX_METADATA_BLOCK \/
             (N.to_nat FEOX_METADATA_BACKUP_BLOCK <= k /\ k < N.to_nat FEOX_DATA_START_BLOCK))%nat ->
            nth k (snd (open_image c img)) [] = nth k img [].
Proof. exact open_never_touches_the_reserved_blocks. Qed.
Check open_never_touches_the_metadata_or_reserved_blocks : forall c img,
  length (snd (open_image c img)) = length img /\
  forall k, (k <= N.to_nat FEOX_METADATA_BLOCK \/
             (N.to_nat FEOX_METADATA_BACKUP_BLOCK <= k /\ k < N.to_nat FEOX_DATA_START_BLOCK))%nat ->
            nth k (snd (open_image c img)) [] = nth k img [].
Print Assumptions open_never_touches_the_metadata_or_reserved_blocks.

(* Non-vacuity: a 17-block all-0xFF image is rejected (not a FeOx device), an image with a forged
   oversized key length in a block that looks like a v1 record head is skipped without panic. *)
Example reject_example :
  fst (open_image (mkcfg false false None 168) (repeat (repeat 255 64) 17)) = Rej EInvalidMetadata.
Proof. vm_compute. reflexivity. Qed.
