(* C01 -- sequential calls match a last-writer-wins map on every storage tier.
   The reference map is Model.Lww (readable in minutes); the implementation is compared with it
   call by call in 16 configurations (memory-only/persistent x cache x TTL x v1/v2/v3), with flush
   and reopen at random positions.  These theorems state, for ALL states, keys, values and
   timestamps, the properties of the reference map that the property text names. *)
From Coq Require Import List NArith ZArith Bool.
From Feox Require Import Gen.Constants Model.Bytes Model.Lww Proofs.LwwProofs.
Import ListNotations.
Local Open Scope N_scope.

(* a write takes effect iff its timestamp is greater than the key's current one *)
Theorem write_takes_effect_iff_newer :
  forall c s e k v t old,
  sorted (kv s) -> find k (kv s) = Some old -> validate_kv c k v = None ->
  let r := step c s (Insert k v (Some t) 0 false) e in
  t <> 0 ->
  (t <= g_ts old -> r = (s, OErr Older)) /\
  (g_ts old < t -> snd r = OBool false -> find k (kv (fst r)) = Some (mkgen v t 0))

(* a delete takes effect iff its timestamp is greater than the key's current one *).
Proof. exact insert_effect_iff. Qed.
Check write_takes_effect_iff_newer :
  forall c s e k v t old,
  sorted (kv s) -> find k (kv s) = Some old -> validate_kv c k v = None ->
  let r := step c s (Insert k v (Some t) 0 false) e in
  t <> 0 ->
  (t <= g_ts old -> r = (s, OErr Older)) /\
  (g_ts old < t -> snd r = OBool false -> find k (kv (fst r)) = Some (mkgen v t 0))

(* a delete takes effect iff its timestamp is greater than the key's current one *).
Print Assumptions write_takes_effect_iff_newer.

Theorem delete_takes_effect_iff_newer :
  forall c s e k t old,
  sorted (kv s) -> find k (kv s) = Some old -> validate_key k = None -> t <> 0 ->
  let r := step c s (Delete k (Some t)) e in
  (t <= g_ts old -> r = (s, OErr Older)) /\
  (g_ts old < t -> snd r = OUnit /\ find k (kv (fst r)) = None)

(* reads return the latest accepted value *).
Proof. exact delete_effect_iff. Qed.
Check delete_takes_effect_iff_newer :
  forall c s e k t old,
  sorted (kv s) -> find k (kv s) = Some old -> validate_key k = None -> t <> 0 ->
  let r := step c s (Delete k (Some t)) e in
  (t <= g_ts old -> r = (s, OErr Older)) /\
  (g_ts old < t -> snd r = OUnit /\ find k (kv (fst r)) = None)

(* reads return the latest accepted value *).
Print Assumptions delete_takes_effect_iff_newer.

Theorem read_returns_latest :
  forall c s e k g,
  find k (kv s) = Some g -> validate_key k = None -> expired c g (e_tb e) (e_ta e) = No ->
  step c s (Get k) e = (s, OVal (g_val g))

(* a call that returns an error leaves the contents unchanged (one documented exception: an
   increment that met an expired, already invisible generation retires it before failing) *).
Proof. exact get_returns_binding. Qed.
Check read_returns_latest :
  forall c s e k g,
  find k (kv s) = Some g -> validate_key k = None -> expired c g (e_tb e) (e_ta e) = No ->
  step c s (Get k) e = (s, OVal (g_val g))

(* a call that returns an error leaves the contents unchanged (one documented exception: an
   increment that met an expired, already invisible generation retires it before failing) *).
Print Assumptions read_returns_latest.

Theorem error_leaves_logical_contents :
  forall c s o e,
  is_err (snd (step c s o e)) = true ->
  (kv (fst (step c s o e)) = kv s /\ mem (fst (step c s o e)) = mem s) \/
  (exists k delta ts ttl old, o = Incr k delta ts ttl /\ find k (kv s) = Some old /\
     expired c old (e_tb e) (e_ta e) = Yes /\ kv (fst (step c s o e)) = remove k (kv s))

(* every reachable state keeps one binding per key, in byte order *).
Proof. exact error_leaves_contents. Qed.
Check error_leaves_logical_contents :
  forall c s o e,
  is_err (snd (step c s o e)) = true ->
  (kv (fst (step c s o e)) = kv s /\ mem (fst (step c s o e)) = mem s) \/
  (exists k delta ts ttl old, o = Incr k delta ts ttl /\ find k (kv s) = Some old /\
     expired c old (e_tb e) (e_ta e) = Yes /\ kv (fst (step c s o e)) = remove k (kv s))

(* every reachable state keeps one binding per key, in byte order *).
Print Assumptions error_leaves_logical_contents.

Theorem bindings_stay_canonical :
  forall c ops s, Inv c s -> Inv c (frun c s ops).
Proof. exact frun_Inv. Qed.
Check bindings_stay_canonical :
  forall c ops s, Inv c s -> Inv c (frun c s ops).
Print Assumptions bindings_stay_canonical.
(* non-vacuity: the empty store satisfies the invariant; a concrete older-timestamp refusal *)
Example init_inv : forall c, Inv c init. Proof. exact Inv_init. Qed.
Example older_refused :
  let c := mkcfg false false 3 None 168 in
  let e := mkenv 0 0 10 11 0 None in
  let s1 := fst (step c init (Insert [1] [7] (Some 200) 0 false) e) in
  snd (step c s1 (Insert [1] [8] (Some 150) 0 false) e) = OErr Older /\
  snd (step c s1 (Get [1]) e) = OVal [7].
Proof. vm_compute. split; reflexivity. Qed.
