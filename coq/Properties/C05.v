(* C05 -- each data block has exactly one owner or is free; freed space is reusable.
   Over the allocator model of C06 (Model/FreeSpace.v): an ownership ledger of the extents the
   write path holds (reserved, dirty, published, being retired) on top of the free-space manager. *)
From Coq Require Import List NArith Bool.
From Feox Require Import Gen.Constants Model.FreeSpace Proofs.FreeSpaceProofs Proofs.OwnershipProofs.
Import ListNotations.
Local Open Scope N_scope.

(* exact partition, for every sequence of acquisitions and give-backs: every block of the data area
   is free xor inside exactly one owned extent; owned extents are in bounds and pairwise disjoint *)
Theorem partition_invariant :
  forall ops o, OInv o -> OInv (orun o ops)

(* a fresh device starts partitioned (everything free, nothing owned) *).
Proof. exact orun_OInv. Qed.
Check partition_invariant :
  forall ops o, OInv o -> OInv (orun o ops)

(* a fresh device starts partitioned (everything free, nothing owned) *).
Print Assumptions partition_invariant.

Theorem fresh_device_partitioned :
  forall d s0, d < U64 -> initialize d = FOk s0 -> OInv (mkown s0 [])

(* nothing leaks: an owned extent is always accepted back by the manager *).
Proof. exact fresh_OInv. Qed.
Check fresh_device_partitioned :
  forall d s0, d < U64 -> initialize d = FOk s0 -> OInv (mkown s0 [])

(* nothing leaks: an owned extent is always accepted back by the manager *).
Print Assumptions fresh_device_partitioned.

Theorem no_leak :
  forall o e, OInv o -> In e (owned o) ->
  exists f', release (fst e) (snd e) (ofs o) = (FOk tt, f')

(* a device emptied by deletes is exactly the fresh one: one free run covering the whole data area *).
Proof. exact give_back_accepted. Qed.
Check no_leak :
  forall o e, OInv o -> In e (owned o) ->
  exists f', release (fst e) (snd e) (ofs o) = (FOk tt, f')

(* a device emptied by deletes is exactly the fresh one: one free run covering the whole data area *).
Print Assumptions no_leak.

Theorem emptied_device_is_fresh :
  forall o, OInv o -> owned o = [] ->
  runs (ofs o) = [(FEOX_DATA_START_BLOCK, dev_sectors (ofs o) - FEOX_DATA_START_BLOCK)].
Proof. exact emptied_is_fresh. Qed.
Check emptied_device_is_fresh :
  forall o, OInv o -> owned o = [] ->
  runs (ofs o) = [(FEOX_DATA_START_BLOCK, dev_sectors (ofs o) - FEOX_DATA_START_BLOCK)].
Print Assumptions emptied_device_is_fresh.
Example partition_unfolds : forall o, OInv o ->
  forall b, FEOX_DATA_START_BLOCK <= b < dev_sectors (ofs o) -> (free (ofs o) b <-> ~ owned_blk o b).
Proof. intros o [_ H _ _]. exact H. Qed.
