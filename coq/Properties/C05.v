(* C05 -- each data block has exactly one owner or is free; freed space is reusable.
   Over the allocator model of C06 (Model/FreeSpace.v): an ownership ledger of the extents the
   write path holds (reserved, dirty, published, being retired) on top of the free-space manager. *)
From Coq Require Import List NArith Bool.
From Feox Require Import Gen.Constants Model.FreeSpace Proofs.FreeSpaceProofs Proofs.OwnershipProofs.
From Feox Require Model.FailPath Proofs.FailPathProofs.
From Feox Require Model.FailBatches Proofs.FailBatchesProofs.
From Feox Require Model.Codec Model.Recovery Proofs.ScanAcceptsProofs Proofs.ScanQuiescentProofs.
From Feox Require Model.MetaJournal Proofs.RetireContainedProofs.
Import ListNotations.
Local Open Scope N_scope.

(* exact partition, for every sequence of acquisitions and give-backs: every block of the data area
   is free xor inside exactly one owned extent; owned extents are in bounds and pairwise disjoint *)
Theorem partition_invariant :
  forall ops o, OInv o -> OInv (orun o ops)

(* a fresh device starts partitioned (everything free, nothing owned) *).
Proof. exact orun_OInv. Qed.
Check partition_invariant :
  forall ops o, OInv o -> OInv (orun o ops)

(* a fresh device starts partitioned (everything free, nothing owned) *).
Print Assumptions partition_invariant.

Theorem fresh_device_partitioned :
  forall d s0, d < U64 -> initialize d = FOk s0 -> OInv (mkown s0 [])

(* nothing leaks: an owned extent is always accepted back by the manager *).
Proof. exact fresh_OInv. Qed.
Check fresh_device_partitioned :
  forall d s0, d < U64 -> initialize d = FOk s0 -> OInv (mkown s0 [])

(* nothing leaks: an owned extent is always accepted back by the manager *).
Print Assumptions fresh_device_partitioned.

Theorem no_leak :
  forall o e, OInv o -> In e (owned o) ->
  exists f', release (fst e) (snd e) (ofs o) = (FOk tt, f')

(* a device emptied by deletes is exactly the fresh one: one free run covering the whole data area *).
Proof. exact give_back_accepted. Qed.
Check no_leak :
  forall o e, OInv o -> In e (owned o) ->
  exists f', release (fst e) (snd e) (ofs o) = (FOk tt, f')

(* a device emptied by deletes is exactly the fresh one: one free run covering the whole data area *).
Print Assumptions no_leak.

Theorem emptied_device_is_fresh :
  forall o, OInv o -> owned o = [] ->
  runs (ofs o) = [(FEOX_DATA_START_BLOCK, dev_sectors (ofs o) - FEOX_DATA_START_BLOCK)]
(* the link from the write path to the ledger, through device failures (Model/FailPath.v): on a
   fresh device, after any sequence of inserts and flushes and whatever device calls fail, every
   block of the data area is free exactly when no queued entry's reservation (clean, dirty or
   quarantined) and no published record covers it, no block is covered twice, and the disk-usage
   counter is the number of covered blocks *).
Proof. exact emptied_is_fresh. Qed.
Check emptied_device_is_fresh :
  forall o, OInv o -> owned o = [] ->
  runs (ofs o) = [(FEOX_DATA_START_BLOCK, dev_sectors (ofs o) - FEOX_DATA_START_BLOCK)]
(* the link from the write path to the ledger, through device failures (Model/FailPath.v): on a
   fresh device, after any sequence of inserts and flushes and whatever device calls fail, every
   block of the data area is free exactly when no queued entry's reservation (clean, dirty or
   quarantined) and no published record covers it, no block is covered twice, and the disk-usage
   counter is the number of covered blocks *).
Print Assumptions emptied_device_is_fresh.

Theorem ownership_partition_through_failures :
  forall fault d f cs,
  d < U64 -> initialize d = FOk f ->
  let st := FailPathProofs.fcalls fault (FailPath.finit f) cs in
  let owned := FailPath.exts_of (FailPath.f_queue st) ++ map snd (FailPath.f_durable st) in
  Inv (FailPath.f_fs st) /\
  (forall b, (FailPathProofs.cnt b owned <= 1)%nat) /\
  (forall b, DS <= b < dev_sectors (FailPath.f_fs st) -> (free (FailPath.f_fs st) b <-> FailPathProofs.cnt b owned = O)) /\
  FailPath.f_usage st = FailPathProofs.sum_blocks owned
(* ... and with deletes of published records: their extents stay owned (waiting in the retirement
   queue) until the retirement gives them back; reclaim-and-retry on a full device included *).
Proof. exact FailPathProofs.ownership_partition_through_failures. Qed.
Check ownership_partition_through_failures :
  forall fault d f cs,
  d < U64 -> initialize d = FOk f ->
  let st := FailPathProofs.fcalls fault (FailPath.finit f) cs in
  let owned := FailPath.exts_of (FailPath.f_queue st) ++ map snd (FailPath.f_durable st) in
  Inv (FailPath.f_fs st) /\
  (forall b, (FailPathProofs.cnt b owned <= 1)%nat) /\
  (forall b, DS <= b < dev_sectors (FailPath.f_fs st) -> (free (FailPath.f_fs st) b <-> FailPathProofs.cnt b owned = O)) /\
  FailPath.f_usage st = FailPathProofs.sum_blocks owned
(* ... and with deletes of published records: their extents stay owned (waiting in the retirement
   queue) until the retirement gives them back; reclaim-and-retry on a full device included *).
Print Assumptions ownership_partition_through_failures.

Theorem ownership_partition_with_deletes :
  forall fault d f cs,
  d < U64 -> initialize d = FOk f ->
  let rs := FailPathProofs.rcalls fault (FailPath.rinit f) cs in
  let st := FailPath.r_core rs in
  let owned := FailPath.exts_of (FailPath.f_queue st) ++ map snd (FailPath.f_durable st) ++ map snd (FailPath.r_pending rs) in
  Inv (FailPath.f_fs st) /\
  (forall b, (FailPathProofs.cnt b owned <= 1)%nat) /\
  (forall b, DS <= b < dev_sectors (FailPath.f_fs st) -> (free (FailPath.f_fs st) b <-> FailPathProofs.cnt b owned = O)) /\
  FailPath.f_usage st = FailPathProofs.sum_blocks owned

(* ... and when a pass spans several journal transactions (Model/FailBatches.v), any queue length *).
Proof. exact FailPathProofs.ownership_partition_with_deletes. Qed.
Check ownership_partition_with_deletes :
  forall fault d f cs,
  d < U64 -> initialize d = FOk f ->
  let rs := FailPathProofs.rcalls fault (FailPath.rinit f) cs in
  let st := FailPath.r_core rs in
  let owned := FailPath.exts_of (FailPath.f_queue st) ++ map snd (FailPath.f_durable st) ++ map snd (FailPath.r_pending rs) in
  Inv (FailPath.f_fs st) /\
  (forall b, (FailPathProofs.cnt b owned <= 1)%nat) /\
  (forall b, DS <= b < dev_sectors (FailPath.f_fs st) -> (free (FailPath.f_fs st) b <-> FailPathProofs.cnt b owned = O)) /\
  FailPath.f_usage st = FailPathProofs.sum_blocks owned

(* ... and when a pass spans several journal transactions (Model/FailBatches.v), any queue length *).
Print Assumptions ownership_partition_with_deletes.

Theorem ownership_partition_through_failures_over_batches :
  forall fault d f cs,
  d < U64 -> initialize d = FOk f ->
  let st := FailBatchesProofs.pcalls fault (FailPath.finit f) cs in
  let owned := FailPath.exts_of (FailPath.f_queue st) ++ map snd (FailPath.f_durable st) in
  Inv (FailPath.f_fs st) /\
  (forall b, (FailPathProofs.cnt b owned <= 1)%nat) /\
  (forall b, DS <= b < dev_sectors (FailPath.f_fs st) -> (free (FailPath.f_fs st) b <-> FailPathProofs.cnt b owned = O)) /\
  FailPath.f_usage st = FailPathProofs.sum_blocks owned

(* the partition as the recovery scan rebuilds it from a quiescent data area (records with distinct
   keys, completed marker runs, free blocks, in any order): after the scan and the release of the
   tail every block of the data area is free exactly when no live record's extent covers it *).
Proof. exact FailBatchesProofs.ownership_partition_through_failures_batched. Qed.
Check ownership_partition_through_failures_over_batches :
  forall fault d f cs,
  d < U64 -> initialize d = FOk f ->
  let st := FailBatchesProofs.pcalls fault (FailPath.finit f) cs in
  let owned := FailPath.exts_of (FailPath.f_queue st) ++ map snd (FailPath.f_durable st) in
  Inv (FailPath.f_fs st) /\
  (forall b, (FailPathProofs.cnt b owned <= 1)%nat) /\
  (forall b, DS <= b < dev_sectors (FailPath.f_fs st) -> (free (FailPath.f_fs st) b <-> FailPathProofs.cnt b owned = O)) /\
  FailPath.f_usage st = FailPathProofs.sum_blocks owned

(* the partition as the recovery scan rebuilds it from a quiescent data area (records with distinct
   keys, completed marker runs, free blocks, in any order): after the scan and the release of the
   tail every block of the data area is free exactly when no live record's extent covers it *).
Print Assumptions ownership_partition_through_failures_over_batches.

Theorem recovery_rebuilds_the_partition :
  forall c version total jl img,
  (Recovery.c_ro c = false \/ jl = []) -> Codec.has_token version = true -> total <= Recovery.U64MAX ->
  forall its st0 fuel,
  (length its < fuel)%nat ->
  Recovery.rs_fs st0 = mkfs [] (total * FEOX_BLOCK_SIZE) 0 0 -> Recovery.rs_last_end st0 = FEOX_DATA_START_BLOCK -> Recovery.rs_idx st0 = [] ->
  total * FEOX_BLOCK_SIZE < U64 ->
  Forall (ScanQuiescentProofs.item_ok version) its -> ScanAcceptsProofs.distinct_keys (ScanQuiescentProofs.recs_of its) ->
  skipn (N.to_nat FEOX_DATA_START_BLOCK) img = ScanQuiescentProofs.ilayout version FEOX_DATA_START_BLOCK its ->
  total = FEOX_DATA_START_BLOCK + ScanQuiescentProofs.isum version its -> 0 < ScanQuiescentProofs.isum version its ->
  exists st' st'',
    Recovery.scan fuel c version total img FEOX_DATA_START_BLOCK st0 jl = Recovery.Ok st' /\
    (if Recovery.rs_last_end st' <? total then Recovery.fs_release st' (Recovery.rs_last_end st') (total - Recovery.rs_last_end st') else Recovery.Ok st') = Recovery.Ok st'' /\
    (forall r, In r (ScanQuiescentProofs.recs_of its) -> exists s, Recovery.idx_find (Codec.r_key r) (Recovery.rs_idx st'') = Some (ScanQuiescentProofs.entry_of version r s)) /\
    Recovery.rs_count st'' = Recovery.rs_count st0 + N.of_nat (length (ScanQuiescentProofs.recs_of its)) /\
    Recovery.rs_retired st' = Recovery.rs_retired st0 /\ Recovery.rs_retired st'' = Recovery.rs_retired st0 /\
    (forall b, FEOX_DATA_START_BLOCK <= b < total ->
               (free (Recovery.rs_fs st'') b <-> ~ ScanQuiescentProofs.covered version FEOX_DATA_START_BLOCK its b)).
Proof. exact ScanQuiescentProofs.quiescent_data_area_is_partitioned. Qed.
Check recovery_rebuilds_the_partition :
  forall c version total jl img,
  (Recovery.c_ro c = false \/ jl = []) -> Codec.has_token version = true -> total <= Recovery.U64MAX ->
  forall its st0 fuel,
  (length its < fuel)%nat ->
  Recovery.rs_fs st0 = mkfs [] (total * FEOX_BLOCK_SIZE) 0 0 -> Recovery.rs_last_end st0 = FEOX_DATA_START_BLOCK -> Recovery.rs_idx st0 = [] ->
  total * FEOX_BLOCK_SIZE < U64 ->
  Forall (ScanQuiescentProofs.item_ok version) its -> ScanAcceptsProofs.distinct_keys (ScanQuiescentProofs.recs_of its) ->
  skipn (N.to_nat FEOX_DATA_START_BLOCK) img = ScanQuiescentProofs.ilayout version FEOX_DATA_START_BLOCK its ->
  total = FEOX_DATA_START_BLOCK + ScanQuiescentProofs.isum version its -> 0 < ScanQuiescentProofs.isum version its ->
  exists st' st'',
    Recovery.scan fuel c version total img FEOX_DATA_START_BLOCK st0 jl = Recovery.Ok st' /\
    (if Recovery.rs_last_end st' <? total then Recovery.fs_release st' (Recovery.rs_last_end st') (total - Recovery.rs_last_end st') else Recovery.Ok st') = Recovery.Ok st'' /\
    (forall r, In r (ScanQuiescentProofs.recs_of its) -> exists s, Recovery.idx_find (Codec.r_key r) (Recovery.rs_idx st'') = Some (ScanQuiescentProofs.entry_of version r s)) /\
    Recovery.rs_count st'' = Recovery.rs_count st0 + N.of_nat (length (ScanQuiescentProofs.recs_of its)) /\
    Recovery.rs_retired st' = Recovery.rs_retired st0 /\ Recovery.rs_retired st'' = Recovery.rs_retired st0 /\
    (forall b, FEOX_DATA_START_BLOCK <= b < total ->
               (free (Recovery.rs_fs st'') b <-> ~ ScanQuiescentProofs.covered version FEOX_DATA_START_BLOCK its b)).
Print Assumptions recovery_rebuilds_the_partition.
Example partition_unfolds : forall o, OInv o ->
  forall b, FEOX_DATA_START_BLOCK <= b < dev_sectors (ofs o) -> (free (ofs o) b <-> ~ owned_blk o b).
Proof. intros o [_ H _ _]. exact H. Qed.

(* ---- what a retirement can write (Model/Recovery.v retire_extents: the run-time retirement of a
   flush and the retirements of recovery; replay: the journal replay of an open).  Whatever the
   extents, the journal position and the chunking into journal transactions: the length of the file
   stays and a block that lies neither in the journal area nor inside one of the NAMED extents keeps
   every byte -- a retirement never writes into blocks it does not own ---- *)

Theorem retirement_writes_only_the_journal_and_the_named_extents :
  forall img p exts,
  (N.to_nat FEOX_METADATA_BACKUP_BLOCK <= length img)%nat ->
  RetireContainedProofs.same_outside exts img (fst (fst (Recovery.retire_extents img p exts))).
Proof. exact RetireContainedProofs.retirement_is_contained. Qed.
Check retirement_writes_only_the_journal_and_the_named_extents :
  forall img p exts,
  (N.to_nat FEOX_METADATA_BACKUP_BLOCK <= length img)%nat ->
  RetireContainedProofs.same_outside exts img (fst (fst (Recovery.retire_extents img p exts))).
Print Assumptions retirement_writes_only_the_journal_and_the_named_extents.

Theorem replay_writes_only_the_journal_and_the_named_extents :
  forall img p exts,
  (N.to_nat FEOX_METADATA_BACKUP_BLOCK <= length img)%nat ->
  match Recovery.replay img p exts with
  | Recovery.ReplayOk img' _ | Recovery.ReplayExhausted img' => RetireContainedProofs.same_outside exts img img'
  | Recovery.ReplayCoalesce => True
  end

(* hence every extent that is not named -- every other record -- survives byte for byte ... *).
Proof. exact RetireContainedProofs.replay_is_contained. Qed.
Check replay_writes_only_the_journal_and_the_named_extents :
  forall img p exts,
  (N.to_nat FEOX_METADATA_BACKUP_BLOCK <= length img)%nat ->
  match Recovery.replay img p exts with
  | Recovery.ReplayOk img' _ | Recovery.ReplayExhausted img' => RetireContainedProofs.same_outside exts img img'
  | Recovery.ReplayCoalesce => True
  end

(* hence every extent that is not named -- every other record -- survives byte for byte ... *).
Print Assumptions replay_writes_only_the_journal_and_the_named_extents.

Theorem retirement_keeps_every_other_extent :
  forall img p exts a n,
  (N.to_nat FEOX_METADATA_BACKUP_BLOCK <= length img)%nat ->
  FEOX_METADATA_BACKUP_BLOCK <= a ->
  (forall b, a <= b < a + n -> ~ RetireContainedProofs.in_exts exts b) ->
  let img' := fst (fst (Recovery.retire_extents img p exts)) in
  length img' = length img /\
  firstn (N.to_nat n) (skipn (N.to_nat a) img') = firstn (N.to_nat n) (skipn (N.to_nat a) img)

(* ... and so do both metadata copies, for extents in the data area (what the journal codec accepts
   and the scan produces) *).
Proof. exact RetireContainedProofs.retirement_keeps_every_other_extent. Qed.
Check retirement_keeps_every_other_extent :
  forall img p exts a n,
  (N.to_nat FEOX_METADATA_BACKUP_BLOCK <= length img)%nat ->
  FEOX_METADATA_BACKUP_BLOCK <= a ->
  (forall b, a <= b < a + n -> ~ RetireContainedProofs.in_exts exts b) ->
  let img' := fst (fst (Recovery.retire_extents img p exts)) in
  length img' = length img /\
  firstn (N.to_nat n) (skipn (N.to_nat a) img') = firstn (N.to_nat n) (skipn (N.to_nat a) img)

(* ... and so do both metadata copies, for extents in the data area (what the journal codec accepts
   and the scan produces) *).
Print Assumptions retirement_keeps_every_other_extent.

Theorem retirement_keeps_the_metadata :
  forall img p exts,
  (N.to_nat FEOX_METADATA_BACKUP_BLOCK <= length img)%nat ->
  Forall (fun e => FEOX_DATA_START_BLOCK <= fst e) exts ->
  let img' := fst (fst (Recovery.retire_extents img p exts)) in
  nth (N.to_nat FEOX_METADATA_BLOCK) img' [] = nth (N.to_nat FEOX_METADATA_BLOCK) img [] /\
  nth (N.to_nat FEOX_METADATA_BACKUP_BLOCK) img' [] = nth (N.to_nat FEOX_METADATA_BACKUP_BLOCK) img [].
Proof. exact RetireContainedProofs.retirement_keeps_the_metadata. Qed.
Check retirement_keeps_the_metadata :
  forall img p exts,
  (N.to_nat FEOX_METADATA_BACKUP_BLOCK <= length img)%nat ->
  Forall (fun e => FEOX_DATA_START_BLOCK <= fst e) exts ->
  let img' := fst (fst (Recovery.retire_extents img p exts)) in
  nth (N.to_nat FEOX_METADATA_BLOCK) img' [] = nth (N.to_nat FEOX_METADATA_BLOCK) img [] /\
  nth (N.to_nat FEOX_METADATA_BACKUP_BLOCK) img' [] = nth (N.to_nat FEOX_METADATA_BACKUP_BLOCK) img [].
Print Assumptions retirement_keeps_the_metadata.
(* non-vacuity: the definition unfolds to the claim, and a concrete retirement (block 17 of a
   20-block file) succeeds, leaves a marker in block 17 and journal records in both slots, and
   changes nothing else *)
Example same_outside_unfolds : forall exts img img', RetireContainedProofs.same_outside exts img img' ->
  length img' = length img /\
  forall k, (k <= N.to_nat FEOX_METADATA_BLOCK \/ N.to_nat FEOX_METADATA_BACKUP_BLOCK <= k)%nat ->
            ~ (exists s n, In (s, n) exts /\ s <= N.of_nat k < s + n) -> nth k img' [] = nth k img [].
Proof. intros exts img img' H. exact H. Qed.

Example a_retirement :
  let img := repeat (repeat 7 (N.to_nat FEOX_BLOCK_SIZE)) 20 in
  match Recovery.retire_extents img (Recovery.mkjpos 4 1) [(17, 1)] with
  | (img', p', ok) =>
      ok = true /\ Recovery.j_gen p' = 6 /\
      map (fun k => Bytes.list_eqb (nth k img' []) (nth k img [])) (seq 0 20)
        = [true; false; true; true; false; true; true; true; true; true; true; true; true; true; true; true; true; false; true; true]
  end.
Proof. vm_compute. repeat split; reflexivity. Qed.
