(* C11 -- expiry is exact: never visible after, never lost before, stable over restart
   (sequential part; the absolute expiry instant surviving flush+restart bit for bit is the
   codec round trip of C10 plus the whole-file check; crash points inside recovery are C04). *)
From Coq Require Import List NArith ZArith Bool.
From Feox Require Import Gen.Constants Model.Bytes Model.Lww Proofs.LwwProofs.
From Feox Require Gen.Constants Model.Codec Model.FreeSpace Model.Recovery Proofs.ScanQuiescentProofs Proofs.ScanGenerationsProofs Proofs.ScanExpiryProofs.
From Feox Require Model.Sched Model.Sweep Proofs.SweepProofs.
Import ListNotations.
Local Open Scope N_scope.

(* once the expiry instant has passed, no value-reading call returns the value *)
Theorem expired_never_visible :
  forall c s e k g,
  sorted (kv s) ->
  ttl_on c = true -> find k (kv s) = Some g -> 0 < g_exp g -> g_exp g < e_tb e -> validate_key k = None ->
  snd (step c s (Get k) e) = OErr KeyNotFound /\
  (forall x v ts ttl, is_err (snd (step c s (Cas k x v ts ttl) e)) = true \/ snd (step c s (Cas k x v ts ttl) e) = OBool false) /\
  (forall ttl, ttl_write_supported c = true -> snd (step c s (UpdateTtl k ttl) e) = OErr KeyNotFound) /\
  (forall a b v, ~ In (k, v) (range_spec c (kv s) a b (e_tb e) (e_ta e)))

(* while the newest generation is unexpired or has no expiry, it is returned *).
Proof. exact never_visible_after. Qed.
Check expired_never_visible :
  forall c s e k g,
  sorted (kv s) ->
  ttl_on c = true -> find k (kv s) = Some g -> 0 < g_exp g -> g_exp g < e_tb e -> validate_key k = None ->
  snd (step c s (Get k) e) = OErr KeyNotFound /\
  (forall x v ts ttl, is_err (snd (step c s (Cas k x v ts ttl) e)) = true \/ snd (step c s (Cas k x v ts ttl) e) = OBool false) /\
  (forall ttl, ttl_write_supported c = true -> snd (step c s (UpdateTtl k ttl) e) = OErr KeyNotFound) /\
  (forall a b v, ~ In (k, v) (range_spec c (kv s) a b (e_tb e) (e_ta e)))

(* while the newest generation is unexpired or has no expiry, it is returned *).
Print Assumptions expired_never_visible.

Theorem unexpired_always_visible :
  forall c s e k g,
  e_tb e <= e_ta e -> find k (kv s) = Some g -> validate_key k = None ->
  (ttl_on c = false \/ g_exp g = 0 \/ e_ta e <= g_exp g) ->
  snd (step c s (Get k) e) = OVal (g_val g)

(* ... and no call other than a delete of that key removes it *).
Proof. exact never_hidden_before. Qed.
Check unexpired_always_visible :
  forall c s e k g,
  e_tb e <= e_ta e -> find k (kv s) = Some g -> validate_key k = None ->
  (ttl_on c = false \/ g_exp g = 0 \/ e_ta e <= g_exp g) ->
  snd (step c s (Get k) e) = OVal (g_val g)

(* ... and no call other than a delete of that key removes it *).
Print Assumptions unexpired_always_visible.

Theorem unexpired_never_removed :
  forall c s o e k g,
  Inv c s -> e_tb e <= e_ta e -> find k (kv s) = Some g ->
  (ttl_on c = false \/ g_exp g = 0 \/ e_ta e <= g_exp g) ->
  (forall ts, o <> Delete k ts) ->
  find k (kv (fst (step c s o e))) <> None

(* recovery keeps every unexpired key *).
Proof. exact unexpired_not_removed. Qed.
Check unexpired_never_removed :
  forall c s o e k g,
  Inv c s -> e_tb e <= e_ta e -> find k (kv s) = Some g ->
  (ttl_on c = false \/ g_exp g = 0 \/ e_ta e <= g_exp g) ->
  (forall ts, o <> Delete k ts) ->
  find k (kv (fst (step c s o e))) <> None

(* recovery keeps every unexpired key *).
Print Assumptions unexpired_never_removed.

Theorem restart_keeps_unexpired :
  forall c s tb ta shards clk s' k g,
  tb <= ta -> reopen c s tb ta shards clk = ReOk s' -> In (k, g) (kv s) ->
  (ttl_on c = false \/ g_exp g = 0 \/ ta <= g_exp g) -> In (k, g) (kv s')

(* a TTL-only update keeps the value and moves the version forward *).
Proof. exact reopen_keeps_unexpired. Qed.
Check restart_keeps_unexpired :
  forall c s tb ta shards clk s' k g,
  tb <= ta -> reopen c s tb ta shards clk = ReOk s' -> In (k, g) (kv s) ->
  (ttl_on c = false \/ g_exp g = 0 \/ ta <= g_exp g) -> In (k, g) (kv s')

(* a TTL-only update keeps the value and moves the version forward *).
Print Assumptions restart_keeps_unexpired.

Theorem ttl_update_keeps_value :
  forall c s e k ttl old,
  find k (kv s) = Some old -> snd (step c s (UpdateTtl k ttl) e) = OUnit -> sorted (kv s) ->
  exists g, find k (kv (fst (step c s (UpdateTtl k ttl) e))) = Some g /\ g_val g = g_val old /\ g_ts old < g_ts g
(* ---- concurrent clause (Model/Sweep.v): the sweeper and lazy retirement racing with writers that
   renew, replace or delete the key, under a clock that only grows; every schedule ---- *)

(* while nobody writes or deletes the key, its current generation stays in the table for as long
   as it is unexpired or has no expiry: through any number of sweeper batches, lazy retirements,
   writes to other keys and clock ticks, in any order *).
Proof. exact ttl_only_update_keeps_value. Qed.
Check ttl_update_keeps_value :
  forall c s e k ttl old,
  find k (kv s) = Some old -> snd (step c s (UpdateTtl k ttl) e) = OUnit -> sorted (kv s) ->
  exists g, find k (kv (fst (step c s (UpdateTtl k ttl) e))) = Some g /\ g_val g = g_val old /\ g_ts old < g_ts g
(* ---- concurrent clause (Model/Sweep.v): the sweeper and lazy retirement racing with writers that
   renew, replace or delete the key, under a clock that only grows; every schedule ---- *)

(* while nobody writes or deletes the key, its current generation stays in the table for as long
   as it is unexpired or has no expiry: through any number of sweeper batches, lazy retirements,
   writes to other keys and clock ticks, in any order *).
Print Assumptions ttl_update_keeps_value.

Theorem unexpired_survives_sweeper_and_lazy_retirement :
  forall es s k g,
  SweepProofs.SwInv s -> forallb (fun e => negb (Sweep.client_write_on k e)) es = true ->
  Sched.aget k (Sweep.ss_tbl s) = Some g ->
  Sweep.expired_at g (Sweep.ss_now (Sweep.sfinal s es)) = false ->
  Sched.aget k (Sweep.ss_tbl (Sweep.sfinal s es)) = Some g

(* the hypothesis SwInv holds in every reachable state *).
Proof. exact SweepProofs.unexpired_generation_survives. Qed.
Check unexpired_survives_sweeper_and_lazy_retirement :
  forall es s k g,
  SweepProofs.SwInv s -> forallb (fun e => negb (Sweep.client_write_on k e)) es = true ->
  Sched.aget k (Sweep.ss_tbl s) = Some g ->
  Sweep.expired_at g (Sweep.ss_now (Sweep.sfinal s es)) = false ->
  Sched.aget k (Sweep.ss_tbl (Sweep.sfinal s es)) = Some g

(* the hypothesis SwInv holds in every reachable state *).
Print Assumptions unexpired_survives_sweeper_and_lazy_retirement.

Theorem sweep_invariant_reachable :
  forall es s, SweepProofs.SwInv s -> SweepProofs.SwInv (Sweep.sfinal s es)

(* every removal by expiry ever made -- by the sweeper or lazily -- took out a generation that was
   expired at the wall clock of the removal *).
Proof. exact SweepProofs.srun_inv. Qed.
Check sweep_invariant_reachable :
  forall es s, SweepProofs.SwInv s -> SweepProofs.SwInv (Sweep.sfinal s es)

(* every removal by expiry ever made -- by the sweeper or lazily -- took out a generation that was
   expired at the wall clock of the removal *).
Print Assumptions sweep_invariant_reachable.

Theorem expiry_removes_only_expired :
  forall es r, In r (Sweep.ss_log (Sweep.sfinal Sweep.sinit es)) ->
  Sweep.expired_at (Sweep.r_gen r) (Sweep.r_clock r) = true

(* one event changes a key's entry only by a client's write to that key or by removing its current,
   expired generation: a renewed key is never removed on behalf of the generation it replaced *).
Proof. exact SweepProofs.expiry_removes_only_expired. Qed.
Check expiry_removes_only_expired :
  forall es r, In r (Sweep.ss_log (Sweep.sfinal Sweep.sinit es)) ->
  Sweep.expired_at (Sweep.r_gen r) (Sweep.r_clock r) = true

(* one event changes a key's entry only by a client's write to that key or by removing its current,
   expired generation: a renewed key is never removed on behalf of the generation it replaced *).
Print Assumptions expiry_removes_only_expired.

Theorem entry_changes_only_by_write_or_expiry :
  forall es e k,
  let s := Sweep.sfinal Sweep.sinit es in
  let s' := fst (Sweep.sstep s e) in
  Sched.aget k (Sweep.ss_tbl s') = Sched.aget k (Sweep.ss_tbl s) \/ Sweep.client_write_on k e = true \/
  (exists g, Sched.aget k (Sweep.ss_tbl s) = Some g /\ Sched.aget k (Sweep.ss_tbl s') = None /\ Sweep.expired_at g (Sweep.ss_now s) = true)

(* no older generation reappears: the identities a key's entry goes through only grow, and a key
   removed by expiry stays absent until a client writes it again *).
Proof. exact SweepProofs.entry_changes_only_by_write_or_expiry. Qed.
Check entry_changes_only_by_write_or_expiry :
  forall es e k,
  let s := Sweep.sfinal Sweep.sinit es in
  let s' := fst (Sweep.sstep s e) in
  Sched.aget k (Sweep.ss_tbl s') = Sched.aget k (Sweep.ss_tbl s) \/ Sweep.client_write_on k e = true \/
  (exists g, Sched.aget k (Sweep.ss_tbl s) = Some g /\ Sched.aget k (Sweep.ss_tbl s') = None /\ Sweep.expired_at g (Sweep.ss_now s) = true)

(* no older generation reappears: the identities a key's entry goes through only grow, and a key
   removed by expiry stays absent until a client writes it again *).
Print Assumptions entry_changes_only_by_write_or_expiry.

Theorem generations_only_move_forward :
  forall es s k g g',
  SweepProofs.SwInv s -> Sched.aget k (Sweep.ss_tbl s) = Some g -> Sched.aget k (Sweep.ss_tbl (Sweep.sfinal s es)) = Some g' ->
  Sweep.sg_id g <= Sweep.sg_id g'.
Proof. exact SweepProofs.generations_only_move_forward. Qed.
Check generations_only_move_forward :
  forall es s k g g',
  SweepProofs.SwInv s -> Sched.aget k (Sweep.ss_tbl s) = Some g -> Sched.aget k (Sweep.ss_tbl (Sweep.sfinal s es)) = Some g' ->
  Sweep.sg_id g <= Sweep.sg_id g'.
Print Assumptions generations_only_move_forward.

Theorem expired_key_stays_absent :
  forall es s k,
  SweepProofs.SwInv s -> Sched.aget k (Sweep.ss_tbl s) = None ->
  forallb (fun e => negb (Sweep.client_write_on k e)) es = true ->
  Sched.aget k (Sweep.ss_tbl (Sweep.sfinal s es)) = None

(* a read never returns a generation that is expired at the clock of the read *).
Proof. exact SweepProofs.expired_key_stays_absent. Qed.
Check expired_key_stays_absent :
  forall es s k,
  SweepProofs.SwInv s -> Sched.aget k (Sweep.ss_tbl s) = None ->
  forallb (fun e => negb (Sweep.client_write_on k e)) es = true ->
  Sched.aget k (Sweep.ss_tbl (Sweep.sfinal s es)) = None

(* a read never returns a generation that is expired at the clock of the read *).
Print Assumptions expired_key_stays_absent.

Theorem read_never_returns_expired :
  forall s k v, snd (Sweep.sstep s (Sweep.EGet k)) = Sweep.SVal (Some v) ->
  exists g, Sched.aget k (Sweep.ss_tbl s) = Some g /\ Sweep.expired_at g (Sweep.ss_now s) = false /\ Sweep.sg_val g = v

(* ---- recovery (byte level, Model/Recovery.v): the scan keeps the newest generation of every key,
   then remove_expired_recovery_winners goes over the whole index.  Afterwards a key is exposed
   exactly when its newest generation on the device has not expired, and then with that generation;
   a key whose newest generation has expired is absent although older generations of it are on
   the device -- no older generation takes its place ---- *).
Proof. exact SweepProofs.get_never_returns_expired. Qed.
Check read_never_returns_expired :
  forall s k v, snd (Sweep.sstep s (Sweep.EGet k)) = Sweep.SVal (Some v) ->
  exists g, Sched.aget k (Sweep.ss_tbl s) = Some g /\ Sweep.expired_at g (Sweep.ss_now s) = false /\ Sweep.sg_val g = v

(* ---- recovery (byte level, Model/Recovery.v): the scan keeps the newest generation of every key,
   then remove_expired_recovery_winners goes over the whole index.  Afterwards a key is exposed
   exactly when its newest generation on the device has not expired, and then with that generation;
   a key whose newest generation has expired is absent although older generations of it are on
   the device -- no older generation takes its place ---- *).
Print Assumptions read_never_returns_expired.

Theorem recovery_hides_keys_whose_newest_generation_expired :
  forall c version total now jl img its st0 fuel,
  Recovery.c_ro c = false -> Codec.has_token version = true -> (total <= Recovery.U64MAX)%N ->
  (length its < fuel)%nat ->
  Recovery.rs_fs st0 = FreeSpace.mkfs [] (total * Constants.FEOX_BLOCK_SIZE)%N 0%N 0%N ->
  Recovery.rs_last_end st0 = Constants.FEOX_DATA_START_BLOCK -> Recovery.rs_idx st0 = [] ->
  (total * Constants.FEOX_BLOCK_SIZE < FreeSpace.U64)%N ->
  Forall (ScanQuiescentProofs.item_ok version) its ->
  skipn (N.to_nat Constants.FEOX_DATA_START_BLOCK) img = ScanQuiescentProofs.ilayout version Constants.FEOX_DATA_START_BLOCK its ->
  total = (Constants.FEOX_DATA_START_BLOCK + ScanQuiescentProofs.isum version its)%N -> (0 < ScanQuiescentProofs.isum version its)%N ->
  exists st1 st2,
    Recovery.scan fuel c version total img Constants.FEOX_DATA_START_BLOCK st0 jl = Recovery.Ok st1 /\
    Recovery.expire_winners c version now (Recovery.rs_idx st1) st1 = Recovery.Ok st2 /\
    (forall r s, In (r, s) (ScanGenerationsProofs.placed version Constants.FEOX_DATA_START_BLOCK its) ->
                 exists e, Recovery.idx_find (Codec.r_key r) (Recovery.rs_idx st1) = Some e /\ (Codec.r_ts r <= Recovery.e_ts e)%N) /\
    (forall k, Recovery.idx_find k (Recovery.rs_idx st2) =
               match Recovery.idx_find k (Recovery.rs_idx st1) with
               | Some e => if ScanExpiryProofs.expired now e then None else Some e
               | None => None
               end).
Proof. exact ScanExpiryProofs.recovery_hides_keys_whose_newest_generation_expired. Qed.
Check recovery_hides_keys_whose_newest_generation_expired :
  forall c version total now jl img its st0 fuel,
  Recovery.c_ro c = false -> Codec.has_token version = true -> (total <= Recovery.U64MAX)%N ->
  (length its < fuel)%nat ->
  Recovery.rs_fs st0 = FreeSpace.mkfs [] (total * Constants.FEOX_BLOCK_SIZE)%N 0%N 0%N ->
  Recovery.rs_last_end st0 = Constants.FEOX_DATA_START_BLOCK -> Recovery.rs_idx st0 = [] ->
  (total * Constants.FEOX_BLOCK_SIZE < FreeSpace.U64)%N ->
  Forall (ScanQuiescentProofs.item_ok version) its ->
  skipn (N.to_nat Constants.FEOX_DATA_START_BLOCK) img = ScanQuiescentProofs.ilayout version Constants.FEOX_DATA_START_BLOCK its ->
  total = (Constants.FEOX_DATA_START_BLOCK + ScanQuiescentProofs.isum version its)%N -> (0 < ScanQuiescentProofs.isum version its)%N ->
  exists st1 st2,
    Recovery.scan fuel c version total img Constants.FEOX_DATA_START_BLOCK st0 jl = Recovery.Ok st1 /\
    Recovery.expire_winners c version now (Recovery.rs_idx st1) st1 = Recovery.Ok st2 /\
    (forall r s, In (r, s) (ScanGenerationsProofs.placed version Constants.FEOX_DATA_START_BLOCK its) ->
                 exists e, Recovery.idx_find (Codec.r_key r) (Recovery.rs_idx st1) = Some e /\ (Codec.r_ts r <= Recovery.e_ts e)%N) /\
    (forall k, Recovery.idx_find k (Recovery.rs_idx st2) =
               match Recovery.idx_find k (Recovery.rs_idx st1) with
               | Some e => if ScanExpiryProofs.expired now e then None else Some e
               | None => None
               end).
Print Assumptions recovery_hides_keys_whose_newest_generation_expired.
Example expiry_example :
  let c := mkcfg false true 3 None 168 in
  let e0 := mkenv 0 0 1000000000000 1000000000001 0 None in
  let s1 := fst (step c init (Insert [1] [7] (Some 100) 5 true) e0) in
  (* expiry = 100 + 5e9, far below now = 1e12: invisible; the key still occupies its slot *)
  snd (step c s1 (Get [1]) e0) = OErr KeyNotFound /\ snd (step c s1 (Contains [1]) e0) = OBool true.
Proof. vm_compute. split; reflexivity. Qed.

(* non-vacuity of the concurrent clause: the sweeper samples an expired generation, the key is
   renewed before the guarded step, the sweeper's removal finds another generation and leaves it;
   the same schedule without the renewal removes the key *)
Example renewal_wins_against_a_parked_sweeper :
  let race := [Sweep.ETick 1000; Sweep.EPut 7 500 1; Sweep.ESample; Sweep.EPut 7 5000 2; Sweep.EProc 7] in
  let plain := [Sweep.ETick 1000; Sweep.EPut 7 500 1; Sweep.ESample; Sweep.EProc 7] in
  option_map Sweep.sg_val (Sched.aget 7 (Sweep.ss_tbl (Sweep.sfinal Sweep.sinit race))) = Some 2 /\
  Sched.aget 7 (Sweep.ss_tbl (Sweep.sfinal Sweep.sinit plain)) = None /\
  length (Sweep.ss_log (Sweep.sfinal Sweep.sinit plain)) = 1%nat.
Proof. vm_compute. repeat split. Qed.

(* non-vacuity: key k1 has an old generation without expiry and a newest one that expired (expiry 50,
   now 100); k2 lives.  After recovery k1 is absent, k2 present; both extents of k1 are queued *)
Example expired_newest_generation_hides_the_key :
  let old := Codec.mkrec [107; 49] [1; 1] 20 0 in
  let new := Codec.mkrec [107; 49] [2; 2; 2] 30 50 in
  let other := Codec.mkrec [107; 50] [9] 5 0 in
  let its := [ScanQuiescentProofs.IRec old; ScanQuiescentProofs.IRec other; ScanQuiescentProofs.IRec new] in
  let img := repeat (repeat 0%N Codec.BLOCK) 16 ++ ScanQuiescentProofs.ilayout 3 16 its in
  let c := Recovery.mkcfg false false (Some 100%N) 168 in
  match Recovery.scan 6 c 3 19 img 16 (Recovery.mkrs [] (FreeSpace.mkfs [] (19 * 4096) 0 0) 0 0 0 [] 16 0) [] with
  | Recovery.Ok st1 =>
      match Recovery.expire_winners c 3 100 (Recovery.rs_idx st1) st1 with
      | Recovery.Ok st2 => map Recovery.e_key (Recovery.rs_idx st2) = [[107; 50]]%N /\
                           Recovery.rs_retired st2 = [(18, 1); (16, 1)]%N /\ Recovery.rs_count st2 = 1%N
      | _ => False
      end
  | _ => False
  end.
Proof. vm_compute. repeat split; reflexivity. Qed.
