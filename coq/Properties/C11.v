(* C11 -- expiry is exact: never visible after, never lost before, stable over restart
   (sequential part; the absolute expiry instant surviving flush+restart bit for bit is the
   codec round trip of C10 plus the whole-file check; crash points inside recovery are C04). *)
From Coq Require Import List NArith ZArith Bool.
From Feox Require Import Gen.Constants Model.Bytes Model.Lww Proofs.LwwProofs.
Import ListNotations.
Local Open Scope N_scope.

(* once the expiry instant has passed, no value-reading call returns the value *)
Theorem expired_never_visible :
  forall c s e k g,
  sorted (kv s) ->
  ttl_on c = true -> find k (kv s) = Some g -> 0 < g_exp g -> g_exp g < e_tb e -> validate_key k = None ->
  snd (step c s (Get k) e) = OErr KeyNotFound /\
  (forall x v ts ttl, is_err (snd (step c s (Cas k x v ts ttl) e)) = true \/ snd (step c s (Cas k x v ts ttl) e) = OBool false) /\
  (forall ttl, ttl_write_supported c = true -> snd (step c s (UpdateTtl k ttl) e) = OErr KeyNotFound) /\
  (forall a b v, ~ In (k, v) (range_spec c (kv s) a b (e_tb e) (e_ta e)))

(* while the newest generation is unexpired or has no expiry, it is returned *).
Proof. exact never_visible_after. Qed.
Check expired_never_visible :
  forall c s e k g,
  sorted (kv s) ->
  ttl_on c = true -> find k (kv s) = Some g -> 0 < g_exp g -> g_exp g < e_tb e -> validate_key k = None ->
  snd (step c s (Get k) e) = OErr KeyNotFound /\
  (forall x v ts ttl, is_err (snd (step c s (Cas k x v ts ttl) e)) = true \/ snd (step c s (Cas k x v ts ttl) e) = OBool false) /\
  (forall ttl, ttl_write_supported c = true -> snd (step c s (UpdateTtl k ttl) e) = OErr KeyNotFound) /\
  (forall a b v, ~ In (k, v) (range_spec c (kv s) a b (e_tb e) (e_ta e)))

(* while the newest generation is unexpired or has no expiry, it is returned *).
Print Assumptions expired_never_visible.

Theorem unexpired_always_visible :
  forall c s e k g,
  e_tb e <= e_ta e -> find k (kv s) = Some g -> validate_key k = None ->
  (ttl_on c = false \/ g_exp g = 0 \/ e_ta e <= g_exp g) ->
  snd (step c s (Get k) e) = OVal (g_val g)

(* ... and no call other than a delete of that key removes it *).
Proof. exact never_hidden_before. Qed.
Check unexpired_always_visible :
  forall c s e k g,
  e_tb e <= e_ta e -> find k (kv s) = Some g -> validate_key k = None ->
  (ttl_on c = false \/ g_exp g = 0 \/ e_ta e <= g_exp g) ->
  snd (step c s (Get k) e) = OVal (g_val g)

(* ... and no call other than a delete of that key removes it *).
Print Assumptions unexpired_always_visible.

Theorem unexpired_never_removed :
  forall c s o e k g,
  Inv c s -> e_tb e <= e_ta e -> find k (kv s) = Some g ->
  (ttl_on c = false \/ g_exp g = 0 \/ e_ta e <= g_exp g) ->
  (forall ts, o <> Delete k ts) ->
  find k (kv (fst (step c s o e))) <> None

(* recovery keeps every unexpired key *).
Proof. exact unexpired_not_removed. Qed.
Check unexpired_never_removed :
  forall c s o e k g,
  Inv c s -> e_tb e <= e_ta e -> find k (kv s) = Some g ->
  (ttl_on c = false \/ g_exp g = 0 \/ e_ta e <= g_exp g) ->
  (forall ts, o <> Delete k ts) ->
  find k (kv (fst (step c s o e))) <> None

(* recovery keeps every unexpired key *).
Print Assumptions unexpired_never_removed.

Theorem restart_keeps_unexpired :
  forall c s tb ta shards clk s' k g,
  tb <= ta -> reopen c s tb ta shards clk = ReOk s' -> In (k, g) (kv s) ->
  (ttl_on c = false \/ g_exp g = 0 \/ ta <= g_exp g) -> In (k, g) (kv s')

(* a TTL-only update keeps the value and moves the version forward *).
Proof. exact reopen_keeps_unexpired. Qed.
Check restart_keeps_unexpired :
  forall c s tb ta shards clk s' k g,
  tb <= ta -> reopen c s tb ta shards clk = ReOk s' -> In (k, g) (kv s) ->
  (ttl_on c = false \/ g_exp g = 0 \/ ta <= g_exp g) -> In (k, g) (kv s')

(* a TTL-only update keeps the value and moves the version forward *).
Print Assumptions restart_keeps_unexpired.

Theorem ttl_update_keeps_value :
  forall c s e k ttl old,
  find k (kv s) = Some old -> snd (step c s (UpdateTtl k ttl) e) = OUnit -> sorted (kv s) ->
  exists g, find k (kv (fst (step c s (UpdateTtl k ttl) e))) = Some g /\ g_val g = g_val old /\ g_ts old < g_ts g.
Proof. exact ttl_only_update_keeps_value. Qed.
Check ttl_update_keeps_value :
  forall c s e k ttl old,
  find k (kv s) = Some old -> snd (step c s (UpdateTtl k ttl) e) = OUnit -> sorted (kv s) ->
  exists g, find k (kv (fst (step c s (UpdateTtl k ttl) e))) = Some g /\ g_val g = g_val old /\ g_ts old < g_ts g.
Print Assumptions ttl_update_keeps_value.
Example expiry_example :
  let c := mkcfg false true 3 None 168 in
  let e0 := mkenv 0 0 1000000000000 1000000000001 0 None in
  let s1 := fst (step c init (Insert [1] [7] (Some 100) 5 true) e0) in
  (* expiry = 100 + 5e9, far below now = 1e12: invisible; the key still occupies its slot *)
  snd (step c s1 (Get [1]) e0) = OErr KeyNotFound /\ snd (step c s1 (Contains [1]) e0) = OBool true.
Proof. vm_compute. split; reflexivity. Qed.
