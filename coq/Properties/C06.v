(* C06 -- the free-space allocator never double-allocates, loses or fragments space.
   Only statements; every proof is `exact <lemma of Proofs/FreeSpaceProofs>`. *)
From Coq Require Import List NArith Lia.
From Feox Require Import Gen.Constants Model.FreeSpace Proofs.FreeSpaceProofs.
Import ListNotations.
Local Open Scope N_scope.

(* Every state reachable from a successful initialize by any call sequence satisfies the
   representation invariant (sorted, non-empty, in-bounds, pairwise non-adjacent runs,
   cached totals exact). *)
Theorem inv_reachable : forall d s0 ops,
  d < U64 -> initialize d = FOk s0 -> Inv (frun s0 ops).
Proof. intros d s0 ops Hd Hi. destruct (initialize_Inv d s0 Hi Hd) as (I & _). exact (proj1 (frun_Inv ops s0 I)). Qed.
Check inv_reachable : forall d s0 ops, d < U64 -> initialize d = FOk s0 -> Inv (frun s0 ops).
Print Assumptions inv_reachable.

(* Initially exactly the data area is free. *)
Theorem initial_free_set : forall d s0, d < U64 -> initialize d = FOk s0 ->
  forall b, free s0 b <-> FEOX_DATA_START_BLOCK <= b < d / FEOX_BLOCK_SIZE.
Proof. intros d s0 Hd Hi. exact (proj2 (proj2 (initialize_Inv d s0 Hi Hd))). Qed.
Check initial_free_set : forall d s0, d < U64 -> initialize d = FOk s0 ->
  forall b, free s0 b <-> FEOX_DATA_START_BLOCK <= b < d / FEOX_BLOCK_SIZE.
Print Assumptions initial_free_set.

(* An allocation returns an in-bounds run of exactly the requested length that was entirely
   free, and removes exactly that run from the free set; it fails with OutOfSpace exactly when
   no single run is long enough, with InvalidArgument exactly for n = 0; failures change nothing. *)
Theorem alloc_sound_complete : forall n s, Inv s ->
  (n = 0 /\ alloc n s = (FErr EArg, s)) \/
  (0 < n /\ (forall r, In r (runs s) -> snd r < n) /\ alloc n s = (FErr ESpace, s)) \/
  (0 < n /\ exists a s', alloc n s = (FOk a, s') /\
     FEOX_DATA_START_BLOCK <= a /\ a + n <= dev_sectors s /\
     (forall b, a <= b < a + n -> free s b) /\
     Inv s' /\ dev_bytes s' = dev_bytes s /\
     (forall b, free s' b <-> free s b /\ ~ (a <= b < a + n))).
Proof. exact alloc_cases. Qed.
Check alloc_sound_complete : forall n s, Inv s ->
  (n = 0 /\ alloc n s = (FErr EArg, s)) \/
  (0 < n /\ (forall r, In r (runs s) -> snd r < n) /\ alloc n s = (FErr ESpace, s)) \/
  (0 < n /\ exists a s', alloc n s = (FOk a, s') /\
     FEOX_DATA_START_BLOCK <= a /\ a + n <= dev_sectors s /\
     (forall b, a <= b < a + n -> free s b) /\
     Inv s' /\ dev_bytes s' = dev_bytes s /\
     (forall b, free s' b <-> free s b /\ ~ (a <= b < a + n))).
Print Assumptions alloc_sound_complete.

(* A release is accepted iff the range is inside the data area, non-empty and disjoint from
   the free set; a rejected release leaves the whole state unchanged; an accepted one adds
   exactly the range. *)
Theorem release_sound_complete : forall st c s, Inv s ->
  (exists e, release st c s = (FErr e, s) /\
     ~ (FEOX_DATA_START_BLOCK <= st /\ 0 < c /\ st + c <= dev_sectors s /\
        (forall b, st <= b < st + c -> ~ free s b))) \/
  (exists s', release st c s = (FOk tt, s') /\
     (FEOX_DATA_START_BLOCK <= st /\ 0 < c /\ st + c <= dev_sectors s /\
        (forall b, st <= b < st + c -> ~ free s b)) /\
     Inv s' /\ dev_bytes s' = dev_bytes s /\
     (forall b, free s' b <-> free s b \/ st <= b < st + c)).
Proof. exact release_cases. Qed.
Check release_sound_complete : forall st c s, Inv s ->
  (exists e, release st c s = (FErr e, s) /\
     ~ (FEOX_DATA_START_BLOCK <= st /\ 0 < c /\ st + c <= dev_sectors s /\
        (forall b, st <= b < st + c -> ~ free s b))) \/
  (exists s', release st c s = (FOk tt, s') /\
     (FEOX_DATA_START_BLOCK <= st /\ 0 < c /\ st + c <= dev_sectors s /\
        (forall b, st <= b < st + c -> ~ free s b)) /\
     Inv s' /\ dev_bytes s' = dev_bytes s /\
     (forall b, free s' b <-> free s b \/ st <= b < st + c)).
Print Assumptions release_sound_complete.

(* No double allocation: a block handed out stays out of every later allocation until a
   release names it -- along every call sequence. *)
Theorem no_double_allocation : forall s n1 a1 s1 mid n2 a2 s2 b,
  Inv s -> alloc n1 s = (FOk a1, s1) -> a1 <= b < a1 + n1 ->
  (forall st c, In (ORelease st c) mid -> ~ (st <= b < st + c)) ->
  alloc n2 (frun s1 mid) = (FOk a2, s2) -> ~ (a2 <= b < a2 + n2).
Proof.
  intros s n1 a1 s1 mid n2 a2 s2 b HI E1 Hb NR E2 Hb2.
  destruct (alloc_cases n1 s HI) as [(_ & E)|[(_ & _ & E)|(_ & a & s' & E & P)]]; rewrite E in E1; try discriminate.
  injection E1 as <- <-. destruct P as (_ & _ & _ & I1 & _ & F1).
  assert (NF : ~ free s' b) by (rewrite F1; tauto).
  pose proof (frun_keeps_used mid s' b I1 NF NR) as NF2.
  destruct (frun_Inv mid s' I1) as (I2 & _).
  destruct (alloc_cases n2 (frun s' mid) I2) as [(_ & E')|[(_ & _ & E')|(_ & a' & s'' & E' & P')]]; rewrite E' in E2; try discriminate.
  injection E2 as <- <-. destruct P' as (_ & _ & FR & _). exact (NF2 (FR b Hb2)).
Qed.
Check no_double_allocation : forall s n1 a1 s1 mid n2 a2 s2 b,
  Inv s -> alloc n1 s = (FOk a1, s1) -> a1 <= b < a1 + n1 ->
  (forall st c, In (ORelease st c) mid -> ~ (st <= b < st + c)) ->
  alloc n2 (frun s1 mid) = (FOk a2, s2) -> ~ (a2 <= b < a2 + n2).
Print Assumptions no_double_allocation.

(* Canonical form: the run list is the unique non-adjacent decomposition of the free set, every
   run is a maximal interval of it, and the reported statistics are those of that decomposition:
   total = 4096 * |free set| (counted block by block), largest = the longest maximal run,
   chunks = the number of maximal runs. *)
Theorem canonical : forall s, Inv s ->
  (forall s2, Inv s2 -> dev_bytes s2 = dev_bytes s -> (forall b, free s b <-> free s2 b) -> runs s2 = runs s) /\
  (forall r, In r (runs s) ->
     (forall b, fst r <= b < fst r + snd r -> free s b) /\ ~ free s (fst r + snd r) /\
     (forall b, b + 1 = fst r -> ~ free s b)) /\
  get_total_free s =
    count_free (runs s) FEOX_DATA_START_BLOCK (N.to_nat (dev_sectors s - FEOX_DATA_START_BLOCK)) * FEOX_BLOCK_SIZE /\
  get_largest s = max_size (runs s) * FEOX_BLOCK_SIZE /\
  get_chunks s = N.of_nat (length (runs s)) /\
  (forall r, In r (runs s) -> snd r <= max_size (runs s)) /\
  (runs s <> [] -> exists r, In r (runs s) /\ snd r = max_size (runs s)).
Proof.
  intros s HI. pose proof HI as [D U W T F]. split; [|split; [|split; [|split; [|split; [|split]]]]].
  - intros s2 [D2 U2 W2 T2 F2] Hd EQ. symmetry. apply (wf_canonical (dev_sectors s) _ FEOX_DATA_START_BLOCK); auto.
    unfold dev_sectors in *. rewrite <- Hd. exact W2.
  - intros r Hr. exact (wf_maximal _ _ _ _ W Hr).
  - unfold get_total_free. rewrite T. f_equal. apply (sum_is_cardinal (dev_sectors s)); auto. lia.
  - reflexivity.
  - reflexivity.
  - intros r Hr. exact (max_size_ge _ _ Hr).
  - exact (max_size_In (runs s)).
Qed.
Check canonical : forall s, Inv s ->
  (forall s2, Inv s2 -> dev_bytes s2 = dev_bytes s -> (forall b, free s b <-> free s2 b) -> runs s2 = runs s) /\
  (forall r, In r (runs s) ->
     (forall b, fst r <= b < fst r + snd r -> free s b) /\ ~ free s (fst r + snd r) /\
     (forall b, b + 1 = fst r -> ~ free s b)) /\
  get_total_free s =
    count_free (runs s) FEOX_DATA_START_BLOCK (N.to_nat (dev_sectors s - FEOX_DATA_START_BLOCK)) * FEOX_BLOCK_SIZE /\
  get_largest s = max_size (runs s) * FEOX_BLOCK_SIZE /\
  get_chunks s = N.of_nat (length (runs s)) /\
  (forall r, In r (runs s) -> snd r <= max_size (runs s)) /\
  (runs s <> [] -> exists r, In r (runs s) /\ snd r = max_size (runs s)).
Print Assumptions canonical.

(* Non-vacuity: a concrete reachable state with two separated runs satisfies Inv. *)
Example inv_nonvacuous :
  match initialize 131072 with
  | FOk s0 => runs (frun s0 [OAlloc 1; OAlloc 2; OAlloc 3; ORelease 17 2]) = [(17, 2); (22, 10)]
  | FErr _ => False
  end.
Proof. vm_compute. reflexivity. Qed.
