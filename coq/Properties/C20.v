(* C20 -- the safe API is memory safe under every interleaving (PARTIAL).
   What an executable Gallina model can carry is the ownership logic of the one place where the
   crate hands raw buffer addresses to the kernel: io.rs InFlightBuffers.  Everything else in this
   property (epoch-managed ordered-index pointers, aligned allocations, the absence of data races
   in unsafe code) is runtime behaviour of compiled Rust: it is exercised, not proved, by running
   the engines of the other properties under AddressSanitizer. *)
From Coq Require Import List Arith Bool.
From Feox Require Import Model.InFlight Proofs.InFlightProofs.
From Coq Require Import NArith.
From Feox Require Model.AlignedBuf Proofs.AlignedBufProofs.
From Feox Require Gen.AllocSites Proofs.AllocProofs.
Import ListNotations.

Theorem inflight_invariant_reachable :
  forall evs s, IFInv s -> IFInv (ifrun s evs)

(* for every order of pushes, submissions, submission failures, completions and the final drop:
   a buffer the kernel may still read from is never freed *).
Proof. exact ifrun_IFInv. Qed.
Check inflight_invariant_reachable :
  forall evs s, IFInv s -> IFInv (ifrun s evs)

(* for every order of pushes, submissions, submission failures, completions and the final drop:
   a buffer the kernel may still read from is never freed *).
Print Assumptions inflight_invariant_reachable.

Theorem kernel_referenced_buffer_is_never_freed :
  forall evs i,
  let s := ifrun ifinit evs in
  nth i (kern s) false = true -> nth i (bufs s) Owned <> Freed

(* and only buffers marked in flight at the drop are kept alive *).
Proof. exact kernel_referenced_buffer_never_freed. Qed.
Check kernel_referenced_buffer_is_never_freed :
  forall evs i,
  let s := ifrun ifinit evs in
  nth i (kern s) false = true -> nth i (bufs s) Owned <> Freed

(* and only buffers marked in flight at the drop are kept alive *).
Print Assumptions kernel_referenced_buffer_is_never_freed.

Theorem only_in_flight_buffers_are_leaked :
  forall evs i,
  let s := ifrun ifinit evs in
  nth i (bufs s) Owned = Leaked -> nth i (inflight s) false = true
(* aligned allocations (utils/allocator.rs AlignedBuffer, a public safe type): for every requested
   capacity and every sequence of safe calls, the slice handed out by as_slice / as_mut_slice lies
   inside the allocation, the advertised capacity covers the request, and the allocation is a
   whole number of blocks *).
Proof. exact leaked_only_if_in_flight. Qed.
Check only_in_flight_buffers_are_leaked :
  forall evs i,
  let s := ifrun ifinit evs in
  nth i (bufs s) Owned = Leaked -> nth i (inflight s) false = true
(* aligned allocations (utils/allocator.rs AlignedBuffer, a public safe type): for every requested
   capacity and every sequence of safe calls, the slice handed out by as_slice / as_mut_slice lies
   inside the allocation, the advertised capacity covers the request, and the allocation is a
   whole number of blocks *).
Print Assumptions only_in_flight_buffers_are_leaked.

Theorem aligned_buffer_slices_stay_inside_the_allocation :
  forall capacity ops,
  let b := AlignedBuf.ab_run capacity ops in
  (AlignedBuf.ab_len b <= AlignedBuf.ab_alloc b /\ capacity <= AlignedBuf.ab_cap b /\
   AlignedBuf.ab_cap b <= AlignedBuf.ab_alloc b /\ AlignedBuf.ab_alloc b mod AlignedBuf.BLOCK = 0)%N.
Proof. exact AlignedBufProofs.safe_slices_stay_inside_the_allocation. Qed.
Check aligned_buffer_slices_stay_inside_the_allocation :
  forall capacity ops,
  let b := AlignedBuf.ab_run capacity ops in
  (AlignedBuf.ab_len b <= AlignedBuf.ab_alloc b /\ capacity <= AlignedBuf.ab_cap b /\
   AlignedBuf.ab_cap b <= AlignedBuf.ab_alloc b /\ AlignedBuf.ab_alloc b mod AlignedBuf.BLOCK = 0)%N.
Print Assumptions aligned_buffer_slices_stay_inside_the_allocation.

Theorem oversized_set_len_is_refused :
  forall b n, (AlignedBuf.ab_cap b < n)%N -> AlignedBuf.ab_step b (AlignedBuf.ASetLen n) = (b, AlignedBuf.APanic)

(* FeoxAllocator (public): Gen/AllocSites.v is regenerated from src/utils/allocator.rs on every run.
   For every size a block is released by the path that produced it (Layout path or mmap path),
   with the Layout alignment it was allocated with and exactly the length that was mapped; the
   mapping covers the request, consists of whole pages and wastes less than one page.  (usize
   overflow of size + PAGE_MASK is outside: such a request cannot be mapped.) *).
Proof. exact AlignedBufProofs.oversized_set_len_is_refused. Qed.
Check oversized_set_len_is_refused :
  forall b n, (AlignedBuf.ab_cap b < n)%N -> AlignedBuf.ab_step b (AlignedBuf.ASetLen n) = (b, AlignedBuf.APanic)

(* FeoxAllocator (public): Gen/AllocSites.v is regenerated from src/utils/allocator.rs on every run.
   For every size a block is released by the path that produced it (Layout path or mmap path),
   with the Layout alignment it was allocated with and exactly the length that was mapped; the
   mapping covers the request, consists of whole pages and wastes less than one page.  (usize
   overflow of size + PAGE_MASK is outside: such a request cannot be mapped.) *).
Print Assumptions oversized_set_len_is_refused.

Theorem allocator_releases_exactly_what_it_allocated :
  forall size : N,
    AllocSites.alloc_small size = AllocSites.dealloc_small size /\
    AllocSites.alloc_small_align = AllocSites.dealloc_small_align /\
    AllocSites.dealloc_large_len size = AllocSites.alloc_large_len size /\
    (size <= AllocSites.alloc_large_len size)%N /\
    (AllocSites.alloc_large_len size < size + AllocSites.A_PAGE_SIZE)%N /\
    (AllocSites.alloc_large_len size mod AllocSites.A_PAGE_SIZE = 0)%N.
Proof. exact AllocProofs.release_matches_allocation. Qed.
Check allocator_releases_exactly_what_it_allocated :
  forall size : N,
    AllocSites.alloc_small size = AllocSites.dealloc_small size /\
    AllocSites.alloc_small_align = AllocSites.dealloc_small_align /\
    AllocSites.dealloc_large_len size = AllocSites.alloc_large_len size /\
    (size <= AllocSites.alloc_large_len size)%N /\
    (AllocSites.alloc_large_len size < size + AllocSites.A_PAGE_SIZE)%N /\
    (AllocSites.alloc_large_len size mod AllocSites.A_PAGE_SIZE = 0)%N.
Print Assumptions allocator_releases_exactly_what_it_allocated.
Example abandoned_submission_is_kept_alive :
  let s := ifrun ifinit [Push; Push; MarkInFlight 0; SqPushOk 0; MarkInFlight 1; SqPushOk 1; Complete 1; DropAll] in
  bufs s = [Leaked; Freed] /\ kern s = [true; false].
Proof. vm_compute. split; reflexivity. Qed.
Example allocator_classes :
  AllocSites.alloc_small 8192 = true /\ AllocSites.alloc_small 8193 = false /\
  AllocSites.alloc_large_len 8193 = 12288%N /\ AllocSites.alloc_large_len 65536 = 65536%N.
Proof. vm_compute. repeat split; reflexivity. Qed.
