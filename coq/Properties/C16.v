(* C16 -- the read cache is transparent and its accounting exact.
   Accounting / removal clauses over Model/Cache.v (public API of ClockCache).  Transparency
   (cache on vs off, generation-tagged lookups) is established by execution: the C01 sequences in
   the persistent configurations with the cache on and off must all equal the same reference map. *)
From Coq Require Import List NArith Bool.
From Feox Require Import Gen.Constants Model.Bytes Model.Cache Proofs.CacheProofs.
Import ListNotations.
Local Open Scope N_scope.

(* after every operation of every sequence: reported memory = total size of the held entries,
   bucket list canonical, at most one entry per key *)
Theorem cache_accounting_exact :
  forall ops c, CInv c -> CInv (crun c ops).
Proof. exact crun_CInv. Qed.
Check cache_accounting_exact :
  forall ops c, CInv c -> CInv (crun c ops).
Print Assumptions cache_accounting_exact.

Theorem fresh_cache_consistent :
  forall e, CInv (cache_new e)

(* eviction brings the usage down to the low watermark: two CLOCK passes always suffice (the
   first clears the reference bit of everything it keeps, the second finds it all unreferenced) *).
Proof. exact cache_new_CInv. Qed.
Check fresh_cache_consistent :
  forall e, CInv (cache_new e)

(* eviction brings the usage down to the low watermark: two CLOCK passes always suffice (the
   first clears the reference bit of everything it keeps, the second finds it all unreferenced) *).
Print Assumptions fresh_cache_consistent.

Theorem eviction_reaches_the_low_watermark :
  forall c, CInv c -> cmem (cevict c) <= low c

(* an explicit remove is never followed by a hit *).
Proof. exact cevict_reaches_low. Qed.
Check eviction_reaches_the_low_watermark :
  forall c, CInv c -> cmem (cevict c) <= low c

(* an explicit remove is never followed by a hit *).
Print Assumptions eviction_reaches_the_low_watermark.

Theorem remove_is_never_followed_by_a_hit :
  forall c k, CInv c -> fst (cget (cremove c k) k) = None.
Proof. exact remove_then_miss. Qed.
Check remove_is_never_followed_by_a_hit :
  forall c k, CInv c -> fst (cget (cremove c k) k) = None.
Print Assumptions remove_is_never_followed_by_a_hit.
Example accounting_unfolds : forall c, CInv c -> cmem c = total (buckets c).
Proof. intros c [_ H _]. exact H. Qed.
Example murmur_vectors :
  murmur3_32 [] 0 = 0 /\ murmur3_32 [97] 0 = 1009084850 /\ murmur3_32 [97; 98; 99; 100; 101] 0 = 3902511862.
Proof. vm_compute. repeat split; reflexivity. Qed.
