(* C16 -- the read cache is transparent and its accounting exact.
   Accounting / removal clauses over Model/Cache.v (public API of ClockCache).  Transparency over
   Model/CacheGen.v: the generation-tagged calls (layer A, compared with the real ClockCache and
   real Records through hook H13) and the store's read / write / TTL paths around them (layer B)
   under an arbitrary schedule of readers, writers, offloads, drops and evictions.  The same
   machine with `on = false` is the store without a cache.  Execution adds the end-to-end tie: the
   C01 sequences in the persistent configurations with the cache on and off must all equal the
   same reference map. *)
From Coq Require Import List NArith Bool.
From Feox Require Import Gen.Constants Model.Bytes Model.Cache Proofs.CacheProofs Proofs.CacheSpareProofs.
From Feox Require Import Model.Sched Model.CacheGen Proofs.CacheGenProofs.
Import ListNotations.
Local Open Scope N_scope.

(* after every operation of every sequence: reported memory = total size of the held entries,
   bucket list canonical, at most one entry per key *)
Theorem cache_accounting_exact :
  forall ops c, CInv c -> CInv (crun c ops).
Proof. exact crun_CInv. Qed.
Check cache_accounting_exact :
  forall ops c, CInv c -> CInv (crun c ops).
Print Assumptions cache_accounting_exact.

Theorem fresh_cache_consistent :
  forall e, CInv (cache_new e)

(* eviction brings the usage down to the low watermark: two CLOCK passes always suffice (the
   first clears the reference bit of everything it keeps, the second finds it all unreferenced) *).
Proof. exact cache_new_CInv. Qed.
Check fresh_cache_consistent :
  forall e, CInv (cache_new e)

(* eviction brings the usage down to the low watermark: two CLOCK passes always suffice (the
   first clears the reference bit of everything it keeps, the second finds it all unreferenced) *).
Print Assumptions fresh_cache_consistent.

Theorem eviction_reaches_the_low_watermark :
  forall c, CInv c -> cmem (cevict c) <= low c

(* eviction does not take recently referenced entries when unreferenced ones suffice: if evicting
   every unreferenced entry would reach the low watermark, every referenced entry is still there
   after evict_entries (same key, bytes and size; its reference bit may have been cleared) *).
Proof. exact cevict_reaches_low. Qed.
Check eviction_reaches_the_low_watermark :
  forall c, CInv c -> cmem (cevict c) <= low c

(* eviction does not take recently referenced entries when unreferenced ones suffice: if evicting
   every unreferenced entry would reach the low watermark, every referenced entry is still there
   after evict_entries (same key, bytes and size; its reference bit may have been cleared) *).
Print Assumptions eviction_reaches_the_low_watermark.

Theorem referenced_entries_spared_when_unreferenced_suffice :
  forall c, CInv c -> cmem c <= low c + utotal (buckets c) ->
  forall i e, In e (bget i (buckets c)) -> ce_ref e = true -> kept e (bget i (buckets (cevict c)))

(* ... and the hypothesis is needed *).
Proof. exact referenced_entries_are_spared. Qed.
Check referenced_entries_spared_when_unreferenced_suffice :
  forall c, CInv c -> cmem c <= low c + utotal (buckets c) ->
  forall i e, In e (bget i (buckets c)) -> ce_ref e = true -> kept e (bget i (buckets (cevict c)))

(* ... and the hypothesis is needed *).
Print Assumptions referenced_entries_spared_when_unreferenced_suffice.

Theorem without_enough_unreferenced_a_referenced_entry_goes :
  exists c, CInv c /\ low c < cmem c /\ utotal (buckets c) = 0 /\ cmem (cevict c) < cmem c

(* an explicit remove is never followed by a hit *).
Proof. exact without_enough_unreferenced_some_referenced_entry_goes. Qed.
Check without_enough_unreferenced_a_referenced_entry_goes :
  exists c, CInv c /\ low c < cmem c /\ utotal (buckets c) = 0 /\ cmem (cevict c) < cmem c

(* an explicit remove is never followed by a hit *).
Print Assumptions without_enough_unreferenced_a_referenced_entry_goes.

Theorem remove_is_never_followed_by_a_hit :
  forall c k, CInv c -> fst (cget (cremove c k) k) = None

(* a lookup for generation g that hits returns the bytes of exactly that generation -- whatever
   updates, deletes, re-creations with lower timestamps, TTL rewrites, offloads, drops, late
   fills and evictions the schedule held *).
Proof. exact remove_then_miss. Qed.
Check remove_is_never_followed_by_a_hit :
  forall c k, CInv c -> fst (cget (cremove c k) k) = None

(* a lookup for generation g that hits returns the bytes of exactly that generation -- whatever
   updates, deletes, re-creations with lower timestamps, TTL rewrites, offloads, drops, late
   fills and evictions the schedule held *).
Print Assumptions remove_is_never_followed_by_a_hit.

Theorem cached_value_is_served_only_for_its_generation :
  forall on es k g v,
    cg_get (b_cache (brun on binit es)) k (Some g) = Some v ->
    exists r, aget g (b_gens (brun on binit es)) = Some r /\ gr_val r = v

(* every value a read returns is the value of a generation of the key it asked for *).
Proof. exact hit_serves_the_generation. Qed.
Check cached_value_is_served_only_for_its_generation :
  forall on es k g v,
    cg_get (b_cache (brun on binit es)) k (Some g) = Some v ->
    exists r, aget g (b_gens (brun on binit es)) = Some r /\ gr_val r = v

(* every value a read returns is the value of a generation of the key it asked for *).
Print Assumptions cached_value_is_served_only_for_its_generation.

Theorem read_results_are_genuine :
  forall on es i k g v,
    In (i, k, Some (g, v)) (b_out (brun on binit es)) ->
    exists r, aget g (b_gens (brun on binit es)) = Some r /\ gr_key r = k /\ gr_val r = v

(* refinement: whatever the store with the cache answers under a schedule, the store without a
   cache answers under the same schedule of calls and background steps (only answers of the
   device that the cached run never asked for are chosen) -- same results, same table, same
   generations, update_ttl's replacement built from cached bytes included *).
Proof. exact results_are_genuine. Qed.
Check read_results_are_genuine :
  forall on es i k g v,
    In (i, k, Some (g, v)) (b_out (brun on binit es)) ->
    exists r, aget g (b_gens (brun on binit es)) = Some r /\ gr_key r = k /\ gr_val r = v

(* refinement: whatever the store with the cache answers under a schedule, the store without a
   cache answers under the same schedule of calls and background steps (only answers of the
   device that the cached run never asked for are chosen) -- same results, same table, same
   generations, update_ttl's replacement built from cached bytes included *).
Print Assumptions read_results_are_genuine.

Theorem cached_store_refines_the_cacheless_store :
  forall es, exists es',
    map erase es' = map erase es /\
    b_out (brun false binit es') = b_out (brun true binit es) /\
    b_tbl (brun false binit es') = b_tbl (brun true binit es) /\
    b_gens (brun false binit es') = b_gens (brun true binit es)

(* and when no device read is refused as stale (every sequential execution), step for step the
   same results with the cache on and off *).
Proof. exact cached_store_refines_cacheless. Qed.
Check cached_store_refines_the_cacheless_store :
  forall es, exists es',
    map erase es' = map erase es /\
    b_out (brun false binit es') = b_out (brun true binit es) /\
    b_tbl (brun false binit es') = b_tbl (brun true binit es) /\
    b_gens (brun false binit es') = b_gens (brun true binit es)

(* and when no device read is refused as stale (every sequential execution), step for step the
   same results with the cache on and off *).
Print Assumptions cached_store_refines_the_cacheless_store.

Theorem cache_on_equals_cache_off_without_stale_reads :
  forall es, all_good_reads es ->
    b_out (brun true binit es) = b_out (brun false binit es) /\
    b_tbl (brun true binit es) = b_tbl (brun false binit es) /\
    b_gens (brun true binit es) = b_gens (brun false binit es)

(* at most one entry per key, so a lookup cannot pick among several *).
Proof. exact cache_is_transparent_without_stale_reads. Qed.
Check cache_on_equals_cache_off_without_stale_reads :
  forall es, all_good_reads es ->
    b_out (brun true binit es) = b_out (brun false binit es) /\
    b_tbl (brun true binit es) = b_tbl (brun false binit es) /\
    b_gens (brun true binit es) = b_gens (brun false binit es)

(* at most one entry per key, so a lookup cannot pick among several *).
Print Assumptions cache_on_equals_cache_off_without_stale_reads.

Theorem one_cache_entry_per_key :
  forall on es, NoDup (ckeys (b_cache (brun on binit es))).
Proof. exact one_entry_per_key. Qed.
Check one_cache_entry_per_key :
  forall on es, NoDup (ckeys (b_cache (brun on binit es))).
Print Assumptions one_cache_entry_per_key.
Example accounting_unfolds : forall c, CInv c -> cmem c = total (buckets c).
Proof. intros c [_ H _]. exact H. Qed.
Example murmur_vectors :
  murmur3_32 [] 0 = 0 /\ murmur3_32 [97] 0 = 1009084850 /\ murmur3_32 [97; 98; 99; 100; 101] 0 = 3902511862.
Proof. vm_compute. repeat split; reflexivity. Qed.

(* non-vacuity: a schedule in which the cache serves a hit, update_ttl rebuilds the value from the
   cached bytes, and a late fill for a superseded generation lands in the cache (no entry of the
   key was left to refuse it) but is never served to a reader of the current generation *)
Example cache_gen_run :
  let es := [BPut 1 70 5 0; BOffload 1; BStart 9 1; BResolve 9 false; BFill 9 false;
             BStart 8 1; BResolve 8 true; BFill 8 true;
             BStart 7 1; BResolve 7 false;
             BTtl 1 6 0; BFill 7 false;
             BStart 6 1; BResolve 6 false; BFill 6 true] in
  map (fun x => match x with (i, _, Some (g, v)) => (i, g, v) | (i, _, None) => (i, 0, 0) end) (b_out (brun true binit es))
    = [(6, 2, 70); (7, 1, 70); (8, 1, 70); (9, 1, 70)]
  /\ b_cache (brun true binit es) = [mkcent 1 (Some 1) 70]
  /\ cg_get (b_cache (brun true binit es)) 1 (Some 2) = None
  /\ resident (brun true binit es) 2 = true /\ resident (brun false binit es) 2 = false.
Proof. vm_compute. repeat split; reflexivity. Qed.
