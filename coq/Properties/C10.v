(* C10 -- the device file follows the documented v1/v2/v3 layout.
   Codec theorems about the documented byte layout (Model/Bytes, Crc32c, Codec). The whole-file
   reader used as the "independent reader" is Model.Recovery.open_image (read-only mode). *)
From Coq Require Import List NArith Bool Lia.
From Feox Require Import Gen.Constants Model.Bytes Model.Crc32c Model.Codec Proofs.CodecProofs.
From Feox Require Import Model.FreeSpace Model.Recovery Proofs.ScanAcceptsProofs Proofs.ScanQuiescentProofs.
From Feox Require Proofs.FreeSpaceProofs.
From Feox Require Import Model.MetaJournal Proofs.MetaJournalProofs Proofs.JournalLayoutProofs.
Import ListNotations.
Local Open Scope N_scope.

(* little-endian fields round-trip for every width and value *)
Theorem le_roundtrip : forall k n, n < 256 ^ N.of_nat k -> le_num (le_bytes k n) = n.
Proof. exact le_num_le_bytes. Qed.
Check le_roundtrip : forall k n, n < 256 ^ N.of_nat k -> le_num (le_bytes k n) = n.
Print Assumptions le_roundtrip.

Theorem le_roundtrip_bytes : forall l, Forall (fun b => b < 256) l -> le_bytes (length l) (le_num l) = l.
Proof. exact le_bytes_le_num. Qed.
Check le_roundtrip_bytes : forall l, Forall (fun b => b < 256) l -> le_bytes (length l) (le_num l) = l.
Print Assumptions le_roundtrip_bytes.

(* CRC-32C: incremental updates equal one pass; the lookup table is the bitwise definition;
   known vector "123456789" -> 0xE3069283 *)
Theorem crc_chain : forall seed a b, crc32c (crc32c seed a) b = crc32c seed (a ++ b).
Proof. exact crc32c_chain. Qed.
Check crc_chain : forall seed a b, crc32c (crc32c seed a) b = crc32c seed (a ++ b).
Print Assumptions crc_chain.

Theorem crc_table_is_bitwise : forall c b, crc_byte TABLE c b = crc_byte_bitwise c b.
Proof. exact crc_byte_table. Qed.
Check crc_table_is_bitwise : forall c b, crc_byte TABLE c b = crc_byte_bitwise c b.
Print Assumptions crc_table_is_bitwise.

Example crc_known_vector : crc32c 0 [49;50;51;52;53;54;55;56;57] = 3808858755.
Proof. vm_compute. reflexivity. Qed.

(* record layout: parsing a serialized record (whole extent, or its head block alone when the
   header fits in one block) returns exactly key, value length, timestamp and expiry, for every
   key (up to the u16 length field), every value, every timestamp/expiry, v1 and v2/v3 layouts *)
Theorem parse_serialize_roundtrip : forall version r,
  N.of_nat (length (r_key r)) < 65536 -> N.of_nat (length (r_value r)) < 2 ^ 64 ->
  r_ts r < 2 ^ 64 -> r_exp r < 2 ^ 64 ->
  parse_head version (serialize version r) =
  Some (Some (r_key r, N.of_nat (length (r_value r)), r_ts r, if has_expiry version then r_exp r else 0)).
Proof. exact parse_serialize. Qed.
Check parse_serialize_roundtrip : forall version r,
  N.of_nat (length (r_key r)) < 65536 -> N.of_nat (length (r_value r)) < 2 ^ 64 ->
  r_ts r < 2 ^ 64 -> r_exp r < 2 ^ 64 ->
  parse_head version (serialize version r) =
  Some (Some (r_key r, N.of_nat (length (r_value r)), r_ts r, if has_expiry version then r_exp r else 0)).
Print Assumptions parse_serialize_roundtrip.

Theorem parse_head_block_roundtrip : forall version r,
  N.of_nat (length (r_key r)) < 65536 -> N.of_nat (length (r_value r)) < 2 ^ 64 ->
  r_ts r < 2 ^ 64 -> r_exp r < 2 ^ 64 ->
  (6 + length (r_key r) + 16 + (if has_expiry version then 8 else 0) <= BLOCK)%nat ->
  parse_head version (firstn BLOCK (serialize version r)) =
  Some (Some (r_key r, N.of_nat (length (r_value r)), r_ts r, if has_expiry version then r_exp r else 0)).
Proof. exact parse_head_block. Qed.
Check parse_head_block_roundtrip : forall version r,
  N.of_nat (length (r_key r)) < 65536 -> N.of_nat (length (r_value r)) < 2 ^ 64 ->
  r_ts r < 2 ^ 64 -> r_exp r < 2 ^ 64 ->
  (6 + length (r_key r) + 16 + (if has_expiry version then 8 else 0) <= BLOCK)%nat ->
  parse_head version (firstn BLOCK (serialize version r)) =
  Some (Some (r_key r, N.of_nat (length (r_value r)), r_ts r, if has_expiry version then r_exp r else 0)).
Print Assumptions parse_head_block_roundtrip.

(* the value bytes sit exactly at the header size (so a TTL-only rewrite of the header keeps them) *)
Theorem value_at_value_offset : forall version r,
  sub (serialize version r)
      (6 + length (r_key r) + 16 + (if has_expiry version then 8 else 0)) (length (r_value r)) = r_value r.
Proof. exact value_at_offset. Qed.
Check value_at_value_offset : forall version r,
  sub (serialize version r)
      (6 + length (r_key r) + 16 + (if has_expiry version then 8 else 0)) (length (r_value r)) = r_value r.
Print Assumptions value_at_value_offset.

(* tokens: 16 bits, never zero; the stamped token verifies, stamping is idempotent *)
Theorem token_range : forall sector data, record_token sector data < 65536 /\ record_token sector data <> 0.
Proof.
  intros. split; [apply record_token_lt|]. unfold record_token. destruct (Nat.leb _ _); apply fold16_nonzero.
Qed.
Check token_range : forall sector data, record_token sector data < 65536 /\ record_token sector data <> 0.
Print Assumptions token_range.

Theorem stamped_token_verifies : forall version sector d,
  header_range_ok version d = true ->
  u16_at (stamp version sector d) 2 = record_token sector (stamp version sector d) /\
  stamp version sector (stamp version sector d) = stamp version sector d /\
  u16_at (stamp version sector d) 2 <> 0.
Proof. exact stamp_self_consistent. Qed.
Check stamped_token_verifies : forall version sector d,
  header_range_ok version d = true ->
  u16_at (stamp version sector d) 2 = record_token sector (stamp version sector d) /\
  stamp version sector (stamp version sector d) = stamp version sector d /\
  u16_at (stamp version sector d) 2 <> 0.
Print Assumptions stamped_token_verifies.

(* retirement markers: every marker block written for (sector, remaining) is recognised as a
   complete marker for exactly that sector and remaining count; markers, record heads and zero
   blocks are pairwise distinguishable *)
Theorem marker_block_roundtrip : forall sector remaining, remaining < 2 ^ 64 ->
  is_complete_marker (marker_block sector remaining RETIREMENT_COMPLETE) sector remaining = true.
Proof. exact marker_roundtrip. Qed.
Check marker_block_roundtrip : forall sector remaining, remaining < 2 ^ 64 ->
  is_complete_marker (marker_block sector remaining RETIREMENT_COMPLETE) sector remaining = true.
Print Assumptions marker_block_roundtrip.

Theorem marker_record_zero_disjoint : forall version r s rem st k, (8 <= k)%nat ->
  firstn 8 (serialize version r) <> DELETED_TAG /\
  u16_at (marker_block s rem st) 0 <> SECTOR_MARKER /\
  firstn 8 (zeros k) <> DELETED_TAG /\ u16_at (zeros k) 0 <> SECTOR_MARKER.
Proof.
  intros. split; [apply record_is_not_marker|]. split; [apply marker_not_record|]. apply zero_block_is_neither; auto.
Qed.
Check marker_record_zero_disjoint : forall version r s rem st k, (8 <= k)%nat ->
  firstn 8 (serialize version r) <> DELETED_TAG /\
  u16_at (marker_block s rem st) 0 <> SECTOR_MARKER /\
  firstn 8 (zeros k) <> DELETED_TAG /\ u16_at (zeros k) 0 <> SECTOR_MARKER.
Print Assumptions marker_record_zero_disjoint.

(* ---- what the write path puts on the device, the recovery scan reads back (Codec <-> Recovery) ----
   One iteration of the scan loop at the head of an extent image produced by encode_extent
   (serialize, pad, stamp the sector- and content-bound token; v1, v2 and v3 alike) accepts it,
   advances exactly over the extent and indexes exactly the record's key, timestamp, expiry, value
   length and sector. *)
Theorem scan_accepts_what_the_write_path_encodes : forall version sector r,
  0 < N.of_nat (length (r_key r)) ->
  (6 + length (r_key r) + 16 + (if has_expiry version then 8 else 0) <= BLOCK)%nat ->
  0 < N.of_nat (length (r_value r)) -> N.of_nat (length (r_value r)) <= MAX_VALUE_SIZE ->
  r_ts r < 2 ^ 64 -> r_exp r < 2 ^ 64 ->
  forall c total st jl rest',
  N.of_nat (length (r_key r)) <= MAX_KEY_SIZE ->
  sector + need_of version r <= total ->
  forall st4,
  (c_ro c = false \/ jl = []) ->
  idx_find (r_key r) (rs_idx st) = None ->
  (if rs_last_end st <? sector then fs_release st (rs_last_end st) (sector - rs_last_end st) else Ok st) = Ok st4 ->
  scan_step c version total sector
    (chunk_blocks (encode_extent version sector r) (N.to_nat (need_of version r)) ++ rest') st jl =
  Ok (Advance (sector + need_of version r) (index_one c version sector r st4) jl).
Proof. exact scan_step_accepts_encoded_record. Qed.
Check scan_accepts_what_the_write_path_encodes : forall version sector r,
  0 < N.of_nat (length (r_key r)) ->
  (6 + length (r_key r) + 16 + (if has_expiry version then 8 else 0) <= BLOCK)%nat ->
  0 < N.of_nat (length (r_value r)) -> N.of_nat (length (r_value r)) <= MAX_VALUE_SIZE ->
  r_ts r < 2 ^ 64 -> r_exp r < 2 ^ 64 ->
  forall c total st jl rest',
  N.of_nat (length (r_key r)) <= MAX_KEY_SIZE ->
  sector + need_of version r <= total ->
  forall st4,
  (c_ro c = false \/ jl = []) ->
  idx_find (r_key r) (rs_idx st) = None ->
  (if rs_last_end st <? sector then fs_release st (rs_last_end st) (sector - rs_last_end st) else Ok st) = Ok st4 ->
  scan_step c version total sector
    (chunk_blocks (encode_extent version sector r) (N.to_nat (need_of version r)) ++ rest') st jl =
  Ok (Advance (sector + need_of version r) (index_one c version sector r st4) jl).
Print Assumptions scan_accepts_what_the_write_path_encodes.

(* ... and the value: the entry the scan makes for an encoded extent reads back exactly the
   record's value bytes (the extent is re-read and checked against the entry first) *)
Theorem indexed_entry_reads_back_its_value : forall version sector r,
  0 < N.of_nat (length (r_key r)) ->
  (6 + length (r_key r) + 16 + (if has_expiry version then 8 else 0) <= BLOCK)%nat ->
  0 < N.of_nat (length (r_value r)) -> N.of_nat (length (r_value r)) <= MAX_VALUE_SIZE ->
  r_ts r < 2 ^ 64 -> r_exp r < 2 ^ 64 ->
  forall img rest0,
  skipn (N.to_nat sector) img = chunk_blocks (encode_extent version sector r) (N.to_nat (need_of version r)) ++ rest0 ->
  read_value version img
    (mkentry (r_key r) (r_ts r) (if has_expiry version then r_exp r else 0) (N.of_nat (length (r_value r))) sector)
  = Some (r_value r).
Proof. exact read_value_returns_the_value. Qed.
Check indexed_entry_reads_back_its_value : forall version sector r,
  0 < N.of_nat (length (r_key r)) ->
  (6 + length (r_key r) + 16 + (if has_expiry version then 8 else 0) <= BLOCK)%nat ->
  0 < N.of_nat (length (r_value r)) -> N.of_nat (length (r_value r)) <= MAX_VALUE_SIZE ->
  r_ts r < 2 ^ 64 -> r_exp r < 2 ^ 64 ->
  forall img rest0,
  skipn (N.to_nat sector) img = chunk_blocks (encode_extent version sector r) (N.to_nat (need_of version r)) ++ rest0 ->
  read_value version img
    (mkentry (r_key r) (r_ts r) (if has_expiry version then r_exp r else 0) (N.of_nat (length (r_value r))) sector)
  = Some (r_value r).
Print Assumptions indexed_entry_reads_back_its_value.

(* newest timestamp wins, whichever generation the scan meets first: an older generation of an
   indexed key leaves the index as it is and is queued for retirement ... *)
Theorem scan_retires_an_older_generation : forall version sector r,
  0 < N.of_nat (length (r_key r)) ->
  (6 + length (r_key r) + 16 + (if has_expiry version then 8 else 0) <= BLOCK)%nat ->
  0 < N.of_nat (length (r_value r)) -> N.of_nat (length (r_value r)) <= MAX_VALUE_SIZE ->
  r_ts r < 2 ^ 64 -> r_exp r < 2 ^ 64 ->
  forall c total st jl rest',
  N.of_nat (length (r_key r)) <= MAX_KEY_SIZE ->
  sector + need_of version r <= total ->
  forall ex,
  c_ro c = false ->
  idx_find (r_key r) (rs_idx st) = Some ex -> r_ts r < e_ts ex ->
  scan_step c version total sector
    (chunk_blocks (encode_extent version sector r) (N.to_nat (need_of version r)) ++ rest') st jl =
  Ok (Advance (sector + need_of version r)
        (mkrs (rs_idx st) (rs_fs st) (rs_count st) (rs_mem st) (rs_disk st)
              ((sector, need_of version r) :: rs_retired st) (rs_last_end st) (rs_ambiguous st)) jl).
Proof. exact scan_step_retires_an_older_generation. Qed.
Check scan_retires_an_older_generation : forall version sector r,
  0 < N.of_nat (length (r_key r)) ->
  (6 + length (r_key r) + 16 + (if has_expiry version then 8 else 0) <= BLOCK)%nat ->
  0 < N.of_nat (length (r_value r)) -> N.of_nat (length (r_value r)) <= MAX_VALUE_SIZE ->
  r_ts r < 2 ^ 64 -> r_exp r < 2 ^ 64 ->
  forall c total st jl rest',
  N.of_nat (length (r_key r)) <= MAX_KEY_SIZE ->
  sector + need_of version r <= total ->
  forall ex,
  c_ro c = false ->
  idx_find (r_key r) (rs_idx st) = Some ex -> r_ts r < e_ts ex ->
  scan_step c version total sector
    (chunk_blocks (encode_extent version sector r) (N.to_nat (need_of version r)) ++ rest') st jl =
  Ok (Advance (sector + need_of version r)
        (mkrs (rs_idx st) (rs_fs st) (rs_count st) (rs_mem st) (rs_disk st)
              ((sector, need_of version r) :: rs_retired st) (rs_last_end st) (rs_ambiguous st)) jl).
Print Assumptions scan_retires_an_older_generation.

(* ... and a generation at least as new replaces the indexed one (whose extent is released and
   queued for retirement); the number of keys does not change *)
Theorem scan_replaces_by_a_newer_generation : forall version sector r,
  0 < N.of_nat (length (r_key r)) ->
  (6 + length (r_key r) + 16 + (if has_expiry version then 8 else 0) <= BLOCK)%nat ->
  0 < N.of_nat (length (r_value r)) -> N.of_nat (length (r_value r)) <= MAX_VALUE_SIZE ->
  r_ts r < 2 ^ 64 -> r_exp r < 2 ^ 64 ->
  forall c total st jl rest',
  N.of_nat (length (r_key r)) <= MAX_KEY_SIZE ->
  sector + need_of version r <= total ->
  forall ex st1 st4,
  c_ro c = false ->
  idx_find (r_key r) (rs_idx st) = Some ex -> e_ts ex <= r_ts r ->
  let exn := extent_blocks version (N.of_nat (length (e_key ex))) (e_vlen ex) in
  fs_release st (e_sector ex) exn = Ok st1 ->
  let st3 := mkrs (rs_idx st1) (rs_fs st1) (rs_count st1)
                  (wsub (rs_mem st1) (record_size c (N.of_nat (length (e_key ex))) (e_vlen ex)))
                  (wsub (rs_disk st1) (exn * FEOX_BLOCK_SIZE))
                  ((e_sector ex, exn) :: rs_retired st1) (rs_last_end st1) (rs_ambiguous st1) in
  (if rs_last_end st3 <? sector then fs_release st3 (rs_last_end st3) (sector - rs_last_end st3) else Ok st3) = Ok st4 ->
  exists st', scan_step c version total sector
                (chunk_blocks (encode_extent version sector r) (N.to_nat (need_of version r)) ++ rest') st jl =
              Ok (Advance (sector + need_of version r) st' jl) /\
    idx_find (r_key r) (rs_idx st') =
      Some (mkentry (r_key r) (r_ts r) (if has_expiry version then r_exp r else 0) (N.of_nat (length (r_value r))) sector) /\
    rs_count st' = rs_count st4 /\ rs_last_end st' = sector + need_of version r.
Proof. exact scan_step_replaces_by_a_newer_generation. Qed.
Check scan_replaces_by_a_newer_generation : forall version sector r,
  0 < N.of_nat (length (r_key r)) ->
  (6 + length (r_key r) + 16 + (if has_expiry version then 8 else 0) <= BLOCK)%nat ->
  0 < N.of_nat (length (r_value r)) -> N.of_nat (length (r_value r)) <= MAX_VALUE_SIZE ->
  r_ts r < 2 ^ 64 -> r_exp r < 2 ^ 64 ->
  forall c total st jl rest',
  N.of_nat (length (r_key r)) <= MAX_KEY_SIZE ->
  sector + need_of version r <= total ->
  forall ex st1 st4,
  c_ro c = false ->
  idx_find (r_key r) (rs_idx st) = Some ex -> e_ts ex <= r_ts r ->
  let exn := extent_blocks version (N.of_nat (length (e_key ex))) (e_vlen ex) in
  fs_release st (e_sector ex) exn = Ok st1 ->
  let st3 := mkrs (rs_idx st1) (rs_fs st1) (rs_count st1)
                  (wsub (rs_mem st1) (record_size c (N.of_nat (length (e_key ex))) (e_vlen ex)))
                  (wsub (rs_disk st1) (exn * FEOX_BLOCK_SIZE))
                  ((e_sector ex, exn) :: rs_retired st1) (rs_last_end st1) (rs_ambiguous st1) in
  (if rs_last_end st3 <? sector then fs_release st3 (rs_last_end st3) (sector - rs_last_end st3) else Ok st3) = Ok st4 ->
  exists st', scan_step c version total sector
                (chunk_blocks (encode_extent version sector r) (N.to_nat (need_of version r)) ++ rest') st jl =
              Ok (Advance (sector + need_of version r) st' jl) /\
    idx_find (r_key r) (rs_idx st') =
      Some (mkentry (r_key r) (r_ts r) (if has_expiry version then r_exp r else 0) (N.of_nat (length (r_value r))) sector) /\
    rs_count st' = rs_count st4 /\ rs_last_end st' = sector + need_of version r.
Print Assumptions scan_replaces_by_a_newer_generation.

(* per-block retirement markers: a completed run written for (sector, n) -- n blocks counting down,
   each with its sector-bound token -- is stepped over as a whole and is not retired again;
   free (zero) blocks are stepped over one at a time; neither touches the index *)
Theorem scan_skips_a_complete_marker_run : forall c version total sector n st jl rest',
  (c_ro c = false \/ jl = []) -> has_token version = true ->
  0 < n -> sector + n <= total -> total <= U64MAX ->
  scan_step c version total sector (marker_run sector n (N.to_nat n) ++ rest') st jl = Ok (Advance (sector + n) st jl).
Proof. exact scan_step_skips_a_complete_marker_run. Qed.
Check scan_skips_a_complete_marker_run : forall c version total sector n st jl rest',
  (c_ro c = false \/ jl = []) -> has_token version = true ->
  0 < n -> sector + n <= total -> total <= U64MAX ->
  scan_step c version total sector (marker_run sector n (N.to_nat n) ++ rest') st jl = Ok (Advance (sector + n) st jl).
Print Assumptions scan_skips_a_complete_marker_run.

Theorem scan_skips_a_zero_block : forall c version total sector st jl rest',
  (c_ro c = false \/ jl = []) ->
  scan_step c version total sector (zeros BLOCK :: rest') st jl = Ok (Advance (sector + 1) st jl).
Proof. exact scan_step_skips_a_zero_block. Qed.
Check scan_skips_a_zero_block : forall c version total sector st jl rest',
  (c_ro c = false \/ jl = []) ->
  scan_step c version total sector (zeros BLOCK :: rest') st jl = Ok (Advance (sector + 1) st jl).
Print Assumptions scan_skips_a_zero_block.

(* hence a data area packed with the encoded extents of records with pairwise distinct keys is
   scanned to exactly those records: the scan ends without error, and every record laid out is in
   the index with its timestamp, expiry and value length *)
Theorem scan_recovers_a_packed_data_area : forall c version total jl img,
  c_ro c = false ->
  forall rs fuel sector st,
  Forall (rec_ok version) rs -> distinct_keys rs ->
  (forall r, In r rs -> idx_find (r_key r) (rs_idx st) = None) ->
  rs_last_end st = sector ->
  skipn (N.to_nat sector) img = layout version sector rs ->
  total = sector + blocks_of version rs ->
  (length rs < fuel)%nat ->
  scan fuel c version total img sector st jl = Ok (index_all c version sector rs st).
Proof. exact ScanAcceptsProofs.scan_recovers_a_packed_data_area. Qed.
Check scan_recovers_a_packed_data_area : forall c version total jl img,
  c_ro c = false ->
  forall rs fuel sector st,
  Forall (rec_ok version) rs -> distinct_keys rs ->
  (forall r, In r rs -> idx_find (r_key r) (rs_idx st) = None) ->
  rs_last_end st = sector ->
  skipn (N.to_nat sector) img = layout version sector rs ->
  total = sector + blocks_of version rs ->
  (length rs < fuel)%nat ->
  scan fuel c version total img sector st jl = Ok (index_all c version sector rs st).
Print Assumptions scan_recovers_a_packed_data_area.

Theorem every_laid_out_record_is_indexed : forall c version rs sector st r,
  distinct_keys rs -> In r rs ->
  exists s, idx_find (r_key r) (rs_idx (index_all c version sector rs st)) =
            Some (mkentry (r_key r) (r_ts r) (if has_expiry version then r_exp r else 0) (N.of_nat (length (r_value r))) s).
Proof. exact ScanAcceptsProofs.every_laid_out_record_is_indexed. Qed.
Check every_laid_out_record_is_indexed : forall c version rs sector st r,
  distinct_keys rs -> In r rs ->
  exists s, idx_find (r_key r) (rs_idx (index_all c version sector rs st)) =
            Some (mkentry (r_key r) (r_ts r) (if has_expiry version then r_exp r else 0) (N.of_nat (length (r_value r))) s).
Print Assumptions every_laid_out_record_is_indexed.

(* ---- any quiescent data area: live records with pairwise distinct keys, completed marker runs and
   free blocks in any order (v3).  The scan ends without error; the index holds every record with its
   timestamp, expiry and value length and nothing else is added (the count grows by the number of
   records, entries of other keys stay); nothing is queued for retirement; and the free-space manager
   the scan builds holds, up to the end of the last record, exactly the blocks no record covers ---- *)
Theorem scan_reads_any_quiescent_data_area : forall c version total jl img,
  (c_ro c = false \/ jl = []) -> has_token version = true -> total <= U64MAX ->
  forall its fuel sector st,
  Forall (item_ok version) its -> distinct_keys (recs_of its) ->
  (forall r, In r (recs_of its) -> idx_find (r_key r) (rs_idx st) = None) ->
  SInv total sector st ->
  skipn (N.to_nat sector) img = ilayout version sector its ->
  total = sector + isum version its ->
  (length its < fuel)%nat ->
  exists st',
    scan fuel c version total img sector st jl = Ok st' /\
    SInv total total st' /\ rs_last_end st <= rs_last_end st' /\
    (forall r, In r (recs_of its) -> exists s, idx_find (r_key r) (rs_idx st') = Some (entry_of version r s)) /\
    (forall k e, idx_find k (rs_idx st) = Some e -> (forall r, In r (recs_of its) -> list_eqb (r_key r) k = false) ->
                 idx_find k (rs_idx st') = Some e) /\
    rs_count st' = rs_count st + N.of_nat (length (recs_of its)) /\
    rs_retired st' = rs_retired st /\
    (forall b, FreeSpaceProofs.free (rs_fs st') b <->
               FreeSpaceProofs.free (rs_fs st) b \/ (rs_last_end st <= b < rs_last_end st' /\ ~ covered version sector its b)) /\
    (forall b, rs_last_end st' <= b -> ~ covered version sector its b).
Proof. exact scan_reads_a_quiescent_data_area. Qed.
Check scan_reads_any_quiescent_data_area : forall c version total jl img,
  (c_ro c = false \/ jl = []) -> has_token version = true -> total <= U64MAX ->
  forall its fuel sector st,
  Forall (item_ok version) its -> distinct_keys (recs_of its) ->
  (forall r, In r (recs_of its) -> idx_find (r_key r) (rs_idx st) = None) ->
  SInv total sector st ->
  skipn (N.to_nat sector) img = ilayout version sector its ->
  total = sector + isum version its ->
  (length its < fuel)%nat ->
  exists st',
    scan fuel c version total img sector st jl = Ok st' /\
    SInv total total st' /\ rs_last_end st <= rs_last_end st' /\
    (forall r, In r (recs_of its) -> exists s, idx_find (r_key r) (rs_idx st') = Some (entry_of version r s)) /\
    (forall k e, idx_find k (rs_idx st) = Some e -> (forall r, In r (recs_of its) -> list_eqb (r_key r) k = false) ->
                 idx_find k (rs_idx st') = Some e) /\
    rs_count st' = rs_count st + N.of_nat (length (recs_of its)) /\
    rs_retired st' = rs_retired st /\
    (forall b, FreeSpaceProofs.free (rs_fs st') b <->
               FreeSpaceProofs.free (rs_fs st) b \/ (rs_last_end st <= b < rs_last_end st' /\ ~ covered version sector its b)) /\
    (forall b, rs_last_end st' <= b -> ~ covered version sector its b).
Print Assumptions scan_reads_any_quiescent_data_area.

(* from the state open_image starts with, including the release of the tail after the scan: every
   block of the data area is free exactly when no live record's extent covers it *)
Theorem quiescent_data_area_is_read_and_partitioned : forall c version total jl img,
  (c_ro c = false \/ jl = []) -> has_token version = true -> total <= U64MAX ->
  forall its st0 fuel,
  (length its < fuel)%nat ->
  rs_fs st0 = mkfs [] (total * FEOX_BLOCK_SIZE) 0 0 -> rs_last_end st0 = FEOX_DATA_START_BLOCK -> rs_idx st0 = [] ->
  total * FEOX_BLOCK_SIZE < U64 ->
  Forall (item_ok version) its -> distinct_keys (recs_of its) ->
  skipn (N.to_nat FEOX_DATA_START_BLOCK) img = ilayout version FEOX_DATA_START_BLOCK its ->
  total = FEOX_DATA_START_BLOCK + isum version its -> 0 < isum version its ->
  exists st' st'',
    scan fuel c version total img FEOX_DATA_START_BLOCK st0 jl = Ok st' /\
    (if rs_last_end st' <? total then fs_release st' (rs_last_end st') (total - rs_last_end st') else Ok st') = Ok st'' /\
    (forall r, In r (recs_of its) -> exists s, idx_find (r_key r) (rs_idx st'') = Some (entry_of version r s)) /\
    rs_count st'' = rs_count st0 + N.of_nat (length (recs_of its)) /\
    rs_retired st' = rs_retired st0 /\ rs_retired st'' = rs_retired st0 /\
    (forall b, FEOX_DATA_START_BLOCK <= b < total ->
               (FreeSpaceProofs.free (rs_fs st'') b <-> ~ covered version FEOX_DATA_START_BLOCK its b)).
Proof. exact quiescent_data_area_is_partitioned. Qed.
Check quiescent_data_area_is_read_and_partitioned : forall c version total jl img,
  (c_ro c = false \/ jl = []) -> has_token version = true -> total <= U64MAX ->
  forall its st0 fuel,
  (length its < fuel)%nat ->
  rs_fs st0 = mkfs [] (total * FEOX_BLOCK_SIZE) 0 0 -> rs_last_end st0 = FEOX_DATA_START_BLOCK -> rs_idx st0 = [] ->
  total * FEOX_BLOCK_SIZE < U64 ->
  Forall (item_ok version) its -> distinct_keys (recs_of its) ->
  skipn (N.to_nat FEOX_DATA_START_BLOCK) img = ilayout version FEOX_DATA_START_BLOCK its ->
  total = FEOX_DATA_START_BLOCK + isum version its -> 0 < isum version its ->
  exists st' st'',
    scan fuel c version total img FEOX_DATA_START_BLOCK st0 jl = Ok st' /\
    (if rs_last_end st' <? total then fs_release st' (rs_last_end st') (total - rs_last_end st') else Ok st') = Ok st'' /\
    (forall r, In r (recs_of its) -> exists s, idx_find (r_key r) (rs_idx st'') = Some (entry_of version r s)) /\
    rs_count st'' = rs_count st0 + N.of_nat (length (recs_of its)) /\
    rs_retired st' = rs_retired st0 /\ rs_retired st'' = rs_retired st0 /\
    (forall b, FEOX_DATA_START_BLOCK <= b < total ->
               (FreeSpaceProofs.free (rs_fs st'') b <-> ~ covered version FEOX_DATA_START_BLOCK its b)).
Print Assumptions quiescent_data_area_is_read_and_partitioned.

(* ---- the whole file.  Metadata: what Metadata::encode writes (fields, FM3C tag, CRC-32C and its
   complement) Metadata::from_bytes reads back field for field; a journal never written decodes to
   "clear".  open_image (read-write, TTL off) on a file whose selected metadata copy decodes to a
   version-3 metadata, whose journal decodes to clear and whose data area is any quiescent layout:
   it opens, leaves the file byte for byte as it is, and reports exactly the records (with their
   timestamps, expiries and value lengths) and a free-space manager that holds exactly the blocks
   no record covers ---- *)
Theorem metadata_roundtrip : forall m, meta_ok m -> decode_meta (meta_block m) = Some m.
Proof. exact decode_encode_meta. Qed.
Check metadata_roundtrip : forall m, meta_ok m -> decode_meta (meta_block m) = Some m.
Print Assumptions metadata_roundtrip.

Theorem never_written_journal_decodes_clear : forall s0 s1 total, all_zero s0 = true -> all_zero s1 = true -> decode_journal s0 s1 total = Some (0, 1, []).
Proof. exact never_written_journal_is_clear. Qed.
Check never_written_journal_decodes_clear : forall s0 s1 total, all_zero s0 = true -> all_zero s1 = true -> decode_journal s0 s1 total = Some (0, 1, []).
Print Assumptions never_written_journal_decodes_clear.

(* the journal of a file at rest: the CLEAR record the encoder writes (magic, version, generation,
   state, count, CRC-32C over the image with both checksum fields zeroed, and its complement) is
   read back by the slot decoder whatever the rest of the slot still holds; a journal whose slots
   hold such records, or were never written, decodes to "clear" -- the hypothesis of
   open_reads_any_quiescent_file *)
Theorem clear_journal_record_roundtrip : forall g rest total, 0 < g -> g < 2 ^ 64 -> decode_slot (encode_journal g JOURNAL_CLEAR [] ++ rest) total = Some (g, []).
Proof. exact clear_journal_slot_roundtrip. Qed.
Check clear_journal_record_roundtrip : forall g rest total, 0 < g -> g < 2 ^ 64 -> decode_slot (encode_journal g JOURNAL_CLEAR [] ++ rest) total = Some (g, []).
Print Assumptions clear_journal_record_roundtrip.

(* any journal record: CLEAR, or ACTIVE naming up to 1024 valid, non-overlapping extents -- the slot
   decoder returns the generation and exactly the extents the encoder was given *)
Theorem journal_record_roundtrip : forall g state exts rest total,
  0 < g -> g < 2 ^ 64 ->
  (state = JOURNAL_CLEAR /\ exts = []) \/ (state = JOURNAL_ACTIVE /\ exts <> []) ->
  N.of_nat (length exts) <= ALLOCATION_JOURNAL_MAX_ENTRIES ->
  Forall (ext_valid total) exts -> no_overlap_sorted (sort_by_start exts) = true ->
  decode_slot (encode_journal g state exts ++ rest) total = Some (g, exts).
Proof. exact MetaJournalProofs.journal_record_roundtrip. Qed.
Check journal_record_roundtrip : forall g state exts rest total,
  0 < g -> g < 2 ^ 64 ->
  (state = JOURNAL_CLEAR /\ exts = []) \/ (state = JOURNAL_ACTIVE /\ exts <> []) ->
  N.of_nat (length exts) <= ALLOCATION_JOURNAL_MAX_ENTRIES ->
  Forall (ext_valid total) exts -> no_overlap_sorted (sort_by_start exts) = true ->
  decode_slot (encode_journal g state exts ++ rest) total = Some (g, exts).
Print Assumptions journal_record_roundtrip.

(* the two journal slots lie between the metadata copies, and an image of at most
   ALLOCATION_JOURNAL_MAX_ENTRIES extents never leaves its slot: it is at most
   ALLOCATION_JOURNAL_SLOT_BLOCKS blocks long, so writing it changes no block of the other slot, of
   either metadata copy or of the data area, nor the length of the file *)
Theorem journal_slots_are_where_the_layout_says : forall slot,
  slot < ALLOCATION_JOURNAL_SLOTS ->
  let first := ALLOCATION_JOURNAL_START_BLOCK + slot * ALLOCATION_JOURNAL_SLOT_BLOCKS in
  FEOX_METADATA_BLOCK < first /\ first + ALLOCATION_JOURNAL_SLOT_BLOCKS <= FEOX_METADATA_BACKUP_BLOCK /\
  FEOX_METADATA_BACKUP_BLOCK < FEOX_DATA_START_BLOCK /\
  JOURNAL_SLOT_SIZE = ALLOCATION_JOURNAL_SLOT_BLOCKS * FEOX_BLOCK_SIZE /\
  ALLOCATION_JOURNAL_BLOCKS = ALLOCATION_JOURNAL_SLOTS * ALLOCATION_JOURNAL_SLOT_BLOCKS.
Proof. exact JournalLayoutProofs.journal_slots_lie_between_the_metadata_copies. Qed.
Check journal_slots_are_where_the_layout_says : forall slot,
  slot < ALLOCATION_JOURNAL_SLOTS ->
  let first := ALLOCATION_JOURNAL_START_BLOCK + slot * ALLOCATION_JOURNAL_SLOT_BLOCKS in
  FEOX_METADATA_BLOCK < first /\ first + ALLOCATION_JOURNAL_SLOT_BLOCKS <= FEOX_METADATA_BACKUP_BLOCK /\
  FEOX_METADATA_BACKUP_BLOCK < FEOX_DATA_START_BLOCK /\
  JOURNAL_SLOT_SIZE = ALLOCATION_JOURNAL_SLOT_BLOCKS * FEOX_BLOCK_SIZE /\
  ALLOCATION_JOURNAL_BLOCKS = ALLOCATION_JOURNAL_SLOTS * ALLOCATION_JOURNAL_SLOT_BLOCKS.
Print Assumptions journal_slots_are_where_the_layout_says.

Theorem journal_image_fits_its_slot : forall g st exts,
  N.of_nat (length exts) <= ALLOCATION_JOURNAL_MAX_ENTRIES ->
  (length (encode_journal g st exts) <= N.to_nat ALLOCATION_JOURNAL_SLOT_BLOCKS * BLOCK)%nat /\
  (Nat.div (length (encode_journal g st exts)) BLOCK <= N.to_nat ALLOCATION_JOURNAL_SLOT_BLOCKS)%nat.
Proof. exact JournalLayoutProofs.journal_image_fits_its_slot. Qed.
Check journal_image_fits_its_slot : forall g st exts,
  N.of_nat (length exts) <= ALLOCATION_JOURNAL_MAX_ENTRIES ->
  (length (encode_journal g st exts) <= N.to_nat ALLOCATION_JOURNAL_SLOT_BLOCKS * BLOCK)%nat /\
  (Nat.div (length (encode_journal g st exts)) BLOCK <= N.to_nat ALLOCATION_JOURNAL_SLOT_BLOCKS)%nat.
Print Assumptions journal_image_fits_its_slot.

Theorem journal_write_stays_in_its_slot : forall img slot g st exts k,
  slot < ALLOCATION_JOURNAL_SLOTS -> N.of_nat (length exts) <= ALLOCATION_JOURNAL_MAX_ENTRIES ->
  (N.to_nat FEOX_METADATA_BACKUP_BLOCK <= length img)%nat ->
  let first := N.to_nat (ALLOCATION_JOURNAL_START_BLOCK + slot * ALLOCATION_JOURNAL_SLOT_BLOCKS) in
  length (write_journal img slot g st exts) = length img /\
  ((k < first \/ first + N.to_nat ALLOCATION_JOURNAL_SLOT_BLOCKS <= k)%nat ->
   nth k (write_journal img slot g st exts) [] = nth k img []).
Proof. exact JournalLayoutProofs.journal_write_stays_in_its_slot. Qed.
Check journal_write_stays_in_its_slot : forall img slot g st exts k,
  slot < ALLOCATION_JOURNAL_SLOTS -> N.of_nat (length exts) <= ALLOCATION_JOURNAL_MAX_ENTRIES ->
  (N.to_nat FEOX_METADATA_BACKUP_BLOCK <= length img)%nat ->
  let first := N.to_nat (ALLOCATION_JOURNAL_START_BLOCK + slot * ALLOCATION_JOURNAL_SLOT_BLOCKS) in
  length (write_journal img slot g st exts) = length img /\
  ((k < first \/ first + N.to_nat ALLOCATION_JOURNAL_SLOT_BLOCKS <= k)%nat ->
   nth k (write_journal img slot g st exts) [] = nth k img []).
Print Assumptions journal_write_stays_in_its_slot.

Theorem journal_with_a_clear_record_decodes_clear : forall g rest0 s1 total, 0 < g -> g < 2 ^ 64 -> all_zero s1 = true ->
  decode_journal (encode_journal g JOURNAL_CLEAR [] ++ rest0) s1 total = Some (g, 0, []).
Proof. exact journal_with_clear_records_decodes_clear. Qed.
Check journal_with_a_clear_record_decodes_clear : forall g rest0 s1 total, 0 < g -> g < 2 ^ 64 -> all_zero s1 = true ->
  decode_journal (encode_journal g JOURNAL_CLEAR [] ++ rest0) s1 total = Some (g, 0, []).
Print Assumptions journal_with_a_clear_record_decodes_clear.

Theorem journal_with_two_clear_records_decodes_clear : forall g0 g1 rest0 rest1 total, 0 < g0 -> g0 < 2 ^ 64 -> 0 < g1 -> g1 < 2 ^ 64 ->
  exists g slot, decode_journal (encode_journal g0 JOURNAL_CLEAR [] ++ rest0) (encode_journal g1 JOURNAL_CLEAR [] ++ rest1) total
                 = Some (g, slot, []).
Proof. exact MetaJournalProofs.journal_with_two_clear_records_decodes_clear. Qed.
Check journal_with_two_clear_records_decodes_clear : forall g0 g1 rest0 rest1 total, 0 < g0 -> g0 < 2 ^ 64 -> 0 < g1 -> g1 < 2 ^ 64 ->
  exists g slot, decode_journal (encode_journal g0 JOURNAL_CLEAR [] ++ rest0) (encode_journal g1 JOURNAL_CLEAR [] ++ rest1) total
                 = Some (g, slot, []).
Print Assumptions journal_with_two_clear_records_decodes_clear.

Theorem open_reads_any_quiescent_file : forall c img m jgen jslot its,
  c_ro c = false -> c_now c = None ->
  (17 <= length img)%nat ->
  let total := N.of_nat (length img) in
  let mb := if select_meta (nth_block img 0) (nth_block img (N.to_nat FEOX_METADATA_BACKUP_BLOCK))
            then nth_block img (N.to_nat FEOX_METADATA_BACKUP_BLOCK) else nth_block img 0 in
  list_eqb (firstn 8 mb) SIGNATURE = true -> decode_meta mb = Some m -> has_token (m_version m) = true ->
  decode_journal (slot_bytes img 0) (slot_bytes img 1) total = Some (jgen, jslot, []) ->
  total * FEOX_BLOCK_SIZE < U64 ->
  Forall (item_ok (m_version m)) its -> distinct_keys (recs_of its) ->
  skipn (N.to_nat FEOX_DATA_START_BLOCK) img = ilayout (m_version m) FEOX_DATA_START_BLOCK its ->
  exists o,
    open_image c img = (Ok o, img) /\
    o_version o = m_version m /\ o_img o = img /\
    (forall r, In r (recs_of its) -> exists s, idx_find (r_key r) (o_idx o) = Some (entry_of (m_version m) r s)) /\
    o_count o = N.of_nat (length (recs_of its)) /\
    (forall b, FEOX_DATA_START_BLOCK <= b < total ->
               (FreeSpaceProofs.free (o_fs o) b <-> ~ covered (m_version m) FEOX_DATA_START_BLOCK its b)).
Proof. exact open_reads_a_quiescent_file. Qed.
Check open_reads_any_quiescent_file : forall c img m jgen jslot its,
  c_ro c = false -> c_now c = None ->
  (17 <= length img)%nat ->
  let total := N.of_nat (length img) in
  let mb := if select_meta (nth_block img 0) (nth_block img (N.to_nat FEOX_METADATA_BACKUP_BLOCK))
            then nth_block img (N.to_nat FEOX_METADATA_BACKUP_BLOCK) else nth_block img 0 in
  list_eqb (firstn 8 mb) SIGNATURE = true -> decode_meta mb = Some m -> has_token (m_version m) = true ->
  decode_journal (slot_bytes img 0) (slot_bytes img 1) total = Some (jgen, jslot, []) ->
  total * FEOX_BLOCK_SIZE < U64 ->
  Forall (item_ok (m_version m)) its -> distinct_keys (recs_of its) ->
  skipn (N.to_nat FEOX_DATA_START_BLOCK) img = ilayout (m_version m) FEOX_DATA_START_BLOCK its ->
  exists o,
    open_image c img = (Ok o, img) /\
    o_version o = m_version m /\ o_img o = img /\
    (forall r, In r (recs_of its) -> exists s, idx_find (r_key r) (o_idx o) = Some (entry_of (m_version m) r s)) /\
    o_count o = N.of_nat (length (recs_of its)) /\
    (forall b, FEOX_DATA_START_BLOCK <= b < total ->
               (FreeSpaceProofs.free (o_fs o) b <-> ~ covered (m_version m) FEOX_DATA_START_BLOCK its b)).
Print Assumptions open_reads_any_quiescent_file.

(* the same for a read-only open (the mode in which the model serves as the "independent reader" of
   the flushed-file checks, and the mode of the migration source): whether read-write or read-only,
   TTL filtering off, the open of a quiescent version-3 file writes nothing and reports exactly the
   records and the partition *)
Theorem the_independent_reader_reads_any_quiescent_file : forall c img m jgen jslot its,
  c_now c = None ->
  (17 <= length img)%nat ->
  let total := N.of_nat (length img) in
  let mb := if select_meta (nth_block img 0) (nth_block img (N.to_nat FEOX_METADATA_BACKUP_BLOCK))
            then nth_block img (N.to_nat FEOX_METADATA_BACKUP_BLOCK) else nth_block img 0 in
  list_eqb (firstn 8 mb) SIGNATURE = true -> decode_meta mb = Some m -> has_token (m_version m) = true ->
  decode_journal (slot_bytes img 0) (slot_bytes img 1) total = Some (jgen, jslot, []) ->
  total * FEOX_BLOCK_SIZE < U64 ->
  Forall (item_ok (m_version m)) its -> distinct_keys (recs_of its) ->
  skipn (N.to_nat FEOX_DATA_START_BLOCK) img = ilayout (m_version m) FEOX_DATA_START_BLOCK its ->
  exists o,
    open_image c img = (Ok o, img) /\
    o_version o = m_version m /\ o_img o = img /\
    (forall r, In r (recs_of its) -> exists s, idx_find (r_key r) (o_idx o) = Some (entry_of (m_version m) r s)) /\
    o_count o = N.of_nat (length (recs_of its)) /\
    (forall b, FEOX_DATA_START_BLOCK <= b < total ->
               (FreeSpaceProofs.free (o_fs o) b <-> ~ covered (m_version m) FEOX_DATA_START_BLOCK its b)).
Proof. exact open_reads_a_quiescent_file_in_either_mode. Qed.
Check the_independent_reader_reads_any_quiescent_file : forall c img m jgen jslot its,
  c_now c = None ->
  (17 <= length img)%nat ->
  let total := N.of_nat (length img) in
  let mb := if select_meta (nth_block img 0) (nth_block img (N.to_nat FEOX_METADATA_BACKUP_BLOCK))
            then nth_block img (N.to_nat FEOX_METADATA_BACKUP_BLOCK) else nth_block img 0 in
  list_eqb (firstn 8 mb) SIGNATURE = true -> decode_meta mb = Some m -> has_token (m_version m) = true ->
  decode_journal (slot_bytes img 0) (slot_bytes img 1) total = Some (jgen, jslot, []) ->
  total * FEOX_BLOCK_SIZE < U64 ->
  Forall (item_ok (m_version m)) its -> distinct_keys (recs_of its) ->
  skipn (N.to_nat FEOX_DATA_START_BLOCK) img = ilayout (m_version m) FEOX_DATA_START_BLOCK its ->
  exists o,
    open_image c img = (Ok o, img) /\
    o_version o = m_version m /\ o_img o = img /\
    (forall r, In r (recs_of its) -> exists s, idx_find (r_key r) (o_idx o) = Some (entry_of (m_version m) r s)) /\
    o_count o = N.of_nat (length (recs_of its)) /\
    (forall b, FEOX_DATA_START_BLOCK <= b < total ->
               (FreeSpaceProofs.free (o_fs o) b <-> ~ covered (m_version m) FEOX_DATA_START_BLOCK its b)).
Print Assumptions the_independent_reader_reads_any_quiescent_file.

(* non-vacuity: two records (one of them spanning two blocks) on a v3 layout *)
Example packed_area_is_scanned :
  let r1 := mkrec [107; 49] (repeat 7 5000) 11 0 in
  let r2 := mkrec [107; 50] [1; 2; 3] 12 99 in
  let img := repeat (repeat 0 BLOCK) 16 ++ layout 3 16 [r1; r2] in
  match initialize (19 * 4096) with
  | FOk f =>
      match scan 5 (mkcfg false false None 168) 3 19 img 16 (mkrs [] f 0 0 0 [] 16 0) [] with
      | Ok st => map (fun e => (e_key e, e_ts e, e_exp e, e_vlen e, e_sector e)) (rs_idx st)
                 = [([107; 49], 11, 0, 5000, 16); ([107; 50], 12, 99, 3, 18)]
      | _ => False
      end
  | _ => False
  end.
Proof. vm_compute. reflexivity. Qed.

(* non-vacuity for the general layout: free block, record, completed marker run of two, record *)
Example quiescent_area_is_scanned :
  let r1 := mkrec [107; 49] (repeat 7 5000) 11 0 in
  let r2 := mkrec [107; 50] [1; 2; 3] 12 99 in
  let its := [IFree; IRec r1; IMark 2; IRec r2] in
  let img := repeat (repeat 0 BLOCK) 16 ++ ilayout 3 16 its in
  match scan 5 (mkcfg false false None 168) 3 22 img 16 (mkrs [] (mkfs [] (22 * 4096) 0 0) 0 0 0 [] 16 0) [] with
  | Ok st => map (fun e => (e_key e, e_sector e)) (rs_idx st) = [([107; 49], 17); ([107; 50], 21)]
             /\ runs (rs_fs st) = [(16, 1); (19, 2)] /\ rs_retired st = []
  | _ => False
  end.
Proof. vm_compute. repeat split; reflexivity. Qed.

(* non-vacuity for the whole file: both metadata copies written by encode_meta, a journal never
   written, and the layout above -- open_image returns the two records and the two gaps *)
Example quiescent_file_is_opened :
  let r1 := mkrec [107; 49] (repeat 7 5000) 11 0 in
  let r2 := mkrec [107; 50] [1; 2; 3] 12 99 in
  let its := [IFree; IRec r1; IMark 2; IRec r2] in
  let m := mkmeta 3 2 5033 (22 * 4096) 4096 0 1 2 4 (repeat 0 48) in
  let z := repeat 0 BLOCK in
  let img := [meta_block m; z; z; z; z; z; z; meta_block m; z; z; z; z; z; z; z; z] ++ ilayout 3 16 its in
  meta_ok m /\
  match open_image (mkcfg false false None 168) img with
  | (Ok o, img') => img' = img /\ o_version o = 3 /\
                    map (fun e => (e_key e, e_ts e, e_exp e, e_vlen e, e_sector e)) (o_idx o)
                      = [([107; 49], 11, 0, 5000, 17); ([107; 50], 12, 99, 3, 21)] /\
                    runs (o_fs o) = [(16, 1); (19, 2)] /\ o_count o = 2
  | _ => False
  end.
Proof.
  split; [constructor; vm_compute; repeat split; try reflexivity; try discriminate|]. vm_compute. repeat split; reflexivity.
Qed.
