(* C10 -- the device file follows the documented v1/v2/v3 layout.
   Codec theorems about the documented byte layout (Model/Bytes, Crc32c, Codec). The whole-file
   reader used as the "independent reader" is Model.Recovery.open_image (read-only mode). *)
From Coq Require Import List NArith Bool.
From Feox Require Import Gen.Constants Model.Bytes Model.Crc32c Model.Codec Proofs.CodecProofs.
Import ListNotations.
Local Open Scope N_scope.

(* little-endian fields round-trip for every width and value *)
Theorem le_roundtrip : forall k n, n < 256 ^ N.of_nat k -> le_num (le_bytes k n) = n.
Proof. exact le_num_le_bytes. Qed.
Check le_roundtrip : forall k n, n < 256 ^ N.of_nat k -> le_num (le_bytes k n) = n.
Print Assumptions le_roundtrip.

Theorem le_roundtrip_bytes : forall l, Forall (fun b => b < 256) l -> le_bytes (length l) (le_num l) = l.
Proof. exact le_bytes_le_num. Qed.
Check le_roundtrip_bytes : forall l, Forall (fun b => b < 256) l -> le_bytes (length l) (le_num l) = l.
Print Assumptions le_roundtrip_bytes.

(* CRC-32C: incremental updates equal one pass; the lookup table is the bitwise definition;
   known vector "123456789" -> 0xE3069283 *)
Theorem crc_chain : forall seed a b, crc32c (crc32c seed a) b = crc32c seed (a ++ b).
Proof. exact crc32c_chain. Qed.
Check crc_chain : forall seed a b, crc32c (crc32c seed a) b = crc32c seed (a ++ b).
Print Assumptions crc_chain.

Theorem crc_table_is_bitwise : forall c b, crc_byte TABLE c b = crc_byte_bitwise c b.
Proof. exact crc_byte_table. Qed.
Check crc_table_is_bitwise : forall c b, crc_byte TABLE c b = crc_byte_bitwise c b.
Print Assumptions crc_table_is_bitwise.

Example crc_known_vector : crc32c 0 [49;50;51;52;53;54;55;56;57] = 3808858755.
Proof. vm_compute. reflexivity. Qed.

(* record layout: parsing a serialized record (whole extent, or its head block alone when the
   header fits in one block) returns exactly key, value length, timestamp and expiry, for every
   key (up to the u16 length field), every value, every timestamp/expiry, v1 and v2/v3 layouts *)
Theorem parse_serialize_roundtrip : forall version r,
  N.of_nat (length (r_key r)) < 65536 -> N.of_nat (length (r_value r)) < 2 ^ 64 ->
  r_ts r < 2 ^ 64 -> r_exp r < 2 ^ 64 ->
  parse_head version (serialize version r) =
  Some (Some (r_key r, N.of_nat (length (r_value r)), r_ts r, if has_expiry version then r_exp r else 0)).
Proof. exact parse_serialize. Qed.
Check parse_serialize_roundtrip : forall version r,
  N.of_nat (length (r_key r)) < 65536 -> N.of_nat (length (r_value r)) < 2 ^ 64 ->
  r_ts r < 2 ^ 64 -> r_exp r < 2 ^ 64 ->
  parse_head version (serialize version r) =
  Some (Some (r_key r, N.of_nat (length (r_value r)), r_ts r, if has_expiry version then r_exp r else 0)).
Print Assumptions parse_serialize_roundtrip.

Theorem parse_head_block_roundtrip : forall version r,
  N.of_nat (length (r_key r)) < 65536 -> N.of_nat (length (r_value r)) < 2 ^ 64 ->
  r_ts r < 2 ^ 64 -> r_exp r < 2 ^ 64 ->
  (6 + length (r_key r) + 16 + (if has_expiry version then 8 else 0) <= BLOCK)%nat ->
  parse_head version (firstn BLOCK (serialize version r)) =
  Some (Some (r_key r, N.of_nat (length (r_value r)), r_ts r, if has_expiry version then r_exp r else 0)).
Proof. exact parse_head_block. Qed.
Check parse_head_block_roundtrip : forall version r,
  N.of_nat (length (r_key r)) < 65536 -> N.of_nat (length (r_value r)) < 2 ^ 64 ->
  r_ts r < 2 ^ 64 -> r_exp r < 2 ^ 64 ->
  (6 + length (r_key r) + 16 + (if has_expiry version then 8 else 0) <= BLOCK)%nat ->
  parse_head version (firstn BLOCK (serialize version r)) =
  Some (Some (r_key r, N.of_nat (length (r_value r)), r_ts r, if has_expiry version then r_exp r else 0)).
Print Assumptions parse_head_block_roundtrip.

(* the value bytes sit exactly at the header size (so a TTL-only rewrite of the header keeps them) *)
Theorem value_at_value_offset : forall version r,
  sub (serialize version r)
      (6 + length (r_key r) + 16 + (if has_expiry version then 8 else 0)) (length (r_value r)) = r_value r.
Proof. exact value_at_offset. Qed.
Check value_at_value_offset : forall version r,
  sub (serialize version r)
      (6 + length (r_key r) + 16 + (if has_expiry version then 8 else 0)) (length (r_value r)) = r_value r.
Print Assumptions value_at_value_offset.

(* tokens: 16 bits, never zero; the stamped token verifies, stamping is idempotent *)
Theorem token_range : forall sector data, record_token sector data < 65536 /\ record_token sector data <> 0.
Proof.
  intros. split; [apply record_token_lt|]. unfold record_token. destruct (Nat.leb _ _); apply fold16_nonzero.
Qed.
Check token_range : forall sector data, record_token sector data < 65536 /\ record_token sector data <> 0.
Print Assumptions token_range.

Theorem stamped_token_verifies : forall version sector d,
  header_range_ok version d = true ->
  u16_at (stamp version sector d) 2 = record_token sector (stamp version sector d) /\
  stamp version sector (stamp version sector d) = stamp version sector d /\
  u16_at (stamp version sector d) 2 <> 0.
Proof. exact stamp_self_consistent. Qed.
Check stamped_token_verifies : forall version sector d,
  header_range_ok version d = true ->
  u16_at (stamp version sector d) 2 = record_token sector (stamp version sector d) /\
  stamp version sector (stamp version sector d) = stamp version sector d /\
  u16_at (stamp version sector d) 2 <> 0.
Print Assumptions stamped_token_verifies.

(* retirement markers: every marker block written for (sector, remaining) is recognised as a
   complete marker for exactly that sector and remaining count; markers, record heads and zero
   blocks are pairwise distinguishable *)
Theorem marker_block_roundtrip : forall sector remaining, remaining < 2 ^ 64 ->
  is_complete_marker (marker_block sector remaining RETIREMENT_COMPLETE) sector remaining = true.
Proof. exact marker_roundtrip. Qed.
Check marker_block_roundtrip : forall sector remaining, remaining < 2 ^ 64 ->
  is_complete_marker (marker_block sector remaining RETIREMENT_COMPLETE) sector remaining = true.
Print Assumptions marker_block_roundtrip.

Theorem marker_record_zero_disjoint : forall version r s rem st k, (8 <= k)%nat ->
  firstn 8 (serialize version r) <> DELETED_TAG /\
  u16_at (marker_block s rem st) 0 <> SECTOR_MARKER /\
  firstn 8 (zeros k) <> DELETED_TAG /\ u16_at (zeros k) 0 <> SECTOR_MARKER.
Proof.
  intros. split; [apply record_is_not_marker|]. split; [apply marker_not_record|]. apply zero_block_is_neither; auto.
Qed.
Check marker_record_zero_disjoint : forall version r s rem st k, (8 <= k)%nat ->
  firstn 8 (serialize version r) <> DELETED_TAG /\
  u16_at (marker_block s rem st) 0 <> SECTOR_MARKER /\
  firstn 8 (zeros k) <> DELETED_TAG /\ u16_at (zeros k) 0 <> SECTOR_MARKER.
Print Assumptions marker_record_zero_disjoint.
