(* C15 -- offline migration is a faithful, verified, non-destructive copy.
   The model gives, from the source image alone, what a successful migration must put into the
   destination (Model/Migration.v: the records of the read-only recovery of the source, expired
   newest generations included since TTL filtering is off, timestamps and absolute expiries
   preserved) and when it must fail.  The real migrate() is compared with it on legacy images;
   the destination is read back by the real store and decoded by the byte-level reader. *)
From Coq Require Import List NArith Bool.
From Feox Require Import Gen.Constants Model.Bytes Model.Codec Model.MetaJournal Model.FreeSpace Model.Recovery
                         Model.Migration Proofs.MigrationProofs
                         Proofs.ScanAcceptsProofs Proofs.ScanQuiescentProofs Proofs.ScanGenerationsProofs
                         Proofs.ScanExpiryProofs Proofs.ScanLegacyProofs Proofs.ReadOnlyScanProofs.
Import ListNotations.
Local Open Scope N_scope.

(* the read-only recovery of the source writes nothing, for every image and every outcome *)
Theorem source_never_written :
  forall c img, c_ro c = true -> snd (open_image c img) = img.
Proof. exact read_only_open_never_writes. Qed.
Check source_never_written :
  forall c img, c_ro c = true -> snd (open_image c img) = img.
Print Assumptions source_never_written.

Theorem migration_source_untouched_any_image :
  forall img allow, snd (open_image (ro_cfg allow) img) = img

(* success means: no destination existed, the source is a v1/v2 device whose read-only recovery
   succeeded, and the destination holds exactly its keys with the same timestamps and expiries *).
Proof. exact migration_source_untouched. Qed.
Check migration_source_untouched_any_image :
  forall img allow, snd (open_image (ro_cfg allow) img) = img

(* success means: no destination existed, the source is a v1/v2 device whose read-only recovery
   succeeded, and the destination holds exactly its keys with the same timestamps and expiries *).
Print Assumptions migration_source_untouched_any_image.

Theorem migration_faithful :
  forall src allow dst_exists r,
  migrate_spec src allow dst_exists = inl r ->
  dst_exists = false /\
  exists o, fst (open_image (ro_cfg allow) src) = Ok o /\ o_version o < 3 /\
    rep_version r = o_version o /\
    map mr_key (rep_records r) = map e_key (o_idx o) /\
    map mr_ts (rep_records r) = map e_ts (o_idx o) /\
    map mr_exp (rep_records r) = map e_exp (o_idx o)

(* ---- the journal of a source that crashed inside a batch is virtualised, not replayed: the
   read-only scan steps over every extent the journal names without looking at a byte of it (the
   outcome is the same whatever those blocks hold), and on any image, whatever it meets, it queues
   nothing for retirement ---- *).
Proof. exact migrate_spec_ok. Qed.
Check migration_faithful :
  forall src allow dst_exists r,
  migrate_spec src allow dst_exists = inl r ->
  dst_exists = false /\
  exists o, fst (open_image (ro_cfg allow) src) = Ok o /\ o_version o < 3 /\
    rep_version r = o_version o /\
    map mr_key (rep_records r) = map e_key (o_idx o) /\
    map mr_ts (rep_records r) = map e_ts (o_idx o) /\
    map mr_exp (rep_records r) = map e_exp (o_idx o)

(* ---- the journal of a source that crashed inside a batch is virtualised, not replayed: the
   read-only scan steps over every extent the journal names without looking at a byte of it (the
   outcome is the same whatever those blocks hold), and on any image, whatever it meets, it queues
   nothing for retirement ---- *).
Print Assumptions migration_faithful.

Theorem read_only_scan_steps_over_a_journaled_extent_unread :
  forall c version total sector rest rest2 st s n t,
  c_ro c = true -> s <= sector < s + n ->
  scan_step c version total sector rest st ((s, n) :: t) = Ok (Advance (s + n) st t) /\
  scan_step c version total sector rest st ((s, n) :: t) = scan_step c version total sector rest2 st ((s, n) :: t).
Proof. exact ReadOnlyScanProofs.read_only_scan_steps_over_a_journaled_extent_unread. Qed.
Check read_only_scan_steps_over_a_journaled_extent_unread :
  forall c version total sector rest rest2 st s n t,
  c_ro c = true -> s <= sector < s + n ->
  scan_step c version total sector rest st ((s, n) :: t) = Ok (Advance (s + n) st t) /\
  scan_step c version total sector rest st ((s, n) :: t) = scan_step c version total sector rest2 st ((s, n) :: t).
Print Assumptions read_only_scan_steps_over_a_journaled_extent_unread.

Theorem read_only_scan_queues_nothing :
  forall c version total img fuel sector st jl st',
  c_ro c = true ->
  scan fuel c version total img sector st jl = Ok st' -> rs_retired st' = rs_retired st

(* ---- at the byte level: a legacy file at rest.  Any version-1/2 file whose selected metadata copy
   decodes, whose journal is clear and whose data area is records with pairwise distinct keys (all
   recoverable by version 3) and free blocks in any order: the read-only open of the source reports
   exactly those records, in key order ... ---- *).
Proof. exact ReadOnlyScanProofs.read_only_scan_queues_nothing. Qed.
Check read_only_scan_queues_nothing :
  forall c version total img fuel sector st jl st',
  c_ro c = true ->
  scan fuel c version total img sector st jl = Ok st' -> rs_retired st' = rs_retired st

(* ---- at the byte level: a legacy file at rest.  Any version-1/2 file whose selected metadata copy
   decodes, whose journal is clear and whose data area is records with pairwise distinct keys (all
   recoverable by version 3) and free blocks in any order: the read-only open of the source reports
   exactly those records, in key order ... ---- *).
Print Assumptions read_only_scan_queues_nothing.

Theorem read_only_open_of_a_legacy_file_at_rest :
  forall allow img m jgen jslot its,
  (17 <= length img)%nat ->
  let total := N.of_nat (length img) in
  let mb := if select_meta (nth_block img 0) (nth_block img (N.to_nat FEOX_METADATA_BACKUP_BLOCK))
            then nth_block img (N.to_nat FEOX_METADATA_BACKUP_BLOCK) else nth_block img 0 in
  list_eqb (firstn 8 mb) SIGNATURE = true -> decode_meta mb = Some m ->
  decode_journal (slot_bytes img 0) (slot_bytes img 1) total = Some (jgen, jslot, []) ->
  total * FEOX_BLOCK_SIZE < U64 ->
  Forall (plain_ok (m_version m)) its -> distinct_keys (recs_of its) ->
  skipn (N.to_nat FEOX_DATA_START_BLOCK) img = ilayout (m_version m) FEOX_DATA_START_BLOCK its ->
  exists o,
    open_image (ro_cfg allow) img = (Ok o, img) /\
    o_version o = m_version m /\ o_ambiguous o = 0 /\ isorted (o_idx o) /\
    (forall e, In e (o_idx o) <-> In e (entries_of (m_version m) FEOX_DATA_START_BLOCK its))

(* ... and the migration succeeds and must put into the destination exactly one record per record of
   the source -- the same key, the value bytes the source holds (read through the source's own record
   format), the same timestamp and (version 2) the same absolute expiry -- and nothing else *).
Proof. exact ScanLegacyProofs.read_only_open_of_a_file_without_markers. Qed.
Check read_only_open_of_a_legacy_file_at_rest :
  forall allow img m jgen jslot its,
  (17 <= length img)%nat ->
  let total := N.of_nat (length img) in
  let mb := if select_meta (nth_block img 0) (nth_block img (N.to_nat FEOX_METADATA_BACKUP_BLOCK))
            then nth_block img (N.to_nat FEOX_METADATA_BACKUP_BLOCK) else nth_block img 0 in
  list_eqb (firstn 8 mb) SIGNATURE = true -> decode_meta mb = Some m ->
  decode_journal (slot_bytes img 0) (slot_bytes img 1) total = Some (jgen, jslot, []) ->
  total * FEOX_BLOCK_SIZE < U64 ->
  Forall (plain_ok (m_version m)) its -> distinct_keys (recs_of its) ->
  skipn (N.to_nat FEOX_DATA_START_BLOCK) img = ilayout (m_version m) FEOX_DATA_START_BLOCK its ->
  exists o,
    open_image (ro_cfg allow) img = (Ok o, img) /\
    o_version o = m_version m /\ o_ambiguous o = 0 /\ isorted (o_idx o) /\
    (forall e, In e (o_idx o) <-> In e (entries_of (m_version m) FEOX_DATA_START_BLOCK its))

(* ... and the migration succeeds and must put into the destination exactly one record per record of
   the source -- the same key, the value bytes the source holds (read through the source's own record
   format), the same timestamp and (version 2) the same absolute expiry -- and nothing else *).
Print Assumptions read_only_open_of_a_legacy_file_at_rest.

Theorem migration_of_a_legacy_file_at_rest :
  forall allow src m jgen jslot its,
  (17 <= length src)%nat ->
  let total := N.of_nat (length src) in
  let mb := if select_meta (nth_block src 0) (nth_block src (N.to_nat FEOX_METADATA_BACKUP_BLOCK))
            then nth_block src (N.to_nat FEOX_METADATA_BACKUP_BLOCK) else nth_block src 0 in
  list_eqb (firstn 8 mb) SIGNATURE = true -> decode_meta mb = Some m -> m_version m < 3 ->
  decode_journal (slot_bytes src 0) (slot_bytes src 1) total = Some (jgen, jslot, []) ->
  total * FEOX_BLOCK_SIZE < U64 ->
  Forall (plain_ok (m_version m)) its -> distinct_keys (recs_of its) ->
  (forall r, In r (recs_of its) -> N.of_nat (length (r_key r)) <= MAX_RECOVERABLE_KEY_SIZE) ->
  skipn (N.to_nat FEOX_DATA_START_BLOCK) src = ilayout (m_version m) FEOX_DATA_START_BLOCK its ->
  exists rep,
    migrate_spec src allow false = inl rep /\
    rep_version rep = m_version m /\ rep_ambiguous rep = 0 /\
    (forall x, In x (rep_records rep) <-> exists r, In r (recs_of its) /\ x = mrec_of (m_version m) r) /\
    ksorted (map mr_key (rep_records rep)).
Proof. exact ScanLegacyProofs.migration_reports_exactly_the_records_of_the_source. Qed.
Check migration_of_a_legacy_file_at_rest :
  forall allow src m jgen jslot its,
  (17 <= length src)%nat ->
  let total := N.of_nat (length src) in
  let mb := if select_meta (nth_block src 0) (nth_block src (N.to_nat FEOX_METADATA_BACKUP_BLOCK))
            then nth_block src (N.to_nat FEOX_METADATA_BACKUP_BLOCK) else nth_block src 0 in
  list_eqb (firstn 8 mb) SIGNATURE = true -> decode_meta mb = Some m -> m_version m < 3 ->
  decode_journal (slot_bytes src 0) (slot_bytes src 1) total = Some (jgen, jslot, []) ->
  total * FEOX_BLOCK_SIZE < U64 ->
  Forall (plain_ok (m_version m)) its -> distinct_keys (recs_of its) ->
  (forall r, In r (recs_of its) -> N.of_nat (length (r_key r)) <= MAX_RECOVERABLE_KEY_SIZE) ->
  skipn (N.to_nat FEOX_DATA_START_BLOCK) src = ilayout (m_version m) FEOX_DATA_START_BLOCK its ->
  exists rep,
    migrate_spec src allow false = inl rep /\
    rep_version rep = m_version m /\ rep_ambiguous rep = 0 /\
    (forall x, In x (rep_records rep) <-> exists r, In r (recs_of its) /\ x = mrec_of (m_version m) r) /\
    ksorted (map mr_key (rep_records rep)).
Print Assumptions migration_of_a_legacy_file_at_rest.
(* non-vacuity: a concrete version-2 file (two records around a free block) meets every premise,
   and its migration report is the two records in key order *)
Example a_legacy_file_meets_the_premises :
  let src := ex_src in let m := ex_meta in let its := ex_its in
  let total := N.of_nat (length src) in
  let mb := if select_meta (nth_block src 0) (nth_block src (N.to_nat FEOX_METADATA_BACKUP_BLOCK))
            then nth_block src (N.to_nat FEOX_METADATA_BACKUP_BLOCK) else nth_block src 0 in
  (17 <= length src)%nat /\
  list_eqb (firstn 8 mb) SIGNATURE = true /\ decode_meta mb = Some m /\ m_version m < 3 /\
  decode_journal (slot_bytes src 0) (slot_bytes src 1) total = Some (0, 1, []) /\
  total * FEOX_BLOCK_SIZE < U64 /\
  Forall (plain_ok (m_version m)) its /\ distinct_keys (recs_of its) /\
  (forall r, In r (recs_of its) -> N.of_nat (length (r_key r)) <= MAX_RECOVERABLE_KEY_SIZE) /\
  skipn (N.to_nat FEOX_DATA_START_BLOCK) src = ilayout (m_version m) FEOX_DATA_START_BLOCK its.
Proof. exact ScanLegacyProofs.a_legacy_file_meets_the_premises. Qed.

Example a_legacy_file_migrates :
  match migrate_spec ex_src false false with
  | inl rep => rep_version rep = 2 /\
               rep_records rep = [mkmrec [107; 48] (Some [9]) 6 0; mkmrec [107; 49] (Some [1; 2; 3]) 5 77]
  | inr _ => False
  end.
Proof. vm_compute. split; reflexivity. Qed.
