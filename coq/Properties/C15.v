(* C15 -- offline migration is a faithful, verified, non-destructive copy.
   The model gives, from the source image alone, what a successful migration must put into the
   destination (Model/Migration.v: the records of the read-only recovery of the source, expired
   newest generations included since TTL filtering is off, timestamps and absolute expiries
   preserved) and when it must fail.  The real migrate() is compared with it on legacy images;
   the destination is read back by the real store and decoded by the byte-level reader. *)
From Coq Require Import List NArith Bool.
From Feox Require Import Gen.Constants Model.Bytes Model.Codec Model.MetaJournal Model.FreeSpace Model.Recovery
                         Model.Migration Proofs.MigrationProofs.
Import ListNotations.
Local Open Scope N_scope.

(* the read-only recovery of the source writes nothing, for every image and every outcome *)
Theorem source_never_written :
  forall c img, c_ro c = true -> snd (open_image c img) = img.
Proof. exact read_only_open_never_writes. Qed.
Check source_never_written :
  forall c img, c_ro c = true -> snd (open_image c img) = img.
Print Assumptions source_never_written.

Theorem migration_source_untouched_any_image :
  forall img allow, snd (open_image (ro_cfg allow) img) = img

(* success means: no destination existed, the source is a v1/v2 device whose read-only recovery
   succeeded, and the destination holds exactly its keys with the same timestamps and expiries *).
Proof. exact migration_source_untouched. Qed.
Check migration_source_untouched_any_image :
  forall img allow, snd (open_image (ro_cfg allow) img) = img

(* success means: no destination existed, the source is a v1/v2 device whose read-only recovery
   succeeded, and the destination holds exactly its keys with the same timestamps and expiries *).
Print Assumptions migration_source_untouched_any_image.

Theorem migration_faithful :
  forall src allow dst_exists r,
  migrate_spec src allow dst_exists = inl r ->
  dst_exists = false /\
  exists o, fst (open_image (ro_cfg allow) src) = Ok o /\ o_version o < 3 /\
    rep_version r = o_version o /\
    map mr_key (rep_records r) = map e_key (o_idx o) /\
    map mr_ts (rep_records r) = map e_ts (o_idx o) /\
    map mr_exp (rep_records r) = map e_exp (o_idx o).
Proof. exact migrate_spec_ok. Qed.
Check migration_faithful :
  forall src allow dst_exists r,
  migrate_spec src allow dst_exists = inl r ->
  dst_exists = false /\
  exists o, fst (open_image (ro_cfg allow) src) = Ok o /\ o_version o < 3 /\
    rep_version r = o_version o /\
    map mr_key (rep_records r) = map e_key (o_idx o) /\
    map mr_ts (rep_records r) = map e_ts (o_idx o) /\
    map mr_exp (rep_records r) = map e_exp (o_idx o).
Print Assumptions migration_faithful.
