(* The worker's pass over a shard that holds more entries than one allocation-journal transaction
   names (C09, C05): write_buffer.rs flush_worker_shards cuts the drained entries into batches of
   ALLOCATION_JOURNAL_MAX_ENTRIES, runs process_write_batch (Model.FailPath.attempt) on each, and at
   the first batch that fails puts back what that batch returns followed by every entry of the
   batches not yet attempted. *)
From Coq Require Import List NArith Bool.
From Feox Require Import Gen.Constants Model.FreeSpace Model.FailPath.
Import ListNotations.
Local Open Scope N_scope.

Definition BATCH : nat := N.to_nat ALLOCATION_JOURNAL_MAX_ENTRIES.

Section BatchOracle.
Variable fault : N -> bool.

(* fuel: one unit per batch; S (length queue) always suffices (proved), running out is never
   reported as success with entries left *)
Fixpoint pass (fuel : nat) (st : fstate) : fstate * fres :=
  match fuel with
  | O => (st, match f_queue st with [] => ROk | _ => RIo end)
  | S k =>
      match f_queue st with
      | [] => (st, ROk)
      | q =>
          let (st1, r) := attempt fault (set_queue st (firstn BATCH q)) in
          match r with
          | ROk => pass k (set_queue st1 (skipn BATCH q))
          | _ => (set_queue st1 (f_queue st1 ++ skipn BATCH q), r)
          end
      end
  end.

Definition pass_all (st : fstate) : fstate * fres := pass (S (length (f_queue st))) st.

(* FeoxStore::flush over it: the pass, then the metadata block *)
Definition pflush (st : fstate) : fstate * fres :=
  let (st1, r) := pass_all st in
  match r with
  | ROk =>
      if f_poison st1 then (st1, RIndet)
      else let (ok, st2) := write_and_sync fault st1 in (st2, if ok then ROk else RIo)
  | _ => (st1, r)
  end.

End BatchOracle.
