(* Record / marker byte formats, written from the documented layout:
     head:   marker(2)=0xABCD LE | token(2) | key_len(2) | key | value_len(8) | timestamp(8)
             | [expiry(8) for format v2/v3] | value | zero padding to a multiple of the block size
     token:  v3 only: nonzero fold16 of CRC-32C over sector_le8 || extent with bytes 2..4 zeroed
     retired block: "\0DELETED"(8) | remaining_le8 | token(2) | state(1) | zeros
             token = fold16(CRC-32C(sector_le8 || bytes[0..16] || state)) *)
From Coq Require Import List NArith Bool.
From Feox Require Import Gen.Constants Model.Bytes Model.Crc32c.
Import ListNotations.
Local Open Scope N_scope.

Definition BLOCK : nat := N.to_nat FEOX_BLOCK_SIZE.

(* format version of the *record* layout: metadata version 1 -> no expiry field *)
Definition has_expiry (version : N) : bool := negb (version =? 1).
Definition has_token (version : N) : bool := 3 <=? version.

Definition header_size (version : N) (key_len : N) : N :=
  SECTOR_HEADER_SIZE + 2 + key_len + 8 + 8 + (if has_expiry version then 8 else 0).
Definition total_size (version : N) (key_len value_len : N) : N :=
  header_size version key_len + value_len.
Definition blocks_for (bytes : N) : N := (bytes + FEOX_BLOCK_SIZE - 1) / FEOX_BLOCK_SIZE.
Definition extent_blocks (version key_len value_len : N) : N :=
  blocks_for (total_size version key_len value_len).

Record rec := mkrec { r_key : list N; r_value : list N; r_ts : N; r_exp : N }.

(* serialize_record_data: header with token 0, value, zero padding *)
Definition serialize (version : N) (r : rec) : list N :=
  let klen := N.of_nat (length (r_key r)) in
  let vlen := N.of_nat (length (r_value r)) in
  let body :=
    le_bytes 2 SECTOR_MARKER ++ [0; 0] ++ le_bytes 2 klen ++ r_key r ++
    le_bytes 8 vlen ++ le_bytes 8 (r_ts r) ++
    (if has_expiry version then le_bytes 8 (r_exp r) else []) ++ r_value r in
  let padded := N.to_nat (extent_blocks version klen vlen * FEOX_BLOCK_SIZE) in
  body ++ zeros (padded - length body).

(* record_seq_token(sector, data) *)
Definition record_token (sector : N) (data : list N) : N :=
  let c0 := crc32c 0 (le_bytes 8 sector) in
  if Nat.leb 4 (length data) then
    fold16 (crc32c (crc32c (crc32c c0 (firstn 2 data)) [0; 0]) (skipn 4 data))
  else fold16 (crc32c c0 data).

(* seq_token(sector, header) *)
Definition seq_token (sector : N) (header : list N) : N :=
  fold16 (crc32c (crc32c 0 (le_bytes 8 sector)) header).

(* header_range(format, data).is_some() *)
Definition header_range_ok (version : N) (data : list N) : bool :=
  if Nat.ltb (length data) 6 then false
  else
    let key_len := u16_at data 4 in
    if key_len =? 0 then false
    else
      let e := header_size version key_len in
      if (FEOX_BLOCK_SIZE <? e) || (N.of_nat (length data) <? e) then false else true.

(* stamp_seq_token *)
Definition stamp (version : N) (sector : N) (data : list N) : list N :=
  if header_range_ok version data then splice data 2 (le_bytes 2 (record_token sector data))
  else data.

(* the extent image the write path puts on the device for record r at sector *)
Definition encode_extent (version sector : N) (r : rec) : list N :=
  let d := serialize version r in
  if has_token version then stamp version sector d else d.

(* parse_record on a head block: key, value_len, timestamp, expiry.
   Outer None = a slice expression of the Rust code would be out of range (panic);
   Some None = parse_record returns None. *)
Definition parse_head (version : N) (data : list N) : option (option (list N * N * N * N)) :=
  if Nat.ltb (length data) 6 then Some None
  else
    let key_len := N.to_nat (u16_at data 4) in
    let fixed := if has_expiry version then 24%nat else 16%nat in
    if Nat.ltb (length data) (6 + key_len + fixed) then Some None
    else
      match sub_opt data 6 key_len, sub_opt data (6 + key_len) 8, sub_opt data (6 + key_len + 8) 8,
            (if has_expiry version then sub_opt data (6 + key_len + 16) 8 else Some []) with
      | Some key, Some vlen, Some ts, Some exp => Some (Some (key, le_num vlen, le_num ts, le_num exp))
      | _, _, _, _ => None
      end.

(* ---- retirement markers ---- *)
Definition DELETED_TAG : list N := [0; 68; 69; 76; 69; 84; 69; 68].    (* "\0DELETED" *)

Definition marker_token (sector : N) (marker : list N) : N :=
  seq_token sector (firstn 16 marker ++ [nth 18 marker 0]).

Definition marker_bytes (sector remaining state : N) : list N :=
  let pre := DELETED_TAG ++ le_bytes 8 remaining in
  let tok := seq_token sector (pre ++ [state]) in
  pre ++ le_bytes 2 tok ++ [state].

Definition marker_block (sector remaining state : N) : list N :=
  marker_bytes sector remaining state ++ zeros (BLOCK - 19).

(* fill_retirement_markers over `blocks` blocks starting at sector with `remaining` counting down;
   only the first 19 bytes of each block are overwritten -- retire writes a zero-filled scratch,
   so every block is exactly marker_block *)
Fixpoint marker_run (sector remaining : N) (blocks : nat) : list (list N) :=
  match blocks with
  | O => []
  | S k => marker_block sector remaining RETIREMENT_COMPLETE :: marker_run (sector + 1) (remaining - 1) k
  end.

(* is_complete_retirement_block *)
Definition is_complete_marker (data : list N) (sector remaining : N) : bool :=
  Nat.leb 19 (length data) && list_eqb (firstn 8 data) DELETED_TAG &&
  (u64_at data 8 =? remaining) && (nth 18 data 0 =? RETIREMENT_COMPLETE) &&
  (u16_at data 16 =? marker_token sector data).

(* sector_holds_record(data, record) *)
Definition sector_holds (data : list N) (key : list N) (vlen ts : N) : bool :=
  if Nat.ltb (length data) 6 then false
  else if negb (u16_at data 0 =? SECTOR_MARKER) then false
  else
    let key_len := N.to_nat (u16_at data 4) in
    if negb (Nat.eqb key_len (length key)) then false
    else if Nat.ltb (length data) (6 + key_len + 16) then false
    else list_eqb (sub data 6 key_len) key && (u64_at data (6 + key_len) =? vlen) &&
         (u64_at data (6 + key_len + 8) =? ts).
