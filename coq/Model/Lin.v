(* An executable checker for concurrent histories of the store API (C07): is the history
   equivalent to a sequential last-writer-wins execution (Sched.spec_step) that respects
   real-time order, up to the two permitted conservative refusals?

   A history is a list of completed calls with the positions of their invocation and response
   events in one global event order.  Automatic timestamps are not observable from outside; in
   the sequential witness an automatic write is given a timestamp above the key's current one
   (that automatic timestamps behave so is property C12), so it is never refused by the spec. *)
From Coq Require Import List NArith ZArith Bool.
From Feox Require Import Model.Sched.
Import ListNotations.
Local Open Scope N_scope.

Record hop := mkh { h_id : N; h_op : op; h_inv : N; h_res : N; h_resp : resp }.

Definition ts_of (o : op) : option N :=
  match o with
  | OGet _ | OIfAbsent _ _ => None
  | OUpsert _ _ t | ODelete _ t | OCas _ _ _ t | OIncr _ _ t | OPatch _ _ t => t
  end.

Definition is_write (o : op) : bool := match o with OGet _ => false | _ => true end.

Definition resp_eqb (a b : resp) : bool :=
  match a, b with
  | RVal x, RVal y => val_eqb x y
  | RNotFound, RNotFound | ROlder, ROlder | RUnit, RUnit | RInvalid, RInvalid | RPatchErr, RPatchErr => true
  | RBool x, RBool y => Bool.eqb x y
  | RInt x, RInt y => (x =? y)%Z
  | _, _ => false
  end.

Definition kmap := list (N * (val * N)).
Definition kget (m : kmap) (k : N) : kstate := aget k m.
Definition kput (m : kmap) (k : N) (st : kstate) : kmap :=
  match st with Some x => aset k x m | None => adel k m end.

(* the timestamp the witness gives the call *)
Definition eff_ts (st : kstate) (o : op) : N * bool :=
  match ts_of o with
  | Some t => (t, true)
  | None => (match st with Some (_, t0) => N.max WALL (t0 + 1) | None => WALL end, false)
  end.

(* did the call change the store (as far as its response tells)? *)
Definition accepted_write (x : hop) : bool :=
  match h_op x, h_resp x with
  | OGet _, _ => false
  | OUpsert _ _ _, RBool _ => true
  | ODelete _ _, RUnit => true
  | OCas _ _ _ _, RBool true => true
  | OIncr _ _ _, RInt _ => true
  | OIfAbsent _ _, RBool true => true
  | OPatch _ _ _, RUnit => true
  | _, _ => false
  end.

(* the two permitted refusals and what justifies them:
   - a write answered OlderTimestamp: an accepted write or delete of the same key, with an equal or
     newer timestamp (unknown = automatic counts), was invoked before the rejection;
   - a compare-and-swap answered false: the key was modified while it ran *)
Definition ts_ge_or_unknown (y x : hop) : bool :=
  match ts_of (h_op y), ts_of (h_op x) with
  | Some ty, Some tx => tx <=? ty
  | _, _ => true
  end.

Definition justified (all : list hop) (x : hop) : bool :=
  match h_resp x, h_op x with
  | ROlder, _ =>
      existsb (fun y => negb (h_id y =? h_id x) && (key_of (h_op y) =? key_of (h_op x)) &&
                        accepted_write y && (h_inv y <? h_res x) && ts_ge_or_unknown y x) all
  | RBool false, OCas _ _ _ _ =>
      existsb (fun y => negb (h_id y =? h_id x) && (key_of (h_op y) =? key_of (h_op x)) &&
                        accepted_write y && (h_inv y <? h_res x) && (h_inv x <? h_res y)) all
  | _, _ => false
  end.

(* x may be linearized next: no other pending call answered before x was invoked *)
Definition minimal (x : hop) (pend : list hop) : bool :=
  forallb (fun y => (h_id y =? h_id x) || negb (h_res y <? h_inv x)) pend.

Definition without (x : hop) (pend : list hop) : list hop :=
  filter (fun y => negb (h_id y =? h_id x)) pend.

Definition apply_hop (m : kmap) (x : hop) : kmap * resp :=
  let k := key_of (h_op x) in
  let st := kget m k in
  let '(t, ex) := eff_ts st (h_op x) in
  let '(st', r) := spec_step st (h_op x) t ex in
  (kput m k st', r).

Fixpoint search (fuel : nat) (all pend : list hop) (m : kmap) : bool :=
  match fuel with
  | O => false
  | S f =>
      match pend with
      | [] => true
      | _ =>
          existsb (fun x =>
            minimal x pend &&
            ((let '(m', r) := apply_hop m x in resp_eqb r (h_resp x) && search f all (without x pend) m')
             || (justified all x && search f all (without x pend) m))) pend
      end
  end.

Fixpoint ids_unique (h : list hop) : bool :=
  match h with
  | [] => true
  | x :: t => negb (existsb (fun y => h_id y =? h_id x) t) && ids_unique t
  end.

(* fuel: each level removes one call; the search tree has depth |h| *)
Definition lin_check (h : list hop) : bool :=
  ids_unique h && forallb (fun x => h_inv x <? h_res x) h && search (S (length h)) h h [].
