(* One shard of the version clock under concurrency (C12, "under any interleaving").

   store/mod.rs VersionClock: each shard is one AtomicU64.
     next(key, wall):   last = load;  loop { next = if wall > last { wall } else { last.saturating_add(1) };
                                            compare_exchange_weak(last, next) ? return next : last = current }
     observe(key, ts):  if ts == u64::MAX return;  last = load;
                        while ts > last { compare_exchange_weak(last, ts) ? return : last = current }
   Every event below is one atomic access of one thread (a load, or a compare-exchange together
   with the register arithmetic around it); a weak compare-exchange may fail spuriously.  The
   schedule (event list) is arbitrary, the number of threads unbounded.  Values are u64: inputs are
   clamped to 2^64-1. *)
From Coq Require Import List NArith Bool.
From Feox Require Import Model.Sched Model.Lww.
Import ListNotations.
Local Open Scope N_scope.

Definition clamp (x : N) : N := N.min x U64M.
Definition sat_succ (x : N) : N := N.min (x + 1) U64M.

Inductive kpc :=
| KNext (wall last : N)        (* inside next: `last` is the value it believes the shard has *)
| KObs (ts last : N).          (* inside observe *)

(* ghost timeline, newest first *)
Inductive kmark :=
| MNext (t wall r before : N)  (* thread t's next returned r; the shard held `before` *)
| MObs (t ts : N).             (* thread t's observe(ts) returned *)

Record kst := mkkst {
  k_shard : N;
  k_thr : list (N * kpc);
  k_line : list kmark
}.

Inductive kev :=
| KNextLoad (t wall : N)
| KNextCas (t : N) (spurious : bool)
| KObsLoad (t ts : N)
| KObsCas (t : N) (spurious : bool).

Definition next_val (wall last : N) : N := if last <? wall then wall else sat_succ last.

Definition kstep (s : kst) (e : kev) : kst :=
  match e with
  | KNextLoad t wall => mkkst (k_shard s) (aset t (KNext (clamp wall) (k_shard s)) (k_thr s)) (k_line s)
  | KNextCas t sp =>
      match aget t (k_thr s) with
      | Some (KNext wall last) =>
          if (k_shard s =? last) && negb sp
          then mkkst (next_val wall last) (adel t (k_thr s)) (MNext t wall (next_val wall last) last :: k_line s)
          else mkkst (k_shard s) (aset t (KNext wall (k_shard s)) (k_thr s)) (k_line s)
      | _ => s
      end
  | KObsLoad t ts =>
      if clamp ts =? U64M then mkkst (k_shard s) (adel t (k_thr s)) (MObs t U64M :: k_line s)
      else mkkst (k_shard s) (aset t (KObs (clamp ts) (k_shard s)) (k_thr s)) (k_line s)
  | KObsCas t sp =>
      match aget t (k_thr s) with
      | Some (KObs ts last) =>
          if ts <=? last then mkkst (k_shard s) (adel t (k_thr s)) (MObs t ts :: k_line s)
          else if (k_shard s =? last) && negb sp
               then mkkst ts (adel t (k_thr s)) (MObs t ts :: k_line s)
               else mkkst (k_shard s) (aset t (KObs ts (k_shard s)) (k_thr s)) (k_line s)
      | _ => s
      end
  end.

Definition kinit (v : N) : kst := mkkst (clamp v) [] [].

Definition krun (s : kst) (es : list kev) : kst := fold_left kstep es s.

(* a call run alone, start to finish *)
Definition next_alone (s : kst) (t wall : N) : kst := kstep (kstep s (KNextLoad t wall)) (KNextCas t false).
Definition observe_alone (s : kst) (t ts : N) : kst := kstep (kstep s (KObsLoad t ts)) (KObsCas t false).
