(* T-run: an executable monitor for real device traces.  It accepts exactly the histories that
   follow the journal discipline the crash theorems (Proofs/CrashProofs) are stated for:
     R1  a data-area write touches only blocks named by the durable ACTIVE journal;
     R1' journal writes alternate between the two slots with generation = newest durable + 1,
         and only one journal write is un-synced at a time;
     R2  a journal CLEAR is written only when every data write is covered by a successful fsync;
         an ACTIVE journal is written only when no data write is un-synced;
     R3  metadata is written only between transactions (journal clear, nothing un-synced in the
         data area), to the copy selected by its generation parity.
   Events are decoded from the written bytes by the model's own decoders (runner/driver.ml). *)
From Coq Require Import List NArith Bool.
From Feox Require Import Gen.Constants.
Import ListNotations.
Local Open Scope N_scope.

Inductive mev :=
| MJournal (slot gen : N) (active : bool) (exts : list (N * N))
| MJournalBad (slot : N)
| MData (sector nblocks : N)
| MMeta (copy7 : bool) (gen : N)
| MMetaBad
| MFsync (ok : bool).

Record mstate := mkms {
  j_gen : N;                          (* newest durable journal generation *)
  j_slot : N;                         (* its slot *)
  j_active : option (list (N * N));   (* Some exts when it is ACTIVE *)
  p_journal : option (N * N * option (list (N * N)));   (* un-synced journal write: slot, gen, state *)
  p_data : bool;                      (* un-synced data-area writes exist *)
  p_meta : bool;                      (* un-synced metadata write exists *)
  m_gen : N;                          (* newest metadata generation written *)
  fresh : bool;                       (* nothing but the initial metadata has been written *)
  txns : N                            (* completed journal brackets *)
}.

Inductive verdict := Accept (s : mstate) | Reject (why : N).
(* reasons: 1 data outside journaled extents / no active journal   2 journal slot not alternating
   3 journal generation not +1   4 second un-synced journal write   5 clear with un-synced data
   6 active with un-synced data   7 undecodable journal write   8 metadata during a transaction
   9 metadata copy/generation parity   10 undecodable metadata write   11 active while active with new extents *)

Fixpoint block_covered (b : N) (exts : list (N * N)) : bool :=
  match exts with
  | [] => false
  | (s, n) :: t => ((s <=? b) && (b <? s + n)) || block_covered b t
  end.

Fixpoint range_covered (s : N) (n : nat) (exts : list (N * N)) : bool :=
  match n with
  | O => true
  | S n' => block_covered s exts && range_covered (s + 1) n' exts
  end.

Fixpoint exts_within (a b : list (N * N)) : bool :=
  match a with
  | [] => true
  | (s, n) :: t => range_covered s (N.to_nat n) b && exts_within t b
  end.

Definition mstep (s : mstate) (e : mev) : verdict :=
  match e with
  | MData sec n =>
      match j_active s with
      | Some exts =>
          if range_covered sec (N.to_nat n) exts
          then Accept (mkms (j_gen s) (j_slot s) (j_active s) (p_journal s) true (p_meta s) (m_gen s) false (txns s))
          else Reject 1
      | None => Reject 1
      end
  | MJournalBad _ => Reject 7
  | MJournal slot gen active exts =>
      let fresh_issue :=
        if slot =? j_slot s then Reject 2
        else if negb (gen =? j_gen s + 1) then Reject 3
        else if p_data s then (if active then Reject 6 else Reject 5)
        else
          match active, j_active s with
          | true, Some old =>
              (* re-journaling while a journal is active (failed-batch scrub): same or fewer blocks *)
              if exts_within exts old
              then Accept (mkms (j_gen s) (j_slot s) (j_active s) (Some (slot, gen, Some exts)) false (p_meta s) (m_gen s) false (txns s))
              else Reject 11
          | true, None =>
              Accept (mkms (j_gen s) (j_slot s) (j_active s) (Some (slot, gen, Some exts)) false (p_meta s) (m_gen s) false (txns s))
          | false, _ =>
              Accept (mkms (j_gen s) (j_slot s) (j_active s) (Some (slot, gen, None)) false (p_meta s) (m_gen s) false (txns s))
          end in
      match p_journal s with
      | Some (pslot, pgen, _) =>
          (* an un-synced journal write may be re-issued (after a failed write or fsync): same slot,
             same generation; the slot checksum makes either version or neither visible *)
          if (pslot =? slot) && (pgen =? gen) then fresh_issue else Reject 4
      | None => fresh_issue
      end
  | MMetaBad => Reject 10
  | MMeta copy7 gen =>
      if fresh s then
        (* initialisation writes the same generation to both copies *)
        Accept (mkms (j_gen s) (j_slot s) (j_active s) (p_journal s) (p_data s) true gen true (txns s))
      else
        match j_active s, p_journal s with
        | None, None =>
            if p_data s then Reject 8
            else if negb (Bool.eqb copy7 (N.odd gen)) then Reject 9
            else if gen <? m_gen s then Reject 9
            else Accept (mkms (j_gen s) (j_slot s) (j_active s) (p_journal s) (p_data s) true gen false (txns s))
        | _, _ => Reject 8
        end
  | MFsync true =>
      match p_journal s with
      | Some (slot, gen, st) =>
          Accept (mkms gen slot st None false false (m_gen s) (fresh s)
                       (match st with None => txns s + 1 | Some _ => txns s end))
      | None => Accept (mkms (j_gen s) (j_slot s) (j_active s) None false false (m_gen s) (fresh s) (txns s))
      end
  | MFsync false => Accept s      (* nothing becomes durable; what is un-synced stays un-synced *)
  end.

Fixpoint mrun (s : mstate) (evs : list mev) (i : N) : verdict * N :=
  match evs with
  | [] => (Accept s, i)
  | e :: t => match mstep s e with
              | Accept s' => mrun s' t (i + 1)
              | Reject w => (Reject w, i)
              end
  end.

(* a fresh device: both slots missing (generation 0 in slot 1), nothing written *)
Definition minit : mstate := mkms 0 1 None None false false 0 true 0.

(* a device that has been used: the newest valid journal slot and metadata generation decoded from
   the image a recovery starts from (runner/driver.ml decodes them with the model's decoders) *)
Definition minit_from (gen slot : N) (act : option (list (N * N))) (mg : N) : mstate :=
  mkms gen slot act None false false mg false 0.

Definition minit_of_image (s0 s1 : option (N * list (N * N))) (m0 m7 : option N) : mstate :=
  let act (e : list (N * N)) := match e with [] => None | _ => Some e end in
  let mg := match m0, m7 with
            | Some a, Some b => N.max a b
            | Some a, None | None, Some a => a
            | None, None => 0
            end in
  match s0, s1 with
  | Some (g0, e0), Some (g1, e1) => if g0 <? g1 then minit_from g1 1 (act e1) mg else minit_from g0 0 (act e0) mg
  | Some (g0, e0), None => minit_from g0 0 (act e0) mg
  | None, Some (g1, e1) => minit_from g1 1 (act e1) mg
  | None, None => minit_from 0 1 None mg
  end.
