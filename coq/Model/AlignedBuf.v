(* utils/allocator.rs AlignedBuffer (C20): a block-aligned heap buffer handed out through a safe
   API -- new(capacity), set_len (asserts new_len <= capacity), clear, as_slice / as_mut_slice
   (the first len bytes), drop.  The model keeps the number of bytes really obtained from
   posix_memalign next to the advertised capacity and the length; safety of the safe slices is
   len <= allocated. *)
From Coq Require Import NArith List.
Import ListNotations.
Local Open Scope N_scope.

Definition BLOCK : N := 4096.
Definition round_up (n : N) : N := ((n + BLOCK - 1) / BLOCK) * BLOCK.

Record abuf := mkab { ab_alloc : N; ab_cap : N; ab_len : N }.

Inductive abop := ASetLen (n : N) | AClear.
Inductive about := AOk | APanic.

Definition ab_new (capacity : N) : abuf := mkab (round_up capacity) (round_up capacity) 0.

Definition ab_step (b : abuf) (o : abop) : abuf * about :=
  match o with
  | ASetLen n => if n <=? ab_cap b then (mkab (ab_alloc b) (ab_cap b) n, AOk) else (b, APanic)
  | AClear => (mkab (ab_alloc b) (ab_cap b) 0, AOk)
  end.

Definition ab_run (capacity : N) (ops : list abop) : abuf :=
  fold_left (fun b o => fst (ab_step b o)) ops (ab_new capacity).

(* the allocation counter: + allocated at new, - the same amount at drop *)
Definition ab_counter_after_new (before capacity : N) : N := before + round_up capacity.
