(* The expiry protocol under concurrency (C11, concurrent clause): the background sweeper
   (ttl_sweep.rs sample_and_expire_batch) and the lazy retirement of read-modify-write calls
   (internal.rs retire_expired_if_current) racing with writers that renew, replace or delete the
   key, under a wall clock that only grows.

   Both removers work in two steps.  First, without any guard, they pick up a generation and a
   clock value: the sweeper reads the clock once per batch and samples (key, generation) pairs that
   carry an expiry; a read-modify-write call reads the current generation, sees it expired, and
   reads the clock.  Later, under the key's entry guard, they re-validate: the table must still
   hold the very generation they picked up (Arc::ptr_eq) and that generation must be expired with
   respect to the clock value they read; only then is the entry removed.  A generation's expiry is
   immutable (Record.ttl_expiry is only stored at construction); update_ttl / persist publish a new
   generation.  Every event below is one guarded block or one unguarded read of the real code; the
   schedule (the event list) is arbitrary. *)
From Coq Require Import List NArith Bool.
From Feox Require Import Model.Sched.
Import ListNotations.
Local Open Scope N_scope.

Record sgen := mksgen { sg_id : N; sg_exp : N; sg_val : N }.   (* expiry: absolute, 0 = none *)

(* resolve_record_value: `now > ttl_expiry`; sweeper: `0 < expiry < now`; retire_expired_if_current:
   refuses when `expiry == 0 || expiry >= now` *)
Definition expired_at (g : sgen) (t : N) : bool := negb (sg_exp g =? 0) && (sg_exp g <? t).

Record removal := mkrem { r_key : N; r_gen : sgen; r_clock : N; r_by_sweeper : bool }.

Record sstate := mkss {
  ss_tbl : list (N * sgen);            (* key -> current generation *)
  ss_now : N;                          (* the wall clock *)
  ss_nid : N;                          (* next generation identity *)
  ss_snow : N;                         (* sweeper: the clock value of its current batch *)
  ss_cand : list (N * sgen);           (* sweeper: sampled, not yet handled *)
  ss_lazy : list (N * (N * sgen * N)); (* caller i -> (key, generation seen expired, clock read) *)
  ss_log : list removal                (* ghost: every removal by expiry, newest first, with the
                                          wall clock at the removal *)
}.

Inductive sev :=
| ETick (d : N)
| EPut (k exp v : N)          (* insert / replace (any spelling): new generation, expiry as given *)
| ETtl (k exp : N)            (* update_ttl / persist: refused when absent or expired *)
| EDel (k : N)
| EGet (k : N)
| ESample                     (* sweeper: read the clock, sample every entry that has an expiry *)
| EProc (k : N)               (* sweeper: handle its candidate for k *)
| ELazySee (i k : N)          (* a read-modify-write call finds the current generation expired *)
| ELazyRetire (i : N)         (* ... and calls retire_expired_if_current *)
| EIncr (k d : N).            (* atomic_increment without TTL on a live or absent counter: the new
                                 generation has no expiry (an expired one goes through ELazySee /
                                 ELazyRetire first; then this is the call's continuation) *)

Inductive sout := SUnit | SVal (v : option N) | SBool (b : bool).

Definition set_tbl (s : sstate) (t : list (N * sgen)) : sstate :=
  mkss t (ss_now s) (ss_nid s) (ss_snow s) (ss_cand s) (ss_lazy s) (ss_log s).

Definition publish (s : sstate) (k exp v : N) : sstate :=
  mkss (aset k (mksgen (ss_nid s) exp v) (ss_tbl s)) (ss_now s) (ss_nid s + 1) (ss_snow s) (ss_cand s) (ss_lazy s) (ss_log s).

(* the guarded block shared by both removers *)
Definition guarded_remove (s : sstate) (k : N) (g : sgen) (clock : N) (sweeper : bool) : sstate :=
  match aget k (ss_tbl s) with
  | Some c =>
      (* identity first (ptr_eq); the sweeper then looks at the expiry of the record it sampled,
         retire_expired_if_current at the expiry of the record in the entry *)
      if (sg_id c =? sg_id g) && expired_at (if sweeper then g else c) clock
      then mkss (adel k (ss_tbl s)) (ss_now s) (ss_nid s) (ss_snow s) (ss_cand s) (ss_lazy s)
                (mkrem k c (ss_now s) sweeper :: ss_log s)
      else s
  | None => s
  end.

Definition sstep (s : sstate) (e : sev) : sstate * sout :=
  match e with
  | ETick d => (mkss (ss_tbl s) (ss_now s + d) (ss_nid s) (ss_snow s) (ss_cand s) (ss_lazy s) (ss_log s), SUnit)
  | EPut k exp v => (publish s k exp v, SUnit)
  | ETtl k exp =>
      match aget k (ss_tbl s) with
      | Some g => if expired_at g (ss_now s) then (s, SBool false) else (publish s k exp (sg_val g), SBool true)
      | None => (s, SBool false)
      end
  | EDel k =>
      match aget k (ss_tbl s) with
      | Some _ => (set_tbl s (adel k (ss_tbl s)), SBool true)
      | None => (s, SBool false)
      end
  | EGet k =>
      match aget k (ss_tbl s) with
      | Some g => (s, SVal (if expired_at g (ss_now s) then None else Some (sg_val g)))
      | None => (s, SVal None)
      end
  | ESample =>
      (* entries without an expiry are sampled too here; handling them is a no-op, exactly like
         not sampling them (sample_ttl_entries filters on ttl_expiry > 0, the batch loop re-checks) *)
      (mkss (ss_tbl s) (ss_now s) (ss_nid s) (ss_now s) (ss_tbl s) (ss_lazy s) (ss_log s), SUnit)
  | EProc k =>
      match aget k (ss_cand s) with
      | Some g =>
          let s1 := mkss (ss_tbl s) (ss_now s) (ss_nid s) (ss_snow s) (adel k (ss_cand s)) (ss_lazy s) (ss_log s) in
          if expired_at g (ss_snow s) then (guarded_remove s1 k g (ss_snow s) true, SUnit) else (s1, SUnit)
      | None => (s, SUnit)
      end
  | ELazySee i k =>
      match aget k (ss_tbl s) with
      | Some g =>
          if expired_at g (ss_now s)
          then (mkss (ss_tbl s) (ss_now s) (ss_nid s) (ss_snow s) (ss_cand s) (aset i (k, g, ss_now s) (ss_lazy s)) (ss_log s), SUnit)
          else (s, SUnit)
      | None => (s, SUnit)
      end
  | ELazyRetire i =>
      match aget i (ss_lazy s) with
      | Some (k, g, t) =>
          let s1 := mkss (ss_tbl s) (ss_now s) (ss_nid s) (ss_snow s) (ss_cand s) (adel i (ss_lazy s)) (ss_log s) in
          (guarded_remove s1 k g t false, SUnit)
      | None => (s, SUnit)
      end
  | EIncr k d =>
      match aget k (ss_tbl s) with
      | Some g => if expired_at g (ss_now s) then (s, SVal None) else (publish s k 0 (sg_val g + d), SVal (Some (sg_val g + d)))
      | None => (publish s k 0 d, SVal (Some d))
      end
  end.

Definition sinit : sstate := mkss [] 0 1 0 [] [] [].

Fixpoint srun (s : sstate) (es : list sev) : sstate * list sout :=
  match es with
  | [] => (s, [])
  | e :: t => let '(s1, o) := sstep s e in let '(s2, os) := srun s1 t in (s2, o :: os)
  end.

Definition sfinal (s : sstate) (es : list sev) : sstate := fst (srun s es).

(* does the event come from a client writing or deleting key k? *)
Definition client_write_on (k : N) (e : sev) : bool :=
  match e with
  | EPut k' _ _ | ETtl k' _ | EDel k' | EIncr k' _ => k' =? k
  | _ => false
  end.
