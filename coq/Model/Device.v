(* Abstract device, crash set and journal protocol (C02, C03, C04, C05, C09).

   The data area is a list of cells (one cell = one extent as the write path allocates it);
   a cell is zero, a complete generation, a retirement marker, or junk (a torn write).  The
   journal is two slots; recovery picks the newest valid slot, wipes (re-marks) the extents an
   active journal names, refuses junk it would have to look at, and takes the newest timestamp
   per key.  Writes are pending until an fsync; a crash keeps any sub-multiset of the pending
   writes, each possibly torn.

   The block-level reading of the device (how the scan walks extents, tokens, marker spans) is
   Model/Recovery.v; its agreement with the real code on crash images is checked by execution.
   This file carries what is provable about the protocol for every history and crash point. *)
From Coq Require Import List NArith Bool Arith.
Import ListNotations.
Local Open Scope N_scope.

Record gen := mkgen { gk : N; gts : N; gval : N }.

Inductive cell := CZero | CGen (g : gen) | CMarker | CJunk.
Inductive jst := JClear | JActive (exts : list nat).
Inductive slot := SZero | SValid (jgen : N) (st : jst) | SJunk.

Record disk := mkdisk { s0 : slot; s1 : slot; cells : list cell }.

Inductive wr := WSlot (one : bool) (s : slot) | WCell (i : nat) (c : cell).

Record dev := mkdev { durable : disk; pending : list wr }.

(* ---- applying writes ---- *)
Fixpoint set_nth {A} (l : list A) (i : nat) (x : A) : list A :=
  match l, i with
  | [], _ => []
  | _ :: t, O => x :: t
  | h :: t, S i' => h :: set_nth t i' x
  end.

Definition apply_wr (d : disk) (w : wr) : disk :=
  match w with
  | WSlot false s => mkdisk s (s1 d) (cells d)
  | WSlot true s => mkdisk (s0 d) s (cells d)
  | WCell i c => mkdisk (s0 d) (s1 d) (set_nth (cells d) i c)
  end.

Definition fsync (v : dev) : dev := mkdev (fold_left apply_wr (pending v) (durable v)) [].
Definition issue (v : dev) (w : wr) : dev := mkdev (durable v) (pending v ++ [w]).

(* ---- crash: each un-synced write is lost, applied, or torn ---- *)
Definition torn (w : wr) : wr :=
  match w with WSlot b _ => WSlot b SJunk | WCell i _ => WCell i CJunk end.

Inductive survives : disk -> wr -> disk -> Prop :=
| sv_lost d w : survives d w d
| sv_applied d w : survives d w (apply_wr d w)
| sv_torn d w : survives d w (apply_wr d (torn w)).

Inductive crash_from : disk -> list wr -> disk -> Prop :=
| cf_nil d : crash_from d [] d
| cf_cons d w ws d1 d2 : survives d w d1 -> crash_from d1 ws d2 -> crash_from d (w :: ws) d2.

Definition crash_image (v : dev) (d : disk) : Prop := crash_from (durable v) (pending v) d.

(* ---- recovery ---- *)
(* newest valid slot; an all-zero (missing) slot counts as generation 0, clear *)
Definition select (a b : slot) : option (N * jst) :=
  match a, b with
  | SValid g1 t1, SValid g2 t2 => if g2 <? g1 then Some (g1, t1) else Some (g2, t2)
  | SValid g t, _ => Some (g, t)
  | _, SValid g t => Some (g, t)
  | SJunk, SJunk => None
  | _, _ => Some (0, JClear)
  end.

Fixpoint wipe (exts : list nat) (l : list cell) : list cell :=
  match exts with
  | [] => l
  | i :: t => wipe t (set_nth l i CMarker)
  end.

Definition is_junk (c : cell) : bool := match c with CJunk => true | _ => false end.

(* newest timestamp wins; on equal timestamps the later cell wins *)
Fixpoint best (k : N) (l : list cell) (acc : option gen) : option gen :=
  match l with
  | [] => acc
  | CGen g :: t =>
      if gk g =? k then
        match acc with
        | Some a => if gts g <? gts a then best k t acc else best k t (Some g)
        | None => best k t (Some g)
        end
      else best k t acc
  | _ :: t => best k t acc
  end.

Definition contents (l : list cell) (k : N) : option gen := best k l None.

(* the cells the scan sees, or None when the open fails *)
Definition recover (d : disk) : option (list cell) :=
  match select (s0 d) (s1 d) with
  | None => None
  | Some (_, st) =>
      let seen := match st with JActive exts => wipe exts (cells d) | JClear => cells d end in
      if existsb is_junk seen then None else Some seen
  end.

(* ---- the write protocol: one journaled transaction at a time ---- *)
Record txn := mktxn {
  t_exts : list nat;                 (* extents named in the journal *)
  t_new : list (nat * cell)          (* the cell writes: record bodies or retirement markers *)
}.

Inductive phase :=
| Idle
| ActiveWritten (t : txn)            (* journal(active) issued, not yet synced *)
| ActiveDurable (t : txn)            (* journal(active) durable; cells may be written *)
| CellsWritten (t : txn)             (* cell writes issued, not yet synced *)
| CellsDurable (t : txn)
| ClearWritten (t : txn).            (* journal(clear) issued, not yet synced *)

Record pstate := mkps {
  dv : dev;
  ph : phase;
  jgen : N;                           (* generation of the newest durable journal state *)
  cur : bool;                         (* slot holding it *)
  base : list cell                    (* ghost: the durable cells when the transaction in flight began *)
}.

Definition cell_writes (t : txn) : list wr := map (fun ic => WCell (fst ic) (snd ic)) (t_new t).
Definition apply_new (t : txn) (l : list cell) : list cell :=
  fold_left (fun l ic => set_nth l (fst ic) (snd ic)) (t_new t) l.

(* what makes a transaction admissible on durable cells c0 *)
Definition txn_ok (t : txn) (c0 : list cell) : Prop :=
  (forall i, In i (t_exts t) -> (i < length c0)%nat) /\
  (forall i c, In (i, c) (t_new t) -> In i (t_exts t) /\ c <> CJunk) /\
  (* wiping the named extents before they are rewritten changes no key's newest generation:
     they are free (new records), or hold generations already superseded elsewhere (retirement) *)
  (forall k, contents (wipe (t_exts t) c0) k = contents c0 k).

Inductive pstep : pstate -> pstate -> Prop :=
| st_begin v g c b t :
    txn_ok t (cells (durable v)) -> pending v = [] ->
    pstep (mkps v Idle g c b)
          (mkps (issue v (WSlot (negb c) (SValid (g + 1) (JActive (t_exts t))))) (ActiveWritten t) g c
                (cells (durable v)))
| st_sync1 v g c b t :
    pstep (mkps v (ActiveWritten t) g c b) (mkps (fsync v) (ActiveDurable t) (g + 1) (negb c) b)
| st_cells v g c b t :
    pstep (mkps v (ActiveDurable t) g c b)
          (mkps (mkdev (durable v) (pending v ++ cell_writes t)) (CellsWritten t) g c b)
| st_sync2 v g c b t :
    pstep (mkps v (CellsWritten t) g c b) (mkps (fsync v) (CellsDurable t) g c b)
| st_clear v g c b t :
    pstep (mkps v (CellsDurable t) g c b)
          (mkps (issue v (WSlot (negb c) (SValid (g + 1) JClear))) (ClearWritten t) g c b)
| st_sync3 v g c b t :
    pstep (mkps v (ClearWritten t) g c b)
          (mkps (fsync v) Idle (g + 1) (negb c) (cells (durable (fsync v)))).

Inductive reach (s1 : pstate) : pstate -> Prop :=
| reach_refl : reach s1 s1
| reach_step s2 s3 : reach s1 s2 -> pstep s2 s3 -> reach s1 s3.

(* a quiescent start state: nothing pending, journal clear in slot `cur`, the other slot older or not valid *)
Definition slot_of (d : disk) (b : bool) : slot := if b then s1 d else s0 d.
Definition older_or_invalid (s : slot) (g : N) : Prop :=
  match s with SValid g' _ => g' < g | _ => True end.

Definition clear_like (s : slot) (g : N) : Prop := s = SValid g JClear \/ (g = 0 /\ s = SZero).

Definition quiescent (s : pstate) : Prop :=
  ph s = Idle /\ pending (dv s) = [] /\
  clear_like (slot_of (durable (dv s)) (cur s)) (jgen s) /\
  older_or_invalid (slot_of (durable (dv s)) (negb (cur s))) (jgen s) /\
  existsb is_junk (cells (durable (dv s))) = false /\
  base s = cells (durable (dv s)).

(* the logical contents before / after the transaction in flight *)
Definition before (s : pstate) (k : N) : option gen := contents (base s) k.
Definition after (s : pstate) (k : N) : option gen :=
  match ph s with
  | Idle => contents (base s) k
  | ActiveWritten t | ActiveDurable t | CellsWritten t | CellsDurable t | ClearWritten t =>
      contents (apply_new t (base s)) k
  end.
