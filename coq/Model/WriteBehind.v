(* C19: the write-behind schedule of write_buffer.rs.
   S shard buffers, W workers; worker w owns the shards w, w+W, w+2W, ... (flush_worker_shards),
   the periodic coordinator (every WRITE_BUFFER_FLUSH_INTERVAL) posts a flush request to every
   worker that owns a non-empty shard, and to worker 0 when retirements are pending; a worker
   that takes a request drains and writes all of its shards (and worker 0 the retirement queue). *)
From Coq Require Import List Arith Bool.
Import ListNotations.

(* w, w+W, w+2W, ... below S  -- (worker_id..len).step_by(worker_count) *)
Fixpoint stride (fuel cur W S : nat) : list nat :=
  match fuel with
  | O => []
  | S f => if cur <? S then cur :: stride f (cur + W) W S else []
  end.
Definition shards_of (W S w : nat) : list nat := stride S w W S.

Record wb := mkwb {
  bufs : list (list nat);      (* per shard: the entries (ids) waiting to be written *)
  retq : list nat;             (* retirements waiting for worker 0 *)
  woken : list bool            (* per worker: a flush request is queued *)
}.

Inductive wev :=
| Add (s e : nat)              (* an accepted write/delete is queued in shard s *)
| Retire (e : nat)             (* a superseded generation is queued for retirement *)
| Tick                         (* the periodic coordinator looks at the counters *)
| Run (w : nat).               (* worker w takes a request and flushes its shards *)

Fixpoint upd {A} (i : nat) (f : A -> A) (l : list A) : list A :=
  match l, i with
  | [], _ => []
  | x :: t, O => f x :: t
  | x :: t, S i' => x :: upd i' f t
  end.

Definition nonempty {A} (l : list A) : bool := match l with [] => false | _ => true end.

Definition wants (W S : nat) (st : wb) (w : nat) : bool :=
  existsb (fun s => nonempty (nth s (bufs st) [])) (shards_of W S w) || (Nat.eqb w 0 && nonempty (retq st)).

Fixpoint clear_all (ss : list nat) (b : list (list nat)) : list (list nat) :=
  match ss with
  | [] => b
  | s :: t => clear_all t (upd s (fun _ => []) b)
  end.

Definition wstep (W S : nat) (st : wb) (e : wev) : wb :=
  match e with
  | Add s x => mkwb (upd s (fun l => l ++ [x]) (bufs st)) (retq st) (woken st)
  | Retire x => mkwb (bufs st) (retq st ++ [x]) (woken st)
  | Tick => mkwb (bufs st) (retq st) (map (fun w => nth w (woken st) false || wants W S st w) (seq 0 W))
  | Run w =>
      mkwb (clear_all (shards_of W S w) (bufs st))
           (if Nat.eqb w 0 then [] else retq st)
           (upd w (fun _ => false) (woken st))
  end.

Definition wrun (W S : nat) (st : wb) (evs : list wev) : wb := fold_left (wstep W S) evs st.
