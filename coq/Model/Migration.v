(* Offline migration v1/v2 -> v3 (core/store/migration.rs) as a function of the source image:
   read-only recovery of the source (journal virtualised, no TTL filtering, nothing written),
   version / key-size / destination checks, and the contents the destination must hold. *)
From Coq Require Import List NArith Bool.
From Feox Require Import Gen.Constants Model.Bytes Model.Codec Model.MetaJournal Model.FreeSpace Model.Recovery.
Import ListNotations.
Local Open Scope N_scope.

Inductive merr :=
| MCurrentFormat (v : N) | MKeyTooLarge | MAmbiguous | MStore (e : rerr) | MDestinationExists | MPanic.

Record mrecord := mkmrec { mr_key : list N; mr_val : option (list N); mr_ts : N; mr_exp : N }.

Record mreport := mkmrep {
  rep_version : N;            (* source format version *)
  rep_records : list mrecord; (* what the destination must contain, in key order *)
  rep_ambiguous : N
}.

Definition ro_cfg (allow : bool) : rcfg := mkcfg true allow None 0.

Definition migrate_spec (src : image) (allow dst_exists : bool) : mreport + merr :=
  match fst (open_image (ro_cfg allow) src) with
  | Panic => inr MPanic
  | Rej EAmbiguous => inr MAmbiguous
  | Rej e => inr (MStore e)
  | Ok o =>
      if 3 <=? o_version o then inr (MCurrentFormat (o_version o))
      else if existsb (fun e => MAX_RECOVERABLE_KEY_SIZE <? N.of_nat (length (e_key e))) (o_idx o) then inr MKeyTooLarge
      else if dst_exists then inr MDestinationExists
      else inl (mkmrep (o_version o)
                       (map (fun e => mkmrec (e_key e) (read_value (o_version o) src e) (e_ts e) (e_exp e)) (o_idx o))
                       (o_ambiguous o))
  end.
