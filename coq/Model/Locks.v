(* C18 (part): lock-order discipline.  A thread holds some locks and may be blocked on one more.
   `lock_edges` (Gen/LockSites.v, regenerated from the source on every run) is the relation
   "acquired while held" read off the code. *)
From Coq Require Import List NArith Bool.
Import ListNotations.
Local Open Scope N_scope.

Record thr := mkthr { holds : list N; wants : option N }.

(* every blocked acquisition follows an edge of the nesting relation *)
Definition follows (edges : list (N * N)) (t : thr) : Prop :=
  forall h w, In h (holds t) -> wants t = Some w -> In (h, w) edges.

Definition ranked (edges : list (N * N)) : bool := forallb (fun e => fst e <? snd e) edges.

(* a deadlocked set of threads: every one of them is blocked on a lock held by one of them
   (a cycle of waiting threads is such a set) *)
Definition stuck (l : list thr) : Prop :=
  l <> [] /\ forall a, In a l -> exists wa, wants a = Some wa /\ exists b, In b l /\ In wa (holds b).
