(* Model of src/core/cache.rs (ClockCache), public (untagged) API: get / insert / remove /
   evict_entries / clear / adjust_watermarks / stats.  Buckets are indexed by
   murmur3_32(key, 0) mod CACHE_BUCKETS; only non-empty buckets are stored, in ascending index
   order; a bucket is the Vec of its entries in insertion order. *)
From Coq Require Import List NArith Bool.
From Feox Require Import Gen.Constants Model.Bytes.
Import ListNotations.
Local Open Scope N_scope.

(* ---- murmur3_32 ---- *)
Definition M32 : N := 4294967296.
Definition w32 (x : N) : N := x mod M32.
Definition rotl32 (x r : N) : N := w32 (N.lor (N.shiftl x r) (N.shiftr x (32 - r))).
Definition mul32 (a b : N) : N := w32 (a * b).

Definition mix_k (k : N) : N := mul32 (rotl32 (mul32 k 3432918353) 15) 461845907.

Fixpoint murmur_body (fuel : nat) (key : list N) (h : N) : N * list N :=
  match fuel with
  | O => (h, key)
  | S f =>
      match key with
      | a :: b :: c :: d :: t =>
          let k := a + 256 * b + 65536 * c + 16777216 * d in
          let h1 := N.lxor h (mix_k k) in
          let h2 := w32 (mul32 (rotl32 h1 13) 5 + 3864292196) in
          murmur_body f t h2
      | _ => (h, key)
      end
  end.

Definition fmix32 (h : N) : N :=
  let h1 := N.lxor h (N.shiftr h 16) in
  let h2 := mul32 h1 2246822507 in
  let h3 := N.lxor h2 (N.shiftr h2 13) in
  let h4 := mul32 h3 3266489909 in
  N.lxor h4 (N.shiftr h4 16).

Definition murmur3_32 (key : list N) (seed : N) : N :=
  let '(h, rest) := murmur_body (length key) key seed in
  let h1 := match rest with
            | [] => h
            | _ => N.lxor h (mix_k (le_num rest))
            end in
  fmix32 (N.lxor h1 (w32 (N.of_nat (length key)))).

(* ---- the cache ---- *)
Record centry := mkce { ce_key : list N; ce_val : list N; ce_ref : bool; ce_size : N }.

Record cache := mkcache {
  buckets : list (N * list centry);     (* ascending bucket index, no empty buckets *)
  hand : N;
  high : N; low : N;
  cmem : N;                              (* stats.cache_memory *)
  evictions : N;
  overhead : N                           (* size_of::<CacheEntry>() *)
}.

Definition MBYTES : N := 1048576.
Definition CACHE_MAX : N := 1073741824.

Definition cache_new (ovh : N) : cache := mkcache [] 0 (100 * MBYTES) (50 * MBYTES) 0 0 ovh.

Definition bucket_of (k : list N) : N := murmur3_32 k 0 mod CACHE_BUCKETS.

Fixpoint bget (i : N) (l : list (N * list centry)) : list centry :=
  match l with
  | [] => []
  | (j, b) :: t => if j =? i then b else if i <? j then [] else bget i t
  end.

Fixpoint bset (i : N) (b : list centry) (l : list (N * list centry)) : list (N * list centry) :=
  match l with
  | [] => match b with [] => [] | _ => [(i, b)] end
  | (j, x) :: t =>
      if j =? i then match b with [] => t | _ => (i, b) :: t end
      else if i <? j then match b with [] => (j, x) :: t | _ => (i, b) :: (j, x) :: t end
      else (j, x) :: bset i b t
  end.

Fixpoint find_entry (k : list N) (b : list centry) : option centry :=
  match b with
  | [] => None
  | e :: t => if list_eqb (ce_key e) k then Some e else find_entry k t
  end.

Fixpoint touch (k : list N) (b : list centry) : list centry :=
  match b with
  | [] => []
  | e :: t => if list_eqb (ce_key e) k then mkce (ce_key e) (ce_val e) true (ce_size e) :: t else e :: touch k t
  end.

Fixpoint replace_entry (k : list N) (e' : centry) (b : list centry) : list centry :=
  match b with
  | [] => []
  | e :: t => if list_eqb (ce_key e) k then e' :: t else e :: replace_entry k e' t
  end.

Fixpoint remove_entry (k : list N) (b : list centry) : list centry :=
  match b with
  | [] => []
  | e :: t => if list_eqb (ce_key e) k then t else e :: remove_entry k t
  end.

Definition with_buckets (c : cache) (bs : list (N * list centry)) (m : N) : cache :=
  mkcache bs (hand c) (high c) (low c) m (evictions c) (overhead c).

(* get: first entry with the key; sets its reference bit *)
Definition cget (c : cache) (k : list N) : option (list N) * cache :=
  let i := bucket_of k in
  let b := bget i (buckets c) in
  match find_entry k b with
  | Some e => (Some (ce_val e), with_buckets c (bset i (touch k b) (buckets c)) (cmem c))
  | None => (None, c)
  end.

(* one bucket of the CLOCK sweep: (remaining bucket, memory, evicted count, reached target) *)
Fixpoint sweep_bucket (b : list centry) (m target : N) (ev : N) : list centry * N * N * bool :=
  match b with
  | [] => ([], m, ev, m <=? target)
  | e :: t =>
      if ce_ref e then
        (* second chance: clear the bit, keep *)
        let e' := mkce (ce_key e) (ce_val e) false (ce_size e) in
        if m <=? target then (e' :: t, m, ev, true)
        else let '(t', m', ev', done) := sweep_bucket t m target ev in (e' :: t', m', ev', done)
      else
        let m1 := m - ce_size e in
        if m1 <=? target then (t, m1, ev + 1, true)
        else sweep_bucket t m1 target (ev + 1)
  end.

(* the non-empty buckets in circular order starting at index `start` *)
Definition rotate_at (start : N) (l : list (N * list centry)) : list (N * list centry) :=
  filter (fun p => start <=? fst p) l ++ filter (fun p => fst p <? start) l.

(* one pass over all CACHE_BUCKETS starting at hand mod B: returns the new buckets, memory, evictions,
   whether the target was reached, and how many bucket positions were visited *)
Fixpoint sweep_pass (order : list (N * list centry)) (all : list (N * list centry)) (start : N)
                    (m target ev : N) : list (N * list centry) * N * N * bool * N :=
  match order with
  | [] => (all, m, ev, false, CACHE_BUCKETS)
  | (i, b) :: t =>
      let '(b', m', ev', done) := sweep_bucket b m target ev in
      let all' := bset i b' all in
      if done then
        (* stopped inside / right after bucket i: positions visited = distance from start, inclusive *)
        let dist := if start <=? i then i - start + 1 else CACHE_BUCKETS - start + i + 1 in
        (all', m', ev', true, dist)
      else sweep_pass t all' start m' target ev'
  end.

Fixpoint evict_scans (n : nat) (bs : list (N * list centry)) (hnd m target ev : N)
  : list (N * list centry) * N * N * N :=
  match n with
  | O => (bs, hnd, m, ev)
  | S n' =>
      if m <=? target then (bs, hnd, m, ev)
      else
        let start := hnd mod CACHE_BUCKETS in
        let '(bs', m', ev', done, visited) := sweep_pass (rotate_at start bs) bs start m target ev in
        if done then (bs', hnd + visited, m', ev')
        else evict_scans n' bs' (hnd + visited) m' target ev'
  end.

Definition U64W : N := 18446744073709551616.

(* evict_entries *)
Definition cevict (c : cache) : cache :=
  if cmem c <=? low c then c
  else
    let '(bs, h, m, ev) := evict_scans 3 (buckets c) (hand c) (cmem c) (low c) (evictions c) in
    mkcache bs (h mod U64W) (high c) (low c) m ev (overhead c).

(* insert *)
Definition cinsert (c : cache) (k v : list N) : cache :=
  let size := N.of_nat (length k) + N.of_nat (length v) + overhead c in
  if high c / 4 <? size then c
  else
    let c1 := if high c <? cmem c + size then cevict c else c in
    let i := bucket_of k in
    let b := bget i (buckets c1) in
    match find_entry k b with
    | Some old =>
        let b' := replace_entry k (mkce k v true size) b in
        with_buckets c1 (bset i b' (buckets c1)) (cmem c1 + size - ce_size old)
    | None =>
        with_buckets c1 (bset i (b ++ [mkce k v true size]) (buckets c1)) (cmem c1 + size)
    end.

(* remove *)
Definition cremove (c : cache) (k : list N) : cache :=
  let i := bucket_of k in
  let b := bget i (buckets c) in
  match find_entry k b with
  | Some old => with_buckets c (bset i (remove_entry k b) (buckets c)) (cmem c - ce_size old)
  | None => c
  end.

Definition cclear (c : cache) : cache := mkcache [] 0 (high c) (low c) 0 (evictions c) (overhead c).

Definition cadjust (c : cache) (high_mb low_mb : N) : cache :=
  let h := high_mb * MBYTES in
  let l := low_mb * MBYTES in
  if (l <? h) && (h <=? CACHE_MAX) then
    let c1 := mkcache (buckets c) (hand c) h l (cmem c) (evictions c) (overhead c) in
    if h <? cmem c1 then cevict c1 else c1
  else c.

Inductive cop := CGet (k : list N) | CInsert (k v : list N) | CRemove (k : list N) | CEvict | CClear | CAdjust (h l : N).

Definition cstep (c : cache) (o : cop) : cache * option (list N) :=
  match o with
  | CGet k => let '(r, c') := cget c k in (c', r)
  | CInsert k v => (cinsert c k v, None)
  | CRemove k => (cremove c k, None)
  | CEvict => (cevict c, None)
  | CClear => (cclear c, None)
  | CAdjust h l => (cadjust c h l, None)
  end.
