(* Executable model of src/storage/free_space.rs (FreeSpaceManager).

   State: the `by_start` BTreeMap as a list of (start, size) sorted by start
   (a BTreeMap is sorted and key-unique by construction; `by_size` is the same
   set of runs keyed by (size,start) and is modelled as a search over the list),
   plus the three cached scalars the code maintains by hand: device_size,
   total_free (bytes) and fragmentation_percent.  All arithmetic is u64; the
   places where the Rust code uses checked arithmetic are written with an
   explicit bound test, the unchecked ones cannot overflow under the
   precondition dev_bytes < 2^64 and are proved not to (Proofs/FreeSpaceProofs). *)
From Coq Require Import List NArith Bool.
From Feox Require Import Gen.Constants.
Import ListNotations.
Local Open Scope N_scope.

Definition run := (N * N)%type.            (* start sector, size in sectors *)

Record fs := mkfs {
  runs : list run;          (* by_start: ascending start *)
  dev_bytes : N;            (* device_size *)
  total_free : N;           (* bytes *)
  frag : N                  (* fragmentation_percent *)
}.

Inductive ferr := EArg | ESpace | EDup | ECorrupt.
Inductive fres (A : Type) := FOk (a : A) | FErr (e : ferr).
Arguments FOk {A}. Arguments FErr {A}.

Definition U64 : N := 18446744073709551616.

Definition dev_sectors (s : fs) : N := dev_bytes s / FEOX_BLOCK_SIZE.

(* is_valid_free_space *)
Definition valid_free_space (s : fs) (r : run) : bool :=
  if fst r <? FEOX_DATA_START_BLOCK then false
  else if 0 <? dev_bytes s then
    if dev_sectors s <=? fst r then false
    else if U64 <=? fst r + snd r then false
    else if dev_sectors s <? fst r + snd r then false
    else true
  else true.

(* is_valid_sector_range *)
Definition valid_sector_range (s : fs) (start count : N) : bool :=
  if (start <? FEOX_DATA_START_BLOCK) || (count =? 0) then false
  else if 0 <? dev_bytes s then
    if dev_sectors s <=? start then false
    else if U64 <=? start + count then false
    else start + count <=? dev_sectors s
  else true.

(* ---- list helpers (the two BTreeMaps) ---- *)

Definition lex_lt (a b : run) : bool :=      (* (size,start) order of by_size *)
  (snd a <? snd b) || ((snd a =? snd b) && (fst a <? fst b)).

(* by_size.range((n,0)..).next(): least (size,start) with size >= n *)
Fixpoint best_fit (n : N) (l : list run) : option run :=
  match l with
  | [] => None
  | r :: t =>
      let rest := best_fit n t in
      if n <=? snd r then
        match rest with
        | Some r' => if lex_lt r' r then Some r' else Some r
        | None => Some r
        end
      else rest
  end.

Fixpoint remove_start (a : N) (l : list run) : list run :=
  match l with
  | [] => []
  | r :: t => if fst r =? a then t else r :: remove_start a t
  end.

Fixpoint has_start (a : N) (l : list run) : bool :=
  match l with
  | [] => false
  | r :: t => (fst r =? a) || has_start a t
  end.

Fixpoint insert_sorted (x : run) (l : list run) : list run :=
  match l with
  | [] => [x]
  | r :: t => if fst x <? fst r then x :: r :: t else r :: insert_sorted x t
  end.

(* by_start.range(..start).next_back() *)
Fixpoint preceding (start : N) (l : list run) : option run :=
  match l with
  | [] => None
  | r :: t =>
      if fst r <? start then
        match preceding start t with Some r' => Some r' | None => Some r end
      else None
  end.

(* by_start.range(start..=end).next() *)
Fixpoint following (start en : N) (l : list run) : option run :=
  match l with
  | [] => None
  | r :: t =>
      if fst r <? start then following start en t
      else if fst r <=? en then Some r else None
  end.

Fixpoint sum_sizes (l : list run) : N :=
  match l with [] => 0 | r :: t => snd r + sum_sizes t end.

Fixpoint max_size (l : list run) : N :=
  match l with [] => 0 | r :: t => N.max (snd r) (max_size t) end.

(* insert_free_space *)
Definition insert_free_space (s : fs) (r : run) : fres fs :=
  if snd r =? 0 then FErr EArg
  else if negb (valid_free_space s r) then FErr EArg
  else if has_start (fst r) (runs s) then FErr EDup
  else FOk (mkfs (insert_sorted r (runs s)) (dev_bytes s)
                 (total_free s + snd r * FEOX_BLOCK_SIZE) (frag s)).

(* update_fragmentation *)
Definition update_fragmentation (s : fs) : fs :=
  if total_free s =? 0 then mkfs (runs s) (dev_bytes s) (total_free s) 0
  else if N.of_nat (length (runs s)) <=? 1 then mkfs (runs s) (dev_bytes s) (total_free s) 0
  else
    let largest := max_size (runs s) * FEOX_BLOCK_SIZE in
    mkfs (runs s) (dev_bytes s) (total_free s)
         (((total_free s - largest) * 100 / total_free s) mod 4294967296).

Definition remove_run (s : fs) (r : run) : fs :=
  mkfs (remove_start (fst r) (runs s)) (dev_bytes s)
       (total_free s - snd r * FEOX_BLOCK_SIZE) (frag s).

(* allocate_sectors *)
Definition alloc (n : N) (s : fs) : fres N * fs :=
  if n =? 0 then (FErr EArg, s)
  else match best_fit n (runs s) with
  | None => (FErr ESpace, s)
  | Some r =>
      if negb (valid_free_space s r) then (FErr ECorrupt, s)
      else
        let s1 := remove_run s r in
        if n <? snd r then
          match insert_free_space s1 (fst r + n, snd r - n) with
          | FOk s2 => (FOk (fst r), update_fragmentation s2)
          | FErr e =>
              (* "try to restore original space on error" *)
              match insert_free_space s1 r with
              | FOk s3 => (FErr e, s3)
              | FErr _ => (FErr e, s1)
              end
          end
        else (FOk (fst r), update_fragmentation s1)
  end.

(* try_merge_spaces: Err(Dup) on overlap, else the state with the merged
   neighbours removed and the merged run *)
Definition overlaps_pre (start : N) (pre : option run) : bool :=
  match pre with Some p => start <? fst p + snd p | None => false end.
Definition overlaps_fol (en : N) (fol : option run) : bool :=
  match fol with Some f => fst f <? en | None => false end.

Definition try_merge (start count : N) (s : fs) : fres (fs * run) :=
  if U64 <=? start + count then FErr EArg
  else
    let en := start + count in
    let pre := preceding start (runs s) in
    if overlaps_pre start pre then FErr EDup
    else
      let fol := following start en (runs s) in
      if overlaps_fol en fol then FErr EDup
      else
        let prev := match pre with
                    | Some p => if fst p + snd p =? start then Some p else None
                    | None => None end in
        let next := match fol with
                    | Some f => if fst f =? en then Some f else None
                    | None => None end in
        let s1 := match prev with Some p => remove_run s p | None => s end in
        let mstart := match prev with Some p => fst p | None => start end in
        let msize1 := match prev with Some p => count + snd p | None => count end in
        let s2 := match next with Some f => remove_run s1 f | None => s1 end in
        let msize := match next with Some f => msize1 + snd f | None => msize1 end in
        FOk (s2, (mstart, msize)).

(* release_sectors *)
Definition release (start count : N) (s : fs) : fres unit * fs :=
  if (start <? FEOX_DATA_START_BLOCK) || (count =? 0) then (FErr EArg, s)
  else if negb (valid_sector_range s start count) then (FErr EArg, s)
  else match try_merge start count s with
  | FErr e => (FErr e, s)
  | FOk (s2, m) =>
      match insert_free_space s2 m with
      | FOk s3 => (FOk tt, update_fragmentation s3)
      | FErr e => (FErr e, s2)
      end
  end.

(* initialize(device_size) on a fresh manager *)
Definition fs_new : fs := mkfs [] 0 0 0.

Definition initialize (device_size : N) : fres fs :=
  let s := mkfs [] device_size 0 0 in
  let total := device_size / FEOX_BLOCK_SIZE in
  if total <=? FEOX_DATA_START_BLOCK then FErr EArg   (* InvalidDevice; state discarded *)
  else insert_free_space s (FEOX_DATA_START_BLOCK, total - FEOX_DATA_START_BLOCK).

(* the four getters *)
Definition get_total_free (s : fs) : N := total_free s.
Definition get_fragmentation (s : fs) : N := frag s.
Definition get_chunks (s : fs) : N := N.of_nat (length (runs s)).
Definition get_largest (s : fs) : N := max_size (runs s) * FEOX_BLOCK_SIZE.

(* ---- operation language for histories ---- *)
Inductive fop := OAlloc (n : N) | ORelease (start count : N).
Inductive fout := RAlloc (r : fres N) | RRelease (r : fres unit).

Definition fstep (s : fs) (o : fop) : fs * fout :=
  match o with
  | OAlloc n => let '(r, s') := alloc n s in (s', RAlloc r)
  | ORelease a c => let '(r, s') := release a c s in (s', RRelease r)
  end.

Definition frun (s : fs) (ops : list fop) : fs := fold_left (fun s o => fst (fstep s o)) ops s.
