(* Range scans racing with writers (C14, concurrent clauses).

   range.rs range_query walks the ordered index (crossbeam SkipMap: key -> TreeSlot, a slot holding
   the key's current record):   cursor = lower_bound(start);  loop { stop when the limit is reached
   or the key is past the end;  load the record from the entry's slot and resolve its value (an
   expired / stale record is skipped and does not count);  cursor = entry.next() }.
   Writers replace the record inside the slot of an existing node, create a node for a new key, or
   unlink the node on delete (the slot, still referenced by an iterator's entry, keeps its last
   record).  The scan holds no lock: any number of writer steps may happen between two of its
   steps.  Assumption about the skip list (trusted base): lower_bound / next are linearizable --
   each returns the node with the least key >= start / > the entry's key among the nodes linked at
   some instant of the call.

   Every event below is one such atomic step; the schedule (event list) is arbitrary. *)
From Coq Require Import List NArith Bool.
From Feox Require Import Model.Sched.
Import ListNotations.
Local Open Scope N_scope.

Record cell := mkcell { c_val : N; c_vis : bool }.   (* c_vis = false: expired or stale, skipped *)

Inductive pos :=
| PBegin                        (* before lower_bound *)
| PAt (k n : N)                 (* holds the entry of key k (node n); loop test and load come next *)
| PLoaded (k : N)               (* value of k handled; entry.next() comes next *)
| PEnd.

Record sworld := mksw {
  w_idx : list (N * N);          (* ordered index: key -> node *)
  w_slot : list (N * cell);      (* node -> record in its slot *)
  w_nn : N;                      (* next node identity *)
  w_pos : pos;
  w_out : list (N * N);          (* results so far, in order *)
  w_hist : list (N * N);         (* ghost: every (key, value) ever written *)
  w_owner : list (N * N)         (* ghost: node -> the key it was created for *)
}.

Inductive wev :=
| MPut (k v : N) (vis : bool)    (* insert / replace / TTL rewrite of key k *)
| MDel (k : N)
| SStep.                         (* the scan's next step *)

Fixpoint least (p : N -> bool) (m : list (N * N)) : option N :=
  match m with
  | [] => None
  | (k, _) :: t =>
      let r := least p t in
      if p k then match r with Some x => Some (N.min k x) | None => Some k end else r
  end.

Definition seek (p : N -> bool) (w : sworld) : pos :=
  match least p (w_idx w) with
  | Some k => match aget k (w_idx w) with Some n => PAt k n | None => PEnd end
  | None => PEnd
  end.

Definition set_scan (w : sworld) (p : pos) (o : list (N * N)) : sworld :=
  mksw (w_idx w) (w_slot w) (w_nn w) p o (w_hist w) (w_owner w).

Definition wstep (a b : N) (limit : nat) (w : sworld) (e : wev) : sworld :=
  match e with
  | MPut k v vis =>
      match aget k (w_idx w) with
      | Some n => mksw (w_idx w) (aset n (mkcell v vis) (w_slot w)) (w_nn w) (w_pos w) (w_out w) ((k, v) :: w_hist w) (w_owner w)
      | None => mksw (aset k (w_nn w) (w_idx w)) (aset (w_nn w) (mkcell v vis) (w_slot w)) (w_nn w + 1) (w_pos w) (w_out w)
                     ((k, v) :: w_hist w) (aset (w_nn w) k (w_owner w))
      end
  | MDel k => mksw (adel k (w_idx w)) (w_slot w) (w_nn w) (w_pos w) (w_out w) (w_hist w) (w_owner w)
  | SStep =>
      match w_pos w with
      | PBegin => if Nat.eqb limit 0 then set_scan w PEnd (w_out w) else set_scan w (seek (fun k => a <=? k) w) (w_out w)
      | PAt k n =>
          if Nat.leb limit (length (w_out w)) || (b <? k) then set_scan w PEnd (w_out w)
          else match aget n (w_slot w) with
               | Some c => if c_vis c then set_scan w (PLoaded k) (w_out w ++ [(k, c_val c)]) else set_scan w (PLoaded k) (w_out w)
               | None => set_scan w (PLoaded k) (w_out w)
               end
      | PLoaded k => set_scan w (seek (fun k' => k <? k') w) (w_out w)
      | PEnd => w
      end
  end.

Definition winit : sworld := mksw [] [] 1 PBegin [] [] [].

Definition wrun (a b : N) (limit : nat) (w : sworld) (es : list wev) : sworld := fold_left (wstep a b limit) es w.

Definition touches (k : N) (e : wev) : bool :=
  match e with MPut k' _ _ | MDel k' => k' =? k | SStep => false end.
Definition is_scan (e : wev) : bool := match e with SStep => true | _ => false end.

Fixpoint ascending (l : list (N * N)) : bool :=
  match l with
  | [] => true
  | (k, _) :: t => match t with [] => true | (k', _) :: _ => (k <? k') && ascending t end
  end.
