(* Metadata block (136 bytes, checksummed, two copies selected by generation) and the
   two-slot allocation journal, from the documented layout. *)
From Coq Require Import List NArith Bool.
From Feox Require Import Gen.Constants Model.Bytes Model.Crc32c Model.Codec.
Import ListNotations.
Local Open Scope N_scope.

(* ---------------- metadata ---------------- *)
Definition SIGNATURE : list N := [70; 69; 79; 88; 95; 83; 73; 71].   (* "FEOX_SIG" *)
Definition FM3C : list N := [70; 77; 51; 67].
Definition METADATA_VERSION : N := 3.

Record meta := mkmeta {
  m_version : N; m_records : N; m_size : N; m_device : N; m_block : N; m_frag : N;
  m_created : N; m_updated : N; m_generation : N;
  m_tail : list N   (* reserved[20..68): 48 bytes, normally zero *)
}.

(* bytes covered by the checksum: [0,12) ++ [16,64) ++ [76,132) *)
Definition meta_checksum (b : list N) : N :=
  crc32c 0 (sub b 0 12 ++ sub b 16 48 ++ sub b 76 56).

(* Metadata::encode of a checksummed (refresh_checksum'd) metadata *)
Definition encode_meta (m : meta) : list N :=
  let pre := SIGNATURE ++ le_bytes 4 (m_version m) ++ zeros 4 ++
             le_bytes 8 (m_records m) ++ le_bytes 8 (m_size m) ++ le_bytes 8 (m_device m) ++
             le_bytes 4 (m_block m) ++ le_bytes 4 (m_frag m) ++
             le_bytes 8 (m_created m) ++ le_bytes 8 (m_updated m) in
  let post := le_bytes 8 (m_generation m) ++ m_tail m in
  let c := crc32c 0 (sub pre 0 12 ++ sub pre 16 48 ++ post) in
  pre ++ FM3C ++ le_bytes 4 c ++ le_bytes 4 (N.lxor c MASK32) ++ post ++ zeros 4.

Definition meta_block (m : meta) : list N := encode_meta m ++ zeros (BLOCK - 136).

(* Metadata::from_bytes: Some (version, generation, metadata) when validate() holds *)
Definition decode_meta (b : list N) : option meta :=
  if Nat.ltb (length b) 136 then None
  else
    let version := u32_at b 8 in
    let device := u64_at b 32 in
    if negb (list_eqb (sub b 0 8) SIGNATURE) then None
    else if negb (u32_at b 40 =? FEOX_BLOCK_SIZE) then None
    else if (version =? 0) || (METADATA_VERSION <? version) then None
    else if (device =? 0) || (MAX_DEVICE_SIZE <? device) then None
    else
      let has := list_eqb (sub b 64 4) FM3C in
      let m := mkmeta version (u64_at b 16) (u64_at b 24) device (u32_at b 40) (u32_at b 44)
                      (u64_at b 48) (u64_at b 56) (u64_at b 76) (sub b 84 48) in
      if (3 <=? version) && negb has then None
      else if negb has then Some m
      else
        let c := u32_at b 68 in
        if (u32_at b 72 =? N.lxor c MASK32) && (c =? meta_checksum b) then Some m else None.

(* DiskIO::read_metadata: which copy is returned (false = block 0, true = block 7) *)
Definition select_meta (b0 b7 : list N) : bool :=
  match decode_meta b0, decode_meta b7 with
  | Some p, Some q => m_generation p <? m_generation q
  | Some _, None => false
  | None, Some _ => true
  | None, None => false
  end.

(* ---------------- allocation journal ---------------- *)
Definition JOURNAL_MAGIC : list N := [0; 70; 69; 79; 88; 65; 74; 49].   (* "\0FEOXAJ1" *)

Definition journal_image_size (count : N) : N :=
  blocks_for (JOURNAL_HEADER_SIZE + count * JOURNAL_ENTRY_SIZE) * FEOX_BLOCK_SIZE.

Definition journal_checksum (d : list N) : N :=
  crc32c 0 (sub d 0 12 ++ zeros 4 ++ sub d 16 16 ++ zeros 4 ++ skipn 36 d).

Fixpoint encode_entries (exts : list (N * N)) : list N :=
  match exts with
  | [] => []
  | (s, n) :: t => le_bytes 4 s ++ le_bytes 4 n ++ encode_entries t
  end.

(* encode_active / encode_clear (the compact image, JOURNAL_VERSION) *)
Definition encode_journal (generation state : N) (exts : list (N * N)) : list N :=
  let count := N.of_nat (length exts) in
  let size := N.to_nat (journal_image_size count) in
  let raw := JOURNAL_MAGIC ++ le_bytes 4 JOURNAL_VERSION ++ zeros 4 ++ le_bytes 8 generation ++
             le_bytes 4 state ++ le_bytes 4 count ++ zeros 8 ++ encode_entries exts in
  let img := raw ++ zeros (size - length raw) in
  let c := journal_checksum img in
  splice (splice img 12 (le_bytes 4 c)) 32 (le_bytes 4 (N.lxor c MASK32)).

(* when encode_active accepts its arguments *)
Definition encode_active_ok (generation : N) (exts : list (N * N)) : bool :=
  negb (generation =? 0) && negb (N.of_nat (length exts) =? 0) &&
  (N.of_nat (length exts) <=? ALLOCATION_JOURNAL_MAX_ENTRIES) &&
  forallb (fun e => (fst e <? 4294967296) && (snd e <? 4294967296) &&
                    (FEOX_DATA_START_BLOCK <=? fst e) && negb (snd e =? 0)) exts.


Fixpoint decode_entries (d : list N) (off : nat) (count : nat) (total : N) : option (list (N * N)) :=
  match count with
  | O => Some []
  | S k =>
      let s := u32_at d off in
      let n := u32_at d (off + 4) in
      if (total <? s + n) || (s <? FEOX_DATA_START_BLOCK) || (n =? 0) then None
      else match decode_entries d (off + 8) k total with
           | Some t => Some ((s, n) :: t)
           | None => None
           end
  end.

Fixpoint insert_by_start (x : N * N) (l : list (N * N)) : list (N * N) :=
  match l with
  | [] => [x]
  | y :: t => if fst x <? fst y then x :: y :: t else y :: insert_by_start x t
  end.
Definition sort_by_start (l : list (N * N)) : list (N * N) := fold_right insert_by_start [] l.

Fixpoint no_overlap_sorted (l : list (N * N)) : bool :=
  match l with
  | x :: ((y :: _) as t) => (fst x + snd x <=? fst y) && no_overlap_sorted t
  | _ => true
  end.

(* decode_slot on one 12288-byte slot: Some (generation, extents) *)
Definition decode_slot (d : list N) (total : N) : option (N * list (N * N)) :=
  if negb (list_eqb (sub d 0 8) JOURNAL_MAGIC) then None
  else
    let version := u32_at d 8 in
    if negb ((version =? FULL_SLOT_CHECKSUM_VERSION) || (version =? JOURNAL_VERSION)) then None
    else
      let generation := u64_at d 16 in
      let state := u32_at d 24 in
      let count := u32_at d 28 in
      if (generation =? 0) || (ALLOCATION_JOURNAL_MAX_ENTRIES <? count) ||
         negb ((state =? JOURNAL_CLEAR) || (state =? JOURNAL_ACTIVE)) ||
         ((state =? JOURNAL_CLEAR) && negb (count =? 0)) ||
         ((state =? JOURNAL_ACTIVE) && (count =? 0)) then None
      else
        let clen := if version =? FULL_SLOT_CHECKSUM_VERSION then JOURNAL_SLOT_SIZE
                    else journal_image_size count in
        let c := u32_at d 12 in
        if negb ((u32_at d 32 =? N.lxor c MASK32) && (journal_checksum (firstn (N.to_nat clen) d) =? c))
        then None
        else match decode_entries d (N.to_nat JOURNAL_HEADER_SIZE) (N.to_nat count) total with
             | None => None
             | Some exts =>
                 if no_overlap_sorted (sort_by_start exts) then Some (generation, exts) else None
             end.

(* decode over both slots: (generation, slot index, extents) or corrupt *)
Definition decode_journal (s0 s1 : list N) (total : N) : option (N * N * list (N * N)) :=
  let v0 := if all_zero s0 then None else decode_slot s0 total in
  let v1 := if all_zero s1 then None else decode_slot s1 total in
  match v0, v1 with
  | Some (g0, e0), Some (g1, e1) => if g1 <? g0 then Some (g0, 0, e0) else Some (g1, 1, e1)
  | Some (g0, e0), None => Some (g0, 0, e0)
  | None, Some (g1, e1) => Some (g1, 1, e1)
  | None, None =>
      if all_zero s1 then Some (0, 1, [])
      else if all_zero s0 then Some (0, 0, [])
      else None
  end.

(* coalesce_extents: None = InvalidArgument *)
Fixpoint coalesce_sorted (l : list (N * N)) (acc : list (N * N)) : option (list (N * N)) :=
  match l with
  | [] => Some (rev acc)
  | (s, n) :: t =>
      if n =? 0 then None
      else match acc with
           | [] => coalesce_sorted t [(s, n)]
           | (ps, pn) :: acc' =>
               if s <? ps + pn then None
               else if s =? ps + pn then coalesce_sorted t ((ps, pn + n) :: acc')
               else coalesce_sorted t ((s, n) :: (ps, pn) :: acc')
           end
  end.
Definition coalesce (l : list (N * N)) : option (list (N * N)) := coalesce_sorted (sort_by_start l) [].
