(* C19, one level below Model/WriteBehind.v: the shard counters the coordinator really looks at.

   write_buffer.rs ShardedWriteBuffer = { buffer: Mutex<VecDeque<WriteEntry>>, count, size }.
     add_entries:      lock; push back; count += n
     drain_entries:    lock; take everything; count = 0            (the worker now holds the entries)
     requeue_entries:  lock; push the entries back at the front; count += n   (a pass that failed, or
                       entries whose turn has not come)
   The periodic coordinator wakes the owner of every shard whose `count` is > 0 (it never looks at
   the queue itself), and a shard whose count reaches WRITE_BUFFER_SIZE wakes its owner at once.
   A worker's pass over one shard is two steps here, Drain and Finish, and anything may happen in
   between; Finish says which of the entries it holds were written and which go back. *)
From Coq Require Import List Arith Bool.
From Feox Require Import Model.WriteBehind.
Import ListNotations.

Record bl := mkbl {
  b_bufs : list (list nat);        (* per shard: the queue *)
  b_cnts : list nat;               (* per shard: the counter *)
  b_hand : list (list nat);        (* per shard: what its owner holds between Drain and Finish *)
  b_woken : list bool;             (* per worker: a flush request is queued *)
  b_written : list nat             (* ghost: entries written to the device, newest first *)
}.

Inductive bev :=
| BAdd (s e : nat)
| BTick
| BDrain (s : nat)                 (* the owner of s, inside a pass, takes the shard's queue *)
| BFinish (s : nat) (back : list bool).
                                   (* ... and is done with it: entry i of its hand goes back to the
                                      queue iff back[i] (missing flags = written) *)

Fixpoint split_back (hand : list nat) (back : list bool) : list nat * list nat :=
  match hand with
  | [] => ([], [])
  | x :: t =>
      let b := match back with b :: _ => b | [] => false end in
      let '(r, w) := split_back t (tl back) in
      if b then (x :: r, w) else (r, x :: w)
  end.

Definition owner_of (W s : nat) : nat := s mod W.

Definition counted (W S : nat) (st : bl) (w : nat) : bool :=
  existsb (fun s => negb (Nat.eqb (nth s (b_cnts st) 0) 0)) (shards_of W S w).

Definition bstep (W S : nat) (st : bl) (e : bev) : bl :=
  match e with
  | BAdd s x =>
      if s <? S
      then mkbl (upd s (fun l => l ++ [x]) (b_bufs st)) (upd s (fun c => c + 1) (b_cnts st)) (b_hand st) (b_woken st) (b_written st)
      else st
  | BTick =>
      mkbl (b_bufs st) (b_cnts st) (b_hand st)
           (map (fun w => nth w (b_woken st) false || counted W S st w) (seq 0 W)) (b_written st)
  | BDrain s =>
      (* one pass at a time per shard: its owner is a single thread *)
      if (s <? S) && negb (nonempty (nth s (b_hand st) []))
      then mkbl (upd s (fun _ => []) (b_bufs st)) (upd s (fun _ => 0) (b_cnts st))
                (upd s (fun _ => nth s (b_bufs st) []) (b_hand st))
                (upd (owner_of W s) (fun _ => false) (b_woken st)) (b_written st)
      else st
  | BFinish s back =>
      if s <? S then
        let '(r, w) := split_back (nth s (b_hand st) []) back in
        mkbl (upd s (fun l => r ++ l) (b_bufs st)) (upd s (fun c => c + length r) (b_cnts st))
             (upd s (fun _ => []) (b_hand st)) (b_woken st) (rev w ++ b_written st)
      else st
  end.

Definition binit (W S : nat) : bl := mkbl (repeat [] S) (repeat 0 S) (repeat [] S) (repeat false W) [].

Definition brun (W S : nat) (st : bl) (evs : list bev) : bl := fold_left (bstep W S) evs st.
