(* The retirement gate (record.rs Record::successor_is_durable_or_deleted): the flusher may retire
   the extent of a superseded generation only when this function answers true for it.  A generation
   points to its successor (set once, when it is replaced); a generation is durable once its
   sector is non-zero; refcount 0 without a successor means "deleted".  The function memoises
   positive answers in `successor_safe` of every node it walked over. *)
From Coq Require Import List NArith Bool.
Import ListNotations.
Local Open Scope N_scope.

Record gnode := mkgn { gn_sector : N; gn_ref : N; gn_succ : option nat; gn_safe : bool }.

(* the loop over `current`: Some path = the answer is true and these nodes get their memo bit;
   None = false.  Fuel: the chain is acyclic, its length bounds the walk. *)
Fixpoint gwalk (fuel : nat) (l : list gnode) (cur : nat) (path : list nat) : option (list nat) :=
  match fuel with
  | O => None
  | S f =>
      match nth_error l cur with
      | None => None
      | Some c =>
          if (0 <? gn_sector c) || gn_safe c then Some path
          else match gn_succ c with
               | Some s => gwalk f l s (cur :: path)
               | None => if gn_ref c =? 0 then Some path else None
               end
      end
  end.

Fixpoint mark (l : list gnode) (i : nat) : list gnode :=
  match l, i with
  | [], _ => []
  | n :: t, O => mkgn (gn_sector n) (gn_ref n) (gn_succ n) true :: t
  | n :: t, S k => n :: mark t k
  end.

Definition gate (l : list gnode) (x : nat) : bool * list gnode :=
  match nth_error l x with
  | None => (true, l)
  | Some me =>
      if gn_safe me then (true, l)
      else match gn_succ me with
           | None => (true, l)
           | Some s =>
               match gwalk (length l) l s [] with
               | Some path => (true, fold_left mark (x :: path) l)
               | None => (false, l)
               end
           end
  end.
