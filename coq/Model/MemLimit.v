(* C13, the concurrent clause: operations.rs reserve_memory / MemoryReservation / release_memory.
   One shared counter (stats.memory_usage), a fixed limit, any number of threads.  A reservation
   is a compare-exchange loop: load, give up if current + amount exceeds the limit, else try to
   swap in current + amount, on failure retry with the observed value.  A granted reservation is
   later committed (kept) or dropped (given back); memory a thread owns can be released. *)
From Coq Require Import List NArith Bool.
Import ListNotations.
Local Open Scope N_scope.

Inductive mpc :=
| MIdle
| MLoaded (cur amount : N)      (* between the load and the compare-exchange *)
| MHeld (amount : N).           (* reservation granted, not yet committed or dropped *)

Record mth := mkmth { m_pc : mpc; m_owned : N (* bytes this thread accounts for: committed + held *) }.
Record mst := mkmst { usage : N; limit : N; ths : list mth }.

Inductive mev :=
| MReserve (i : nat) (amount : N)   (* start a reservation: the load *)
| MCas (i : nat)                    (* the limit test and the compare-exchange *)
| MCommit (i : nat)
| MDrop (i : nat)
| MRelease (i : nat) (amount : N).  (* release_memory / delete: give back owned bytes *)

Fixpoint set_nth {A} (i : nat) (a : A) (l : list A) : list A :=
  match l, i with
  | [], _ => []
  | _ :: t, O => a :: t
  | x :: t, S i' => x :: set_nth i' a t
  end.

Definition mstep (s : mst) (e : mev) : mst :=
  match e with
  | MReserve i a =>
      match nth_error (ths s) i with
      | Some (mkmth MIdle o) => mkmst (usage s) (limit s) (set_nth i (mkmth (MLoaded (usage s) a) o) (ths s))
      | _ => s
      end
  | MCas i =>
      match nth_error (ths s) i with
      | Some (mkmth (MLoaded cur a) o) =>
          if limit s <? cur + a then mkmst (usage s) (limit s) (set_nth i (mkmth MIdle o) (ths s))      (* OutOfMemory *)
          else if usage s =? cur
               then mkmst (cur + a) (limit s) (set_nth i (mkmth (MHeld a) (o + a)) (ths s))
               else mkmst (usage s) (limit s) (set_nth i (mkmth (MLoaded (usage s) a) o) (ths s))       (* retry *)
      | _ => s
      end
  | MCommit i =>
      match nth_error (ths s) i with
      | Some (mkmth (MHeld a) o) => mkmst (usage s) (limit s) (set_nth i (mkmth MIdle o) (ths s))
      | _ => s
      end
  | MDrop i =>
      match nth_error (ths s) i with
      | Some (mkmth (MHeld a) o) => mkmst (usage s - a) (limit s) (set_nth i (mkmth MIdle (o - a)) (ths s))
      | _ => s
      end
  | MRelease i r =>
      match nth_error (ths s) i with
      | Some (mkmth MIdle o) =>
          if r <=? o then mkmst (usage s - r) (limit s) (set_nth i (mkmth MIdle (o - r)) (ths s)) else s
      | _ => s
      end
  end.

Definition mrun (s : mst) (evs : list mev) : mst := fold_left mstep evs s.
Definition minit (lim : N) (n : nat) : mst := mkmst 0 lim (repeat (mkmth MIdle 0) n).
