(* THE SPEC: a last-writer-wins map with ghosts (expired, un-swept entries), the memory
   counter and the per-shard version clocks -- the reference map the sequential API of
   FeoxStore must agree with (C01), including exact memory/count accounting (C13), exact
   range queries (C14), exact expiry (C11) and the clock rules (C12).

   Environment inputs of a call (things the real call reads from outside the map) are part of
   the operation: the wall clock is given as a window [tb, ta] observed around the call; a
   comparison with "now" that falls inside the window is `Undecided` (the case is skipped by
   the harness, never guessed).  The clock shard of the key and the shard value observed after
   the call are inputs too: the spec *checks* them against the clock rules instead of
   predicting the wall clock. *)
From Coq Require Import List NArith ZArith Bool.
From Feox Require Import Gen.Constants Model.Bytes.
Import ListNotations.
Local Open Scope N_scope.

Definition U64M : N := 18446744073709551615.
Definition sat_add (a b : N) : N := if U64M <? a + b then U64M else a + b.
Definition sat_mul (a b : N) : N := if U64M <? a * b then U64M else a * b.
Definition NANOS : N := 1000000000.

Record gen := mkgen { g_val : list N; g_ts : N; g_exp : N }.

Record cfg := mkcfg {
  persistent : bool;
  ttl_on : bool;
  version : N;              (* device format version (1,2,3); ignored when memory-only *)
  limit : option N;         (* max_memory *)
  recsize : N               (* size_of::<Record>() *)
}.

Record st := mkst {
  kv : list (list N * gen);        (* ascending byte order, one binding per key *)
  mem : N;                          (* stats.memory_usage *)
  clocks : list (N * N)             (* shard -> last value (absent = 0) *)
}.

Inductive err :=
| KeyNotFound | Older | OutOfMemory | InvalidKeySize | InvalidValueSize | TtlNotEnabled
| Unsupported | InvalidOperation | JsonError.

Inductive out :=
| OBool (b : bool) | OUnit | OVal (v : list N) | OInt (z : Z) | ONat (n : N) | OOptNat (o : option N)
| OPairs (l : list (list N * list N))
| OErr (e : err)
| OUndecided                      (* a comparison with "now" fell inside the observation window *)
| OClock (what : N).              (* the observed clock value violates the clock rules *)

(* ---- map ---- *)
Fixpoint find (k : list N) (l : list (list N * gen)) : option gen :=
  match l with
  | [] => None
  | (k', g) :: t => if list_eqb k' k then Some g else find k t
  end.

Fixpoint upsert (k : list N) (g : gen) (l : list (list N * gen)) : list (list N * gen) :=
  match l with
  | [] => [(k, g)]
  | (k', g') :: t =>
      if list_eqb k' k then (k, g) :: t
      else if key_ltb k k' then (k, g) :: (k', g') :: t
      else (k', g') :: upsert k g t
  end.

Fixpoint remove (k : list N) (l : list (list N * gen)) : list (list N * gen) :=
  match l with
  | [] => []
  | (k', g') :: t => if list_eqb k' k then t else (k', g') :: remove k t
  end.

Definition klen (k : list N) : N := N.of_nat (length k).
Definition rsize (c : cfg) (k v : list N) : N := recsize c + klen k + N.of_nat (length v).

(* ---- wall clock window ---- *)
Inductive tri := Yes | No | Unknown.
(* is x <= now ?  given tb <= now <= ta *)
Definition le_now (x tb ta : N) : tri := if x <=? tb then Yes else if ta <? x then No else Unknown.
(* is x < now ? *)
Definition lt_now (x tb ta : N) : tri := if x <? tb then Yes else if ta <=? x then No else Unknown.

(* expired = ttl_on /\ exp > 0 /\ now > exp *)
Definition expired (c : cfg) (g : gen) (tb ta : N) : tri :=
  if negb (ttl_on c) then No else if g_exp g =? 0 then No else lt_now (g_exp g) tb ta.

(* ---- clocks ---- *)
Fixpoint clock_get (s : N) (l : list (N * N)) : N :=
  match l with [] => 0 | (s', v) :: t => if s' =? s then v else clock_get s t end.
Fixpoint clock_set (s v : N) (l : list (N * N)) : list (N * N) :=
  match l with
  | [] => [(s, v)]
  | (s', v') :: t => if s' =? s then (s, v) :: t else (s', v') :: clock_set s v t
  end.

(* VersionClock::next seen from outside: the value after the call (= the issued timestamp) must be
   > the previous value, unless the shard is saturated; and must be >= the wall clock before.  *)
Definition auto_ok (last clk tb ta : N) : bool :=
  if last =? U64M then clk =? U64M
  else (last <? clk) && ((tb <=? clk) || (clk =? last + 1)) && ((clk <=? ta) || (clk =? last + 1)).

(* VersionClock::observe *)
Definition observe (last t : N) : N := if t =? U64M then last else N.max last t.

(* ---- size limits ---- *)
Definition max_recoverable (c : cfg) : N :=
  if version c =? 1 then MAX_RECOVERABLE_KEY_SIZE_V1 else MAX_RECOVERABLE_KEY_SIZE.

Definition validate_key (k : list N) : option err :=
  if (klen k =? 0) || (MAX_KEY_SIZE <? klen k) then Some InvalidKeySize else None.
Definition validate_new_key (c : cfg) (k : list N) : option err :=
  if (klen k =? 0) || (MAX_KEY_SIZE <? klen k) then Some InvalidKeySize
  else if negb (persistent c) || (klen k <=? MAX_RECOVERABLE_KEY_SIZE) then None
  else if (version c =? 1) && (klen k <=? MAX_RECOVERABLE_KEY_SIZE_V1) then None
  else Some InvalidKeySize.
Definition validate_value (v : list N) : option err :=
  if (length v =? 0)%nat || (MAX_VALUE_SIZE <? N.of_nat (length v)) then Some InvalidValueSize else None.
Definition validate_kv (c : cfg) (k v : list N) : option err :=
  match validate_new_key c k with Some e => Some e | None => validate_value v end.
Definition ttl_write_supported (c : cfg) : bool := negb (persistent c && (version c =? 1)).

(* reserve_memory(amount): None = OutOfMemory *)
Definition reserve (c : cfg) (m amount : N) : option N :=
  match limit c with
  | None => Some (m + amount)
  | Some lim => if amount =? 0 then Some m else if lim <? m + amount then None else Some (m + amount)
  end.

(* growth reserved, shrink released: memory after replacing old by new *)
Definition replace_mem (c : cfg) (m old new : N) : option N :=
  match reserve c m (new - old) with
  | None => None
  | Some m' => Some (if new <? old then m' - (old - new) else m')
  end.

Definition expiry_of (ts ttl : N) : N := if ttl =? 0 then 0 else sat_add ts (sat_mul ttl NANOS).

(* ---- operations ---- *)
Record env := mkenv {
  e_shard : N;      (* clock shard of the key *)
  e_clk : N;        (* shard value observed after the call *)
  e_tb : N; e_ta : N;
  e_aux : N;        (* op-specific observation: new expiry (update_ttl), returned ttl (get_ttl) *)
  e_patched : option (list N)   (* JSON patch result on the current value (None = patch error) *)
}.

Inductive op :=
| Insert (k v : list N) (ts : option N) (ttl : N) (ttl_api : bool)
| Get (k : list N)
| GetSize (k : list N)
| Contains (k : list N)
| Len
| Delete (k : list N) (ts : option N)
| Incr (k : list N) (delta : Z) (ts : option N) (ttl : N)
| InsertIfAbsent (k v : list N)
| Cas (k expected v : list N) (ts : option N) (ttl : N)
| JsonPatch (k : list N) (ts : option N)
| UpdateTtl (k : list N) (ttl : N)
| GetTtl (k : list N)
| Range (a b : list N) (lim : N)
| Flush.

Definition explicit (ts : option N) : option N :=
  match ts with Some t => if t =? 0 then None else Some t | None => None end.

(* resolve_timestamp: explicit value, or the issued automatic one (checked) *)
Inductive tsres := TsOk (t : N) (s' : st) | TsBad.
Definition resolve_ts (s : st) (e : env) (ts : option N) : tsres :=
  match explicit ts with
  | Some t => TsOk t s
  | None =>
      let last := clock_get (e_shard e) (clocks s) in
      if auto_ok last (e_clk e) (e_tb e) (e_ta e)
      then TsOk (e_clk e) (mkst (kv s) (mem s) (clock_set (e_shard e) (e_clk e) (clocks s)))
      else TsBad
  end.

(* observe_published_timestamp *)
Definition publish_clock (s : st) (e : env) (ts : option N) (t : N) : list (N * N) :=
  match explicit ts with
  | Some _ => clock_set (e_shard e) (observe (clock_get (e_shard e) (clocks s)) t) (clocks s)
  | None => clocks s
  end.

Definition i64_of_bytes (v : list N) : Z :=
  let u := Z.of_N (le_num v) in
  if (u <? 9223372036854775808)%Z then u else (u - 18446744073709551616)%Z.
Definition bytes_of_i64 (z : Z) : list N :=
  le_bytes 8 (Z.to_N (if (z <? 0)%Z then (z + 18446744073709551616)%Z else z)).
Definition sat_add_i64 (a b : Z) : Z :=
  let r := (a + b)%Z in
  if (9223372036854775807 <? r)%Z then 9223372036854775807%Z
  else if (r <? -9223372036854775808)%Z then (-9223372036854775808)%Z else r.

(* write a new generation over an existing one (update / replace paths) *)
Definition replace (c : cfg) (s : st) (e : env) (k : list N) (old : gen) (ts : option N) (t : N)
                   (v : list N) (exp : N) (ok : out) : st * out :=
  if t <=? g_ts old then (s, OErr Older)
  else match replace_mem c (mem s) (rsize c k (g_val old)) (rsize c k v) with
       | None => (s, OErr OutOfMemory)
       | Some m' => (mkst (upsert k (mkgen v t exp) (kv s)) m' (publish_clock s e ts t), ok)
       end.

Definition create (c : cfg) (s : st) (e : env) (k : list N) (ts : option N) (t : N)
                  (v : list N) (exp : N) (ok : out) : st * out :=
  match reserve c (mem s) (rsize c k v) with
  | None => (s, OErr OutOfMemory)
  | Some m' => (mkst (upsert k (mkgen v t exp) (kv s)) m' (publish_clock s e ts t), ok)
  end.

Fixpoint range_collect (c : cfg) (l : list (list N * gen)) (a b : list N) (lim : nat) (tb ta : N)
  : option (list (list N * list N)) :=
  match l with
  | [] => Some []
  | (k, g) :: t =>
      match lim with
      | O => Some []
      | S lim' =>
          if key_ltb k a then range_collect c t a b lim tb ta
          else if key_ltb b k then Some []
          else match expired c g tb ta with
               | Unknown => None
               | Yes => range_collect c t a b lim tb ta
               | No => match range_collect c t a b lim' tb ta with
                       | Some r => Some ((k, g_val g) :: r)
                       | None => None
                       end
               end
      end
  end.

Definition step (c : cfg) (s : st) (o : op) (e : env) : st * out :=
  match o with
  | Insert k v ts ttl ttl_api =>
      if ttl_api && negb (ttl_on c) then (s, OErr TtlNotEnabled)
      else if ttl_api && negb (ttl_write_supported c) then (s, OErr Unsupported)
      else match validate_kv c k v with
      | Some er => (s, OErr er)
      | None =>
        match resolve_ts s e ts with
        | TsBad => (s, OClock 1)
        | TsOk t s1 =>
          let exp := if ttl_on c then expiry_of t ttl else 0 in
          match find k (kv s1) with
          | Some old => replace c s1 e k old ts t v exp (OBool false)
          | None => create c s1 e k ts t v exp (OBool true)
          end
        end
      end
  | Get k =>
      match validate_key k with
      | Some er => (s, OErr er)
      | None =>
        match find k (kv s) with
        | None => (s, OErr KeyNotFound)
        | Some g => match expired c g (e_tb e) (e_ta e) with
                    | Yes => (s, OErr KeyNotFound)
                    | No => (s, OVal (g_val g))
                    | Unknown => (s, OUndecided)
                    end
        end
      end
  | GetSize k =>
      match validate_key k with
      | Some er => (s, OErr er)
      | None => match find k (kv s) with
                | None => (s, OErr KeyNotFound)
                | Some g => (s, ONat (N.of_nat (length (g_val g))))
                end
      end
  | Contains k => (s, OBool (match find k (kv s) with Some _ => true | None => false end))
  | Len => (s, ONat (N.of_nat (length (kv s))))
  | Delete k ts =>
      match validate_key k with
      | Some er => (s, OErr er)
      | None =>
        match resolve_ts s e ts with
        | TsBad => (s, OClock 2)
        | TsOk t s1 =>
          match find k (kv s1) with
          | None => (s1, OErr KeyNotFound)
          | Some old =>
              if t <=? g_ts old then (s1, OErr Older)
              else (mkst (remove k (kv s1)) (mem s1 - rsize c k (g_val old)) (publish_clock s1 e ts t), OUnit)
          end
        end
      end
  | InsertIfAbsent k v =>
      match validate_kv c k v with
      | Some er => (s, OErr er)
      | None =>
        match find k (kv s) with
        | Some _ => (s, OBool false)
        | None =>
            match reserve c (mem s) (rsize c k v) with
            | None => (s, OErr OutOfMemory)
            | Some m' =>
                match resolve_ts s e None with
                | TsBad => (s, OClock 3)
                | TsOk t s1 => (mkst (upsert k (mkgen v t 0) (kv s1)) m' (clocks s1), OBool true)
                end
            end
        end
      end
  | Cas k expected v ts ttl =>
      if (0 <? ttl) && negb (ttl_write_supported c) then (s, OErr Unsupported)
      else match validate_kv c k v with
      | Some er => (s, OErr er)
      | None =>
        match find k (kv s) with
        | None => (s, OBool false)
        | Some old =>
          match expired c old (e_tb e) (e_ta e) with
          | Unknown => (s, OUndecided)
          | Yes => (s, OBool false)
          | No =>
            if negb (list_eqb (g_val old) expected) then (s, OBool false)
            else match resolve_ts s e ts with
                 | TsBad => (s, OClock 4)
                 | TsOk t s1 => replace c s1 e k old ts t v (expiry_of t ttl) (OBool true)
                 end
          end
        end
      end
  | JsonPatch k ts =>
      match validate_key k with
      | Some er => (s, OErr er)
      | None =>
        match resolve_ts s e ts with
        | TsBad => (s, OClock 5)
        | TsOk t s1 =>
          match find k (kv s1) with
          | None => (s1, OErr KeyNotFound)
          | Some old =>
            if t <=? g_ts old then (s1, OErr Older)
            else match expired c old (e_tb e) (e_ta e) with
            | Unknown => (s1, OUndecided)
            | Yes => (s1, OErr KeyNotFound)
            | No =>
              match e_patched e with
              | None => (s1, OErr JsonError)
              | Some v =>
                match validate_kv c k v with
                | Some er => (s1, OErr er)
                | None => replace c s1 e k old ts t v 0 OUnit
                end
              end
            end
          end
        end
      end
  | Incr k delta ts ttl =>
      if (0 <? ttl) && negb (ttl_write_supported c) then (s, OErr Unsupported)
      else match validate_new_key c k with
      | Some er => (s, OErr er)
      | None =>
        match find k (kv s) with
        | None =>
            match resolve_ts s e ts with
            | TsBad => (s, OClock 6)
            | TsOk t s1 => create c s1 e k ts t (bytes_of_i64 delta) (expiry_of t ttl) (OInt delta)
            end
        | Some old =>
            if (match explicit ts with Some t0 => t0 <=? g_ts old | None => false end)
            then (s, OErr Older)
            else
              match expired c old (e_tb e) (e_ta e) with
              | Unknown => (s, OUndecided)
              | Yes =>
                  (* retire the expired generation at `now` (the shard observes now), then create
                     from delta with a timestamp above the retirement instant *)
                  let s0 := mkst (remove k (kv s)) (mem s - rsize c k (g_val old))
                                 (clock_set (e_shard e) (e_clk e) (clocks s)) in
                  match explicit ts with
                  | Some t0 =>
                      (* t0 <= retired_at = now  => Older (the expired generation stays retired) *)
                      match le_now t0 (e_tb e) (e_ta e) with
                      | Unknown => (s, OUndecided)
                      | Yes => if e_tb e <=? e_clk e then (s0, OErr Older) else (s, OClock 7)
                      | No =>
                          (* the explicit timestamp is folded into the shard -- except 2^64-1, which
                             VersionClock::observe skips *)
                          if negb ((t0 =? U64M) || (t0 <=? e_clk e)) then (s, OClock 7)
                          else match reserve c (mem s0) (rsize c k (bytes_of_i64 delta)) with
                          | None => (s0, OErr OutOfMemory)
                          | Some m' =>
                              (mkst (upsert k (mkgen (bytes_of_i64 delta) t0 (expiry_of t0 ttl)) (kv s0)) m' (clocks s0),
                               OInt delta)
                          end
                      end
                  | None =>
                      (* automatic: max(next, now+1) = the shard value after the call *)
                      if (e_tb e <? e_clk e) && (clock_get (e_shard e) (clocks s) <? e_clk e) then
                        match reserve c (mem s0) (rsize c k (bytes_of_i64 delta)) with
                        | None => (s0, OErr OutOfMemory)
                        | Some m' =>
                            (mkst (upsert k (mkgen (bytes_of_i64 delta) (e_clk e) (expiry_of (e_clk e) ttl)) (kv s0)) m'
                                  (clocks s0), OInt delta)
                        end
                      else (s, OClock 8)
                  end
              | No =>
                  if negb (length (g_val old) =? 8)%nat then (s, OErr InvalidOperation)
                  else
                    let nv := sat_add_i64 (i64_of_bytes (g_val old)) delta in
                    match resolve_ts s e ts with
                    | TsBad => (s, OClock 9)
                    | TsOk t s1 => replace c s1 e k old ts t (bytes_of_i64 nv) (expiry_of t ttl) (OInt nv)
                    end
              end
        end
      end
  | UpdateTtl k ttl =>
      if negb (ttl_on c) then (s, OErr TtlNotEnabled)
      else if negb (ttl_write_supported c) then (s, OErr Unsupported)
      else match validate_key k with
      | Some er => (s, OErr er)
      | None =>
        match find k (kv s) with
        | None => (s, OErr KeyNotFound)
        | Some old =>
          match expired c old (e_tb e) (e_ta e) with
          | Unknown => (s, OUndecided)
          | Yes => (s, OErr KeyNotFound)
          | No =>
            if g_ts old =? U64M then
              (mkst (kv s) (mem s) (clock_set (e_shard e) (e_clk e) (clocks s)), OErr Older)
            else
              (* timestamp = max(next(now), old.ts + 1): read back as the shard value or old.ts+1 *)
              let last := clock_get (e_shard e) (clocks s) in
              if negb (auto_ok last (e_clk e) (e_tb e) (e_ta e)) then (s, OClock 10)
              else
                let t := N.max (e_clk e) (g_ts old + 1) in
                (* expiry = now + ttl*1e9 with tb <= now <= ta (observed value e_aux) *)
                let exp := e_aux e in
                let exp_ok := if ttl =? 0 then exp =? 0
                              else (expiry_of (e_tb e) ttl <=? exp) && (exp <=? expiry_of (e_ta e) ttl) in
                if negb exp_ok then (s, OClock 11)
                else (mkst (upsert k (mkgen (g_val old) t exp) (kv s)) (mem s)
                           (clock_set (e_shard e) (e_clk e) (clocks s)), OUnit)
          end
        end
      end
  | GetTtl k =>
      if negb (ttl_on c) then (s, OErr TtlNotEnabled)
      else match validate_key k with
      | Some er => (s, OErr er)
      | None =>
        match find k (kv s) with
        | None => (s, OErr KeyNotFound)
        | Some g =>
            if g_exp g =? 0 then (s, OOptNat None)
            else match le_now (g_exp g) (e_tb e) (e_ta e) with
                 | Yes => (s, OOptNat (Some 0))
                 | Unknown => (s, OUndecided)
                 | No =>
                     (* remaining seconds: (exp - now)/1e9 with tb <= now <= ta; observed e_aux *)
                     if ((g_exp g - e_ta e) / NANOS <=? e_aux e) && (e_aux e <=? (g_exp g - e_tb e) / NANOS)
                     then (s, OOptNat (Some (e_aux e))) else (s, OClock 12)
                 end
        end
      end
  | Range a b lim =>
      if (MAX_KEY_SIZE <? klen a) || (MAX_KEY_SIZE <? klen b) then (s, OErr InvalidKeySize)
      else match range_collect c (kv s) a b (N.to_nat lim) (e_tb e) (e_ta e) with
           | Some r => (s, OPairs r)
           | None => (s, OUndecided)
           end
  | Flush => (s, OUnit)
  end.

(* clean reopen: expired newest generations are dropped when TTL is on; the clock shards are
   re-assigned by the new store (fresh hasher) and must cover every recovered timestamp *)
Fixpoint drop_expired (c : cfg) (l : list (list N * gen)) (tb ta : N) : option (list (list N * gen)) :=
  match l with
  | [] => Some []
  | (k, g) :: t =>
      match expired c g tb ta, drop_expired c t tb ta with
      | Unknown, _ => None
      | _, None => None
      | Yes, Some r => Some r
      | No, Some r => Some ((k, g) :: r)
      end
  end.

Fixpoint sum_mem (c : cfg) (l : list (list N * gen)) : N :=
  match l with [] => 0 | (k, g) :: t => rsize c k (g_val g) + sum_mem c t end.

Fixpoint shard_of (k : list N) (l : list (list N * N)) : N :=
  match l with [] => 0 | (k', sh) :: t => if list_eqb k' k then sh else shard_of k t end.

(* every recovered timestamp was fed to the clock of its key's (new) shard *)
Fixpoint clocks_cover (l : list (list N * gen)) (shards : list (list N * N)) (clk : list (N * N)) : bool :=
  match l with
  | [] => true
  | (k, g) :: t =>
      ((g_ts g =? U64M) || (g_ts g <=? clock_get (shard_of k shards) clk)) && clocks_cover t shards clk
  end.

Inductive reopened := ReOk (s : st) | ReUndecided | ReClock.
Definition reopen (c : cfg) (s : st) (tb ta : N) (shards : list (list N * N)) (clk : list (N * N)) : reopened :=
  match drop_expired c (kv s) tb ta with
  | None => ReUndecided
  | Some l => if clocks_cover l shards clk then ReOk (mkst l (sum_mem c l) clk) else ReClock
  end.

Definition init : st := mkst [] 0 [].
