(* CRC-32C (Castagnoli, reflected, poly 0x82F63B78), as seq_token.rs::crc32c_sw computes it:
   crc = !seed; per byte: crc = TABLE[(crc ^ b) & 0xFF] ^ (crc >> 8); result = !crc.
   The table entry is the 8-fold bit step of its index, so the per-byte update is written
   with the table (built once) for speed; Proofs/CodecProofs shows it equals the bitwise form. *)
From Coq Require Import List NArith Bool.
Import ListNotations.
Local Open Scope N_scope.

Definition POLY : N := 2197175160.          (* 0x82F63B78 *)
Definition MASK32 : N := 4294967295.

Definition crc_bit (c : N) : N :=
  if N.testbit c 0 then N.lxor (N.shiftr c 1) POLY else N.shiftr c 1.

Definition crc_8bits (c : N) : N :=
  crc_bit (crc_bit (crc_bit (crc_bit (crc_bit (crc_bit (crc_bit (crc_bit c))))))).

(* bitwise per-byte update (the definition of the table) *)
Definition crc_byte_bitwise (c b : N) : N :=
  N.lxor (crc_8bits (N.land (N.lxor c b) 255)) (N.shiftr c 8).

(* 256-entry table as a binary trie over the 8 index bits, for O(8) lookup *)
Inductive trie := Leaf (v : N) | Node (zero one : trie).

Fixpoint build (depth : nat) (prefix : N) (bitpos : N) : trie :=
  match depth with
  | O => Leaf (crc_8bits prefix)
  | S d => Node (build d prefix (bitpos * 2)) (build d (prefix + bitpos) (bitpos * 2))
  end.

Definition TABLE : trie := build 8 0 1.

Fixpoint lookup (t : trie) (i : N) : N :=
  match t with
  | Leaf v => v
  | Node z o => if N.testbit i 0 then lookup o (N.shiftr i 1) else lookup z (N.shiftr i 1)
  end.

Definition crc_byte (t : trie) (c b : N) : N :=
  N.lxor (lookup t (N.land (N.lxor c b) 255)) (N.shiftr c 8).

Definition crc_raw (c : N) (data : list N) : N :=
  let t := TABLE in fold_left (crc_byte t) data c.

Definition crc32c (seed : N) (data : list N) : N :=
  N.lxor (crc_raw (N.lxor seed MASK32) data) MASK32.

(* nonzero_token / record_token *)
Definition fold16 (crc : N) : N :=
  let t := N.lxor (N.shiftr crc 16) (N.land crc 65535) in
  if t =? 0 then 1 else t.
