(* The generation-tagged read cache and the store's read / write paths around it (C16, the
   transparency clause: turning the cache on never changes the result of any call).

   Layer A -- cache.rs get_for_record / insert_for_record / remove_for_record / record_entry and
   can_replace_generation.  An entry carries the key, the value bytes and a tag: a Weak<Record>
   to the generation it was read for.  A lookup for generation g hits only an entry whose tag
   points at g (pointer identity; the Weak keeps the allocation, so no other record can get the
   address while the entry exists: identities are never reused here).  An insert replaces the
   key's entry only if can_replace_generation allows it.

   Layer B -- operations.rs resolve_value / get, internal.rs remove_cached, ttl.rs update_ttl
   (which builds the replacement generation from the cached bytes when the value is not resident)
   as atomic steps under an arbitrary schedule: readers, writers, the flusher offloading values,
   records being dropped, and the CLOCK hand evicting any entry at any time.  The same machine
   with `on = false` is the store without a cache. *)
From Coq Require Import List NArith Bool.
From Feox Require Import Model.Sched.
Import ListNotations.
Local Open Scope N_scope.

(* ---------- layer A ---------- *)

Record grec := mkgrec {
  gr_key : N; gr_val : N; gr_ts : N; gr_exp : N;   (* immutable *)
  gr_live : bool;      (* refcount != 0: still the key's current generation *)
  gr_dropped : bool    (* every Arc is gone: a Weak no longer upgrades *)
}.

Record cent := mkcent { ce_k : N; ce_tag : option N; ce_v : N }.

Definition tag_is (g : N) (e : cent) : bool :=
  match ce_tag e with Some t => t =? g | None => false end.

(* get_entry: the first entry of the key whose tag matches (None = the untagged public lookup) *)
Fixpoint cg_get (c : list cent) (k : N) (g : option N) : option N :=
  match c with
  | [] => None
  | e :: t =>
      if (ce_k e =? k) && (match g with Some g => tag_is g e | None => true end)
      then Some (ce_v e) else cg_get t k g
  end.

Definition can_replace (gens : list (N * grec)) (cached : option N) (incoming : option N) : bool :=
  match incoming with
  | None => true
  | Some i =>
      match aget i gens with
      | None => false
      | Some gi =>
          if negb (gr_live gi) then false
          else match cached with
               | None => true
               | Some c =>
                   if c =? i then true
                   else match aget c gens with
                        | None => true
                        | Some gc => gr_dropped gc || negb (gr_live gc) || (gr_ts gc <? gr_ts gi)
                        end
               end
      end
  end.

(* insert_entry: the first entry with the key decides (replace or refuse); otherwise push *)
Fixpoint cg_insert (gens : list (N * grec)) (c : list cent) (k v : N) (g : option N) : list cent :=
  match c with
  | [] => [mkcent k g v]
  | e :: t =>
      if ce_k e =? k
      then (if can_replace gens (ce_tag e) g then mkcent k g v :: t else e :: t)
      else e :: cg_insert gens t k v g
  end.

(* remove_entry / record_entry: the first entry with the key and (if given) the tag *)
Fixpoint cg_remove (c : list cent) (k : N) (g : option N) : list cent :=
  match c with
  | [] => []
  | e :: t =>
      if (ce_k e =? k) && (match g with Some g => tag_is g e | None => true end)
      then t else e :: cg_remove t k g
  end.

Fixpoint cg_entry_value (c : list cent) (k g : N) : option N :=
  match c with
  | [] => None
  | e :: t => if (ce_k e =? k) && tag_is g e then Some (ce_v e) else cg_entry_value t k g
  end.

(* the unit machine compared with the real ClockCache + real Records through hook H13 *)
Inductive aop :=
| ANew (k v ts : N)          (* a new Record; its identity is the running counter *)
| ADead (g : N)              (* refcount.store(0) *)
| ADrop (g : N)              (* the harness drops its Arc *)
| AGetFor (k g : N) | AInsFor (k v g : N) | ARemFor (k g : N)
| AEntryValue (k g : N) | AEntryRemove (k g : N)
| AGet (k : N) | AIns (k v : N) | ARem (k : N).

Record ast := mkast { a_gens : list (N * grec); a_nid : N; a_cache : list cent }.

Definition upd_gen (gens : list (N * grec)) (g : N) (f : grec -> grec) : list (N * grec) :=
  match aget g gens with Some r => aset g (f r) gens | None => gens end.

Definition astep (s : ast) (o : aop) : ast * option N :=
  match o with
  | ANew k v ts => (mkast (aset (a_nid s) (mkgrec k v ts 0 true false) (a_gens s)) (a_nid s + 1) (a_cache s), Some (a_nid s))
  | ADead g => (mkast (upd_gen (a_gens s) g (fun r => mkgrec (gr_key r) (gr_val r) (gr_ts r) (gr_exp r) false (gr_dropped r))) (a_nid s) (a_cache s), None)
  | ADrop g => (mkast (upd_gen (a_gens s) g (fun r => mkgrec (gr_key r) (gr_val r) (gr_ts r) (gr_exp r) (gr_live r) true)) (a_nid s) (a_cache s), None)
  | AGetFor k g => (s, cg_get (a_cache s) k (Some g))
  | AInsFor k v g => (mkast (a_gens s) (a_nid s) (cg_insert (a_gens s) (a_cache s) k v (Some g)), None)
  | ARemFor k g => (mkast (a_gens s) (a_nid s) (cg_remove (a_cache s) k (Some g)), None)
  | AEntryValue k g => (s, cg_entry_value (a_cache s) k g)
  | AEntryRemove k g => (mkast (a_gens s) (a_nid s) (cg_remove (a_cache s) k (Some g)), None)
  | AGet k => (s, cg_get (a_cache s) k None)
  | AIns k v => (mkast (a_gens s) (a_nid s) (cg_insert (a_gens s) (a_cache s) k v None), None)
  | ARem k => (mkast (a_gens s) (a_nid s) (cg_remove (a_cache s) k None), None)
  end.

Fixpoint arun (s : ast) (os : list aop) : list (option N) :=
  match os with
  | [] => []
  | o :: t => let '(s1, r) := astep s o in r :: arun s1 t
  end.

Definition ainit : ast := mkast [] 1 [].

(* ---------- layer B ---------- *)

Inductive rdst :=
| RHold (k g : N)             (* holds the record it took from the hash table *)
| RLoaded (k g v : N).        (* has the value (memory, cache or device); the return comes next *)

Record bst := mkbst {
  b_gens : list (N * grec);
  b_tbl : list (N * N);        (* key -> current generation *)
  b_res : list (N * bool);     (* generation -> value resident in memory *)
  b_nid : N;
  b_now : N;
  b_cache : list cent;
  b_rd : list (N * rdst);      (* reader -> where it stands *)
  b_out : list (N * N * option (N * N))  (* results, newest first: (reader, key, not found or
                                            (ghost: generation served, value)) *)
}.

Inductive bev :=
| BTick (d : N)
| BPut (k v ts exp : N)       (* insert / replace / CAS / increment / patch: a new resident generation *)
| BDel (k : N)
| BUncache (k g : N)          (* remove_cached after a write, whenever it gets to run *)
| BTtl (k ts exp : N)         (* update_ttl / persist *)
| BOffload (g : N)            (* the flusher wrote the value and released the memory *)
| BDrop (g : N)               (* last Arc of a replaced generation goes away *)
| BEvict (k : N)              (* the CLOCK hand takes the key's entry *)
| BStart (i k : N)            (* a value-reading call looks the key up *)
| BResolve (i : N) (stale : bool)   (* resolve_record_value; stale: the device read is refused *)
| BFill (i : N) (big : bool). (* the call returns; insert_for_record first unless big.  The code
                                 fills only after a device read; `big = true` at the other
                                 returns gives exactly that, so the schedules here are a superset *)

Definition expired (r : grec) (now : N) : bool := negb (gr_exp r =? 0) && (gr_exp r <? now).

Definition resident (s : bst) (g : N) : bool := match aget g (b_res s) with Some b => b | None => false end.

Definition held (s : bst) (g : N) : bool :=
  existsb (fun p => match snd p with RHold _ g' | RLoaded _ g' _ => g' =? g end) (b_rd s).

Definition kill (gens : list (N * grec)) (g : N) : list (N * grec) :=
  upd_gen gens g (fun r => mkgrec (gr_key r) (gr_val r) (gr_ts r) (gr_exp r) false (gr_dropped r)).

Definition bstep (on : bool) (s : bst) (e : bev) : bst :=
  match e with
  | BTick d => mkbst (b_gens s) (b_tbl s) (b_res s) (b_nid s) (b_now s + d) (b_cache s) (b_rd s) (b_out s)
  | BPut k v ts exp =>
      let gens := match aget k (b_tbl s) with Some o => kill (b_gens s) o | None => b_gens s end in
      mkbst (aset (b_nid s) (mkgrec k v ts exp true false) gens) (aset k (b_nid s) (b_tbl s))
            (aset (b_nid s) true (b_res s)) (b_nid s + 1) (b_now s) (b_cache s) (b_rd s) (b_out s)
  | BDel k =>
      match aget k (b_tbl s) with
      | Some o => mkbst (kill (b_gens s) o) (adel k (b_tbl s)) (b_res s) (b_nid s) (b_now s) (b_cache s) (b_rd s) (b_out s)
      | None => s
      end
  | BUncache k g =>
      if on then mkbst (b_gens s) (b_tbl s) (b_res s) (b_nid s) (b_now s) (cg_remove (b_cache s) k (Some g)) (b_rd s) (b_out s) else s
  | BTtl k ts exp =>
      match aget k (b_tbl s) with
      | Some o =>
          match aget o (b_gens s) with
          | Some r =>
              if expired r (b_now s) then s
              else
                (* resident value, else the cached bytes of exactly this generation, else a
                   deferred record that reads the predecessor's extent (the same value) *)
                let cached := if on && negb (resident s o) then cg_entry_value (b_cache s) k o else None in
                let v := match cached with Some v' => v' | None => gr_val r end in
                let isres := resident s o || match cached with Some _ => true | None => false end in
                let cache' := match cached with Some _ => cg_remove (b_cache s) k (Some o) | None => b_cache s end in
                mkbst (aset (b_nid s) (mkgrec k v ts exp true false) (kill (b_gens s) o)) (aset k (b_nid s) (b_tbl s))
                      (aset (b_nid s) isres (b_res s)) (b_nid s + 1) (b_now s) cache' (b_rd s) (b_out s)
          | None => s
          end
      | None => s
      end
  | BOffload g => mkbst (b_gens s) (b_tbl s) (aset g false (b_res s)) (b_nid s) (b_now s) (b_cache s) (b_rd s) (b_out s)
  | BDrop g =>
      match aget g (b_gens s) with
      | Some r =>
          if gr_live r || held s g then s
          else mkbst (upd_gen (b_gens s) g (fun r => mkgrec (gr_key r) (gr_val r) (gr_ts r) (gr_exp r) (gr_live r) true))
                     (b_tbl s) (b_res s) (b_nid s) (b_now s) (b_cache s) (b_rd s) (b_out s)
      | None => s
      end
  | BEvict k => mkbst (b_gens s) (b_tbl s) (b_res s) (b_nid s) (b_now s) (cg_remove (b_cache s) k None) (b_rd s) (b_out s)
  | BStart i k =>
      match aget k (b_tbl s) with
      | Some g => mkbst (b_gens s) (b_tbl s) (b_res s) (b_nid s) (b_now s) (b_cache s) (aset i (RHold k g) (b_rd s)) (b_out s)
      | None => mkbst (b_gens s) (b_tbl s) (b_res s) (b_nid s) (b_now s) (b_cache s) (adel i (b_rd s)) ((i, k, None) :: b_out s)
      end
  | BResolve i stale =>
      match aget i (b_rd s) with
      | Some (RHold k g) =>
          let finish (o : option (N * N)) := mkbst (b_gens s) (b_tbl s) (b_res s) (b_nid s) (b_now s) (b_cache s) (adel i (b_rd s)) ((i, k, o) :: b_out s) in
          let loaded (v : N) := mkbst (b_gens s) (b_tbl s) (b_res s) (b_nid s) (b_now s) (b_cache s) (aset i (RLoaded k g v) (b_rd s)) (b_out s) in
          match aget g (b_gens s) with
          | Some r =>
              if expired r (b_now s) then finish None
              else if resident s g then loaded (gr_val r)
              else match (if on then cg_get (b_cache s) k (Some g) else None) with
                   | Some v => loaded v
                   | None =>
                       if stale
                       then match aget k (b_tbl s) with
                            | Some g' => mkbst (b_gens s) (b_tbl s) (b_res s) (b_nid s) (b_now s) (b_cache s) (aset i (RHold k g') (b_rd s)) (b_out s)
                            | None => finish None
                            end
                       else loaded (gr_val r)
                   end
          | None => finish None
          end
      | _ => s
      end
  | BFill i big =>
      match aget i (b_rd s) with
      | Some (RLoaded k g v) =>
          mkbst (b_gens s) (b_tbl s) (b_res s) (b_nid s) (b_now s)
                (if on && negb big then cg_insert (b_gens s) (b_cache s) k v (Some g) else b_cache s)
                (adel i (b_rd s)) ((i, k, Some (g, v)) :: b_out s)
      | _ => s
      end
  end.


(* does the resolve step of reader i go to the device in state s (cache on)?  (the code fills the
   cache only after such a read) *)
Definition will_read_device (s : bst) (i : N) : bool :=
  match aget i (b_rd s) with
  | Some (RHold k g) =>
      match aget g (b_gens s) with
      | Some r => negb (expired r (b_now s)) && negb (resident s g)
                  && match cg_get (b_cache s) k (Some g) with Some _ => false | None => true end
      | None => false
      end
  | _ => false
  end.

Definition binit : bst := mkbst [] [] [] 1 0 [] [] [].

Definition brun (on : bool) (s : bst) (es : list bev) : bst := fold_left (bstep on) es s.
