(* Little-endian byte codecs and slices. A byte is an N below 256. *)
From Coq Require Import List NArith Bool.
Import ListNotations.
Local Open Scope N_scope.

Definition byte_ok (b : N) : bool := b <? 256.
Definition bytes_ok (l : list N) : bool := forallb byte_ok l.

Fixpoint le_bytes (k : nat) (n : N) : list N :=
  match k with
  | O => []
  | S k' => (n mod 256) :: le_bytes k' (n / 256)
  end.

Fixpoint le_num (l : list N) : N :=
  match l with
  | [] => 0
  | b :: t => b + 256 * le_num t
  end.

(* l[off .. off+len) ; shorter if l is too short (callers check bounds explicitly) *)
Definition sub (l : list N) (off len : nat) : list N := firstn len (skipn off l).

(* checked slice: None where the Rust expression `&l[off..off+len]` would panic *)
Definition sub_opt (l : list N) (off len : nat) : option (list N) :=
  if Nat.leb (off + len) (length l) then Some (sub l off len) else None.

Definition u16_at (l : list N) (off : nat) : N := le_num (sub l off 2).
Definition u32_at (l : list N) (off : nat) : N := le_num (sub l off 4).
Definition u64_at (l : list N) (off : nat) : N := le_num (sub l off 8).

Fixpoint all_zero (l : list N) : bool :=
  match l with [] => true | b :: t => (b =? 0) && all_zero t end.

Definition zeros (k : nat) : list N := repeat 0 k.

Fixpoint list_eqb (a b : list N) : bool :=
  match a, b with
  | [], [] => true
  | x :: a', y :: b' => (x =? y) && list_eqb a' b'
  | _, _ => false
  end.

(* byte-lexicographic order on keys (Vec<u8> Ord) *)
Fixpoint key_ltb (a b : list N) : bool :=
  match a, b with
  | [], [] => false
  | [], _ :: _ => true
  | _ :: _, [] => false
  | x :: a', y :: b' => (x <? y) || ((x =? y) && key_ltb a' b')
  end.

(* overwrite the front of l with src (no change of length; src truncated at the end of l) *)
Fixpoint overwrite (src l : list N) {struct src} : list N :=
  match src, l with
  | [], _ => l
  | _, [] => []
  | s :: src', _ :: l' => s :: overwrite src' l'
  end.

(* overwrite l[off .. off+|src|) with src *)
Fixpoint splice (l : list N) (off : nat) (src : list N) : list N :=
  match off, l with
  | O, _ => overwrite src l
  | S off', x :: l' => x :: splice l' off' src
  | S _, [] => []
  end.
