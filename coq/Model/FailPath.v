(* The write path under device failures (C09 failure handling, C05 ownership through failures):
   write_buffer.rs process_write_batch / failed_batch_outcome / cleanup_failed_allocations /
   release_scrubbed_allocations / release_allocations / quarantine_allocations and io.rs
   retire_extents / poison_writes / ensure_writable, for one shard's queue of inserts, over the
   real allocator model (Model/FreeSpace.v).

   Device calls (each pwrite and each fsync) are numbered in the order the code issues them; the
   fault oracle says which of them fail.  On the pwrite path every failure is a determinate
   IoError; the only source of IndeterminateWrite is a failed scrub (retire_extents poisons the
   device) and the poisoned device itself (ensure_writable).

   One `attempt` is one pass of a worker over the shard (flush_worker_shards -> process_write_batch
   for a batch below the journal's entry limit); `flush` is FeoxStore::flush: one attempt, then the
   metadata write when the attempt succeeded. *)
From Coq Require Import List NArith Bool.
From Feox Require Import Gen.Constants Model.FreeSpace.
Import ListNotations.
Local Open Scope N_scope.

Record pent := mkpe {
  pe_id : N;
  pe_blocks : N;              (* sectors needed *)
  pe_res : option N;          (* reserved sector (work_status without the flag bits) *)
  pe_dirty : bool;            (* RESERVATION_DIRTY *)
  pe_quar : bool              (* RESERVATION_QUARANTINED *)
}.

Record fstate := mkfst {
  f_fs : fs;
  f_queue : list pent;                 (* the shard buffer, oldest first *)
  f_durable : list (N * (N * N));      (* id -> (sector, blocks): record.sector published *)
  f_usage : N;                         (* stats.disk_usage, in blocks *)
  f_poison : bool;                     (* DiskIO.write_indeterminate *)
  f_calls : N;                         (* device calls issued so far *)
  f_maydata : list (N * N)             (* ghost: extents that may hold bytes of an unfinished
                                          batch and have not been scrubbed since *)
}.

Inductive fres := ROk | RIo | RIndet | RSpace.

Definition RETIRE_BLOCKS : N := 256.     (* io.rs RETIREMENT_WRITE_BLOCKS *)

Section Oracle.
Variable fault : N -> bool.              (* does device call number i fail? *)

Definition upd_calls (st : fstate) (c : N) : fstate :=
  mkfst (f_fs st) (f_queue st) (f_durable st) (f_usage st) (f_poison st) c (f_maydata st).

(* one device call: (succeeded?, state) *)
Definition call (st : fstate) : bool * fstate :=
  (negb (fault (f_calls st)), upd_calls st (f_calls st + 1)).

(* write_sectors_sync then flush: a pwrite and an fsync; the fsync is not issued after a failed pwrite *)
Definition write_and_sync (st : fstate) : bool * fstate :=
  let (ok1, st1) := call st in
  if ok1 then call st1 else (false, st1).

(* n pwrites, stopping at the first failure *)
Fixpoint writes (n : nat) (st : fstate) : bool * fstate :=
  match n with
  | O => (true, st)
  | S k => let (ok, st1) := call st in if ok then writes k st1 else (false, st1)
  end.

Definition writes_and_sync (n : nat) (st : fstate) : bool * fstate :=
  let (ok, st1) := writes n st in
  if ok then call st1 else (false, st1).

(* batch_write_bytes, up to three times *)
Fixpoint data_phase (tries : nat) (n : nat) (st : fstate) : bool * fstate :=
  match tries with
  | O => (false, st)
  | S k => let (ok, st1) := writes_and_sync n st in if ok then (true, st1) else data_phase k n st1
  end.

(* ---- allocation ---- *)
Definition ext_of (e : pent) : option (N * N) :=
  match pe_res e with Some s => Some (s, pe_blocks e) | None => None end.

Fixpoint exts_of (l : list pent) : list (N * N) :=
  match l with
  | [] => []
  | e :: t => match ext_of e with Some x => x :: exts_of t | None => exts_of t end
  end.

(* entries without a reservation get one, in order; None when the allocator refuses *)
Fixpoint alloc_all (f : fs) (usage : N) (acc todo : list pent) : (fs * N * list pent) * bool :=
  match todo with
  | [] => ((f, usage, rev acc), true)
  | e :: t =>
      match pe_res e with
      | Some _ => alloc_all f usage (e :: acc) t
      | None =>
          match alloc (pe_blocks e) f with
          | (FOk a, f') => alloc_all f' (usage + pe_blocks e) (mkpe (pe_id e) (pe_blocks e) (Some a) false false :: acc) t
          | (FErr _, f') => ((f', usage, rev acc ++ todo), false)
          end
      end
  end.

(* release_allocations: give back every reservation that is not dirty *)
Fixpoint release_clean (f : fs) (usage : N) (l : list pent) : fs * N * list pent :=
  match l with
  | [] => (f, usage, [])
  | e :: t =>
      match pe_res e with
      | Some s =>
          if pe_dirty e then let '(f', u', t') := release_clean f usage t in (f', u', e :: t')
          else match release s (pe_blocks e) f with
               | (FOk _, f1) => let '(f', u', t') := release_clean f1 (usage - pe_blocks e) t in
                                (f', u', mkpe (pe_id e) (pe_blocks e) None false false :: t')
               | (FErr _, f1) => let '(f', u', t') := release_clean f1 usage t in (f', u', e :: t')
               end
      | None => let '(f', u', t') := release_clean f usage t in (f', u', e :: t')
      end
  end.

Definition mark_dirty (e : pent) : pent := mkpe (pe_id e) (pe_blocks e) (pe_res e) true (pe_quar e).
Definition quarantine (e : pent) : pent :=
  match pe_res e with Some _ => mkpe (pe_id e) (pe_blocks e) (pe_res e) (pe_dirty e) true | None => e end.

(* ---- scrub ---- *)
Fixpoint insert_ext (x : N * N) (l : list (N * N)) : list (N * N) :=
  match l with
  | [] => [x]
  | y :: t => if fst x <=? fst y then x :: l else y :: insert_ext x t
  end.
Definition sort_exts (l : list (N * N)) : list (N * N) := fold_right insert_ext [] l.

(* coalesce_extents on a sorted list: None when two extents overlap *)
Fixpoint coalesce (l : list (N * N)) : option (list (N * N)) :=
  match l with
  | [] => Some []
  | x :: t =>
      match coalesce t with
      | None => None
      | Some [] => Some [x]
      | Some (y :: r) =>
          if fst y <? fst x + snd x then None
          else if fst y =? fst x + snd x then Some ((fst x, snd x + snd y) :: r)
          else Some (x :: y :: r)
      end
  end.

Definition marker_writes (blocks : N) : nat := N.to_nat ((blocks + RETIRE_BLOCKS - 1) / RETIRE_BLOCKS).
Definition total_marker_writes (l : list (N * N)) : nat := fold_right (fun x acc => (marker_writes (snd x) + acc)%nat) O l.

(* retire_extents for one chunk: intent, markers, clear *)
Definition scrub_calls (groups : list (N * N)) (st : fstate) : bool * fstate :=
  let (ok1, st1) := write_and_sync st in
  if negb ok1 then (false, st1) else
  let (ok2, st2) := writes_and_sync (total_marker_writes groups) st1 in
  if negb ok2 then (false, st2) else
  write_and_sync st2.

(* release_scrubbed_allocations: one release per group of adjacent extents *)
Fixpoint release_groups (f : fs) (usage : N) (groups : list (N * N)) : fs * N * bool :=
  match groups with
  | [] => (f, usage, true)
  | g :: t =>
      match release (fst g) (snd g) f with
      | (FOk _, f1) => release_groups f1 (usage - snd g) t
      | (FErr _, f1) => let '(f', u', _) := release_groups f1 usage t in (f', u', false)
      end
  end.

Definition in_group (s : N) (groups : list (N * N)) : bool :=
  existsb (fun g => (fst g <=? s) && (s <? fst g + snd g)) groups.

Definition clear_scrubbed (e : pent) : pent :=
  if pe_quar e then e else mkpe (pe_id e) (pe_blocks e) None false false.

Fixpoint remove_exts (gone l : list (N * N)) : list (N * N) :=
  match l with
  | [] => []
  | x :: t => if in_group (fst x) gone then remove_exts gone t else x :: remove_exts gone t
  end.

Definition set_poison (st : fstate) : fstate :=
  mkfst (f_fs st) (f_queue st) (f_durable st) (f_usage st) true (f_calls st) (f_maydata st).

(* failed_batch_outcome for a determinate failure; `batch` are the prepared entries (all reserved,
   all dirty).  Returns the state with the entries requeued and the result class. *)
Definition fail_batch (st : fstate) (batch : list pent) : fstate * fres :=
  let scrubbable := filter (fun e => negb (pe_quar e)) batch in
  match coalesce (sort_exts (exts_of scrubbable)) with
  | None =>
      (* coalesce_extents refuses overlapping extents: the scrub fails before any call *)
      (mkfst (f_fs st) (map quarantine batch) (f_durable st) (f_usage st) true (f_calls st) (f_maydata st), RIndet)
  | Some groups =>
      let (ok, st1) := match groups with
                       | [] => write_and_sync st              (* nothing to scrub: clear the journal *)
                       | _ => scrub_calls groups st
                       end in
      if negb ok then
        (mkfst (f_fs st1) (map quarantine batch) (f_durable st1) (f_usage st1) true (f_calls st1) (f_maydata st1), RIndet)
      else
        let '(f', u', all_ok) := release_groups (f_fs st1) (f_usage st1) groups in
        if all_ok then
          (mkfst f' (map clear_scrubbed batch) (f_durable st1) u' (f_poison st1) (f_calls st1) (remove_exts groups (f_maydata st1)), RIo)
        else
          (mkfst f' (map quarantine batch) (f_durable st1) u' true (f_calls st1) (f_maydata st1), RIndet)
  end.

Definition set_queue (st : fstate) (q : list pent) : fstate :=
  mkfst (f_fs st) q (f_durable st) (f_usage st) (f_poison st) (f_calls st) (f_maydata st).

Definition publish (l : list pent) : list (N * (N * N)) :=
  fold_right (fun e acc => match pe_res e with Some s => (pe_id e, (s, pe_blocks e)) :: acc | None => acc end) [] l.

(* one pass of the worker over the shard *)
Definition attempt (st : fstate) : fstate * fres :=
  match f_queue st with
  | [] => (st, ROk)
  | q =>
      let '((f1, u1, q1), fits) := alloc_all (f_fs st) (f_usage st) [] q in
      if negb fits then
        let '(f2, u2, q2) := release_clean f1 u1 q1 in
        (mkfst f2 q2 (f_durable st) u2 (f_poison st) (f_calls st) (f_maydata st), RSpace)
      else
        let batch := map mark_dirty q1 in
        let st1 := mkfst f1 batch (f_durable st) u1 (f_poison st) (f_calls st) (f_maydata st) in
        if f_poison st then
          (* write_allocation_journal -> ensure_writable: indeterminate, quarantine, no device call *)
          (set_queue st1 (map quarantine batch), RIndet)
        else
          let (ok_i, st2) := write_and_sync st1 in                       (* allocation intent *)
          if negb ok_i then fail_batch st2 batch else
          let st3 := mkfst (f_fs st2) (f_queue st2) (f_durable st2) (f_usage st2) (f_poison st2) (f_calls st2)
                           (exts_of batch ++ f_maydata st2) in
          let (ok_d, st4) := data_phase 3 (length batch) st3 in          (* records *)
          if negb ok_d then fail_batch st4 batch else
          let (ok_c, st5) := write_and_sync st4 in                       (* journal clear *)
          if negb ok_c then fail_batch st5 batch else
          (mkfst (f_fs st5) [] (publish batch ++ f_durable st5) (f_usage st5) (f_poison st5) (f_calls st5)
                 (remove_exts (exts_of batch) (f_maydata st5)), ROk)
  end.

(* FeoxStore::flush: force_flush, then the metadata block *)
Definition flush (st : fstate) : fstate * fres :=
  let (st1, r) := attempt st in
  match r with
  | ROk =>
      if f_poison st1 then (st1, RIndet)
      else let (ok, st2) := write_and_sync st1 in (st2, if ok then ROk else RIo)
  | _ => (st1, r)
  end.

End Oracle.

Definition enqueue (st : fstate) (id blocks : N) : fstate :=
  mkfst (f_fs st) (f_queue st ++ [mkpe id blocks None false false]) (f_durable st) (f_usage st) (f_poison st) (f_calls st) (f_maydata st).

Definition finit (f : fs) : fstate := mkfst f [] [] 0 false 0 [].

(* ---- deletes of published records and their retirement (flush_pending_deletions /
   process_deletions for entries that have no readers and no undurable successor) ---- *)
Record rstate := mkrs {
  r_core : fstate;
  r_pending : list (N * (N * N))      (* retirement_queue.pending: id -> (sector, blocks) *)
}.

Fixpoint take_durable (id : N) (l : list (N * (N * N))) : option (N * N) * list (N * (N * N)) :=
  match l with
  | [] => (None, [])
  | (i, x) :: t => if i =? id then (Some x, t) else let (r, t') := take_durable id t in (r, (i, x) :: t')
  end.

Definition set_durable (st : fstate) (d : list (N * (N * N))) : fstate :=
  mkfst (f_fs st) (f_queue st) d (f_usage st) (f_poison st) (f_calls st) (f_maydata st).

(* FeoxStore::delete of a key whose record is published: the record leaves the index, its extent
   waits in the retirement queue *)
Definition rdelete (rs : rstate) (id : N) : rstate :=
  match take_durable id (f_durable (r_core rs)) with
  | (Some x, d') => mkrs (set_durable (r_core rs) d') (r_pending rs ++ [(id, x)])
  | (None, _) => rs
  end.

Definition renqueue (rs : rstate) (id blocks : N) : rstate := mkrs (enqueue (r_core rs) id blocks) (r_pending rs).

Section RetOracle.
Variable fault : N -> bool.

(* retire_extents on the pending extents (journal intent, markers, clear), then one release per
   group of adjacent extents *)
Definition retire_pending (rs : rstate) : rstate * fres :=
  match r_pending rs with
  | [] => (rs, ROk)
  | p =>
      let st := r_core rs in
      if f_poison st then (rs, RIndet)
      else match coalesce (sort_exts (map snd p)) with
           | None => (mkrs (set_poison st) p, RIndet)
           | Some groups =>
               let (ok, st1) := scrub_calls fault groups st in
               if negb ok then (mkrs (set_poison st1) p, RIndet)
               else let '(f', u', all_ok) := release_groups (f_fs st1) (f_usage st1) groups in
                    let st2 := mkfst f' (f_queue st1) (f_durable st1) u' (f_poison st1) (f_calls st1) (f_maydata st1) in
                    if all_ok then (mkrs st2 [], ROk) else (mkrs st2 p, RIo)
           end
  end.

(* the tail of a flush whose worker pass succeeded: retirements, then the metadata block *)
Definition rfinish (st1 : fstate) (pending : list (N * (N * N))) : rstate * fres :=
  let (rs2, r2) := retire_pending (mkrs st1 pending) in
  match r2 with
  | ROk =>
      if f_poison (r_core rs2) then (rs2, RIndet)
      else let (ok, st3) := write_and_sync fault (r_core rs2) in (mkrs st3 (r_pending rs2), if ok then ROk else RIo)
  | _ => (rs2, r2)
  end.

(* FeoxStore::flush with deletions pending: the worker's pass; when the allocator refused, the
   worker first runs the pending retirements and, if they gave space back, the pass is repeated
   (flush_worker_shards: OutOfSpace -> flush_pending_deletions -> Ok(true)); then the retirements
   and the metadata block *)
Definition rflush (rs : rstate) : rstate * fres :=
  let (st1, r) := attempt fault (r_core rs) in
  match r with
  | ROk => rfinish st1 (r_pending rs)
  | RSpace =>
      match r_pending rs with
      | [] => (mkrs st1 [], RSpace)
      | p =>
          let (rs2, r2) := retire_pending (mkrs st1 p) in
          match r2 with
          | ROk =>
              let (st3, r3) := attempt fault (r_core rs2) in
              match r3 with
              | ROk => rfinish st3 (r_pending rs2)
              | _ => (mkrs st3 (r_pending rs2), r3)
              end
          | _ => (rs2, r2)
          end
      end
  | _ => (mkrs st1 (r_pending rs), r)
  end.

End RetOracle.

Definition rinit (f : fs) : rstate := mkrs (finit f) [].
