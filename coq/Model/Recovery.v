(* Byte-level model of opening an existing device image:
   read_metadata -> read_allocation_journal -> (replay) -> scan_and_rebuild_indexes ->
   remove_expired_recovery_winners -> retire_extents -> final free-space release.
   recovery.rs / io.rs / allocation_journal.rs / metadata.rs.

   The image is a list of 4096-byte blocks.  Every place where the Rust code would panic on
   a short slice or an arithmetic overflow is an explicit `Panic` outcome here, so that
   "opening never panics" is a theorem about this function (Properties/C17.v). *)
From Coq Require Import List NArith Bool.
From Feox Require Import Gen.Constants Model.Bytes Model.Crc32c Model.Codec Model.MetaJournal Model.FreeSpace.
Import ListNotations.
Local Open Scope N_scope.

Definition block := list N.
Definition image := list block.

Inductive rerr :=
| EInvalidMetadata | ECorrupt | EAmbiguous | EInvalidDevice
| EFree (e : ferr)          (* a release_sectors call failed *)
| ERetire                   (* retire_extents failed (poisoned) *)
| EJournalExhausted.        (* journal generation cannot advance (reported as InvalidMetadata) *)

Inductive res (A : Type) := Ok (a : A) | Rej (e : rerr) | Panic.
Arguments Ok {A}. Arguments Rej {A}. Arguments Panic {A}.

Definition bind {A B} (r : res A) (f : A -> res B) : res B :=
  match r with Ok a => f a | Rej e => Rej e | Panic => Panic end.
Notation "'do' x <- r ; k" := (bind r (fun x => k)) (at level 200, x pattern, r at level 100, k at level 200).

Definition U64MAX : N := 18446744073709551615.

Record entry := mkentry { e_key : list N; e_ts : N; e_exp : N; e_vlen : N; e_sector : N }.

Record rcfg := mkcfg {
  c_ro : bool;                 (* read-only (migration source) *)
  c_allow_ambiguous : bool;
  c_now : option N;            (* Some now when TTL is enabled *)
  c_recsize : N                (* size_of::<Record>() *)
}.

Record rstate := mkrs {
  rs_idx : list entry;         (* ascending key order, one entry per key *)
  rs_fs : fs;
  rs_count : N; rs_mem : N; rs_disk : N;
  rs_retired : list (N * N);
  rs_last_end : N;
  rs_ambiguous : N
}.

Definition wrap64 (x : N) : N := x mod 18446744073709551616.
(* fetch_sub on an unsigned atomic wraps *)
Definition wsub (a b : N) : N := if b <=? a then a - b else wrap64 (a + 18446744073709551616 - b).

(* ---- index as a key-sorted association list ---- *)
Fixpoint idx_find (k : list N) (l : list entry) : option entry :=
  match l with
  | [] => None
  | e :: t => if list_eqb (e_key e) k then Some e else idx_find k t
  end.

Fixpoint idx_upsert (x : entry) (l : list entry) : list entry :=
  match l with
  | [] => [x]
  | e :: t =>
      if list_eqb (e_key e) (e_key x) then x :: t
      else if key_ltb (e_key x) (e_key e) then x :: e :: t
      else e :: idx_upsert x t
  end.

Fixpoint idx_remove (k : list N) (l : list entry) : list entry :=
  match l with
  | [] => []
  | e :: t => if list_eqb (e_key e) k then t else e :: idx_remove k t
  end.

(* ---- image access ---- *)
Definition set_blocks (img : image) (sector : N) (bs : list block) : image :=
  let i := N.to_nat sector in
  firstn i img ++ firstn (length img - i) bs ++ skipn (i + length bs) img.

Fixpoint chunk_blocks (d : list N) (k : nat) : list block :=
  match k with
  | O => []
  | S k' => firstn BLOCK d :: chunk_blocks (skipn BLOCK d) k'
  end.

Definition slot_bytes (img : image) (slot : N) : list N :=
  concat (firstn 3 (skipn (N.to_nat (ALLOCATION_JOURNAL_START_BLOCK + slot * ALLOCATION_JOURNAL_SLOT_BLOCKS)) img)).

Definition write_journal (img : image) (slot generation state : N) (exts : list (N * N)) : image :=
  let j := encode_journal generation state exts in
  set_blocks img (ALLOCATION_JOURNAL_START_BLOCK + slot * ALLOCATION_JOURNAL_SLOT_BLOCKS)
             (chunk_blocks j (Nat.div (length j) BLOCK)).

(* retire_extents_unjournaled on already coalesced extents *)
Fixpoint write_markers (img : image) (exts : list (N * N)) : image :=
  match exts with
  | [] => img
  | (s, n) :: t => write_markers (set_blocks img s (marker_run s n (N.to_nat n))) t
  end.

Record jpos := mkjpos { j_gen : N; j_slot : N }.
Definition jnext (p : jpos) : jpos := mkjpos (j_gen p + 1) ((j_slot p + 1) mod ALLOCATION_JOURNAL_SLOTS).

Fixpoint chunks {A} (fuel : nat) (k : nat) (l : list A) : list (list A) :=
  match fuel with
  | O => []
  | S f => match l with [] => [] | _ => firstn k l :: chunks f k (skipn k l) end
  end.

Definition jnext_ok (p : jpos) : bool := j_gen p <? U64MAX.

(* retire_extents: coalesce, then per chunk: journal active -> markers -> journal clear.
   Returns the image as far as it was written, the journal position, and whether the call
   succeeded (false: coalesce rejected the list, or the journal generation is exhausted --
   the caller is poisoned). *)
Definition retire_extents (img : image) (p : jpos) (exts : list (N * N)) : image * jpos * bool :=
  match exts with
  | [] => (img, p, true)
  | _ =>
    match coalesce exts with
    | None => (img, p, false)
    | Some co =>
        fold_left (fun (acc : image * jpos * bool) (chunk : list (N * N)) =>
                let '(im, q, ok) := acc in
                if negb ok then acc
                else if negb (jnext_ok q) then (im, q, false) else
                  let q1 := jnext q in
                  let im1 := write_journal im (j_slot q1) (j_gen q1) JOURNAL_ACTIVE chunk in
                  let im2 := write_markers im1 chunk in
                  if negb (jnext_ok q1) then (im2, q1, false) else
                  let q2 := jnext q1 in
                  (write_journal im2 (j_slot q2) (j_gen q2) JOURNAL_CLEAR [], q2, true))
              (chunks (S (length co)) (N.to_nat ALLOCATION_JOURNAL_MAX_ENTRIES) co) (img, p, true)
    end
  end.

(* replay_allocation_journal *)
Inductive replay_result := ReplayOk (img : image) (p : jpos) | ReplayCoalesce | ReplayExhausted (img : image).
Definition replay (img : image) (p : jpos) (exts : list (N * N)) : replay_result :=
  match exts with
  | [] => ReplayOk img p
  | _ =>
    match coalesce exts with
    | None => ReplayCoalesce
    | Some co =>
        let im := write_markers img co in
        if negb (jnext_ok p) then ReplayExhausted im else
        let q := jnext p in
        ReplayOk (write_journal im (j_slot q) (j_gen q) JOURNAL_CLEAR []) q
    end
  end.

(* ---- the scan ---- *)
Definition record_size (c : rcfg) (klen vlen : N) : N := c_recsize c + klen + vlen.

Definition fs_release (st : rstate) (start count : N) : res rstate :=
  match release start count (rs_fs st) with
  | (FOk _, f') => Ok (mkrs (rs_idx st) f' (rs_count st) (rs_mem st) (rs_disk st) (rs_retired st)
                            (rs_last_end st) (rs_ambiguous st))
  | (FErr e, _) => Rej (EFree e)
  end.

Definition push_retired (c : rcfg) (st : rstate) (x : N * N) : rstate :=
  if c_ro c then st
  else mkrs (rs_idx st) (rs_fs st) (rs_count st) (rs_mem st) (rs_disk st) (x :: rs_retired st)
            (rs_last_end st) (rs_ambiguous st).

(* all `extent-1` tail blocks are complete markers counting down *)
Fixpoint tails_complete (tails : list block) (sector remaining : N) : bool :=
  match tails with
  | [] => true
  | b :: t => is_complete_marker b sector remaining && tails_complete t (sector + 1) (remaining - 1)
  end.

(* read-only journal virtualisation: skip extents named by the (sorted) journal *)
Fixpoint ro_skip (jl : list (N * N)) (sector : N) : (option N) * list (N * N) :=
  match jl with
  | [] => (None, [])
  | (s, n) :: t =>
      if sector <? s then (None, jl)
      else if sector <? s + n then (Some (s + n), t)
      else ro_skip t sector
  end.

Inductive step_result :=
| Advance (next : N) (st : rstate) (jl : list (N * N)).

Definition legacy_skip (version : N) (sector : N) (st : rstate) (jl : list (N * N)) : res step_result :=
  if has_token version then Rej ECorrupt else Ok (Advance (sector + 1) st jl).

(* one iteration of the 'scan loop at `sector`; `rest` = the image from `sector` on *)
Definition scan_step (c : rcfg) (version total : N) (sector : N) (rest : image)
                     (st : rstate) (jl : list (N * N)) : res step_result :=
  let '(jump, jl1) := if c_ro c then ro_skip jl sector else (None, jl) in
  match jump with
  | Some nxt => Ok (Advance nxt st jl1)
  | None =>
    match rest with
    | [] => Panic                                   (* scanner.block beyond the device *)
    | data :: tails =>
      if list_eqb (firstn 8 data) DELETED_TAG then
        (* retirement marker *)
        if negb (has_token version) && all_zero (skipn 8 data) then
          if negb (c_allow_ambiguous c) then Rej EAmbiguous
          else Ok (Advance (sector + 1)
                     (mkrs (rs_idx st) (rs_fs st) (rs_count st) (rs_mem st) (rs_disk st)
                           (rs_retired st) (rs_last_end st) (rs_ambiguous st + 1)) jl1)
        else if negb (marker_token sector data =? u16_at data 16) then Rej ECorrupt
        else
          let extent := u64_at data 8 in
          if U64MAX <? sector + extent then Rej ECorrupt
          else if (extent =? 0) || (total <? sector + extent) then Rej ECorrupt
          else
            let needs0 := negb (nth 18 data 0 =? RETIREMENT_COMPLETE) in
            let needs := if needs0 then true
                         else if 1 <? extent
                              then negb (tails_complete (firstn (N.to_nat (extent - 1)) tails) (sector + 1) (extent - 1))
                              else false in
            let st' := if needs then push_retired c st (sector, extent) else st in
            Ok (Advance (sector + extent) st' jl1)
      else if negb (u16_at data 0 =? SECTOR_MARKER) then Ok (Advance (sector + 1) st jl1)
      else if negb (header_range_ok version data) then legacy_skip version sector st jl1
      else
        let seq := u16_at data 2 in
        if (negb (has_token version) && negb (seq =? 0)) || (has_token version && (seq =? 0))
        then Rej ECorrupt
        else match parse_head version data with
        | None => Panic                                 (* slice out of range in parse_record *)
        | Some None => legacy_skip version sector st jl1
        | Some (Some (key, vlen, ts, exp)) =>
          let klen := N.of_nat (length key) in
          if (MAX_KEY_SIZE <? klen) || (vlen =? 0) || (MAX_VALUE_SIZE <? vlen)
          then legacy_skip version sector st jl1
          else
            let need := extent_blocks version klen vlen in
            if (need =? 0) || (total <? sector + need) then legacy_skip version sector st jl1
            else
              let extent_end := sector + need in
              let overlaps := match jl1 with (s, _) :: _ => c_ro c && (s <? extent_end) | [] => false end in
              if overlaps then Rej ECorrupt
              else
                let token_ok :=
                  if has_token version
                  then seq =? record_token sector (data ++ concat (firstn (N.to_nat (need - 1)) tails))
                  else true in
                if negb token_ok then Rej ECorrupt
                else
                  match idx_find key (rs_idx st) with
                  | Some ex =>
                      if ts <? e_ts ex then
                        Ok (Advance extent_end (push_retired c st (sector, need)) jl1)
                      else
                        let exn := extent_blocks version (N.of_nat (length (e_key ex))) (e_vlen ex) in
                        do st1 <- fs_release st (e_sector ex) exn;
                        let st2 := mkrs (rs_idx st1) (rs_fs st1) (rs_count st1)
                                        (wsub (rs_mem st1) (record_size c (N.of_nat (length (e_key ex))) (e_vlen ex)))
                                        (wsub (rs_disk st1) (exn * FEOX_BLOCK_SIZE))
                                        (rs_retired st1) (rs_last_end st1) (rs_ambiguous st1) in
                        let st3 := push_retired c st2 (e_sector ex, exn) in
                        do st4 <- (if rs_last_end st3 <? sector
                                   then fs_release st3 (rs_last_end st3) (sector - rs_last_end st3)
                                   else Ok st3);
                        Ok (Advance extent_end
                              (mkrs (idx_upsert (mkentry key ts exp vlen sector) (rs_idx st4)) (rs_fs st4)
                                    (rs_count st4) (wrap64 (rs_mem st4 + record_size c klen vlen))
                                    (wrap64 (rs_disk st4 + need * FEOX_BLOCK_SIZE))
                                    (rs_retired st4) extent_end (rs_ambiguous st4)) jl1)
                  | None =>
                      do st4 <- (if rs_last_end st <? sector
                                 then fs_release st (rs_last_end st) (sector - rs_last_end st)
                                 else Ok st);
                      Ok (Advance extent_end
                            (mkrs (idx_upsert (mkentry key ts exp vlen sector) (rs_idx st4)) (rs_fs st4)
                                  (rs_count st4 + 1) (wrap64 (rs_mem st4 + record_size c klen vlen))
                                  (wrap64 (rs_disk st4 + need * FEOX_BLOCK_SIZE))
                                  (rs_retired st4) extent_end (rs_ambiguous st4)) jl1)
                  end
        end
    end
  end.

Fixpoint scan (fuel : nat) (c : rcfg) (version total : N) (img : image) (sector : N)
              (st : rstate) (jl : list (N * N)) : res rstate :=
  if total <=? sector then Ok st
  else match fuel with
  | O => Panic                                       (* out of fuel: would be an endless scan *)
  | S f =>
      do r <- scan_step c version total sector (skipn (N.to_nat sector) img) st jl;
      match r with
      | Advance next st' jl' =>
          if next <=? sector then Panic               (* no progress: would be an endless scan *)
          else scan f c version total img next st' jl'
      end
  end.

(* remove_expired_recovery_winners, in key order *)
Fixpoint expire_winners (c : rcfg) (version now : N) (todo : list entry) (st : rstate) : res rstate :=
  match todo with
  | [] => Ok st
  | e :: t =>
      if (0 <? e_exp e) && (e_exp e <? now) then
        let n := extent_blocks version (N.of_nat (length (e_key e))) (e_vlen e) in
        do st1 <- fs_release st (e_sector e) n;
        let st2 := mkrs (idx_remove (e_key e) (rs_idx st1)) (rs_fs st1) (wsub (rs_count st1) 1)
                        (wsub (rs_mem st1) (record_size c (N.of_nat (length (e_key e))) (e_vlen e)))
                        (wsub (rs_disk st1) (n * FEOX_BLOCK_SIZE))
                        (rs_retired st1) (rs_last_end st1) (rs_ambiguous st1) in
        expire_winners c version now t (push_retired c st2 (e_sector e, n))
      else expire_winners c version now t st
  end.

Record opened := mkopened {
  o_version : N;
  o_idx : list entry;
  o_fs : fs;
  o_count : N; o_mem : N; o_disk : N;
  o_ambiguous : N;
  o_img : image;              (* the image after recovery's own repair writes *)
  o_jpos : jpos
}.

Definition nth_block (img : image) (i : nat) : block := nth i img [].

(* open of a non-fresh, validly sized image: the outcome and the device image as the call
   leaves it (also when it fails) *)
(* two retire_extents calls: `all` is the retirement list newest first; its last `nlosers`
   entries were pushed by the scan, the ones before them by remove_expired_recovery_winners *)
Definition retire_two (img : image) (p : jpos) (all : list (N * N)) (nlosers : nat) : image * jpos * bool :=
  let ne := (length all - nlosers)%nat in
  let '(img1, p1, ok1) := retire_extents img p (skipn ne all) in
  if negb ok1 then (img1, p1, false) else retire_extents img1 p1 (firstn ne all).

Definition open_image (c : rcfg) (img : image) : res opened * image :=
  let total := N.of_nat (length img) in
  if Nat.ltb (length img) 17 then (Rej EInvalidDevice, img)          (* validate_device_size *)
  else
    let b0 := nth_block img 0 in
    let b7 := nth_block img (N.to_nat FEOX_METADATA_BACKUP_BLOCK) in
    let mb := if select_meta b0 b7 then b7 else b0 in
    if negb (list_eqb (firstn 8 mb) SIGNATURE) then (Rej EInvalidMetadata, img)
    else match decode_meta mb with
    | None => (Rej EInvalidMetadata, img)
    | Some m =>
      let version := m_version m in
      match decode_journal (slot_bytes img 0) (slot_bytes img 1) total with
      | None => (Rej ECorrupt, img)
      | Some (jgen, jslot, jexts) =>
        let p0 := mkjpos jgen jslot in
        let fs0 := mkfs [] (total * FEOX_BLOCK_SIZE) 0 0 in
        let st0 := mkrs [] fs0 0 0 0 [] FEOX_DATA_START_BLOCK 0 in
        match (if c_ro c then ReplayOk img p0 else replay img p0 jexts) with
        | ReplayCoalesce => (Rej (EFree EArg), img)  (* InvalidArgument; unreachable: decode checked overlap *)
        | ReplayExhausted img1 => (Rej EJournalExhausted, img1)
        | ReplayOk img1 p1 =>
          let jl := if c_ro c then sort_by_start jexts else [] in
          match (do st1 <- scan (S (length img1)) c version total img1 FEOX_DATA_START_BLOCK st0 jl;
                 do st2 <- (match c_now c with
                            | Some now => expire_winners c version now (rs_idx st1) st1
                            | None => Ok st1 end);
                 Ok (st2, length (rs_retired st1))) with
          | Panic => (Panic, img1)
          | Rej e => (Rej e, img1)
          | Ok (st2, nlosers) =>
            (* losers (and pending extents) found by the scan first, the expired winners in a
               second journaled call: a crash between two journal chunks must never leave an
               expired newest generation retired while an older one is still on the device *)
            let '(img2, p2, ok) := if c_ro c then (img1, p1, true)
                                   else retire_two img1 p1 (rs_retired st2) nlosers in
            if negb ok then (Rej ERetire, img2)
            else
              match (if rs_last_end st2 <? total
                     then fs_release st2 (rs_last_end st2) (total - rs_last_end st2)
                     else Ok st2) with
              | Panic => (Panic, img2)
              | Rej e => (Rej e, img2)
              | Ok st3 =>
                (Ok (mkopened version (rs_idx st3) (rs_fs st3) (rs_count st3) (rs_mem st3) (rs_disk st3)
                              (rs_ambiguous st3) img2 p2), img2)
              end
          end
        end
      end
    end.

(* value bytes of an entry as a read (load_value_from_disk) returns them *)
Definition read_value (version : N) (img : image) (e : entry) : option (list N) :=
  let klen := N.of_nat (length (e_key e)) in
  let n := extent_blocks version klen (e_vlen e) in
  let data := concat (firstn (N.to_nat n) (skipn (N.to_nat (e_sector e)) img)) in
  if sector_holds data (e_key e) (e_vlen e) (e_ts e) then
    let off := N.to_nat (header_size version klen) in
    if Nat.leb (off + N.to_nat (e_vlen e)) (length data)
    then Some (sub data off (N.to_nat (e_vlen e))) else None
  else None.
