(* Model of the per-key concurrency protocol of FeoxStore (operations.rs, internal.rs, atomic.rs,
   json_patch.rs): optimistic read of the current generation, local computation on the immutable
   generation, then re-validation and swap under the hash-table entry guard.

   Granularity: one model step of a thread is the code between two scheduling points (hook H7:
   loop tops and the instruction before every `hash_table.entry` / guarded helper).  Each such
   segment contains exactly one hash-table access (a `read` or an entry-guarded block) plus
   reads of monotone data (the shard clock, `retired_at` of superseded generations).  The entry
   guard is exclusive per key, so a guarded block is one atomic step.

   Timestamps: explicit ones are inputs; automatic ones are drawn from the key's clock shard,
   `next = max(wall, last + 1)`.  The wall clock is abstracted to the constant WALL = 2^60: the
   harness only uses explicit timestamps below 2^20 or from 2^62 upward, so every comparison the
   code makes has the same outcome as in the model (order isomorphism), while the numbers differ. *)
From Coq Require Import List NArith ZArith Bool.
Import ListNotations.
Local Open Scope N_scope.

Definition WALL : N := 1152921504606846976.
Definition I64MAX : Z := 9223372036854775807%Z.
Definition I64MIN : Z := (-9223372036854775808)%Z.
Definition sat_add_i64 (a b : Z) : Z :=
  let s := (a + b)%Z in
  if (I64MAX <? s)%Z then I64MAX else if (s <? I64MIN)%Z then I64MIN else s.

(* values: opaque blobs, JSON documents {"ab":[...]} (a patch appends one number), 8-byte counters *)
Inductive val := VB (n : N) | VJ (l : list N) | VC (z : Z).

Fixpoint nlist_eqb (a b : list N) : bool :=
  match a, b with
  | [], [] => true
  | x :: a', y :: b' => (x =? y) && nlist_eqb a' b'
  | _, _ => false
  end.

Definition val_eqb (a b : val) : bool :=
  match a, b with
  | VB x, VB y => x =? y
  | VJ x, VJ y => nlist_eqb x y
  | VC x, VC y => (x =? y)%Z
  | _, _ => false
  end.

Record gen := mkgen { g_id : N; g_val : val; g_ts : N }.

Inductive op :=
| OGet (k : N)
| OUpsert (k : N) (v : val) (ts : option N)
| ODelete (k : N) (ts : option N)
| OCas (k : N) (exp new : val) (ts : option N)
| OIncr (k : N) (d : Z) (ts : option N)
| OIfAbsent (k : N) (v : val)
| OPatch (k : N) (p : N) (ts : option N).

Definition key_of (o : op) : N :=
  match o with
  | OGet k | OUpsert k _ _ | ODelete k _ | OCas k _ _ _ | OIncr k _ _ | OIfAbsent k _ | OPatch k _ _ => k
  end.

Inductive resp :=
| RVal (v : val) | RNotFound | ROlder | RBool (b : bool) | RUnit | RInt (z : Z) | RInvalid | RPatchErr.

(* ---- THE SPEC: one key of a sequential last-writer-wins store; `ts` is the timestamp the call
   carries (explicit) or was issued (automatic), `ex` says which ---- *)
Definition kstate := option (val * N).

Definition spec_step (st : kstate) (o : op) (ts : N) (ex : bool) : kstate * resp :=
  match o with
  | OGet _ => (st, match st with Some (v, _) => RVal v | None => RNotFound end)
  | OUpsert _ v _ =>
      match st with
      | Some (_, t0) => if ts <=? t0 then (st, ROlder) else (Some (v, ts), RBool false)
      | None => (Some (v, ts), RBool true)
      end
  | ODelete _ _ =>
      match st with
      | Some (_, t0) => if ts <=? t0 then (st, ROlder) else (None, RUnit)
      | None => (None, RNotFound)
      end
  | OCas _ e n _ =>
      match st with
      | Some (v, t0) =>
          if val_eqb v e then (if ts <=? t0 then (st, ROlder) else (Some (n, ts), RBool true))
          else (st, RBool false)
      | None => (None, RBool false)
      end
  | OIncr _ d _ =>
      match st with
      | Some (v, t0) =>
          if ex && (ts <=? t0) then (st, ROlder)
          else match v with
               | VC z => if ts <=? t0 then (st, ROlder)
                         else (Some (VC (sat_add_i64 z d), ts), RInt (sat_add_i64 z d))
               | _ => (st, RInvalid)
               end
      | None => (Some (VC d, ts), RInt d)
      end
  | OIfAbsent _ v =>
      match st with
      | Some _ => (st, RBool false)
      | None => (Some (v, ts), RBool true)
      end
  | OPatch _ p _ =>
      match st with
      | Some (v, t0) =>
          if ts <=? t0 then (st, ROlder)
          else match v with
               | VJ l => (Some (VJ (l ++ [p]), ts), RUnit)
               | _ => (st, RPatchErr)
               end
      | None => (None, RNotFound)
      end
  end.

(* ---- shared state ---- *)
Fixpoint aget {A} (k : N) (l : list (N * A)) : option A :=
  match l with
  | [] => None
  | (k', a) :: t => if k' =? k then Some a else aget k t
  end.

Fixpoint aset {A} (k : N) (a : A) (l : list (N * A)) : list (N * A) :=
  match l with
  | [] => [(k, a)]
  | (k', a') :: t => if k' =? k then (k, a) :: t else (k', a') :: aset k a t
  end.

Fixpoint adel {A} (k : N) (l : list (N * A)) : list (N * A) :=
  match l with
  | [] => []
  | (k', a') :: t => if k' =? k then adel k t else (k', a') :: adel k t
  end.

Record shared := mksh {
  tbl : list (N * gen);        (* key -> current generation (the hash table) *)
  retired : list (N * N);      (* generation id -> retired_at (absent = 0) *)
  succ : list (N * N);         (* generation id -> successor id *)
  clk : list (N * N);          (* clock shard -> last issued/observed *)
  nid : N;                     (* next generation id *)
  shard_of : list (N * N);     (* key -> clock shard (an input: depends on the process's hash seed) *)
  owner : list (N * N);        (* ghost: generation id -> the key it was published for *)
  ver : list (N * N)           (* ghost: key -> number of accepted modifications so far *)
}.

Definition nget (k : N) (l : list (N * N)) : N := match aget k l with Some x => x | None => 0 end.

(* Record::retirement_timestamp: maximum of retired_at along the successor chain *)
Fixpoint rt_fuel (f : nat) (s : shared) (id : N) : N :=
  let r := nget id (retired s) in
  match f with
  | O => r
  | S f' => match aget id (succ s) with
            | None => r
            | Some id' => N.max r (rt_fuel f' s id')
            end
  end.
Definition rt (s : shared) (id : N) : N := rt_fuel (N.to_nat (nid s)) s id.

Definition shard (s : shared) (k : N) : N := nget k (shard_of s).

(* VersionClock::next *)
Definition draw (s : shared) (k : N) : N * shared :=
  let sh := shard s k in
  let t := N.max WALL (nget sh (clk s) + 1) in
  (t, mksh (tbl s) (retired s) (succ s) (aset sh t (clk s)) (nid s) (shard_of s) (owner s) (ver s)).

(* VersionClock::observe, called for explicit timestamps when the write is published *)
Definition observe (s : shared) (k : N) (ts : N) (ex : bool) : shared :=
  if ex then
    let sh := shard s k in
    mksh (tbl s) (retired s) (succ s) (aset sh (N.max (nget sh (clk s)) ts) (clk s)) (nid s) (shard_of s) (owner s) (ver s)
  else s.

Definition resolve (s : shared) (k : N) (tso : option N) : N * bool * shared :=
  match tso with
  | Some t => (t, true, s)
  | None => let '(t, s') := draw s k in (t, false, s')
  end.

(* entry.insert(new) on an occupied entry: link the successor, swap *)
Definition publish_replace (s : shared) (k : N) (e : gen) (v : val) (ts : N) (ex : bool) : shared :=
  let id := nid s in
  observe (mksh (aset k (mkgen id v ts) (tbl s)) (retired s) (aset (g_id e) id (succ s)) (clk s) (id + 1) (shard_of s) (aset id k (owner s)) (aset k (nget k (ver s) + 1) (ver s))) k ts ex.

(* insert_entry on a vacant entry *)
Definition publish_new (s : shared) (k : N) (v : val) (ts : N) (ex : bool) : shared :=
  let id := nid s in
  observe (mksh (aset k (mkgen id v ts) (tbl s)) (retired s) (succ s) (clk s) (id + 1) (shard_of s) (aset id k (owner s)) (aset k (nget k (ver s) + 1) (ver s))) k ts ex.

(* delete: retired_at.store(ts); entry.remove() *)
Definition retire_remove (s : shared) (k : N) (e : gen) (ts : N) (ex : bool) : shared :=
  observe (mksh (adel k (tbl s)) (aset (g_id e) ts (retired s)) (succ s) (clk s) (nid s) (shard_of s) (owner s) (aset k (nget k (ver s) + 1) (ver s))) k ts ex.

(* ---- thread-local control state: where the thread is parked ---- *)
Inductive pc :=
| PStart
| PUTop (ts : N) (ex : bool)
| PUGuard (ts : N) (ex : bool) (g : gen)
| PUIns (ts : N) (ex : bool)
| PDGuard (ts : N) (ex : bool)
| PCGuard (ts : N) (ex : bool) (g : gen) (v0 : N)   (* v0: ghost, the key's modification count at the read *)
| PNTop (obs : option gen)
| PNCreate (obs : option gen) (ts : N) (ex : bool)
| PNGuard (root g : gen) (nv : Z) (ts : N) (ex : bool)
| PPTop (ts : N) (ex : bool) (obs : option gen)
| PPGuard (ts : N) (ex : bool) (obs r : gen) (nv : val).

(* a commit: the step at which the call takes effect and answers.  c_dev marks the two
   permitted conservative refusals (the sequential spec would not have refused here) *)
Record commit := mkc { c_op : op; c_ts : N; c_ex : bool; c_resp : resp; c_dev : bool }.

Definition done (s : shared) (o : op) (ts : N) (ex : bool) (r : resp) (dev : bool)
  : shared * (pc + resp) * option commit := (s, inr r, Some (mkc o ts ex r dev)).
Definition goto (s : shared) (p : pc) : shared * (pc + resp) * option commit := (s, inl p, None).

Definition same (a b : gen) : bool := g_id a =? g_id b.

Definition opstep (s : shared) (o : op) (p : pc) : shared * (pc + resp) * option commit :=
  match o with
  | OGet k =>
      match aget k (tbl s) with
      | Some g => done s o 0 false (RVal (g_val g)) false
      | None => done s o 0 false RNotFound false
      end
  | OUpsert k v tso =>
      match p with
      | PUTop ts ex =>
          match aget k (tbl s) with
          | Some g => if ts <=? g_ts g then done s o ts ex ROlder false else goto s (PUGuard ts ex g)
          | None => goto s (PUIns ts ex)
          end
      | PUGuard ts ex g =>      (* update_record_with_ttl *)
          match aget k (tbl s) with
          | Some e =>
              if negb (same e g) && (ts <=? rt s (g_id g)) then done s o ts ex ROlder (negb (ts <=? g_ts e))
              else if ts <=? g_ts e then done s o ts ex ROlder false
              else done (publish_replace s k e v ts ex) o ts ex (RBool false) false
          | None =>
              if ts <=? rt s (g_id g) then done s o ts ex ROlder true
              else goto s (PUTop ts ex)        (* KeyNotFound => continue *)
          end
      | PUIns ts ex =>
          match aget k (tbl s) with
          | None => done (publish_new s k v ts ex) o ts ex (RBool true) false
          | Some _ => goto s (PUTop ts ex)
          end
      | _ => let '(ts, ex, s') := resolve s k tso in goto s' (PUTop ts ex)
      end
  | ODelete k tso =>
      match p with
      | PDGuard ts ex =>
          match aget k (tbl s) with
          | Some e => if ts <=? g_ts e then done s o ts ex ROlder false
                      else done (retire_remove s k e ts ex) o ts ex RUnit false
          | None => done s o ts ex RNotFound false
          end
      | _ => let '(ts, ex, s') := resolve s k tso in goto s' (PDGuard ts ex)
      end
  | OCas k e n tso =>
      match p with
      | PCGuard ts ex g _ =>      (* replace_record_if_current *)
          match aget k (tbl s) with
          | Some c =>
              if negb (same c g) then done s o ts ex (RBool false) (val_eqb (g_val c) e)
              else if ts <=? g_ts c then done s o ts ex ROlder false
              else done (publish_replace s k c n ts ex) o ts ex (RBool true) false
          | None => done s o ts ex (RBool false) false
          end
      | _ =>
          match aget k (tbl s) with
          | None => done s o 0 false (RBool false) false
          | Some g =>
              if val_eqb (g_val g) e
              then let '(ts, ex, s') := resolve s k tso in goto s' (PCGuard ts ex g (nget k (ver s)))
              else done s o 0 false (RBool false) false
          end
      end
  | OIncr k d tso =>
      match p with
      | PNTop obs =>
          match aget k (tbl s) with
          | None =>
              let ra := match obs with Some r => rt s (g_id r) | None => 0 end in
              let '(ts, ex, s') :=
                match tso with
                | Some t => (t, true, s)
                | None => let '(t, s1) := draw s k in (N.max t (ra + 1), false, s1)
                end in
              if ts <=? ra then done s' o ts ex ROlder true
              else goto s' (PNCreate obs ts ex)
          | Some g =>
              let root := match obs with Some r => r | None => g end in
              match tso with
              | Some t =>
                  if t <=? g_ts g then done s o t true ROlder false
                  else match g_val g with
                       | VC z => goto s (PNGuard root g (sat_add_i64 z d) t true)
                       | _ => done s o t true RInvalid false
                       end
              | None =>
                  match g_val g with
                  | VC z => let '(t, s1) := draw s k in goto s1 (PNGuard root g (sat_add_i64 z d) t false)
                  | _ => done s o 0 false RInvalid false
                  end
              end
          end
      | PNCreate obs ts ex =>
          match aget k (tbl s) with
          | None => done (publish_new s k (VC d) ts ex) o ts ex (RInt d) false
          | Some _ => goto s (PNTop obs)
          end
      | PNGuard root g nv ts ex =>
          match aget k (tbl s) with
          | Some e =>
              if negb (same e g) then
                if ex && (ts <=? rt s (g_id root)) then done s o ts ex ROlder (negb (ts <=? g_ts e))
                else goto s (PNTop (Some root))
              else if ts <=? g_ts e then done s o ts ex ROlder false
              else done (publish_replace s k e (VC nv) ts ex) o ts ex (RInt nv) false
          | None =>
              if ex && (ts <=? rt s (g_id root)) then done s o ts ex ROlder true
              else goto s (PNTop (Some root))
          end
      | _ => goto s (PNTop None)
      end
  | OIfAbsent k v =>
      match aget k (tbl s) with
      | Some _ => done s o 0 false (RBool false) false
      | None => let '(t, s1) := draw s k in done (publish_new s1 k v t false) o t false (RBool true) false
      end
  | OPatch k pj tso =>
      match p with
      | PPTop ts ex obs =>
          match aget k (tbl s) with
          | None => done s o ts ex RNotFound false
          | Some r =>
              let ob := match obs with Some x => x | None => r end in
              if negb (same ob r) && (ts <=? rt s (g_id ob)) then done s o ts ex ROlder (negb (ts <=? g_ts r))
              else if ts <=? g_ts r then done s o ts ex ROlder false
              else match g_val r with
                   | VJ l => goto s (PPGuard ts ex ob r (VJ (l ++ [pj])))
                   | _ => done s o ts ex RPatchErr false
                   end
          end
      | PPGuard ts ex ob r nv =>
          match aget k (tbl s) with
          | Some e =>
              if negb (same e r) then goto s (PPTop ts ex (Some ob))
              else if ts <=? g_ts e then done s o ts ex ROlder false
              else done (publish_replace s k e nv ts ex) o ts ex RUnit false
          | None => goto s (PPTop ts ex (Some ob))
          end
      | _ => let '(ts, ex, s') := resolve s k tso in goto s' (PPTop ts ex None)
      end
  end.

(* ---- threads and schedules ---- *)
Record thread := mkth { t_ops : list op; t_pc : pc; t_out : list resp (* newest first *) }.
Record world := mkw { w_sh : shared; w_th : list thread; w_log : list (nat * commit) (* oldest first *) }.

Fixpoint set_nth {A} (i : nat) (a : A) (l : list A) : list A :=
  match l, i with
  | [], _ => []
  | _ :: t, O => a :: t
  | x :: t, S i' => x :: set_nth i' a t
  end.

Definition tstep (w : world) (i : nat) : world :=
  match nth_error (w_th w) i with
  | Some th =>
      match t_ops th with
      | [] => w
      | o :: rest =>
          let '(s', r, c) := opstep (w_sh w) o (t_pc th) in
          let th' := match r with
                     | inl p => mkth (o :: rest) p (t_out th)
                     | inr rs => mkth rest PStart (rs :: t_out th)
                     end in
          mkw s' (set_nth i th' (w_th w))
              (match c with Some c => w_log w ++ [(i, c)] | None => w_log w end)
      end
  | None => w
  end.

Definition run (w : world) (sched : list nat) : world := fold_left tstep sched w.

(* after the schedule: let the unfinished threads run one after the other, lowest index first *)
Fixpoint first_unfinished (l : list thread) (i : nat) : option nat :=
  match l with
  | [] => None
  | th :: t => match t_ops th with [] => first_unfinished t (S i) | _ => Some i end
  end.

Fixpoint finish (fuel : nat) (w : world) : world :=
  match fuel with
  | O => w
  | S f => match first_unfinished (w_th w) 0 with
           | Some i => finish f (tstep w i)
           | None => w
           end
  end.

Definition init_shared (shards : list (N * N)) : shared := mksh [] [] [] [] 1 shards [] [].
Definition init_world (shards : list (N * N)) (progs : list (list op)) : world :=
  mkw (init_shared shards) (map (fun p => mkth p PStart []) progs) [].

(* abstraction: what the key's entry holds *)
Definition abs (s : shared) (k : N) : kstate :=
  match aget k (tbl s) with Some g => Some (g_val g, g_ts g) | None => None end.
