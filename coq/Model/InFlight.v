(* C20 (part): io.rs InFlightBuffers -- buffers whose addresses are handed to the kernel through
   io_uring.  A buffer may be freed only when the kernel can no longer read from it; a submission
   that may still be in flight when the batch is abandoned keeps its buffer alive for ever
   (std::mem::forget), never freed.

   `kern` is a ghost: the set of indices the kernel may still reference.  The kernel acquires a
   reference when the submission entry is pushed (sq.push succeeded) and gives it up only with the
   completion entry. *)
From Coq Require Import List Arith Bool.
Import ListNotations.

Inductive bstate := Owned | Freed | Leaked.

Record ifb := mkifb {
  bufs : list bstate;        (* the Vec<Option<T>> *)
  inflight : list bool;      (* the u128 bit set *)
  kern : list bool;          (* ghost: kernel may reference the buffer *)
  dropped : bool             (* the value has been dropped: nothing happens to it any more *)
}.

Inductive ifev :=
| Push                       (* buffers.push(buffer) *)
| MarkInFlight (i : nat)     (* before sq.push *)
| SqPushOk (i : nat)         (* the kernel now owns a reference *)
| SqPushFail (i : nat)       (* SQ full: mark_unqueued *)
| Complete (i : nat)         (* CQE seen: mark_complete *)
| DropAll.                   (* InFlightBuffers::drop *)

Fixpoint set {A} (i : nat) (a : A) (l : list A) : list A :=
  match l, i with
  | [], _ => []
  | _ :: t, O => a :: t
  | x :: t, S i' => x :: set i' a t
  end.

Definition drop_one (b : bstate) (fl : bool) : bstate :=
  match b with
  | Owned => if fl then Leaked else Freed
  | other => other
  end.

Fixpoint drop_all (bs : list bstate) (fl : list bool) : list bstate :=
  match bs, fl with
  | b :: bt, f :: ft => drop_one b f :: drop_all bt ft
  | b :: bt, [] => drop_one b false :: drop_all bt []
  | [], _ => []
  end.

(* SqPushOk only after MarkInFlight, Complete only for a reference the kernel holds; a dropped
   value takes no further events *)
Definition ifstep (s : ifb) (e : ifev) : ifb :=
  if dropped s then s else
  match e with
  | Push => mkifb (bufs s ++ [Owned]) (inflight s ++ [false]) (kern s ++ [false]) false
  | MarkInFlight i => mkifb (bufs s) (set i true (inflight s)) (kern s) false
  | SqPushOk i => if nth i (inflight s) false then mkifb (bufs s) (inflight s) (set i true (kern s)) false else s
  | SqPushFail i => if nth i (kern s) false then s else mkifb (bufs s) (set i false (inflight s)) (kern s) false
  | Complete i => if nth i (kern s) false then mkifb (bufs s) (set i false (inflight s)) (set i false (kern s)) false else s
  | DropAll => mkifb (drop_all (bufs s) (inflight s)) (inflight s) (kern s) true
  end.

Definition ifrun (s : ifb) (evs : list ifev) : ifb := fold_left ifstep evs s.
Definition ifinit : ifb := mkifb [] [] [] false.
