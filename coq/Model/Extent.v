(* C08: the extent pin / retire protocol (record.rs extent_state; persistence.rs
   load_value_from_disk; write_buffer.rs prepare_deferred_record_data and process_deletions).

   One durable generation's extent, any number of readers, the retirement pipeline of the
   write-buffer worker, and later owners of the freed blocks.  Steps are the atomic accesses:
     reader   acquire_extent (one CAS: fails when the retired bit is set, else readers+1)
              pread of the extent
              drop(guard) (readers-1) followed by the local identity check sector_holds_record
     retirer  retire_extent (set the bit) ; extent_has_readers? (retry later if so) ;
              marker write + fsync (retire_extents) ; extent_has_readers? again ; release_sectors ;
     reuser   another key's batch allocates the blocks and writes its record there. *)
From Coq Require Import List NArith Bool Arith.
Import ListNotations.

Inductive content := CData | CMarker | COther (h : N).
Inductive rpc := RStart | RPinned | RGot (c : content) | RDone (r : option content).
Inductive wpc := WIdle | WBit | WClear1 | WMarked | WClear2 | WFreed.

Record est := mke { readers : nat; retired : bool; cont : content; w : wpc; rs : list rpc }.

Inductive who := Reader (i : nat) | Retirer | Reuser (h : N).

Fixpoint set_nth {A} (i : nat) (a : A) (l : list A) : list A :=
  match l, i with
  | [], _ => []
  | _ :: t, O => a :: t
  | x :: t, S i' => x :: set_nth i' a t
  end.

Definition is_data (c : content) : bool := match c with CData => true | _ => false end.

Definition estep (s : est) (a : who) : est :=
  match a with
  | Reader i =>
      match nth_error (rs s) i with
      | Some RStart =>
          if retired s then mke (readers s) (retired s) (cont s) (w s) (set_nth i (RDone None) (rs s))
          else mke (S (readers s)) (retired s) (cont s) (w s) (set_nth i RPinned (rs s))
      | Some RPinned => mke (readers s) (retired s) (cont s) (w s) (set_nth i (RGot (cont s)) (rs s))
      | Some (RGot c) =>
          mke (pred (readers s)) (retired s) (cont s) (w s)
              (set_nth i (RDone (if is_data c then Some c else None)) (rs s))
      | _ => s
      end
  | Retirer =>
      match w s with
      | WIdle => mke (readers s) true (cont s) WBit (rs s)
      | WBit => if Nat.eqb (readers s) 0 then mke (readers s) (retired s) (cont s) WClear1 (rs s) else s
      | WClear1 => mke (readers s) (retired s) CMarker WMarked (rs s)
      | WMarked => if Nat.eqb (readers s) 0 then mke (readers s) (retired s) (cont s) WClear2 (rs s) else s
      | WClear2 => mke (readers s) (retired s) (cont s) WFreed (rs s)
      | WFreed => s
      end
  | Reuser h =>
      match w s with
      | WFreed => mke (readers s) (retired s) (COther h) WFreed (rs s)
      | _ => s
      end
  end.

Definition erun (s : est) (sched : list who) : est := fold_left estep sched s.
Definition einit (n : nat) : est := mke 0 false CData WIdle (repeat RStart n).

(* ---- the run-time rule checked on real event traces (pins from hook H5, writes from H1) ---- *)
Inductive eev := EPin (s n : N) | EUnpin (s n : N) | EWrite (s n : N).

Local Open Scope N_scope.
Definition overlaps (s1 n1 s2 n2 : N) : bool := (s1 <? s2 + n2) && (s2 <? s1 + n1).

Fixpoint remove_one (s n : N) (l : list (N * N)) : list (N * N) :=
  match l with
  | [] => []
  | (s', n') :: t => if (s' =? s) && (n' =? n) then t else (s', n') :: remove_one s n t
  end.

(* returns the index of the first write that hits a pinned extent *)
Fixpoint emon (pinned : list (N * N)) (evs : list eev) (i : N) : option N :=
  match evs with
  | [] => None
  | EPin s n :: t => emon ((s, n) :: pinned) t (i + 1)
  | EUnpin s n :: t => emon (remove_one s n pinned) t (i + 1)
  | EWrite s n :: t =>
      if existsb (fun p => overlaps s n (fst p) (snd p)) pinned then Some i else emon pinned t (i + 1)
  end.
