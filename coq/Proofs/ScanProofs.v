(* C14, concurrent clauses: whatever the writers do between the steps of a range scan, its result
   is strictly ascending inside the bounds and the limit, holds every key that stayed untouched and
   visible throughout, only values that were really written to their keys, and no key that was
   absent throughout. *)
From Coq Require Import List NArith Bool Lia PeanoNat Arith.
From Feox Require Import Model.Sched Model.Scan Proofs.SchedProofs.
Import ListNotations.
Local Open Scope N_scope.

Definition keys {A} (l : list (N * A)) : list N := map fst l.

Lemma aget_in {A} k (m : list (N * A)) : aget k m <> None <-> In k (keys m).
Proof.
  induction m as [|[k' a] t IH]; cbn; [split; [congruence | contradiction]|].
  destruct (k' =? k) eqn:E.
  - apply N.eqb_eq in E. subst. split; [left; reflexivity | discriminate].
  - apply N.eqb_neq in E. rewrite IH. split; [right; assumption | intros [H|H]; [congruence | assumption]].
Qed.

Lemma least_some p m x : least p m = Some x ->
  p x = true /\ In x (keys m) /\ forall y, In y (keys m) -> p y = true -> x <= y.
Proof.
  revert x. induction m as [|[k n] t IH]; cbn; intros x H; [discriminate|].
  destruct (p k) eqn:Pk.
  - destruct (least p t) as [r|] eqn:R.
    + inversion H; subst x. destruct (IH r eq_refl) as (A & B & C).
      destruct (N.min_spec k r) as [[Hlt ->]|[Hle ->]].
      * split; [exact Pk|]. split; [left; reflexivity|]. intros y [<-|Hy] Py; [lia | specialize (C y Hy Py); lia].
      * split; [exact A|]. split; [right; exact B|]. intros y [<-|Hy] Py; [lia | exact (C y Hy Py)].
    + inversion H; subst x. split; [exact Pk|]. split; [left; reflexivity|].
      intros y [<-|Hy] Py; [lia|].
      exfalso. clear -R Hy Py. induction t as [|[k' n'] t IH]; [contradiction|]. cbn in R.
      destruct Hy as [<-|Hy]; cbn in *.
      * rewrite Py in R. destruct (least p t); discriminate.
      * destruct (p k'); [destruct (least p t); discriminate | exact (IH R Hy)].
  - destruct (IH x H) as (A & B & C). split; [exact A|]. split; [right; exact B|].
    intros y [<-|Hy] Py; [congruence | exact (C y Hy Py)].
Qed.

Lemma least_none p m : least p m = None -> forall y, In y (keys m) -> p y = false.
Proof.
  induction m as [|[k n] t IH]; cbn; intros H y Hy; [contradiction|].
  destruct (p k) eqn:Pk.
  - destruct (least p t); discriminate.
  - destruct Hy as [<-|Hy]; [exact Pk | exact (IH H y Hy)].
Qed.

(* seek: the entry it returns is linked, satisfies the bound and is the least such *)
Lemma seek_at p w k n : seek p w = PAt k n ->
  p k = true /\ aget k (w_idx w) = Some n /\ forall y, aget y (w_idx w) <> None -> p y = true -> k <= y.
Proof.
  unfold seek. destruct (least p (w_idx w)) as [x|] eqn:L; [|discriminate].
  destruct (aget x (w_idx w)) as [m|] eqn:G; [|discriminate]. intros H. inversion H; subst.
  destruct (least_some _ _ _ L) as (A & _ & C). split; [exact A|]. split; [exact G|].
  intros y Hy. apply C. apply aget_in. exact Hy.
Qed.

Lemma seek_end p w : seek p w = PEnd -> forall y, aget y (w_idx w) <> None -> p y = false.
Proof.
  unfold seek. destruct (least p (w_idx w)) as [x|] eqn:L.
  - destruct (least_some _ _ _ L) as (_ & B & _). apply aget_in in B.
    destruct (aget x (w_idx w)); [discriminate | congruence].
  - intros _ y Hy. apply (least_none _ _ L). apply aget_in. exact Hy.
Qed.

Lemma seek_cases p w : (exists k n, seek p w = PAt k n) \/ seek p w = PEnd.
Proof.
  unfold seek. destruct (least p (w_idx w)) as [x|]; [|right; reflexivity].
  destruct (aget x (w_idx w)) as [n|]; [left; exists x, n; reflexivity | right; reflexivity].
Qed.

Lemma ascending_app l k v : ascending l = true -> (forall k', In k' (keys l) -> k' < k) -> ascending (l ++ [(k, v)]) = true.
Proof.
  induction l as [|[k1 v1] t IH]; intros Ha Hb; [reflexivity|].
  cbn [app]. destruct t as [|[k2 v2] t2].
  - cbn. rewrite andb_true_r. apply N.ltb_lt. apply Hb. left; reflexivity.
  - cbn [app ascending] in *. apply andb_true_iff in Ha. destruct Ha as [H1 H2].
    apply andb_true_iff. split; [exact H1|]. apply IH; [exact H2|]. intros k' Hk. apply Hb. right. exact Hk.
Qed.

Lemma keys_app {A} (l l' : list (N * A)) : keys (l ++ l') = keys l ++ keys l'.
Proof. unfold keys. apply map_app. Qed.

(* ---- the general invariant ---- *)
Section Bounds.
Variables (a b : N) (limit : nat).

Definition pos_ok (w : sworld) : Prop :=
  match w_pos w with
  | PBegin => w_out w = []
  | PAt k n => a <= k /\ aget n (w_owner w) = Some k /\ forall k', In k' (keys (w_out w)) -> k' < k
  | PLoaded k => a <= k /\ forall k', In k' (keys (w_out w)) -> k' <= k
  | PEnd => True
  end.

Record WInv (w : sworld) : Prop := {
  wi_asc : ascending (w_out w) = true;
  wi_in : forall k, In k (keys (w_out w)) -> a <= k /\ k <= b;
  wi_len : (length (w_out w) <= limit)%nat;
  wi_pos : pos_ok w;
  wi_idx : forall k n, aget k (w_idx w) = Some n -> aget n (w_owner w) = Some k;
  wi_own : forall n k, aget n (w_owner w) = Some k -> n < w_nn w;
  wi_slot : forall n c, aget n (w_slot w) = Some c -> exists k, aget n (w_owner w) = Some k /\ In (k, c_val c) (w_hist w);
  wi_out : forall k v, In (k, v) (w_out w) -> In (k, v) (w_hist w)
}.

Lemma winit_inv : WInv winit.
Proof. split; cbn; intros; try discriminate; try contradiction; try lia; reflexivity. Qed.

Lemma pos_ok_same w w' : w_pos w' = w_pos w -> w_out w' = w_out w ->
  (forall n k, aget n (w_owner w) = Some k -> aget n (w_owner w') = Some k) -> pos_ok w -> pos_ok w'.
Proof.
  unfold pos_ok. intros -> -> Ho. destruct (w_pos w) as [|k n|k|]; auto.
  intros (A & B & C). split; [exact A|]. split; [exact (Ho _ _ B) | exact C].
Qed.

Lemma wstep_inv w e : WInv w -> WInv (wstep a b limit w e).
Proof.
  intros I. destruct e as [k v vis|k|].
  - (* put *)
    cbn [wstep]. destruct (aget k (w_idx w)) as [n|] eqn:G.
    + pose proof (wi_idx w I k n G) as Hown.
      split; cbn; try (exact (wi_asc w I) || exact (wi_in w I) || exact (wi_len w I) || exact (wi_idx w I) || exact (wi_own w I)).
      * exact (wi_pos w I).
      * intros n' c Hc. destruct (N.eq_dec n' n) as [->|Hne].
        -- rewrite aget_aset_same in Hc. inversion Hc; subst c. exists k. split; [exact Hown | left; reflexivity].
        -- rewrite aget_aset_other in Hc by exact Hne. destruct (wi_slot w I n' c Hc) as [k' [A B]]. exists k'. split; [exact A | right; exact B].
      * intros k' v' H. right. exact (wi_out w I k' v' H).
    + assert (Hfresh : aget (w_nn w) (w_owner w) = None).
      { destruct (aget (w_nn w) (w_owner w)) as [k'|] eqn:E; [|reflexivity]. pose proof (wi_own w I _ _ E). lia. }
      assert (Hkeep : forall n k', aget n (w_owner w) = Some k' -> aget n (aset (w_nn w) k (w_owner w)) = Some k').
      { intros n k' H. rewrite aget_aset_other; [exact H|]. intros ->. rewrite Hfresh in H. discriminate. }
      split; cbn; try (exact (wi_asc w I) || exact (wi_in w I) || exact (wi_len w I)).
      * apply (pos_ok_same w); [reflexivity | reflexivity | exact Hkeep | exact (wi_pos w I)].
      * intros k' n H. destruct (N.eq_dec k' k) as [->|Hne].
        -- rewrite aget_aset_same in H. inversion H; subst n. apply aget_aset_same.
        -- rewrite aget_aset_other in H by exact Hne. apply Hkeep. exact (wi_idx w I k' n H).
      * intros n k' H. destruct (N.eq_dec n (w_nn w)) as [->|Hne]; [lia|].
        rewrite aget_aset_other in H by exact Hne. pose proof (wi_own w I n k' H). lia.
      * intros n c Hc. destruct (N.eq_dec n (w_nn w)) as [->|Hne].
        -- rewrite aget_aset_same in Hc. inversion Hc; subst c. exists k. split; [apply aget_aset_same | left; reflexivity].
        -- rewrite aget_aset_other in Hc by exact Hne. destruct (wi_slot w I n c Hc) as [k' [A B]]. exists k'. split; [exact (Hkeep _ _ A) | right; exact B].
      * intros k' v' H. right. exact (wi_out w I k' v' H).
  - (* delete *)
    cbn [wstep]. split; cbn; try (exact (wi_asc w I) || exact (wi_in w I) || exact (wi_len w I) || exact (wi_own w I) || exact (wi_slot w I) || exact (wi_out w I)).
    + exact (wi_pos w I).
    + intros k' n H. apply aget_adel_some in H. exact (wi_idx w I k' n (proj1 H)).
  - (* scan step *)
    cbn [wstep]. pose proof (wi_pos w I) as P. unfold pos_ok in P.
    destruct (w_pos w) as [|k n|k|] eqn:Hp.
    + destruct (Nat.eqb limit 0).
      * split; cbn; try (exact (wi_asc w I) || exact (wi_in w I) || exact (wi_len w I) || exact (wi_idx w I) || exact (wi_own w I) || exact (wi_slot w I) || exact (wi_out w I)). exact Logic.I.
      * split; cbn; try (exact (wi_asc w I) || exact (wi_in w I) || exact (wi_len w I) || exact (wi_idx w I) || exact (wi_own w I) || exact (wi_slot w I) || exact (wi_out w I)).
        unfold pos_ok; cbn. destruct (seek_cases (fun k => a <=? k) w) as [[k [n E]]|E]; rewrite E; [|exact Logic.I].
        destruct (seek_at _ _ _ _ E) as (A & B & _). apply N.leb_le in A.
        split; [exact A|]. split; [exact (wi_idx w I k n B)|]. rewrite P. intros k' [].
    + destruct P as (Pa & Po & Pb).
      destruct (Nat.leb limit (length (w_out w)) || (b <? k)) eqn:Hstop.
      * split; cbn; try (exact (wi_asc w I) || exact (wi_in w I) || exact (wi_len w I) || exact (wi_idx w I) || exact (wi_own w I) || exact (wi_slot w I) || exact (wi_out w I)). exact Logic.I.
      * apply orb_false_iff in Hstop. destruct Hstop as [Hl Hb]. apply Nat.leb_gt in Hl. apply N.ltb_ge in Hb.
        assert (Hsame : WInv (set_scan w (PLoaded k) (w_out w))).
        { split; cbn; try (exact (wi_asc w I) || exact (wi_in w I) || exact (wi_len w I) || exact (wi_idx w I) || exact (wi_own w I) || exact (wi_slot w I) || exact (wi_out w I)).
          unfold pos_ok; cbn. split; [exact Pa|]. intros k' Hk. specialize (Pb k' Hk). lia. }
        destruct (aget n (w_slot w)) as [c|] eqn:Hc; [|exact Hsame].
        destruct (c_vis c); [|exact Hsame].
        split; cbn; try (exact (wi_idx w I) || exact (wi_own w I) || exact (wi_slot w I)).
        -- apply ascending_app; [exact (wi_asc w I) | exact Pb].
        -- intros k' Hk. unfold keys in Hk; cbn in Hk; rewrite map_app in Hk. apply in_app_or in Hk. destruct Hk as [Hk|Hk]; [exact (wi_in w I k' Hk) | cbn in Hk; destruct Hk as [<-|[]]; lia].
        -- rewrite app_length. cbn. lia.
        -- unfold pos_ok; cbn. split; [exact Pa|]. intros k' Hk. unfold keys in Hk; cbn in Hk; rewrite map_app in Hk. apply in_app_or in Hk.
           destruct Hk as [Hk|Hk]; [specialize (Pb k' Hk); lia | cbn in Hk; destruct Hk as [<-|[]]; lia].
        -- intros k' v' H. apply in_app_or in H. destruct H as [H|[H|[]]]; [exact (wi_out w I k' v' H)|].
           inversion H; subst k' v'. destruct (wi_slot w I n c Hc) as [k2 [A B]]. rewrite Po in A. inversion A; subst k2. exact B.
    + destruct P as (Pa & Pb).
      split; cbn; try (exact (wi_asc w I) || exact (wi_in w I) || exact (wi_len w I) || exact (wi_idx w I) || exact (wi_own w I) || exact (wi_slot w I) || exact (wi_out w I)).
      unfold pos_ok; cbn. destruct (seek_cases (fun k' => k <? k') w) as [[k1 [n1 E]]|E]; rewrite E; [|exact Logic.I].
      destruct (seek_at _ _ _ _ E) as (A & B & _). apply N.ltb_lt in A.
      split; [lia|]. split; [exact (wi_idx w I k1 n1 B)|]. intros k' Hk. specialize (Pb k' Hk). lia.
    + exact I.
Qed.

Lemma wrun_inv es : forall w, WInv w -> WInv (wrun a b limit w es).
Proof. unfold wrun. induction es as [|e t IH]; intros w I; cbn; [exact I | apply IH; apply wstep_inv; exact I]. Qed.

(* MAIN 1: the result of a scan, finished or not, under any interference *)
Theorem scan_result_sorted_bounded_limited es :
  let w := wrun a b limit winit es in
  ascending (w_out w) = true /\ (forall k, In k (keys (w_out w)) -> a <= k /\ k <= b) /\ (length (w_out w) <= limit)%nat.
Proof. cbv zeta. pose proof (wrun_inv es winit winit_inv) as I. split; [exact (wi_asc _ I)|]. split; [exact (wi_in _ I) | exact (wi_len _ I)]. Qed.

(* MAIN 2: every returned value was written to its key *)
Theorem scan_values_are_genuine es k v :
  In (k, v) (w_out (wrun a b limit winit es)) -> In (k, v) (w_hist (wrun a b limit winit es)).
Proof. exact (wi_out _ (wrun_inv es winit winit_inv) k v). Qed.

(* ---- a key that stays linked, untouched and visible from the start of the scan ---- *)
Definition stable_ok (k0 n0 v0 : N) (w : sworld) : Prop :=
  aget k0 (w_idx w) = Some n0 /\ aget n0 (w_slot w) = Some (mkcell v0 true) /\
  match w_pos w with
  | PBegin => True
  | PAt k n => (a <= k0 -> k0 < k -> In (k0, v0) (w_out w)) /\ (k = k0 -> n = n0)
  | PLoaded k => a <= k0 -> k0 <= k -> In (k0, v0) (w_out w)
  | PEnd => (length (w_out w) < limit)%nat -> a <= k0 -> k0 <= b -> In (k0, v0) (w_out w)
  end.

Lemma stable_step k0 n0 v0 w e : WInv w -> touches k0 e = false -> stable_ok k0 n0 v0 w -> stable_ok k0 n0 v0 (wstep a b limit w e).
Proof.
  intros I Ht (Hi & Hs & Hp). destruct e as [k v vis|k|]; cbn [touches] in Ht.
  - apply N.eqb_neq in Ht. cbn [wstep]. destruct (aget k (w_idx w)) as [n|] eqn:G.
    + assert (n <> n0). { intros ->. pose proof (wi_idx w I k n0 G) as A. pose proof (wi_idx w I k0 n0 Hi) as B. congruence. }
      split; cbn; [exact Hi|]. split; [rewrite aget_aset_other by congruence; exact Hs | exact Hp].
    + assert (w_nn w <> n0). { intros E. pose proof (wi_own w I n0 k0 (wi_idx w I k0 n0 Hi)). lia. }
      split; cbn; [rewrite aget_aset_other by congruence; exact Hi|].
      split; [rewrite aget_aset_other by congruence; exact Hs | exact Hp].
  - apply N.eqb_neq in Ht. cbn [wstep]. split; cbn; [rewrite aget_adel_other by congruence; exact Hi|]. split; [exact Hs | exact Hp].
  - cbn [wstep]. pose proof (wi_pos w I) as P. unfold pos_ok in P.
    assert (Hpres : aget k0 (w_idx w) <> None) by congruence.
    destruct (w_pos w) as [|k n|k|] eqn:Hpos.
    + destruct (Nat.eqb limit 0) eqn:L0.
      * split; cbn; [exact Hi|]. split; [exact Hs|]. apply Nat.eqb_eq in L0. intros Hl. lia.
      * split; cbn; [exact Hi|]. split; [exact Hs|].
        destruct (seek_cases (fun k => a <=? k) w) as [[k [n E]]|E]; rewrite E.
        -- destruct (seek_at _ _ _ _ E) as (_ & B & C). split.
           ++ intros Ha Hlt. specialize (C k0 Hpres ltac:(apply N.leb_le; exact Ha)). lia.
           ++ intros ->. congruence.
        -- intros _ Ha _. pose proof (seek_end _ _ E k0 Hpres) as F. cbn in F. apply N.leb_gt in F. lia.
    + destruct Hp as [Hbelow Hnode]. destruct P as (Pa & Po & Pb).
      destruct (Nat.leb limit (length (w_out w)) || (b <? k)) eqn:Hstop.
      * split; cbn; [exact Hi|]. split; [exact Hs|]. intros Hl Ha Hb0.
        apply orb_true_iff in Hstop. destruct Hstop as [H|H]; [apply Nat.leb_le in H; lia|].
        apply N.ltb_lt in H. apply Hbelow; [exact Ha | lia].
      * destruct (N.eq_dec k k0) as [->|Hne].
        -- rewrite (Hnode eq_refl), Hs. cbn. split; cbn; [exact Hi|]. split; [exact Hs|].
           intros _ _. apply in_or_app. right. left. reflexivity.
        -- assert (Hold : a <= k0 -> k0 <= k -> In (k0, v0) (w_out w)) by (intros Ha Hle; apply Hbelow; [exact Ha | lia]).
           destruct (aget n (w_slot w)) as [c|]; [destruct (c_vis c)|]; (split; cbn; [exact Hi|]; split; [exact Hs|]);
             intros Ha Hle; try (apply in_or_app; left); exact (Hold Ha Hle).
    + split; cbn; [exact Hi|]. split; [exact Hs|].
      destruct (seek_cases (fun k' => k <? k') w) as [[k1 [n1 E]]|E]; rewrite E.
      * destruct (seek_at _ _ _ _ E) as (A & B & C). apply N.ltb_lt in A. split.
        -- intros Ha Hlt. apply Hp; [exact Ha|]. destruct (N.le_gt_cases k0 k) as [H|H]; [exact H|].
           specialize (C k0 Hpres ltac:(apply N.ltb_lt; lia)). lia.
        -- intros ->. congruence.
      * intros _ Ha _. apply Hp; [exact Ha|]. pose proof (seek_end _ _ E k0 Hpres) as F. cbn in F. apply N.ltb_ge in F. exact F.
    + split; [exact Hi|]. split; [exact Hs|]. rewrite Hpos. exact Hp.
Qed.

(* MAIN 3: a key inside the bounds that stays linked, untouched and visible from before the scan's
   first step is in the result of the finished scan, with its value -- unless the limit cut the
   scan short -- whatever happens to the other keys meanwhile *)
Theorem stable_key_is_returned pre post k0 n0 v0 :
  forallb (fun e => negb (is_scan e)) pre = true ->
  let w1 := wrun a b limit winit pre in
  aget k0 (w_idx w1) = Some n0 -> aget n0 (w_slot w1) = Some (mkcell v0 true) ->
  forallb (fun e => negb (touches k0 e)) post = true ->
  let w2 := wrun a b limit w1 post in
  w_pos w2 = PEnd -> (length (w_out w2) < limit)%nat -> a <= k0 -> k0 <= b ->
  In (k0, v0) (w_out w2).
Proof.
  intros Hpre w1 Hi Hs Hpost w2 Hend Hl Ha Hb.
  assert (Hbegin : w_pos w1 = PBegin).
  { subst w1. clear -Hpre. unfold wrun. assert (G : forall es w, forallb (fun e => negb (is_scan e)) es = true -> w_pos w = PBegin -> w_pos (fold_left (wstep a b limit) es w) = PBegin).
    { induction es as [|e t IH]; intros w H Hw; [exact Hw|]. cbn in H. apply andb_true_iff in H. destruct H as [He Ht].
      cbn. apply IH; [exact Ht|]. destruct e as [k v vis|k|]; [| |discriminate]; cbn; [destruct (aget k (w_idx w))|]; exact Hw. }
    apply G; [exact Hpre | reflexivity]. }
  assert (S1 : stable_ok k0 n0 v0 w1) by (split; [exact Hi|]; split; [exact Hs|]; rewrite Hbegin; exact Logic.I).
  assert (I1 : WInv w1) by (apply wrun_inv; exact winit_inv).
  assert (G : forall es w, WInv w -> stable_ok k0 n0 v0 w -> forallb (fun e => negb (touches k0 e)) es = true ->
                stable_ok k0 n0 v0 (wrun a b limit w es)).
  { unfold wrun. induction es as [|e t IH]; intros w Iw Sw H; [exact Sw|]. cbn in H. apply andb_true_iff in H. destruct H as [He Ht].
    cbn. apply IH; [apply wstep_inv; exact Iw | apply stable_step; [exact Iw | apply negb_true_iff; exact He | exact Sw] | exact Ht]. }
  destruct (G post w1 I1 S1 Hpost) as (_ & _ & Hp). fold w2 in Hp. rewrite Hend in Hp. exact (Hp Hl Ha Hb).
Qed.

(* MAIN 4: a key that is not linked when the scan starts and is not written while it runs is not
   in the result (in particular a key deleted beforehand) *)
Theorem absent_key_is_not_returned pre post k0 :
  forallb (fun e => negb (is_scan e)) pre = true ->
  let w1 := wrun a b limit winit pre in
  aget k0 (w_idx w1) = None ->
  forallb (fun e => negb (touches k0 e)) post = true ->
  ~ In k0 (keys (w_out (wrun a b limit w1 post))).
Proof.
  intros Hpre w1 Hi Hpost.
  set (ok := fun w : sworld => aget k0 (w_idx w) = None /\ ~ In k0 (keys (w_out w)) /\
                match w_pos w with PAt k _ | PLoaded k => k <> k0 | _ => True end).
  assert (Hstep : forall w e, touches k0 e = false -> ok w -> ok (wstep a b limit w e)).
  { intros w e Ht (A & B & C). destruct e as [k v vis|k|]; cbn [touches] in Ht.
    - apply N.eqb_neq in Ht. cbn [wstep]. destruct (aget k (w_idx w)); (split; cbn; [|split; [exact B | exact C]]); [exact A|].
      rewrite aget_aset_other by congruence. exact A.
    - apply N.eqb_neq in Ht. cbn [wstep]. split; cbn; [|split; [exact B | exact C]]. rewrite aget_adel_other by congruence. exact A.
    - cbn [wstep]. destruct (w_pos w) as [|k n|k|] eqn:Hp.
      + destruct (Nat.eqb limit 0); (split; cbn; [exact A|]; split; [exact B|]); [exact Logic.I|].
        destruct (seek_cases (fun k => a <=? k) w) as [[k [n E]]|E]; rewrite E; [|exact Logic.I].
        destruct (seek_at _ _ _ _ E) as (_ & G & _). intros ->. congruence.
      + destruct (Nat.leb limit (length (w_out w)) || (b <? k)); [split; cbn; [exact A|]; split; [exact B | exact Logic.I]|].
        destruct (aget n (w_slot w)) as [c|]; [destruct (c_vis c)|]; (split; cbn; [exact A|]; split; [|exact C]); try exact B.
        unfold keys; cbn; rewrite map_app. intros H. apply in_app_or in H. destruct H as [H|H]; [exact (B H) | cbn in H; destruct H as [H|[]]; exact (C H)].
      + split; cbn; [exact A|]. split; [exact B|].
        destruct (seek_cases (fun k' => k <? k') w) as [[k1 [n1 E]]|E]; rewrite E; [|exact Logic.I].
        destruct (seek_at _ _ _ _ E) as (_ & G & _). intros ->. congruence.
      + split; [exact A|]. split; [exact B|]. rewrite Hp. exact Logic.I. }
  assert (Hb : w_pos w1 = PBegin /\ w_out w1 = []).
  { subst w1. clear -Hpre. unfold wrun. assert (G : forall es w, forallb (fun e => negb (is_scan e)) es = true -> w_pos w = PBegin /\ w_out w = [] ->
        w_pos (fold_left (wstep a b limit) es w) = PBegin /\ w_out (fold_left (wstep a b limit) es w) = []).
    { induction es as [|e t IH]; intros w H Hw; [exact Hw|]. cbn in H. apply andb_true_iff in H. destruct H as [He Ht].
      cbn. apply IH; [exact Ht|]. destruct e as [k v vis|k|]; [| |discriminate]; cbn; [destruct (aget k (w_idx w))|]; exact Hw. }
    apply G; [exact Hpre | split; reflexivity]. }
  assert (O1 : ok w1). { destruct Hb as [P O]. split; [exact Hi|]. split; [rewrite O; intros []|]. rewrite P. exact Logic.I. }
  assert (G : forall es w, ok w -> forallb (fun e => negb (touches k0 e)) es = true -> ok (wrun a b limit w es)).
  { unfold wrun. induction es as [|e t IH]; intros w Ow H; [exact Ow|]. cbn in H. apply andb_true_iff in H. destruct H as [He Ht].
    cbn. apply IH; [apply Hstep; [apply negb_true_iff; exact He | exact Ow] | exact Ht]. }
  exact (proj1 (proj2 (G post w1 O1 Hpost))).
Qed.

End Bounds.
