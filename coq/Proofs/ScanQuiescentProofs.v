(* The scan over any quiescent data area (C10 ii, C05 from the reader's side): live records with
   pairwise distinct keys, completed retirement-marker runs and free blocks in any order.  The scan
   ends without error, indexes exactly the records, and the free-space manager it builds holds
   exactly the blocks no record extent covers (up to the end of the last record; open_image releases
   the tail behind it). *)
From Coq Require Import List NArith Bool Lia Arith.
From Feox Require Import Gen.Constants Model.Bytes Model.Crc32c Model.Codec Proofs.CodecProofs
                         Model.FreeSpace Proofs.FreeSpaceProofs Model.MetaJournal Model.Recovery Proofs.ScanAcceptsProofs.
Import ListNotations.
Local Open Scope N_scope.
Local Transparent FEOX_BLOCK_SIZE FEOX_DATA_START_BLOCK.

Inductive item := IRec (r : rec) | IMark (n : N) | IFree.

Definition isize (version : N) (it : item) : N :=
  match it with IRec r => need_of version r | IMark n => n | IFree => 1 end.

Definition iblocks (version sector : N) (it : item) : image :=
  match it with
  | IRec r => chunk_blocks (encode_extent version sector r) (N.to_nat (need_of version r))
  | IMark n => marker_run sector n (N.to_nat n)
  | IFree => [zeros BLOCK]
  end.

Fixpoint ilayout (version sector : N) (its : list item) : image :=
  match its with
  | [] => []
  | it :: t => iblocks version sector it ++ ilayout version (sector + isize version it) t
  end.

Fixpoint isum (version : N) (its : list item) : N :=
  match its with [] => 0 | it :: t => isize version it + isum version t end.

Fixpoint recs_of (its : list item) : list rec :=
  match its with [] => [] | IRec r :: t => r :: recs_of t | _ :: t => recs_of t end.

Definition item_ok (version : N) (it : item) : Prop :=
  match it with IRec r => rec_ok version r | IMark n => 0 < n | IFree => True end.

(* block b lies in the extent of a record of the layout *)
Fixpoint covered (version sector : N) (its : list item) (b : N) : Prop :=
  match its with
  | [] => False
  | it :: t =>
      (match it with IRec r => sector <= b < sector + need_of version r | _ => False end)
      \/ covered version (sector + isize version it) t b
  end.

Lemma covered_ge version its : forall sector b, covered version sector its b -> sector <= b.
Proof.
  induction its as [|it t IH]; intros sector b H; [destruct H|]. cbn [covered] in H. destruct H as [H|H].
  - destruct it; try contradiction. lia.
  - specialize (IH _ _ H). lia.
Qed.

Lemma iblocks_length version sector it : item_ok version it -> length (iblocks version sector it) = N.to_nat (isize version it).
Proof.
  destruct it as [r|n|]; intros H; cbn [iblocks isize].
  - apply chunk_blocks_length.
  - apply marker_run_length.
  - reflexivity.
Qed.

Lemma isize_pos version it : item_ok version it -> 0 < isize version it.
Proof. destruct it as [r|n|]; cbn; intros H; [apply need_of_pos; exact H|exact H|lia]. Qed.

Record SInv (total sector : N) (st : rstate) : Prop := {
  si_inv : Inv (rs_fs st);
  si_dev : dev_sectors (rs_fs st) = total;
  si_lo : DS <= rs_last_end st;
  si_hi : rs_last_end st <= sector;
  si_free : forall b, free (rs_fs st) b -> b < rs_last_end st
}.

(* the release of the gap in front of a record *)
Lemma gap_release total sector st : SInv total sector st -> sector <= total ->
  exists st4,
    (if rs_last_end st <? sector then fs_release st (rs_last_end st) (sector - rs_last_end st) else Ok st) = Ok st4 /\
    rs_idx st4 = rs_idx st /\ rs_count st4 = rs_count st /\ rs_retired st4 = rs_retired st /\
    Inv (rs_fs st4) /\ dev_sectors (rs_fs st4) = total /\
    (forall b, free (rs_fs st4) b <-> free (rs_fs st) b \/ rs_last_end st <= b < sector).
Proof.
  intros [I D Lo Hi Fr] Ht. destruct (N.ltb_spec (rs_last_end st) sector) as [Hlt|Hge].
  - unfold fs_release.
    destruct (release_cases (rs_last_end st) (sector - rs_last_end st) (rs_fs st) I) as [(e & E & No)|(s' & E & Okk & (I' & D' & F'))].
    + exfalso. apply No. unfold release_ok. repeat split; try lia.
      intros b Hb Hf. specialize (Fr b Hf). lia.
    + rewrite E. eexists. split; [reflexivity|]. cbn [rs_idx rs_count rs_retired rs_fs].
      split; [reflexivity|]. split; [reflexivity|]. split; [reflexivity|]. split; [exact I'|].
      split; [unfold dev_sectors in *; rewrite D'; exact D|].
      intros b. rewrite F'. split; (intros [H|H]; [left; exact H|right; lia]).
  - exists st. split; [reflexivity|]. split; [reflexivity|]. split; [reflexivity|]. split; [reflexivity|].
    split; [exact I|]. split; [exact D|]. intros b. split; [intros H; left; exact H|intros [H|H]; [exact H|lia]].
Qed.

Section Scan.
Variable c : rcfg.
Variable version total : N.
Variable jl : list (N * N).
Variable img : image.
Hypothesis Hmode : c_ro c = false \/ jl = [].
Hypothesis Htok : has_token version = true.
Hypothesis Hmax : total <= U64MAX.

Definition entry_of (r : rec) (s : N) : entry :=
  mkentry (r_key r) (r_ts r) (if has_expiry version then r_exp r else 0) (N.of_nat (length (r_value r))) s.

Theorem scan_reads_a_quiescent_data_area : forall its fuel sector st,
  Forall (item_ok version) its -> distinct_keys (recs_of its) ->
  (forall r, In r (recs_of its) -> idx_find (r_key r) (rs_idx st) = None) ->
  SInv total sector st ->
  skipn (N.to_nat sector) img = ilayout version sector its ->
  total = sector + isum version its ->
  (length its < fuel)%nat ->
  exists st',
    scan fuel c version total img sector st jl = Ok st' /\
    SInv total total st' /\ rs_last_end st <= rs_last_end st' /\
    (forall r, In r (recs_of its) -> exists s, idx_find (r_key r) (rs_idx st') = Some (entry_of r s)) /\
    (forall k e, idx_find k (rs_idx st) = Some e -> (forall r, In r (recs_of its) -> list_eqb (r_key r) k = false) ->
                 idx_find k (rs_idx st') = Some e) /\
    rs_count st' = rs_count st + N.of_nat (length (recs_of its)) /\
    rs_retired st' = rs_retired st /\
    (forall b, free (rs_fs st') b <->
               free (rs_fs st) b \/ (rs_last_end st <= b < rs_last_end st' /\ ~ covered version sector its b)) /\
    (forall b, rs_last_end st' <= b -> ~ covered version sector its b).
Proof.
  induction its as [|it t IH]; intros fuel sector st Hok Hd Hfresh SI Himg Htot Hfuel.
  - cbn [isum] in Htot. exists st.
    assert (Sc : scan fuel c version total img sector st jl = Ok st)
      by (destruct fuel; cbn [scan]; destruct (N.leb_spec total sector); try lia; reflexivity).
    split; [exact Sc|]. split; [destruct SI; constructor; try assumption; lia|].
    split; [lia|]. split; [intros r []|]. split; [intros k e Hk _; exact Hk|]. split; [cbn; lia|].
    split; [reflexivity|]. split.
    + intros b. split; [intros Hb; left; exact Hb|intros [Hb|[Hb _]]; [exact Hb|lia]].
    + intros b _ [].
  - pose proof (Forall_inv Hok) as Hit. pose proof (Forall_inv_tail Hok) as Ht.
    pose proof (isize_pos version it Hit) as SP.
    cbn [isum] in Htot. destruct fuel as [|f]; [cbn in Hfuel; lia|]. cbn [scan].
    destruct (N.leb_spec total sector); [lia|]. rewrite Himg. cbn [ilayout].
    assert (Hskip : skipn (N.to_nat (sector + isize version it)) img = ilayout version (sector + isize version it) t).
    { replace (N.to_nat (sector + isize version it)) with (N.to_nat sector + N.to_nat (isize version it))%nat by lia.
      rewrite skipn_add, Himg. cbn [ilayout]. rewrite skipn_app, iblocks_length, Nat.sub_diag by exact Hit. cbn [skipn].
      rewrite skipn_all2 by (rewrite iblocks_length by exact Hit; lia). reflexivity. }
    assert (Hf' : (length t < f)%nat) by (cbn [length] in Hfuel; lia).
    destruct it as [r|n|].
    + (* a record *)
      cbn [recs_of] in Hd, Hfresh. destruct Hd as [Hd1 Hd2]. cbn [isize] in *.
      destruct (gap_release total sector st SI ltac:(lia)) as (st4 & G & Gi & Gc & Gr & GI & GD & GF).
      destruct Hit as (K0 & Kmax & Hf & V0 & Vmax & Ts & Ex).
      assert (Hin : sector + extent_blocks version (N.of_nat (length (r_key r))) (N.of_nat (length (r_value r))) <= total).
      { fold (need_of version r). lia. }
      cbn [iblocks].
      rewrite (scan_step_accepts_encoded_record version sector r K0 Hf V0 Vmax Ts Ex c total st jl _ Kmax Hin st4 Hmode
                 (Hfresh r (or_introl eq_refl)) G).
      cbn [bind]. fold (need_of version r). destruct (N.leb_spec (sector + need_of version r) sector); [lia|].
      set (st1 := mkrs (idx_upsert (mkentry (r_key r) (r_ts r) (if has_expiry version then r_exp r else 0) (N.of_nat (length (r_value r))) sector) (rs_idx st4))
                       (rs_fs st4) (rs_count st4 + 1)
                       (wrap64 (rs_mem st4 + record_size c (N.of_nat (length (r_key r))) (N.of_nat (length (r_value r)))))
                       (wrap64 (rs_disk st4 + need_of version r * FEOX_BLOCK_SIZE)) (rs_retired st4) (sector + need_of version r) (rs_ambiguous st4)).
      assert (SI1 : SInv total (sector + need_of version r) st1).
      { destruct SI as [I D Lo Hi Fr]. constructor; cbn [st1 rs_fs rs_last_end]; try assumption; try lia.
        intros b Hb. apply GF in Hb. destruct Hb as [Hb|Hb]; [specialize (Fr b Hb); lia|lia]. }
      assert (Hfresh1 : forall r', In r' (recs_of t) -> idx_find (r_key r') (rs_idx st1) = None).
      { intros r' Hr'. cbn [st1 rs_idx]. rewrite idx_find_upsert_other; [rewrite Gi; apply Hfresh; right; exact Hr'|].
        cbn [e_key]. apply Hd1. exact Hr'. }
      destruct (IH f (sector + need_of version r) st1 Ht Hd2 Hfresh1 SI1 Hskip ltac:(lia) Hf')
        as (st' & Sc & SI' & Mono & Found & Kept & Cnt & Ret & Fr' & Beyond).
      cbn [st1 rs_last_end rs_count rs_retired rs_fs rs_idx] in Mono, Cnt, Ret, Fr', Kept.
      exists st'. split; [exact Sc|]. split; [exact SI'|]. destruct SI as [I D Lo Hi Fr].
      split; [lia|]. split.
      * intros r' [<-|Hr'].
        -- exists sector. apply Kept.
           ++ change (r_key r) with (e_key (mkentry (r_key r) (r_ts r) (if has_expiry version then r_exp r else 0) (N.of_nat (length (r_value r))) sector)) at 1.
              apply idx_find_upsert_same.
           ++ intros r' Hr'. rewrite list_eqb_sym. apply Hd1. exact Hr'.
        -- apply Found. exact Hr'.
      * split.
        -- intros k e Hk Hn. apply Kept.
           ++ rewrite idx_find_upsert_other; [rewrite Gi; exact Hk|]. cbn [e_key]. apply Hn. left. reflexivity.
           ++ intros r' Hr'. apply Hn. right. exact Hr'.
        -- split; [cbn [recs_of length]; rewrite Cnt, Gc; lia|]. split; [rewrite Ret; exact Gr|]. split.
           ++ intros b. rewrite Fr'. rewrite GF. cbn [covered]. split.
              ** intros [[Hx|Hx]|[Hx1 Hx2]].
                 --- left. exact Hx.
                 --- right. split; [lia|]. intros [Hc|Hc]; [lia|]. apply covered_ge in Hc. lia.
                 --- right. split; [lia|]. intros [Hc|Hc]; [lia|contradiction].
              ** intros [Hx|[H1 H2]]; [left; left; exact Hx|].
                 destruct (N.lt_ge_cases b sector) as [Hb|Hb]; [left; right; lia|].
                 destruct (N.lt_ge_cases b (sector + need_of version r)) as [Hb2|Hb2]; [exfalso; apply H2; left; lia|].
                 right. split; [lia|]. intros Hc. apply H2. right. exact Hc.
           ++ intros b Hb [Hc|Hc]; [lia|]. exact (Beyond b Hb Hc).
    + (* a completed marker run *)
      cbn [recs_of isize iblocks] in *.
      rewrite (scan_step_skips_a_complete_marker_run c version total sector n st jl _ Hmode Htok Hit ltac:(lia) Hmax).
      cbn [bind]. destruct (N.leb_spec (sector + n) sector); [lia|].
      assert (SI1 : SInv total (sector + n) st) by (destruct SI; constructor; try assumption; lia).
      destruct (IH f (sector + n) st Ht Hd Hfresh SI1 Hskip ltac:(lia) Hf')
        as (st' & Sc & SI' & Mono & Found & Kept & Cnt & Ret & Fr' & Beyond).
      exists st'. repeat (split; [assumption|]). split.
      * intros b. rewrite Fr'. cbn [covered]. tauto.
      * intros b Hb [[]|Hc]. exact (Beyond b Hb Hc).
    + (* a free block *)
      cbn [recs_of isize iblocks] in *. cbn [app].
      rewrite (scan_step_skips_a_zero_block c version total sector st jl _ Hmode).
      cbn [bind]. destruct (N.leb_spec (sector + 1) sector); [lia|].
      assert (SI1 : SInv total (sector + 1) st) by (destruct SI; constructor; try assumption; lia).
      destruct (IH f (sector + 1) st Ht Hd Hfresh SI1 Hskip ltac:(lia) Hf')
        as (st' & Sc & SI' & Mono & Found & Kept & Cnt & Ret & Fr' & Beyond).
      exists st'. repeat (split; [assumption|]). split.
      * intros b. rewrite Fr'. cbn [covered]. tauto.
      * intros b Hb [[]|Hc]. exact (Beyond b Hb Hc).
Qed.

(* from the state open_image starts the scan with, and with the release of the tail it does after
   the scan: every block of the data area is free exactly when no record's extent covers it *)
Theorem quiescent_data_area_is_partitioned its st0 fuel :
  (length its < fuel)%nat ->
  rs_fs st0 = mkfs [] (total * FEOX_BLOCK_SIZE) 0 0 -> rs_last_end st0 = FEOX_DATA_START_BLOCK -> rs_idx st0 = [] ->
  total * FEOX_BLOCK_SIZE < U64 ->
  Forall (item_ok version) its -> distinct_keys (recs_of its) ->
  skipn (N.to_nat FEOX_DATA_START_BLOCK) img = ilayout version FEOX_DATA_START_BLOCK its ->
  total = FEOX_DATA_START_BLOCK + isum version its -> 0 < isum version its ->
  exists st' st'',
    scan fuel c version total img FEOX_DATA_START_BLOCK st0 jl = Ok st' /\
    (if rs_last_end st' <? total then fs_release st' (rs_last_end st') (total - rs_last_end st') else Ok st') = Ok st'' /\
    (forall r, In r (recs_of its) -> exists s, idx_find (r_key r) (rs_idx st'') = Some (entry_of r s)) /\
    rs_count st'' = rs_count st0 + N.of_nat (length (recs_of its)) /\
    rs_retired st' = rs_retired st0 /\ rs_retired st'' = rs_retired st0 /\
    (forall b, FEOX_DATA_START_BLOCK <= b < total ->
               (free (rs_fs st'') b <-> ~ covered version FEOX_DATA_START_BLOCK its b)).
Proof.
  intros Hfuel Hfs Hle Hidx Hu Hok Hd Himg Htot Hpos.
  assert (SI0 : SInv total FEOX_DATA_START_BLOCK st0).
  { constructor.
    - rewrite Hfs. constructor; cbn.
      + unfold dev_sectors. cbn. rewrite N.div_mul by (unfold FEOX_BLOCK_SIZE; lia). lia.
      + exact Hu.
      + exact I.
      + reflexivity.
      + reflexivity.
    - rewrite Hfs. unfold dev_sectors. cbn. apply N.div_mul. unfold FEOX_BLOCK_SIZE. lia.
    - rewrite Hle. lia.
    - rewrite Hle. lia.
    - rewrite Hfs. intros b Hb. exfalso. exact (freel_nil b Hb). }
  assert (Hfresh : forall r, In r (recs_of its) -> idx_find (r_key r) (rs_idx st0) = None) by (intros r _; rewrite Hidx; reflexivity).
  destruct (scan_reads_a_quiescent_data_area its fuel FEOX_DATA_START_BLOCK st0 Hok Hd Hfresh SI0 Himg Htot Hfuel)
    as (st' & Sc & SI' & Mono & Found & _ & Cnt & Ret & Fr' & Beyond).
  destruct (gap_release total total st' SI' (N.le_refl _)) as (st'' & G & Gi & Gc & Gr & _ & _ & GF).
  exists st', st''. split; [exact Sc|]. split; [exact G|]. split; [intros r Hr; rewrite Gi; exact (Found r Hr)|].
  split; [rewrite Gc; exact Cnt|]. split; [exact Ret|]. split; [rewrite Gr; exact Ret|].
  intros b Hb. rewrite GF, Fr'. rewrite Hle in *. split.
  - intros [[Hf|[_ Hn]]|Hx]; [rewrite Hfs in Hf; exfalso; exact (freel_nil b Hf)|exact Hn|apply Beyond; lia].
  - intros Hn. destruct (N.lt_ge_cases b (rs_last_end st')) as [Hlt|Hge]; [left; right; split; [lia|exact Hn]|right; lia].
Qed.

End Scan.

(* ---- the whole file ---- *)
Lemma ilayout_length version its : forall sector, Forall (item_ok version) its ->
  length (ilayout version sector its) = N.to_nat (isum version its).
Proof.
  induction its as [|it t IH]; intros sector H; [reflexivity|]. cbn [ilayout isum].
  rewrite app_length, iblocks_length by exact (Forall_inv H). rewrite IH by exact (Forall_inv_tail H). lia.
Qed.

Lemma items_le_blocks version its : Forall (item_ok version) its -> (length its <= N.to_nat (isum version its))%nat.
Proof.
  induction its as [|it t IH]; intros H; [cbn; lia|]. cbn [length isum].
  pose proof (isize_pos version it (Forall_inv H)). specialize (IH (Forall_inv_tail H)). lia.
Qed.

(* open_image (read-write, TTL off) on a file whose selected metadata copy decodes to a version-3
   metadata, whose journal decodes to "clear", and whose data area is a quiescent layout: it opens,
   leaves the file as it is, and reports exactly the records and the partition *)
Theorem open_reads_a_quiescent_file_in_either_mode c img m jgen jslot its :
  c_now c = None ->
  (17 <= length img)%nat ->
  let total := N.of_nat (length img) in
  let mb := if select_meta (nth_block img 0) (nth_block img (N.to_nat FEOX_METADATA_BACKUP_BLOCK))
            then nth_block img (N.to_nat FEOX_METADATA_BACKUP_BLOCK) else nth_block img 0 in
  list_eqb (firstn 8 mb) SIGNATURE = true -> decode_meta mb = Some m -> has_token (m_version m) = true ->
  decode_journal (slot_bytes img 0) (slot_bytes img 1) total = Some (jgen, jslot, []) ->
  total * FEOX_BLOCK_SIZE < U64 ->
  Forall (item_ok (m_version m)) its -> distinct_keys (recs_of its) ->
  skipn (N.to_nat FEOX_DATA_START_BLOCK) img = ilayout (m_version m) FEOX_DATA_START_BLOCK its ->
  exists o,
    open_image c img = (Ok o, img) /\
    o_version o = m_version m /\ o_img o = img /\
    (forall r, In r (recs_of its) -> exists s, idx_find (r_key r) (o_idx o) = Some (entry_of (m_version m) r s)) /\
    o_count o = N.of_nat (length (recs_of its)) /\
    (forall b, FEOX_DATA_START_BLOCK <= b < total ->
               (free (o_fs o) b <-> ~ covered (m_version m) FEOX_DATA_START_BLOCK its b)).
Proof.
  intros Hnow Hlen total mb Hsig Hdec Htok Hj Hu Hok Hd Himg.
  assert (Hlay : length (ilayout (m_version m) FEOX_DATA_START_BLOCK its) = N.to_nat (isum (m_version m) its)) by (apply ilayout_length; exact Hok).
  assert (Htot : total = FEOX_DATA_START_BLOCK + isum (m_version m) its).
  { pose proof (f_equal (@length block) Himg) as L. rewrite skipn_length, Hlay in L. unfold total. unfold FEOX_DATA_START_BLOCK in *. lia. }
  assert (Hpos : 0 < isum (m_version m) its) by (unfold total, FEOX_DATA_START_BLOCK in Htot; lia).
  assert (Hmax : total <= U64MAX) by (unfold U64, U64MAX, FEOX_BLOCK_SIZE in *; lia).
  assert (Hfuel : (length its < S (length img))%nat).
  { pose proof (items_le_blocks _ _ Hok). unfold total, FEOX_DATA_START_BLOCK in Htot. lia. }
  set (st0 := mkrs [] (mkfs [] (total * FEOX_BLOCK_SIZE) 0 0) 0 0 0 [] FEOX_DATA_START_BLOCK 0).
  destruct (quiescent_data_area_is_partitioned c (m_version m) total [] img (or_intror eq_refl) Htok Hmax its st0 (S (length img)) Hfuel
              eq_refl eq_refl eq_refl Hu Hok Hd Himg Htot Hpos)
    as (st' & st'' & Sc & Rel & Found & Cnt & Ret' & Ret & Part).
  unfold open_image. fold total.
  destruct (Nat.ltb_spec (length img) 17); [lia|].
  fold mb. rewrite Hsig. cbn [negb]. rewrite Hdec, Hj.
  assert (JL : (if c_ro c then sort_by_start [] else []) = ([] : list (N * N))) by (destruct (c_ro c); reflexivity).
  destruct (c_ro c) eqn:RO; cbn [replay sort_by_start fold_right];
    fold st0; rewrite Sc; cbn [bind]; rewrite Hnow; cbn [bind];
    cbn [st0 rs_retired] in Ret'; try rewrite Ret'; cbn [length retire_two Nat.sub skipn firstn retire_extents negb];
    rewrite Rel;
    (eexists; split; [reflexivity|]; cbn [o_version o_img o_idx o_count o_fs];
     split; [reflexivity|]; split; [reflexivity|]; split; [exact Found|]; split; [rewrite Cnt; reflexivity|exact Part]).
Qed.

Theorem open_reads_a_quiescent_file c img m jgen jslot its :
  c_ro c = false -> c_now c = None ->
  (17 <= length img)%nat ->
  let total := N.of_nat (length img) in
  let mb := if select_meta (nth_block img 0) (nth_block img (N.to_nat FEOX_METADATA_BACKUP_BLOCK))
            then nth_block img (N.to_nat FEOX_METADATA_BACKUP_BLOCK) else nth_block img 0 in
  list_eqb (firstn 8 mb) SIGNATURE = true -> decode_meta mb = Some m -> has_token (m_version m) = true ->
  decode_journal (slot_bytes img 0) (slot_bytes img 1) total = Some (jgen, jslot, []) ->
  total * FEOX_BLOCK_SIZE < U64 ->
  Forall (item_ok (m_version m)) its -> distinct_keys (recs_of its) ->
  skipn (N.to_nat FEOX_DATA_START_BLOCK) img = ilayout (m_version m) FEOX_DATA_START_BLOCK its ->
  exists o,
    open_image c img = (Ok o, img) /\
    o_version o = m_version m /\ o_img o = img /\
    (forall r, In r (recs_of its) -> exists s, idx_find (r_key r) (o_idx o) = Some (entry_of (m_version m) r s)) /\
    o_count o = N.of_nat (length (recs_of its)) /\
    (forall b, FEOX_DATA_START_BLOCK <= b < total ->
               (free (o_fs o) b <-> ~ covered (m_version m) FEOX_DATA_START_BLOCK its b)).
Proof. intros _. apply open_reads_a_quiescent_file_in_either_mode. Qed.

(* C04 on files at rest: the open leaves the bytes alone, so opening again -- any number of times --
   gives the same answer *)
Fixpoint reopen (c : rcfg) (n : nat) (img : image) : res opened * image :=
  match n with
  | O => open_image c img
  | S k => reopen c k (snd (open_image c img))
  end.

Theorem reopening_a_quiescent_file_changes_nothing c img m jgen jslot its n :
  c_ro c = false -> c_now c = None ->
  (17 <= length img)%nat ->
  let total := N.of_nat (length img) in
  let mb := if select_meta (nth_block img 0) (nth_block img (N.to_nat FEOX_METADATA_BACKUP_BLOCK))
            then nth_block img (N.to_nat FEOX_METADATA_BACKUP_BLOCK) else nth_block img 0 in
  list_eqb (firstn 8 mb) SIGNATURE = true -> decode_meta mb = Some m -> has_token (m_version m) = true ->
  decode_journal (slot_bytes img 0) (slot_bytes img 1) total = Some (jgen, jslot, []) ->
  total * FEOX_BLOCK_SIZE < U64 ->
  Forall (item_ok (m_version m)) its -> distinct_keys (recs_of its) ->
  skipn (N.to_nat FEOX_DATA_START_BLOCK) img = ilayout (m_version m) FEOX_DATA_START_BLOCK its ->
  reopen c n img = open_image c img /\ snd (open_image c img) = img.
Proof.
  intros Hrw Hnow Hlen total mb Hsig Hdec Htok Hj Hu Hok Hd Himg.
  destruct (open_reads_a_quiescent_file c img m jgen jslot its Hrw Hnow Hlen Hsig Hdec Htok Hj Hu Hok Hd Himg) as (o & E & _).
  assert (S : snd (open_image c img) = img) by (rewrite E; reflexivity).
  split; [|exact S]. induction n as [|k IH]; [reflexivity|]. cbn [reopen]. rewrite S. exact IH.
Qed.
