(* Proofs about Model/Cache.v: the reported memory is the total size of the held entries after
   every operation sequence; one entry per key; an explicit remove is never followed by a hit. *)
From Coq Require Import List NArith Bool Lia.
From Feox Require Import Gen.Constants Model.Bytes Model.Cache.
Import ListNotations.
Local Open Scope N_scope.

Arguments N.add : simpl never.
Arguments N.sub : simpl never.
Arguments N.mul : simpl never.
Arguments N.ltb : simpl never.
Arguments N.leb : simpl never.
Arguments N.eqb : simpl never.

Fixpoint bsum (b : list centry) : N := match b with [] => 0 | e :: t => ce_size e + bsum t end.
Fixpoint total (l : list (N * list centry)) : N := match l with [] => 0 | (_, b) :: t => bsum b + total t end.

Fixpoint sorted_idx (l : list (N * list centry)) : Prop :=
  match l with
  | [] => True
  | (i, _) :: t => (forall j b, In (j, b) t -> i < j) /\ sorted_idx t
  end.

Fixpoint keys_unique (b : list centry) : Prop :=
  match b with
  | [] => True
  | e :: t => (forall e', In e' t -> list_eqb (ce_key e') (ce_key e) = false) /\ keys_unique t
  end.

Record CInv (c : cache) : Prop := {
  ci_sorted : sorted_idx (buckets c);
  ci_mem : cmem c = total (buckets c);
  ci_unique : forall i b, In (i, b) (buckets c) -> keys_unique b
}.

Lemma list_eqb_refl l : list_eqb l l = true.
Proof. induction l; simpl; auto. rewrite N.eqb_refl. auto. Qed.

Lemma list_eqb_eq a : forall b, list_eqb a b = true <-> a = b.
Proof.
  induction a as [|x a IH]; intros [|y b]; simpl; split; try discriminate; auto.
  - rewrite andb_true_iff, N.eqb_eq, IH. intros [-> ->]; auto.
  - intros [= -> ->]. rewrite N.eqb_refl, (proj2 (IH b)); auto.
Qed.

(* ---- bget / bset on sorted bucket lists ---- *)
Lemma bget_In i l b : sorted_idx l -> In (i, b) l -> bget i l = b.
Proof.
  induction l as [|[j x] t IH]; simpl; [tauto|]. intros (Hlt & Hs) [[= -> ->]|Hin].
  - rewrite N.eqb_refl. reflexivity.
  - specialize (Hlt _ _ Hin). destruct (N.eqb_spec j i); [lia|]. destruct (N.ltb_spec i j); [lia|auto].
Qed.

Lemma bget_unique i l : sorted_idx l -> (forall j b, In (j, b) l -> keys_unique b) -> keys_unique (bget i l).
Proof.
  induction l as [|[j x] t IH]; simpl; intros Hs Hu; [exact I|].
  destruct Hs as (Hlt & Hs). destruct (j =? i); [eapply Hu; left; eauto|].
  destruct (i <? j); [exact I|]. apply IH; auto. intros; eapply Hu; right; eauto.
Qed.

Lemma total_bset i b l : sorted_idx l -> total (bset i b l) + bsum (bget i l) = total l + bsum b.
Proof.
  induction l as [|[j x] t IH]; simpl; intros Hs.
  - destruct b; simpl; lia.
  - destruct Hs as (Hlt & Hs). destruct (N.eqb_spec j i) as [->|NE].
    + destruct b; simpl; lia.
    + destruct (N.ltb_spec i j).
      * destruct b; simpl; lia.
      * simpl. specialize (IH Hs). lia.
Qed.

Lemma In_bset i b l j x : sorted_idx l -> In (j, x) (bset i b l) ->
  (j = i /\ x = b /\ b <> []) \/ (j <> i /\ In (j, x) l).
Proof.
  induction l as [|[k y] t IH]; simpl; intros Hs Hin.
  - destruct b; simpl in Hin; [tauto|]. destruct Hin as [[= <- <-]|[]]. left. repeat split; auto; discriminate.
  - destruct Hs as (Hlt & Hs). destruct (N.eqb_spec k i) as [->|NE].
    + destruct b.
      * right. pose proof (Hlt _ _ Hin). split; [lia|right; auto].
      * destruct Hin as [[= <- <-]|Hin]; [left; repeat split; auto; discriminate|].
        right. pose proof (Hlt _ _ Hin). split; [lia|right; auto].
    + destruct (N.ltb_spec i k).
      * destruct b.
        -- destruct Hin as [[= <- <-]|Hin]; right; [split; [auto|left; auto]|].
           pose proof (Hlt _ _ Hin). split; [lia|right; auto].
        -- destruct Hin as [[= <- <-]|[[= <- <-]|Hin]].
           ++ left. repeat split; auto; discriminate.
           ++ right. split; [auto|left; auto].
           ++ right. pose proof (Hlt _ _ Hin). split; [lia|right; auto].
      * destruct Hin as [[= <- <-]|Hin]; [right; split; [auto|left; auto]|].
        destruct (IH Hs Hin) as [H'|(H1 & H2)]; [left; auto|right; split; [auto|right; auto]].
Qed.

Lemma bget_above j l : (forall k b, In (k, b) l -> j < k) -> bget j l = [].
Proof.
  destruct l as [|[k y] t]; simpl; auto. intros H. specialize (H k y (or_introl eq_refl)).
  destruct (N.eqb_spec k j); [lia|]. destruct (N.ltb_spec j k); [auto|lia].
Qed.

Lemma bget_bset_other i j b l : sorted_idx l -> i <> j -> bget j (bset i b l) = bget j l.
Proof.
  induction l as [|[k y] t IH]; simpl; intros Hs NE.
  - destruct b; simpl; auto. destruct (N.eqb_spec i j); [congruence|]. destruct (j <? i); auto.
  - destruct Hs as (Hlt & Hs). destruct (N.eqb_spec k i) as [->|NK].
    + (* the bucket i itself is replaced / dropped *)
      destruct (N.eqb_spec i j); [congruence|].
      destruct b as [|e b].
      * destruct (N.ltb_spec j i).
        -- apply bget_above. intros k b Hin. specialize (Hlt _ _ Hin). lia.
        -- reflexivity.
      * simpl. destruct (N.eqb_spec i j); [congruence|]. reflexivity.
    + destruct (N.ltb_spec i k).
      * destruct b as [|e b]; simpl; auto.
        destruct (N.eqb_spec i j); [congruence|].
        destruct (N.ltb_spec j i).
        -- destruct (N.eqb_spec k j); [lia|]. destruct (N.ltb_spec j k); [auto|lia].
        -- reflexivity.
      * simpl. destruct (k =? j); auto. destruct (j <? k); auto.
Qed.

Lemma sorted_bset i b l : sorted_idx l -> sorted_idx (bset i b l).
Proof.
  induction l as [|[k y] t IH]; simpl; intros Hs.
  - destruct b; simpl; auto. split; auto. intros ? ? [].
  - destruct Hs as (Hlt & Hs). destruct (N.eqb_spec k i) as [->|NE].
    + destruct b; simpl; auto.
    + destruct (N.ltb_spec i k).
      * destruct b; simpl; auto. split; [|split; auto].
        intros j x [[= <- <-]|Hin]; auto. specialize (Hlt _ _ Hin). lia.
      * simpl. split; auto. intros j x Hin.
        destruct (In_bset _ _ _ _ _ Hs Hin) as [(-> & _)|(_ & Hin')]; [lia|eauto].
Qed.

(* ---- bucket-level operations ---- *)
Lemma find_entry_In k b e : find_entry k b = Some e -> In e b /\ list_eqb (ce_key e) k = true.
Proof.
  induction b as [|x t IH]; simpl; [discriminate|].
  destruct (list_eqb (ce_key x) k) eqn:E; [intros [= <-]; auto|intros H; destruct (IH H); auto].
Qed.

Lemma bsum_touch k b : bsum (touch k b) = bsum b.
Proof. induction b as [|x t IH]; simpl; auto. destruct (list_eqb _ _); simpl; lia. Qed.

Lemma unique_touch k b : keys_unique b -> keys_unique (touch k b).
Proof.
  induction b as [|x t IH]; simpl; auto. intros (H1 & H2).
  destruct (list_eqb (ce_key x) k); simpl; auto. split; auto.
  intros e' Hin.
  assert (G : forall l, In e' (touch k l) -> exists e0, In e0 l /\ ce_key e0 = ce_key e').
  { clear. induction l as [|y l IH]; simpl; [tauto|]. destruct (list_eqb (ce_key y) k).
    - intros [<-|H]; [exists y; simpl; auto|exists e'; auto].
    - intros [<-|H]; [exists y; auto|]. destruct (IH H) as (e0 & A & B). exists e0; auto. }
  destruct (G _ Hin) as (e0 & A & B). rewrite <- B. auto.
Qed.

Lemma bsum_remove k b e : find_entry k b = Some e -> bsum (remove_entry k b) + ce_size e = bsum b.
Proof.
  induction b as [|x t IH]; simpl; [discriminate|].
  destruct (list_eqb (ce_key x) k); [intros [= <-]; lia|]. intros H. simpl. specialize (IH H). lia.
Qed.

Lemma In_remove_entry k b e' : In e' (remove_entry k b) -> In e' b.
Proof. induction b as [|x t IH]; simpl; auto. destruct (list_eqb _ _); simpl; intuition. Qed.

Lemma unique_remove k b : keys_unique b -> keys_unique (remove_entry k b).
Proof.
  induction b as [|x t IH]; simpl; auto. intros (H1 & H2). destruct (list_eqb (ce_key x) k); auto.
  simpl. split; auto. intros e' Hin. apply H1. eapply In_remove_entry; eauto.
Qed.

Lemma find_after_remove k b : keys_unique b -> find_entry k (remove_entry k b) = None.
Proof.
  induction b as [|x t IH]; simpl; auto. intros (H1 & H2).
  destruct (list_eqb (ce_key x) k) eqn:E.
  - (* the tail holds no entry with this key *)
    apply list_eqb_eq in E. subst k. clear -H1. induction t as [|y t IH]; simpl; auto.
    rewrite (H1 y (or_introl eq_refl)). apply IH. intros; apply H1; right; auto.
  - simpl. rewrite E. auto.
Qed.

Lemma bsum_replace k b e e' : find_entry k b = Some e -> bsum (replace_entry k e' b) + ce_size e = bsum b + ce_size e'.
Proof.
  induction b as [|x t IH]; simpl; [discriminate|].
  destruct (list_eqb (ce_key x) k); [intros [= <-]; simpl; lia|]. intros H. simpl. specialize (IH H). lia.
Qed.

Lemma unique_replace k b v sz : keys_unique b -> keys_unique (replace_entry k (mkce k v true sz) b).
Proof.
  induction b as [|x t IH]; simpl; auto. intros (H1 & H2).
  destruct (list_eqb (ce_key x) k) eqn:E.
  - simpl. split; auto. apply list_eqb_eq in E. subst k. exact H1.
  - simpl. split; auto. intros e' Hin.
    assert (G : forall l, In e' (replace_entry k (mkce k v true sz) l) -> e' = mkce k v true sz \/ In e' l).
    { clear. induction l as [|y l IH]; simpl; [tauto|]. destruct (list_eqb (ce_key y) k); simpl; intuition. }
    destruct (G _ Hin) as [->|Hin']; auto. simpl.
    destruct (list_eqb k (ce_key x)) eqn:E2; auto. apply list_eqb_eq in E2. subst k. rewrite list_eqb_refl in E. discriminate.
Qed.

Lemma bsum_app a b : bsum (a ++ b) = bsum a + bsum b.
Proof. induction a; simpl; lia. Qed.

Lemma unique_app_new b k v sz : keys_unique b -> find_entry k b = None -> keys_unique (b ++ [mkce k v true sz]).
Proof.
  induction b as [|x t IH]; simpl; [intros _ _; split; [intros ? []|exact I]|]. intros (H1 & H2).
  destruct (list_eqb (ce_key x) k) eqn:E; [discriminate|]. intros HF. split; auto.
  intros e' Hin. apply in_app_or in Hin. destruct Hin as [Hin|[<-|[]]]; auto. simpl.
  destruct (list_eqb k (ce_key x)) eqn:E2; auto. apply list_eqb_eq in E2. subst k. rewrite list_eqb_refl in E. discriminate.
Qed.

(* ---- the CLOCK sweep only removes entries, and accounts for each ---- *)
Lemma sweep_bucket_spec b : forall m target ev b' m' ev' done,
  bsum b <= m -> sweep_bucket b m target ev = (b', m', ev', done) ->
  m' + bsum b = m + bsum b' /\ bsum b' <= m' /\ (keys_unique b -> keys_unique b') /\
  (forall e, In e b' -> exists e0, In e0 b /\ ce_key e0 = ce_key e).
Proof.
  induction b as [|e t IH]; intros m target ev b' m' ev' done Hle H.
  - simpl in H. injection H as <- <- <- <-. simpl in *.
    split; [lia|]. split; [lia|]. split; [auto|]. intros e [].
  - cbn [sweep_bucket] in H. cbn [bsum] in Hle. destruct (ce_ref e).
    + destruct (m <=? target).
      * injection H as <- <- <- <-. cbn [bsum ce_size].
        split; [lia|]. split; [lia|]. split.
        -- cbn [keys_unique ce_key]. auto.
        -- intros e0 [<-|Hin]; [exists e; split; [left; auto|reflexivity]|exists e0; split; [right; auto|reflexivity]].
      * destruct (sweep_bucket t m target ev) as [[[t' m1] ev1] d1] eqn:E. injection H as <- <- <- <-.
        assert (L1 : bsum t <= m) by lia.
        destruct (IH _ _ _ _ _ _ _ L1 E) as (A & B & C & D). cbn [bsum ce_size].
        split; [lia|]. split; [lia|]. split.
        -- cbn [keys_unique ce_key]. intros (U1 & U2). split; [|auto].
           intros e' Hin. destruct (D _ Hin) as (e0 & Hin0 & K). rewrite <- K. auto.
        -- intros e0 [<-|Hin]; [exists e; split; [left; auto|reflexivity]|].
           destruct (D _ Hin) as (e1 & A1 & B1). exists e1; split; [right; auto|auto].
    + destruct (m - ce_size e <=? target).
      * injection H as <- <- <- <-. split; [cbn [bsum]; lia|]. split; [lia|]. split.
        -- cbn [keys_unique]. intros (_ & U); auto.
        -- intros e0 Hin. exists e0; split; [right; auto|reflexivity].
      * assert (L1 : bsum t <= m - ce_size e) by lia.
        destruct (IH _ _ _ _ _ _ _ L1 H) as (A & B & C & D).
        split; [cbn [bsum]; lia|]. split; [lia|]. split.
        -- cbn [keys_unique]. intros (_ & U); auto.
        -- intros e0 Hin. destruct (D _ Hin) as (e1 & A1 & B1). exists e1; split; [right; auto|auto].
Qed.

Lemma bsum_le_total i b l : In (i, b) l -> bsum b <= total l.
Proof.
  induction l as [|[j x] t IH]; simpl; [tauto|]. intros [[= -> ->]|H]; [lia|]. specialize (IH H). lia.
Qed.

(* the sweep keeps: sorted, unique keys, memory = total *)
Definition BInv (bs : list (N * list centry)) (m : N) : Prop :=
  sorted_idx bs /\ m = total bs /\ (forall i b, In (i, b) bs -> keys_unique b).

Lemma BInv_bset bs m i b' m' :
  BInv bs m -> m' + bsum (bget i bs) = m + bsum b' -> keys_unique b' -> BInv (bset i b' bs) m'.
Proof.
  intros (S & M & U) E UB. split; [apply sorted_bset; auto|]. split.
  - pose proof (total_bset i b' bs S). lia.
  - intros j x Hin. destruct (In_bset _ _ _ _ _ S Hin) as [(-> & -> & _)|(_ & Hin')]; eauto.
Qed.

Lemma sweep_pass_spec order : forall all start m target ev all' m' ev' done vis,
  BInv all m -> (forall i b, In (i, b) order -> bget i all = b) ->
  NoDup (map fst order) ->
  sweep_pass order all start m target ev = (all', m', ev', done, vis) -> BInv all' m'.
Proof.
  induction order as [|[i b] t IH]; intros all start m target ev all' m' ev' done vis HI HG ND H; simpl in H.
  - injection H as <- <- <- <- <-. auto.
  - destruct (sweep_bucket b m target ev) as [[[b1 m1] ev1] d1] eqn:E.
    assert (GB : bget i all = b) by (apply HG; left; auto).
    destruct HI as (S & M & U).
    assert (LE : bsum b <= m).
    { rewrite M. destruct b as [|e0 b0]; [simpl; lia|].
      (* a non-empty bget result is a stored bucket *)
      clear -GB S. revert GB. induction all as [|[j x] l IHl]; simpl; [discriminate|].
      destruct S as (Hlt & S'). destruct (j =? i); [intros ->; simpl; lia|].
      destruct (i <? j); [discriminate|]. intros G. specialize (IHl S' G). simpl in *. lia. }
    destruct (sweep_bucket_spec _ _ _ _ _ _ _ _ LE E) as (A & B & C & D).
    assert (UB : keys_unique b).
    { rewrite <- GB. apply bget_unique; auto. }
    assert (HI1 : BInv (bset i b1 all) m1).
    { apply (BInv_bset all m); [repeat split; auto|rewrite GB; lia|auto]. }
    destruct d1.
    + injection H as <- <- <- <- <-. auto.
    + inversion ND as [|? ? Hni ND']; subst.
      eapply IH; [exact HI1| |exact ND'|exact H].
      intros j x Hin.
      assert (NE : j <> i).
      { intros ->. apply Hni. apply in_map_iff. exists (i, x); auto. }
      specialize (HG j x (or_intror Hin)). rewrite <- HG. apply bget_bset_other; auto.
Qed.

Lemma sorted_NoDup l : sorted_idx l -> NoDup (map fst l).
Proof.
  induction l as [|[i b] t IH]; simpl; intros H; [constructor|]. destruct H as (Hlt & Hs).
  constructor; auto. intros Hin. apply in_map_iff in Hin. destruct Hin as ([j x] & E & Hin). simpl in E. subst j.
  specialize (Hlt _ _ Hin). lia.
Qed.

Lemma NoDup_app_disj {A} (a b : list A) : NoDup a -> NoDup b -> (forall x, In x a -> ~ In x b) -> NoDup (a ++ b).
Proof.
  induction a as [|x a IH]; simpl; auto. intros Na Nb D. inversion Na; subst. constructor.
  - intros Hin. apply in_app_or in Hin. destruct Hin as [Hin|Hin]; [contradiction|]. apply (D x (or_introl eq_refl) Hin).
  - apply IH; auto; intros y Hy; apply D; right; auto.
Qed.

Lemma NoDup_rotate start l : sorted_idx l -> NoDup (map fst (rotate_at start l)).
Proof.
  intros Hs. unfold rotate_at. rewrite map_app.
  pose proof (sorted_NoDup l Hs) as ND.
  assert (F : forall f, NoDup (map fst (filter f l))).
  { intros f. clear Hs. induction l as [|[i b] t IH]; simpl; [constructor|]. inversion ND as [|? ? Hn ND']; subst.
    destruct (f (i, b)); simpl; auto. constructor; auto. intros Hin. apply Hn.
    apply in_map_iff in Hin. destruct Hin as (x & E & Hx). apply filter_In in Hx. apply in_map_iff. exists x; tauto. }
  apply NoDup_app_disj; auto.
  intros i H1 H2. apply in_map_iff in H1. destruct H1 as (x & E1 & X1). apply filter_In in X1.
  apply in_map_iff in H2. destruct H2 as (y & E2 & X2). apply filter_In in X2.
  destruct X1 as (_ & A). destruct X2 as (_ & B). apply N.leb_le in A. apply N.ltb_lt in B. lia.
Qed.

Lemma In_rotate start l p : In p (rotate_at start l) -> In p l.
Proof. unfold rotate_at. intros H. apply in_app_or in H. destruct H as [H|H]; apply filter_In in H; tauto. Qed.

Lemma evict_scans_spec n : forall bs hnd m target ev bs' h' m' ev',
  BInv bs m -> evict_scans n bs hnd m target ev = (bs', h', m', ev') -> BInv bs' m'.
Proof.
  induction n as [|n IH]; intros bs hnd m target ev bs' h' m' ev' HI H; simpl in H.
  - injection H as <- <- <- <-. auto.
  - destruct (m <=? target); [injection H as <- <- <- <-; auto|].
    destruct (sweep_pass _ _ _ _ _ _) as [[[[bs1 m1] ev1] done] vis] eqn:E.
    assert (HI1 : BInv bs1 m1).
    { eapply sweep_pass_spec; [exact HI| |apply NoDup_rotate; apply HI|exact E].
      intros i b Hin. apply bget_In; [apply HI|eapply In_rotate; eauto]. }
    destruct done; [injection H as <- <- <- <-; auto|eauto].
Qed.

Lemma CInv_BInv c : CInv c <-> BInv (buckets c) (cmem c).
Proof. split; [intros [A B C]; repeat split; auto|intros (A & B & C); constructor; auto]. Qed.

Lemma cevict_CInv c : CInv c -> CInv (cevict c).
Proof.
  intros HI. unfold cevict. destruct (cmem c <=? low c); auto.
  destruct (evict_scans 3 _ _ _ _ _) as [[[bs h] m] ev] eqn:E.
  apply CInv_BInv. simpl. eapply evict_scans_spec; [apply CInv_BInv; exact HI|exact E].
Qed.

Lemma cevict_fields c : high (cevict c) = high c /\ low (cevict c) = low c /\ overhead (cevict c) = overhead c.
Proof.
  unfold cevict. destruct (_ <=? _); auto. destruct (evict_scans _ _ _ _ _ _) as [[[? ?] ?] ?]. simpl. auto.
Qed.

Lemma set_bucket_CInv c i b' m' :
  CInv c -> m' + bsum (bget i (buckets c)) = cmem c + bsum b' -> keys_unique b' ->
  CInv (with_buckets c (bset i b' (buckets c)) m').
Proof.
  intros HI E U. apply CInv_BInv. simpl. eapply BInv_bset; eauto. apply CInv_BInv; auto.
Qed.

(* the reported memory equals the total size of the held entries, one entry per key, after every operation *)
Theorem cstep_CInv c o : CInv c -> CInv (fst (cstep c o)).
Proof.
  intros HI. destruct o as [k|k v|k| | |h l]; simpl.
  - (* get *)
    unfold cget. destruct (find_entry k (bget (bucket_of k) (buckets c))) eqn:F; simpl; auto.
    apply set_bucket_CInv; auto.
    + rewrite bsum_touch. lia.
    + apply unique_touch. apply bget_unique; apply HI.
  - (* insert *)
    unfold cinsert. destruct (_ <? _); auto.
    set (c1 := if high c <? cmem c + _ then cevict c else c).
    assert (H1 : CInv c1) by (unfold c1; destruct (_ <? _); [apply cevict_CInv|]; auto).
    destruct (find_entry k (bget (bucket_of k) (buckets c1))) as [old|] eqn:F.
    + apply set_bucket_CInv; auto.
      * pose proof (bsum_replace k _ old (mkce k v true (N.of_nat (length k) + N.of_nat (length v) + overhead c)) F) as R.
        simpl in R.
        assert (ce_size old <= bsum (bget (bucket_of k) (buckets c1))).
        { apply find_entry_In in F. destruct F as (Hin & _). clear -Hin. induction (bget _ _) as [|x t IH]; simpl in *; [tauto|].
          destruct Hin as [->|H]; [lia|]. specialize (IH H). lia. }
        assert (bsum (bget (bucket_of k) (buckets c1)) <= cmem c1).
        { destruct H1 as [S M U]. rewrite M. destruct (bget (bucket_of k) (buckets c1)) eqn:G; [simpl; lia|].
          rewrite <- G. clear -S G. revert G. induction (buckets c1) as [|[j x] t IH]; simpl; [discriminate|].
          destruct S as (_ & S'). destruct (j =? bucket_of k); [intros ->; simpl; lia|].
          destruct (_ <? j); [discriminate|]. intros G. specialize (IH S' G). simpl in *. lia. }
        lia.
      * apply unique_replace. apply bget_unique; apply H1.
    + apply set_bucket_CInv; auto.
      * rewrite bsum_app. simpl. lia.
      * apply unique_app_new; auto. apply bget_unique; apply H1.
  - (* remove *)
    unfold cremove. destruct (find_entry k (bget (bucket_of k) (buckets c))) as [old|] eqn:F; auto.
    apply set_bucket_CInv; auto.
    + pose proof (bsum_remove k _ old F).
      assert (bsum (bget (bucket_of k) (buckets c)) <= cmem c).
      { destruct HI as [S M U]. rewrite M. destruct (bget (bucket_of k) (buckets c)) eqn:G; [simpl; lia|].
        rewrite <- G. clear -S G. revert G. induction (buckets c) as [|[j x] t IH]; simpl; [discriminate|].
        destruct S as (_ & S'). destruct (j =? bucket_of k); [intros ->; simpl; lia|].
        destruct (_ <? j); [discriminate|]. intros G. specialize (IH S' G). simpl in *. lia. }
      lia.
    + apply unique_remove. apply bget_unique; apply HI.
  - apply cevict_CInv; auto.
  - constructor; simpl; auto. intros ? ? [].
  - unfold cadjust. destruct (_ && _); auto.
    set (c1 := mkcache _ _ _ _ _ _ _).
    assert (H1 : CInv c1) by (destruct HI; constructor; auto).
    destruct (_ <? _); [apply cevict_CInv|]; auto.
Qed.

Definition crun (c : cache) (ops : list cop) : cache := fold_left (fun c o => fst (cstep c o)) ops c.

Theorem crun_CInv ops : forall c, CInv c -> CInv (crun c ops).
Proof. induction ops as [|o t IH]; intros c H; simpl; auto. apply IH. apply cstep_CInv; auto. Qed.

Lemma cache_new_CInv e : CInv (cache_new e).
Proof. constructor; simpl; auto. intros ? ? []. Qed.

(* an explicit remove is never followed by a hit *)
Theorem remove_then_miss c k : CInv c -> fst (cget (cremove c k) k) = None.
Proof.
  intros HI. unfold cremove.
  destruct (find_entry k (bget (bucket_of k) (buckets c))) as [old|] eqn:F.
  - unfold cget. simpl.
    assert (G : bget (bucket_of k) (bset (bucket_of k) (remove_entry k (bget (bucket_of k) (buckets c))) (buckets c))
                = remove_entry k (bget (bucket_of k) (buckets c))).
    { destruct HI as [S _ _]. clear -S. generalize (remove_entry k (bget (bucket_of k) (buckets c))). intros b.
      generalize (bucket_of k). intros i. induction (buckets c) as [|[j x] t IH]; simpl.
      - destruct b; simpl; auto. rewrite N.eqb_refl. auto.
      - destruct S as (Hlt & S'). destruct (N.eqb_spec j i) as [->|NE].
        + destruct b; simpl; [|rewrite N.eqb_refl; auto].
          apply bget_above. intros k0 b0 Hin. apply (Hlt _ _ Hin).
        + destruct (N.ltb_spec i j).
          * destruct b; simpl.
            -- destruct (N.eqb_spec j i); [lia|]. destruct (N.ltb_spec i j); [auto|lia].
            -- rewrite N.eqb_refl. auto.
          * simpl. destruct (N.eqb_spec j i); [lia|]. destruct (N.ltb_spec i j); [lia|]. apply IH; auto. }
    rewrite G. rewrite find_after_remove; auto. apply bget_unique; apply HI.
  - unfold cget. rewrite F. reflexivity.
Qed.

(* ---- eviction reaches the low watermark: two CLOCK passes suffice (the first clears every
   reference bit it does not evict, the second finds every remaining entry unreferenced) ---- *)
Definition unref (b : list centry) : Prop := forall e, In e b -> ce_ref e = false.

Lemma sweep_bucket_done b : forall m target ev b' m' ev',
  sweep_bucket b m target ev = (b', m', ev', true) -> m' <= target.
Proof.
  induction b as [|e t IH]; intros m target ev b' m' ev' H; cbn [sweep_bucket] in H.
  - injection H as <- <- <- Hd. apply N.leb_le. exact Hd.
  - destruct (ce_ref e).
    + destruct (m <=? target) eqn:E.
      * injection H as <- <- <-. apply N.leb_le. exact E.
      * destruct (sweep_bucket t m target ev) as [[[t' m1] ev1] d1] eqn:E1. injection H as <- <- <- ->. eauto.
    + destruct (m - ce_size e <=? target) eqn:E.
      * injection H as <- <- <-. apply N.leb_le. exact E.
      * eauto.
Qed.

Lemma sweep_bucket_notdone b : forall m target ev b' m' ev',
  sweep_bucket b m target ev = (b', m', ev', false) -> unref b' /\ target < m'.
Proof.
  induction b as [|e t IH]; intros m target ev b' m' ev' H; cbn [sweep_bucket] in H.
  - injection H as <- <- <- Hd. split; [intros e []|]. apply N.leb_gt. exact Hd.
  - destruct (ce_ref e).
    + destruct (m <=? target); [discriminate|].
      destruct (sweep_bucket t m target ev) as [[[t' m1] ev1] d1] eqn:E1. injection H as <- <- <- ->.
      destruct (IH _ _ _ _ _ _ E1) as [U L]. split; [|exact L].
      intros e0 [<-|Hin]; [reflexivity | exact (U e0 Hin)].
    + destruct (m - ce_size e <=? target); [discriminate|]. eauto.
Qed.

Lemma sweep_bucket_unref_notdone b : forall m target ev b' m' ev',
  unref b -> sweep_bucket b m target ev = (b', m', ev', false) -> b' = [].
Proof.
  induction b as [|e t IH]; intros m target ev b' m' ev' U H; cbn [sweep_bucket] in H.
  - injection H as <- _ _ _. reflexivity.
  - rewrite (U e (or_introl eq_refl)) in H.
    destruct (m - ce_size e <=? target); [discriminate|].
    apply (IH _ _ _ _ _ _ (fun x Hx => U x (or_intror Hx)) H).
Qed.

Lemma sweep_pass_done order : forall all start m target ev all' m' ev' vis,
  sweep_pass order all start m target ev = (all', m', ev', true, vis) -> m' <= target.
Proof.
  induction order as [|[i b] t IH]; intros all start m target ev all' m' ev' vis H; cbn [sweep_pass] in H; [discriminate|].
  destruct (sweep_bucket b m target ev) as [[[b1 m1] ev1] d1] eqn:E. destruct d1.
  - injection H as <- <- <- <-. exact (sweep_bucket_done _ _ _ _ _ _ _ E).
  - eauto.
Qed.

(* after a pass that did not reach the target: target < m', every visited bucket holds only
   unreferenced entries, the others are as before *)
Lemma sweep_pass_notdone order : forall all start m target ev all' m' ev' vis,
  sorted_idx all -> (forall i b, In (i, b) order -> bget i all = b) -> NoDup (map fst order) ->
  sweep_pass order all start m target ev = (all', m', ev', false, vis) ->
  sorted_idx all' /\
  (order <> [] -> target < m') /\
  (forall i, In i (map fst order) -> unref (bget i all')) /\
  (forall i, ~ In i (map fst order) -> bget i all' = bget i all).
Proof.
  induction order as [|[i b] t IH]; intros all start m target ev all' m' ev' vis HS HG ND H; cbn [sweep_pass] in H.
  - injection H as <- <- <- <-. split; [exact HS|]. split; [congruence|]. split; [intros i []|reflexivity].
  - destruct (sweep_bucket b m target ev) as [[[b1 m1] ev1] d1] eqn:E. destruct d1; [discriminate|].
    destruct (sweep_bucket_notdone _ _ _ _ _ _ _ E) as [U1 L1].
    inversion ND as [|? ? Hni ND']; subst.
    assert (HS1 : sorted_idx (bset i b1 all)) by (apply sorted_bset; exact HS).
    assert (HG1 : forall j x, In (j, x) t -> bget j (bset i b1 all) = x).
    { intros j x Hin. assert (NE : i <> j).
      { intros ->. apply Hni. apply in_map_iff. exists (j, x). split; [reflexivity | exact Hin]. }
      rewrite bget_bset_other by assumption. apply HG. right. exact Hin. }
    destruct (IH _ _ _ _ _ _ _ _ _ HS1 HG1 ND' H) as (S' & Lt & Uv & Same).
    split; [exact S'|]. split.
    + intros _. destruct t as [|p t']; [|apply Lt; discriminate].
      cbn [sweep_pass] in H. injection H as <- <- <- <-. exact L1.
    + split.
      * intros j [<-|Hin]; [|exact (Uv j Hin)].
        cbn [fst]. rewrite (Same i Hni).
        assert (Hb : bget i (bset i b1 all) = b1).
        { clear -HS. induction all as [|[k y] l IHl]; cbn.
          - destruct b1; cbn; [reflexivity | rewrite N.eqb_refl; reflexivity].
          - destruct HS as (Hlt & HS'). destruct (N.eqb_spec k i) as [->|NE].
            + destruct b1; cbn; [apply bget_above; intros k2 b2 Hk; exact (Hlt _ _ Hk) | rewrite N.eqb_refl; reflexivity].
            + destruct (N.ltb_spec i k).
              * destruct b1; cbn.
                -- destruct (N.eqb_spec k i); [lia|]. destruct (N.ltb_spec i k); [reflexivity | lia].
                -- rewrite N.eqb_refl. reflexivity.
              * cbn. destruct (N.eqb_spec k i); [lia|]. destruct (N.ltb_spec i k); [lia|]. exact (IHl HS'). }
        rewrite Hb. exact U1.
      * intros j Hn. rewrite (Same j (fun H0 => Hn (or_intror H0))).
        apply bget_bset_other; [exact HS|]. intros ->. apply Hn. left. reflexivity.
Qed.

(* when every entry is unreferenced, a pass that does not reach the target empties every visited bucket *)
Lemma sweep_pass_unref_notdone order : forall all start m target ev all' m' ev' vis,
  sorted_idx all -> (forall i b, In (i, b) order -> bget i all = b) -> NoDup (map fst order) ->
  (forall i b, In (i, b) order -> unref b) ->
  sweep_pass order all start m target ev = (all', m', ev', false, vis) ->
  forall i, In i (map fst order) -> bget i all' = [].
Proof.
  induction order as [|[i b] t IH]; intros all start m target ev all' m' ev' vis HS HG ND HU H j Hj; [destruct Hj|].
  cbn [sweep_pass] in H.
  destruct (sweep_bucket b m target ev) as [[[b1 m1] ev1] d1] eqn:E. destruct d1; [discriminate|].
  pose proof (sweep_bucket_unref_notdone _ _ _ _ _ _ _ (HU i b (or_introl eq_refl)) E) as ->.
  inversion ND as [|? ? Hni ND']; subst.
  assert (HS1 : sorted_idx (bset i [] all)) by (apply sorted_bset; exact HS).
  assert (HG1 : forall k x, In (k, x) t -> bget k (bset i [] all) = x).
  { intros k x Hin. assert (NE : i <> k).
    { intros ->. apply Hni. apply in_map_iff. exists (k, x). split; [reflexivity | exact Hin]. }
    rewrite bget_bset_other by assumption. apply HG. right. exact Hin. }
  destruct Hj as [<-|Hj].
  - cbn [fst]. destruct (sweep_pass_notdone _ _ _ _ _ _ _ _ _ _ HS1 HG1 ND' H) as (_ & _ & _ & Same).
    rewrite (Same i Hni).
    clear -HS. induction all as [|[k y] l IHl]; cbn; [reflexivity|].
    destruct HS as (Hlt & HS'). destruct (N.eqb_spec k i) as [->|NE].
    + apply bget_above. intros k2 b2 Hk. exact (Hlt _ _ Hk).
    + destruct (N.ltb_spec i k).
      * cbn. destruct (N.eqb_spec k i); [lia|]. destruct (N.ltb_spec i k); [reflexivity | lia].
      * cbn. destruct (N.eqb_spec k i); [lia|]. destruct (N.ltb_spec i k); [lia|]. exact (IHl HS').
  - apply (IH _ _ _ _ _ _ _ _ _ HS1 HG1 ND' (fun k x Hx => HU k x (or_intror Hx)) H). exact Hj.
Qed.

Lemma In_rotate_conv start l p : In p l -> In p (rotate_at start l).
Proof.
  intros H. unfold rotate_at. apply in_or_app.
  destruct (start <=? fst p) eqn:E.
  - left. apply filter_In. split; assumption.
  - right. apply filter_In. split; [exact H|]. apply N.leb_gt in E. apply N.ltb_lt. exact E.
Qed.

Lemma total_zero_if_all_empty l : (forall i b, In (i, b) l -> b = []) -> total l = 0.
Proof.
  induction l as [|[i b] t IH]; cbn; intros H; [reflexivity|].
  rewrite (H i b (or_introl eq_refl)). cbn. apply IH. intros j x Hx. exact (H j x (or_intror Hx)).
Qed.

Theorem evict_scans_reaches_target : forall bs hnd m target ev bs' h' m' ev',
  BInv bs m -> evict_scans 3 bs hnd m target ev = (bs', h', m', ev') -> m' <= target.
Proof.
  intros bs hnd m target ev bs' h' m' ev' HI H.
  cbn [evict_scans] in H.
  destruct (m <=? target) eqn:E0; [injection H as <- <- <- <-; apply N.leb_le; exact E0|].
  destruct (sweep_pass (rotate_at (hnd mod CACHE_BUCKETS) bs) bs (hnd mod CACHE_BUCKETS) m target ev)
    as [[[[bs1 m1] ev1] d1] v1] eqn:P1.
  destruct d1; [injection H as <- <- <- <-; exact (sweep_pass_done _ _ _ _ _ _ _ _ _ _ P1)|].
  (* pass 1 did not reach the target: everything left is unreferenced *)
  assert (HI1 : BInv bs1 m1).
  { eapply sweep_pass_spec; [exact HI| |apply NoDup_rotate; apply HI|exact P1].
    intros i b Hin. apply bget_In; [apply HI|eapply In_rotate; eauto]. }
  assert (HG : forall i b, In (i, b) (rotate_at (hnd mod CACHE_BUCKETS) bs) -> bget i bs = b).
  { intros i b Hin. apply bget_In; [apply HI|eapply In_rotate; eauto]. }
  destruct (sweep_pass_notdone _ _ _ _ _ _ _ _ _ _ (proj1 HI) HG (NoDup_rotate _ _ (proj1 HI)) P1) as (S1 & _ & U1 & Same1).
  assert (AllU : forall i b, In (i, b) bs1 -> unref b).
  { intros i b Hin. pose proof (bget_In _ _ _ S1 Hin) as Hb. rewrite <- Hb.
    destruct (in_dec N.eq_dec i (map fst (rotate_at (hnd mod CACHE_BUCKETS) bs))) as [Hi|Hn]; [exact (U1 i Hi)|].
    rewrite (Same1 i Hn).
    (* i is not an index of bs at all, so its bucket is empty *)
    assert (Hemp : bget i bs = []).
    { destruct (bget i bs) as [|e0 b0] eqn:Eb; [reflexivity|]. exfalso. apply Hn.
      assert (Hin0 : In (i, e0 :: b0) bs).
      { clear -Eb. revert Eb. induction bs as [|[k y] l IHl]; cbn; [discriminate|].
        destruct (N.eqb_spec k i) as [->|NE]; [intros ->; left; reflexivity|].
        destruct (i <? k); [discriminate|]. intros G. right. exact (IHl G). }
      apply in_map_iff. exists (i, e0 :: b0). split; [reflexivity | apply In_rotate_conv; exact Hin0]. }
    rewrite Hemp. intros e []. }
  cbn [evict_scans] in H.
  destruct (m1 <=? target) eqn:E1; [injection H as <- <- <- <-; apply N.leb_le; exact E1|].
  destruct (sweep_pass (rotate_at ((hnd + v1) mod CACHE_BUCKETS) bs1) bs1 ((hnd + v1) mod CACHE_BUCKETS) m1 target ev1)
    as [[[[bs2 m2] ev2] d2] v2] eqn:P2.
  destruct d2; [injection H as <- <- <- <-; exact (sweep_pass_done _ _ _ _ _ _ _ _ _ _ P2)|].
  (* pass 2 over unreferenced entries without reaching the target would have emptied the cache *)
  exfalso.
  assert (HG2 : forall i b, In (i, b) (rotate_at ((hnd + v1) mod CACHE_BUCKETS) bs1) -> bget i bs1 = b).
  { intros i b Hin. apply bget_In; [exact S1|eapply In_rotate; eauto]. }
  assert (HI2 : BInv bs2 m2).
  { eapply sweep_pass_spec; [exact HI1|exact HG2|apply NoDup_rotate; exact S1|exact P2]. }
  destruct (sweep_pass_notdone _ _ _ _ _ _ _ _ _ _ S1 HG2 (NoDup_rotate _ _ S1) P2) as (S2 & Lt2 & _ & Same2).
  pose proof (sweep_pass_unref_notdone _ _ _ _ _ _ _ _ _ _ S1 HG2 (NoDup_rotate _ _ S1)
                (fun i b Hin => AllU i b (In_rotate _ _ _ Hin)) P2) as Emp.
  assert (Tz : total bs2 = 0).
  { apply total_zero_if_all_empty. intros i b Hin. pose proof (bget_In _ _ _ S2 Hin) as Hb. rewrite <- Hb.
    destruct (in_dec N.eq_dec i (map fst (rotate_at ((hnd + v1) mod CACHE_BUCKETS) bs1))) as [Hi|Hn]; [exact (Emp i Hi)|].
    rewrite (Same2 i Hn).
    destruct (bget i bs1) as [|e0 b0] eqn:Eb; [reflexivity|]. exfalso. apply Hn.
    assert (Hin0 : In (i, e0 :: b0) bs1).
    { clear -Eb. revert Eb. induction bs1 as [|[k y] l IHl]; cbn; [discriminate|].
      destruct (N.eqb_spec k i) as [->|NE]; [intros ->; left; reflexivity|].
      destruct (i <? k); [discriminate|]. intros G. right. exact (IHl G). }
    apply in_map_iff. exists (i, e0 :: b0). split; [reflexivity | apply In_rotate_conv; exact Hin0]. }
  destruct HI2 as (_ & M2 & _). rewrite Tz in M2.
  destruct (rotate_at ((hnd + v1) mod CACHE_BUCKETS) bs1) as [|p0 r0] eqn:Er.
  - (* no bucket at all: m1 = total bs1 = 0 <= target, contradiction with E1 *)
    cbn [sweep_pass] in P2. injection P2 as <- <- _ _. apply N.leb_gt in E1. lia.
  - assert (target < m2) by (apply Lt2; discriminate). lia.
Qed.

(* evict_entries leaves the usage at or below the low watermark *)
Theorem cevict_reaches_low c : CInv c -> cmem (cevict c) <= low c.
Proof.
  intros HI. unfold cevict. destruct (cmem c <=? low c) eqn:E; [apply N.leb_le; exact E|].
  destruct (evict_scans 3 _ _ _ _ _) as [[[bs h] m] ev] eqn:Es. cbn.
  eapply evict_scans_reaches_target; [apply CInv_BInv; exact HI | exact Es].
Qed.
