(* Every schedule of the per-key protocol of Model/Sched.v is linearizable with the two permitted
   conservative refusals: the commits, in the order in which they happen, form a legal
   sequential last-writer-wins history with exactly the responses the threads received. *)
From Coq Require Import List NArith ZArith Bool Lia.
From Feox Require Import Model.Sched.
Import ListNotations.
Local Open Scope N_scope.

(* ---- association lists ---- *)
Lemma aget_aset_same {A} k (a : A) l : aget k (aset k a l) = Some a.
Proof.
  induction l as [|[k' a'] t IH]; cbn.
  - rewrite N.eqb_refl. reflexivity.
  - destruct (k' =? k) eqn:E; cbn.
    + rewrite N.eqb_refl. reflexivity.
    + rewrite E. exact IH.
Qed.

Lemma aget_aset_other {A} k k' (a : A) l : k' <> k -> aget k' (aset k a l) = aget k' l.
Proof.
  intros Hne. induction l as [|[k2 a2] t IH]; cbn.
  - destruct (k =? k') eqn:E; [apply N.eqb_eq in E; congruence | reflexivity].
  - destruct (k2 =? k) eqn:E; cbn.
    + apply N.eqb_eq in E. subst k2.
      destruct (k =? k') eqn:E2; [apply N.eqb_eq in E2; congruence | reflexivity].
    + destruct (k2 =? k'); [reflexivity | exact IH].
Qed.

Lemma aget_adel_same {A} k (l : list (N * A)) : aget k (adel k l) = None.
Proof.
  induction l as [|[k' a'] t IH]; cbn; [reflexivity|].
  destruct (k' =? k) eqn:E; cbn; [exact IH | rewrite E; exact IH].
Qed.

Lemma aget_adel_other {A} k k' (l : list (N * A)) : k' <> k -> aget k' (adel k l) = aget k' l.
Proof.
  intros Hne. induction l as [|[k2 a2] t IH]; cbn; [reflexivity|].
  destruct (k2 =? k) eqn:E; cbn.
  - apply N.eqb_eq in E. subst k2.
    destruct (k =? k') eqn:E2; [apply N.eqb_eq in E2; congruence | exact IH].
  - destruct (k2 =? k'); [reflexivity | exact IH].
Qed.

Lemma aget_adel_some {A} k k' (l : list (N * A)) a : aget k' (adel k l) = Some a -> aget k' l = Some a /\ k' <> k.
Proof.
  intros H. destruct (N.eq_dec k' k) as [->|Hne].
  - rewrite aget_adel_same in H. discriminate.
  - rewrite aget_adel_other in H by exact Hne. split; assumption.
Qed.

(* ---- the table is all that `abs` looks at ---- *)
Lemma tbl_observe s k ts ex : tbl (observe s k ts ex) = tbl s.
Proof. unfold observe. destruct ex; reflexivity. Qed.
Lemma nid_observe s k ts ex : nid (observe s k ts ex) = nid s.
Proof. unfold observe. destruct ex; reflexivity. Qed.
Lemma tbl_draw s k : tbl (snd (draw s k)) = tbl s.
Proof. reflexivity. Qed.
Lemma nid_draw s k : nid (snd (draw s k)) = nid s.
Proof. reflexivity. Qed.

Lemma resolve_tbl s k tso ts ex s' : resolve s k tso = (ts, ex, s') -> tbl s' = tbl s /\ nid s' = nid s.
Proof.
  unfold resolve. destruct tso as [t|].
  - intros H. inversion H. subst. split; reflexivity.
  - unfold draw. cbn. intros H. inversion H. split; reflexivity.
Qed.

Lemma tbl_publish_replace s k e v ts ex :
  tbl (publish_replace s k e v ts ex) = aset k (mkgen (nid s) v ts) (tbl s).
Proof. unfold publish_replace. rewrite tbl_observe. reflexivity. Qed.
Lemma nid_publish_replace s k e v ts ex : nid (publish_replace s k e v ts ex) = nid s + 1.
Proof. unfold publish_replace. rewrite nid_observe. reflexivity. Qed.
Lemma tbl_publish_new s k v ts ex :
  tbl (publish_new s k v ts ex) = aset k (mkgen (nid s) v ts) (tbl s).
Proof. unfold publish_new. rewrite tbl_observe. reflexivity. Qed.
Lemma nid_publish_new s k v ts ex : nid (publish_new s k v ts ex) = nid s + 1.
Proof. unfold publish_new. rewrite nid_observe. reflexivity. Qed.
Lemma tbl_retire_remove s k e ts ex : tbl (retire_remove s k e ts ex) = adel k (tbl s).
Proof. unfold retire_remove. rewrite tbl_observe. reflexivity. Qed.
Lemma nid_retire_remove s k e ts ex : nid (retire_remove s k e ts ex) = nid s.
Proof. unfold retire_remove. rewrite nid_observe. reflexivity. Qed.

(* ---- invariants ---- *)
(* ids in the table are below the next id and identify the generation *)
Definition table_ok (s : shared) : Prop :=
  (forall k e, aget k (tbl s) = Some e -> g_id e < nid s) /\
  (forall k1 k2 e1 e2, aget k1 (tbl s) = Some e1 -> aget k2 (tbl s) = Some e2 -> g_id e1 = g_id e2 -> e1 = e2).

(* a generation a thread holds a pointer to: Arc::ptr_eq with a table entry means "is that entry" *)
Definition held_ok (s : shared) (g : gen) : Prop :=
  g_id g < nid s /\ forall k e, aget k (tbl s) = Some e -> g_id e = g_id g -> e = g.

(* s' extends s: ids only grow; an entry of s' is an entry of s or carries a fresh id *)
Definition ext (s s' : shared) : Prop :=
  nid s <= nid s' /\ forall k e, aget k (tbl s') = Some e -> aget k (tbl s) = Some e \/ nid s <= g_id e.

Lemma ext_refl s : ext s s.
Proof. split; [lia | intros; left; assumption]. Qed.

Lemma ext_same_tbl s s' : tbl s' = tbl s -> nid s' = nid s -> ext s s'.
Proof. intros Ht Hn. split; [lia | intros k e H; left; rewrite <- Ht; exact H]. Qed.

Lemma held_ext s s' g : held_ok s g -> ext s s' -> held_ok s' g.
Proof.
  intros [Hlt Hu] [Hn He]. split; [lia|].
  intros k e Hget Hid. destruct (He k e Hget) as [Hold|Hfresh].
  - exact (Hu k e Hold Hid).
  - lia.
Qed.

Lemma held_of_table s k g : table_ok s -> aget k (tbl s) = Some g -> held_ok s g.
Proof.
  intros [Hlt Hu] Hget. split; [exact (Hlt k g Hget)|].
  intros k' e Hget' Hid. exact (Hu k' k e g Hget' Hget Hid).
Qed.

Lemma table_ok_same s s' : tbl s' = tbl s -> nid s' = nid s -> table_ok s -> table_ok s'.
Proof. intros Ht Hn [H1 H2]. unfold table_ok. rewrite Ht, Hn. split; assumption. Qed.

Lemma table_ok_set s s' k v ts :
  tbl s' = aset k (mkgen (nid s) v ts) (tbl s) -> nid s' = nid s + 1 -> table_ok s -> table_ok s' /\ ext s s'.
Proof.
  intros Ht Hn [H1 H2]. split; [split|split].
  - intros k' e. rewrite Ht, Hn. destruct (N.eq_dec k' k) as [->|Hne].
    + rewrite aget_aset_same. intros H. inversion H. cbn. lia.
    + rewrite aget_aset_other by exact Hne. intros H. specialize (H1 _ _ H). lia.
  - intros k1 k2 e1 e2. rewrite Ht.
    destruct (N.eq_dec k1 k) as [->|Hne1]; destruct (N.eq_dec k2 k) as [->|Hne2];
      rewrite ?aget_aset_same, ?aget_aset_other by assumption.
    + intros A B _. congruence.
    + intros A B Hid. inversion A. subst e1. cbn in Hid. specialize (H1 _ _ B). lia.
    + intros A B Hid. inversion B. subst e2. cbn in Hid. specialize (H1 _ _ A). lia.
    + intros A B Hid. exact (H2 _ _ _ _ A B Hid).
  - lia.
  - intros k' e. rewrite Ht. destruct (N.eq_dec k' k) as [->|Hne].
    + rewrite aget_aset_same. intros H. inversion H. right. cbn. lia.
    + rewrite aget_aset_other by exact Hne. intros H. left. exact H.
Qed.

Lemma table_ok_del s s' k :
  tbl s' = adel k (tbl s) -> nid s' = nid s -> table_ok s -> table_ok s' /\ ext s s'.
Proof.
  intros Ht Hn [H1 H2]. split; [split|split].
  - intros k' e. rewrite Ht, Hn. intros H. apply aget_adel_some in H. exact (H1 _ _ (proj1 H)).
  - intros k1 k2 e1 e2. rewrite Ht. intros A B. apply aget_adel_some in A. apply aget_adel_some in B.
    exact (H2 _ _ _ _ (proj1 A) (proj1 B)).
  - lia.
  - intros k' e. rewrite Ht. intros H. apply aget_adel_some in H. left. exact (proj1 H).
Qed.

(* what the control state remembers about the generation it read *)
Definition pc_ok (s : shared) (o : op) (p : pc) : Prop :=
  match o, p with
  | OCas _ e _ _, PCGuard _ _ g _ => held_ok s g /\ val_eqb (g_val g) e = true
  | OIncr _ d _, PNGuard _ g nv _ _ => held_ok s g /\ exists z, g_val g = VC z /\ nv = sat_add_i64 z d
  | OPatch _ pj _, PPGuard _ _ _ r nv => held_ok s r /\ exists l, g_val r = VJ l /\ nv = VJ (l ++ [pj])
  | _, _ => True
  end.

Lemma pc_ok_ext s s' o p : pc_ok s o p -> ext s s' -> pc_ok s' o p.
Proof.
  intros H He. destruct o, p; cbn in *; try exact I;
    destruct H as [Hh Hr]; (split; [exact (held_ext _ _ _ Hh He) | exact Hr]).
Qed.

(* ---- abs ---- *)
Lemma abs_tbl s s' : tbl s' = tbl s -> forall k, abs s' k = abs s k.
Proof. intros H k. unfold abs. rewrite H. reflexivity. Qed.

Lemma abs_set s s' k v ts :
  tbl s' = aset k (mkgen (nid s) v ts) (tbl s) ->
  abs s' k = Some (v, ts) /\ forall k', k' <> k -> abs s' k' = abs s k'.
Proof.
  intros H. unfold abs. rewrite H. split.
  - rewrite aget_aset_same. reflexivity.
  - intros k' Hne. rewrite aget_aset_other by exact Hne. reflexivity.
Qed.

Lemma abs_del s s' k :
  tbl s' = adel k (tbl s) -> abs s' k = None /\ forall k', k' <> k -> abs s' k' = abs s k'.
Proof.
  intros H. unfold abs. rewrite H. split.
  - rewrite aget_adel_same. reflexivity.
  - intros k' Hne. rewrite aget_adel_other by exact Hne. reflexivity.
Qed.

Lemma same_eq s e g : held_ok s g -> forall k, aget k (tbl s) = Some e -> same e g = true -> e = g.
Proof. intros [_ Hu] k Hget Hs. apply N.eqb_eq in Hs. exact (Hu k e Hget Hs). Qed.

(* ---- the one-step simulation ---- *)
Definition commit_ok (st1 : kstate) (c : commit) (st2 : kstate) : Prop :=
  if c_dev c then st2 = st1 /\ (c_resp c = ROlder \/ c_resp c = RBool false)
  else spec_step st1 (c_op c) (c_ts c) (c_ex c) = (st2, c_resp c).

Definition step_post (s : shared) (o : op) (s' : shared) (r : pc + resp) (c : option commit) : Prop :=
  table_ok s' /\ ext s s' /\
  (forall k', k' <> key_of o -> abs s' k' = abs s k') /\
  match c with
  | None => abs s' (key_of o) = abs s (key_of o) /\ exists p', r = inl p' /\ pc_ok s' o p'
  | Some cm => r = inr (c_resp cm) /\ c_op cm = o /\ commit_ok (abs s (key_of o)) cm (abs s' (key_of o))
  end.

(* unchanged table *)
Lemma post_goto s o s' p' :
  table_ok s -> tbl s' = tbl s -> nid s' = nid s -> pc_ok s' o p' -> step_post s o s' (inl p') None.
Proof.
  intros Hok Ht Hn Hp. split; [exact (table_ok_same _ _ Ht Hn Hok)|].
  split; [exact (ext_same_tbl _ _ Ht Hn)|].
  split; [intros; apply abs_tbl; exact Ht|].
  split; [apply abs_tbl; exact Ht | exists p'; split; [reflexivity | exact Hp]].
Qed.

Lemma post_done_same s o s' ts ex r dev :
  table_ok s -> tbl s' = tbl s -> nid s' = nid s ->
  commit_ok (abs s (key_of o)) (mkc o ts ex r dev) (abs s (key_of o)) ->
  step_post s o s' (inr r) (Some (mkc o ts ex r dev)).
Proof.
  intros Hok Ht Hn Hc. split; [exact (table_ok_same _ _ Ht Hn Hok)|].
  split; [exact (ext_same_tbl _ _ Ht Hn)|].
  split; [intros; apply abs_tbl; exact Ht|].
  split; [reflexivity | split; [reflexivity|]]. rewrite (abs_tbl _ _ Ht). exact Hc.
Qed.

Lemma post_done_set s o s1 s' v ts ex r :
  table_ok s -> tbl s1 = tbl s -> nid s1 = nid s ->
  tbl s' = aset (key_of o) (mkgen (nid s1) v ts) (tbl s1) -> nid s' = nid s1 + 1 ->
  spec_step (abs s (key_of o)) o ts ex = (Some (v, ts), r) ->
  step_post s o s' (inr r) (Some (mkc o ts ex r false)).
Proof.
  intros Hok Ht1 Hn1 Ht Hn Hc.
  assert (Hok1 : table_ok s1) by exact (table_ok_same _ _ Ht1 Hn1 Hok).
  destruct (table_ok_set _ _ _ _ _ Ht Hn Hok1) as [Hok' He].
  destruct (abs_set _ _ _ _ _ Ht) as [Ha Hb].
  split; [exact Hok'|]. split.
  - destruct He as [He1 He2]. split; [lia|]. intros k e H. destruct (He2 k e H) as [A|A].
    + left. rewrite <- Ht1. exact A.
    + right. lia.
  - split.
    + intros k' Hne. rewrite (Hb k' Hne). apply abs_tbl. exact Ht1.
    + split; [reflexivity | split; [reflexivity|]]. unfold commit_ok. cbn. rewrite Ha. exact Hc.
Qed.

Lemma post_done_del s o s' ts ex r :
  table_ok s -> tbl s' = adel (key_of o) (tbl s) -> nid s' = nid s ->
  spec_step (abs s (key_of o)) o ts ex = (None, r) ->
  step_post s o s' (inr r) (Some (mkc o ts ex r false)).
Proof.
  intros Hok Ht Hn Hc.
  destruct (table_ok_del _ _ _ Ht Hn Hok) as [Hok' He].
  destruct (abs_del _ _ _ Ht) as [Ha Hb].
  split; [exact Hok'|]. split; [exact He|]. split; [exact Hb|].
  split; [reflexivity | split; [reflexivity|]]. unfold commit_ok. cbn. rewrite Ha. exact Hc.
Qed.

Ltac inv H := inversion H; subst; clear H.

Lemma abs_some s k g : aget k (tbl s) = Some g -> abs s k = Some (g_val g, g_ts g).
Proof. intros H. unfold abs. rewrite H. reflexivity. Qed.
Lemma abs_none s k : aget k (tbl s) = None -> abs s k = None.
Proof. intros H. unfold abs. rewrite H. reflexivity. Qed.

Theorem opstep_sim s o p s' r c :
  table_ok s -> pc_ok s o p -> opstep s o p = (s', r, c) -> step_post s o s' r c.
Proof.
  intros Hok Hpc Hstep.
  destruct o as [k|k v tso|k tso|k e n tso|k d tso|k v|k pj tso]; cbn [opstep] in Hstep.
  - (* get *)
    destruct (aget k (tbl s)) as [g|] eqn:Hg; unfold done in Hstep; inv Hstep.
    + apply post_done_same; try assumption; try reflexivity. unfold commit_ok. cbn.
      rewrite (abs_some _ _ _ Hg). reflexivity.
    + apply post_done_same; try assumption; try reflexivity. unfold commit_ok. cbn.
      rewrite (abs_none _ _ Hg). reflexivity.
  - (* upsert *)
    assert (Hstart : forall ts ex s1, resolve s k tso = (ts, ex, s1) ->
              step_post s (OUpsert k v tso) s1 (inl (PUTop ts ex)) None).
    { intros ts ex s1 Hr. destruct (resolve_tbl _ _ _ _ _ _ Hr) as [Ht Hn].
      apply post_goto; try assumption; try exact I. }
    destruct p;
      try (destruct (resolve s k tso) as [[ts0 ex0] s1] eqn:Hr; unfold goto in Hstep; inv Hstep;
           exact (Hstart _ _ _ eq_refl)).
    + (* PUTop *)
      destruct (aget k (tbl s)) as [g|] eqn:Hg.
      * destruct (ts <=? g_ts g) eqn:Hle; unfold done, goto in Hstep; inv Hstep.
        -- apply post_done_same; try assumption; try reflexivity. unfold commit_ok. cbn.
           rewrite (abs_some _ _ _ Hg). rewrite Hle. reflexivity.
        -- apply post_goto; try assumption; try reflexivity; try exact I.
      * unfold goto in Hstep. inv Hstep. apply post_goto; try assumption; try reflexivity; try exact I.
    + (* PUGuard *)
      destruct (aget k (tbl s)) as [e|] eqn:Hg.
      * destruct (negb (same e g) && (ts <=? rt s (g_id g))) eqn:Hd.
        -- unfold done in Hstep. inv Hstep. apply post_done_same; try assumption; try reflexivity.
           unfold commit_ok. cbn. rewrite (abs_some _ _ _ Hg).
           destruct (ts <=? g_ts e) eqn:Hle; cbn; [reflexivity | split; [reflexivity | left; reflexivity]].
        -- destruct (ts <=? g_ts e) eqn:Hle; unfold done in Hstep; inv Hstep.
           ++ apply post_done_same; try assumption; try reflexivity. unfold commit_ok. cbn.
              rewrite (abs_some _ _ _ Hg). rewrite Hle. reflexivity.
           ++ eapply post_done_set with (s1 := s); try assumption; try reflexivity.
              ** first [apply tbl_publish_replace | reflexivity].
              ** first [apply nid_publish_replace | reflexivity].
              ** cbn. rewrite (abs_some _ _ _ Hg). rewrite Hle. reflexivity.
      * destruct (ts <=? rt s (g_id g)) eqn:Hd; unfold done, goto in Hstep; inv Hstep.
        -- apply post_done_same; try assumption; try reflexivity. unfold commit_ok. cbn.
           split; [reflexivity | left; reflexivity].
        -- apply post_goto; try assumption; try reflexivity; try exact I.
    + (* PUIns *)
      destruct (aget k (tbl s)) as [e|] eqn:Hg; unfold done, goto in Hstep; inv Hstep.
      * apply post_goto; try assumption; try reflexivity; try exact I.
      * eapply post_done_set with (s1 := s); try assumption; try reflexivity.
        -- first [apply tbl_publish_new | reflexivity].
        -- first [apply nid_publish_new | reflexivity].
        -- cbn. rewrite (abs_none _ _ Hg). reflexivity.
  - (* delete *)
    assert (Hstart : forall ts ex s1, resolve s k tso = (ts, ex, s1) ->
              step_post s (ODelete k tso) s1 (inl (PDGuard ts ex)) None).
    { intros ts ex s1 Hr. destruct (resolve_tbl _ _ _ _ _ _ Hr) as [Ht Hn].
      apply post_goto; try assumption; try exact I. }
    destruct p;
      try (destruct (resolve s k tso) as [[ts0 ex0] s1] eqn:Hr; unfold goto in Hstep; inv Hstep;
           exact (Hstart _ _ _ eq_refl)).
    destruct (aget k (tbl s)) as [e|] eqn:Hg.
    + destruct (ts <=? g_ts e) eqn:Hle; unfold done in Hstep; inv Hstep.
      * apply post_done_same; try assumption; try reflexivity. unfold commit_ok. cbn.
        rewrite (abs_some _ _ _ Hg). rewrite Hle. reflexivity.
      * eapply post_done_del; try assumption.
        -- first [apply tbl_retire_remove | reflexivity].
        -- first [apply nid_retire_remove | reflexivity].
        -- cbn. rewrite (abs_some _ _ _ Hg). rewrite Hle. reflexivity.
    + unfold done in Hstep. inv Hstep. apply post_done_same; try assumption; try reflexivity.
      unfold commit_ok. cbn. rewrite (abs_none _ _ Hg). reflexivity.
  - (* cas *)
    assert (Hstart : forall s1 r1 c1,
              match aget k (tbl s) with
              | None => done s (OCas k e n tso) 0 false (RBool false) false
              | Some g =>
                  if val_eqb (g_val g) e
                  then let '(ts, ex, s') := resolve s k tso in goto s' (PCGuard ts ex g (nget k (ver s)))
                  else done s (OCas k e n tso) 0 false (RBool false) false
              end = (s1, r1, c1) -> step_post s (OCas k e n tso) s1 r1 c1).
    { intros s1 r1 c1 H. destruct (aget k (tbl s)) as [g|] eqn:Hg.
      - destruct (val_eqb (g_val g) e) eqn:Hv.
        + destruct (resolve s k tso) as [[ts0 ex0] s2] eqn:Hr. unfold goto in H. inv H.
          destruct (resolve_tbl _ _ _ _ _ _ Hr) as [Ht Hn].
          apply post_goto; try assumption. cbn. split; [|exact Hv].
          apply held_ext with (s := s); [exact (held_of_table _ _ _ Hok Hg) | exact (ext_same_tbl _ _ Ht Hn)].
        + unfold done in H. inv H. apply post_done_same; try assumption; try reflexivity.
          unfold commit_ok. cbn. rewrite (abs_some _ _ _ Hg). rewrite Hv. reflexivity.
      - unfold done in H. inv H. apply post_done_same; try assumption; try reflexivity.
        unfold commit_ok. cbn. rewrite (abs_none _ _ Hg). reflexivity. }
    destruct p; try exact (Hstart _ _ _ Hstep).
    (* PCGuard *)
    cbn in Hpc. destruct Hpc as [Hheld Hv].
    destruct (aget k (tbl s)) as [c0|] eqn:Hg.
    + destruct (negb (same c0 g)) eqn:Hs.
      * unfold done in Hstep. inv Hstep. apply post_done_same; try assumption; try reflexivity.
        unfold commit_ok. cbn. rewrite (abs_some _ _ _ Hg).
        destruct (val_eqb (g_val c0) e) eqn:Hv2; cbn.
        -- split; [reflexivity | right; reflexivity].
        -- reflexivity.
      * apply negb_false_iff in Hs. pose proof (same_eq _ _ _ Hheld _ Hg Hs) as Heq. subst c0.
        destruct (ts <=? g_ts g) eqn:Hle; unfold done in Hstep; inv Hstep.
        -- apply post_done_same; try assumption; try reflexivity. unfold commit_ok. cbn.
           rewrite (abs_some _ _ _ Hg). rewrite Hv, Hle. reflexivity.
        -- eapply post_done_set with (s1 := s); try assumption; try reflexivity.
           ++ first [apply tbl_publish_replace | reflexivity].
           ++ first [apply nid_publish_replace | reflexivity].
           ++ cbn. rewrite (abs_some _ _ _ Hg). rewrite Hv, Hle. reflexivity.
    + unfold done in Hstep. inv Hstep. apply post_done_same; try assumption; try reflexivity.
      unfold commit_ok. cbn. rewrite (abs_none _ _ Hg). reflexivity.
  - (* incr *)
    destruct p; try (unfold goto in Hstep; inv Hstep; apply post_goto; try assumption; try reflexivity; try exact I).
    + (* PNTop *)
      destruct (aget k (tbl s)) as [g|] eqn:Hg.
      * destruct tso as [t|].
        -- destruct (t <=? g_ts g) eqn:Hle.
           ++ unfold done in Hstep. inv Hstep. apply post_done_same; try assumption; try reflexivity.
              unfold commit_ok. cbn. rewrite (abs_some _ _ _ Hg). rewrite Hle. reflexivity.
           ++ destruct (g_val g) as [b|l|z] eqn:Hv; unfold done, goto in Hstep; inv Hstep.
              ** apply post_done_same; try assumption; try reflexivity. unfold commit_ok. cbn.
                 rewrite (abs_some _ _ _ Hg). rewrite Hle, Hv. reflexivity.
              ** apply post_done_same; try assumption; try reflexivity. unfold commit_ok. cbn.
                 rewrite (abs_some _ _ _ Hg). rewrite Hle, Hv. reflexivity.
              ** apply post_goto; try assumption; try reflexivity. cbn.
                 split; [exact (held_of_table _ _ _ Hok Hg) | exists z; split; [exact Hv | reflexivity]].
        -- destruct (g_val g) as [b|l|z] eqn:Hv.
           ++ unfold done in Hstep. inv Hstep. apply post_done_same; try assumption; try reflexivity.
              unfold commit_ok. cbn. rewrite (abs_some _ _ _ Hg). rewrite Hv. reflexivity.
           ++ unfold done in Hstep. inv Hstep. apply post_done_same; try assumption; try reflexivity.
              unfold commit_ok. cbn. rewrite (abs_some _ _ _ Hg). rewrite Hv. reflexivity.
           ++ destruct (draw s k) as [t s1] eqn:Hd. unfold goto in Hstep. inv Hstep.
              assert (Ht : tbl s' = tbl s) by (change s' with (snd (t, s')); rewrite <- Hd; reflexivity).
              assert (Hn : nid s' = nid s) by (change s' with (snd (t, s')); rewrite <- Hd; reflexivity).
              apply post_goto; try assumption. cbn. split.
              ** apply held_ext with (s := s); [exact (held_of_table _ _ _ Hok Hg) | exact (ext_same_tbl _ _ Ht Hn)].
              ** exists z. split; [exact Hv | reflexivity].
      * (* absent *)
        set (ra := match obs with Some r0 => rt s (g_id r0) | None => 0 end) in Hstep.
        destruct tso as [t|].
        -- destruct (t <=? ra) eqn:Hle; unfold done, goto in Hstep; inv Hstep.
           ++ apply post_done_same; try assumption; try reflexivity. unfold commit_ok. cbn.
              split; [reflexivity | left; reflexivity].
           ++ apply post_goto; try assumption; try reflexivity; try exact I.
        -- destruct (draw s k) as [t s1] eqn:Hd.
           assert (Ht : tbl s1 = tbl s) by (change s1 with (snd (t, s1)); rewrite <- Hd; reflexivity).
           assert (Hn : nid s1 = nid s) by (change s1 with (snd (t, s1)); rewrite <- Hd; reflexivity).
           destruct (N.max t (ra + 1) <=? ra) eqn:Hle; unfold done, goto in Hstep; inv Hstep.
           ++ apply N.leb_le in Hle. lia.
           ++ apply post_goto; try assumption; try exact I.
    + (* PNCreate *)
      destruct (aget k (tbl s)) as [e|] eqn:Hg; unfold done, goto in Hstep; inv Hstep.
      * apply post_goto; try assumption; try reflexivity; try exact I.
      * eapply post_done_set with (s1 := s); try assumption; try reflexivity.
        -- first [apply tbl_publish_new | reflexivity].
        -- first [apply nid_publish_new | reflexivity].
        -- cbn. rewrite (abs_none _ _ Hg). reflexivity.
    + (* PNGuard *)
      cbn in Hpc. destruct Hpc as [Hheld [z [Hv Hnv]]].
      destruct (aget k (tbl s)) as [e|] eqn:Hg.
      * destruct (negb (same e g)) eqn:Hs.
        -- destruct (ex && (ts <=? rt s (g_id root))) eqn:Hd; unfold done, goto in Hstep; inv Hstep.
           ++ apply andb_true_iff in Hd. destruct Hd as [Hex _]. subst ex.
              apply post_done_same; try assumption; try reflexivity. unfold commit_ok. cbn.
              rewrite (abs_some _ _ _ Hg).
              destruct (ts <=? g_ts e) eqn:Hle; cbn; [reflexivity | split; [reflexivity | left; reflexivity]].
           ++ apply post_goto; try assumption; try reflexivity; try exact I.
        -- apply negb_false_iff in Hs. pose proof (same_eq _ _ _ Hheld _ Hg Hs) as Heq. subst e.
           destruct (ts <=? g_ts g) eqn:Hle; unfold done in Hstep; inv Hstep.
           ++ apply post_done_same; try assumption; try reflexivity. unfold commit_ok. cbn.
              rewrite (abs_some _ _ _ Hg). rewrite Hle, Hv. rewrite andb_true_r. destruct ex; reflexivity.
           ++ eapply post_done_set with (s1 := s); try assumption; try reflexivity.
              ** first [apply tbl_publish_replace | reflexivity].
              ** first [apply nid_publish_replace | reflexivity].
              ** cbn. rewrite (abs_some _ _ _ Hg). rewrite Hle, Hv. rewrite andb_false_r. reflexivity.
      * destruct (ex && (ts <=? rt s (g_id root))) eqn:Hd; unfold done, goto in Hstep; inv Hstep.
        -- apply post_done_same; try assumption; try reflexivity. unfold commit_ok. cbn.
           split; [reflexivity | left; reflexivity].
        -- apply post_goto; try assumption; try reflexivity; try exact I.
  - (* insert_if_absent *)
    destruct (aget k (tbl s)) as [g|] eqn:Hg.
    + unfold done in Hstep. inv Hstep. apply post_done_same; try assumption; try reflexivity.
      unfold commit_ok. cbn. rewrite (abs_some _ _ _ Hg). reflexivity.
    + destruct (draw s k) as [t s1] eqn:Hd. unfold done in Hstep. inv Hstep.
      assert (Ht : tbl s1 = tbl s) by (change s1 with (snd (t, s1)); rewrite <- Hd; reflexivity).
      assert (Hn : nid s1 = nid s) by (change s1 with (snd (t, s1)); rewrite <- Hd; reflexivity).
      eapply post_done_set with (s1 := s1); try assumption.
      * first [apply tbl_publish_new | reflexivity].
      * first [apply nid_publish_new | reflexivity].
      * cbn. rewrite (abs_none _ _ Hg). reflexivity.
  - (* json patch *)
    assert (Hstart : forall ts ex s1, resolve s k tso = (ts, ex, s1) ->
              step_post s (OPatch k pj tso) s1 (inl (PPTop ts ex None)) None).
    { intros ts ex s1 Hr. destruct (resolve_tbl _ _ _ _ _ _ Hr) as [Ht Hn].
      apply post_goto; try assumption; try exact I. }
    destruct p;
      try (destruct (resolve s k tso) as [[ts0 ex0] s1] eqn:Hr; unfold goto in Hstep; inv Hstep;
           exact (Hstart _ _ _ eq_refl)).
    + (* PPTop *)
      destruct (aget k (tbl s)) as [r0|] eqn:Hg.
      * set (ob := match obs with Some x => x | None => r0 end) in Hstep.
        destruct (negb (same ob r0) && (ts <=? rt s (g_id ob))) eqn:Hd.
        -- unfold done in Hstep. inv Hstep. apply post_done_same; try assumption; try reflexivity.
           unfold commit_ok. cbn. rewrite (abs_some _ _ _ Hg).
           destruct (ts <=? g_ts r0) eqn:Hle; cbn; [reflexivity | split; [reflexivity | left; reflexivity]].
        -- destruct (ts <=? g_ts r0) eqn:Hle.
           ++ unfold done in Hstep. inv Hstep. apply post_done_same; try assumption; try reflexivity.
              unfold commit_ok. cbn. rewrite (abs_some _ _ _ Hg). rewrite Hle. reflexivity.
           ++ destruct (g_val r0) as [b|l|z] eqn:Hv; unfold done, goto in Hstep; inv Hstep.
              ** apply post_done_same; try assumption; try reflexivity. unfold commit_ok. cbn.
                 rewrite (abs_some _ _ _ Hg). rewrite Hle, Hv. reflexivity.
              ** apply post_goto; try assumption; try reflexivity. cbn.
                 split; [exact (held_of_table _ _ _ Hok Hg) | exists l; split; [exact Hv | reflexivity]].
              ** apply post_done_same; try assumption; try reflexivity. unfold commit_ok. cbn.
                 rewrite (abs_some _ _ _ Hg). rewrite Hle, Hv. reflexivity.
      * unfold done in Hstep. inv Hstep. apply post_done_same; try assumption; try reflexivity.
        unfold commit_ok. cbn. rewrite (abs_none _ _ Hg). reflexivity.
    + (* PPGuard *)
      cbn in Hpc. destruct Hpc as [Hheld [l [Hv Hnv]]].
      destruct (aget k (tbl s)) as [e|] eqn:Hg.
      * destruct (negb (same e r0)) eqn:Hs.
        -- unfold goto in Hstep. inv Hstep. apply post_goto; try assumption; try reflexivity; try exact I.
        -- apply negb_false_iff in Hs. pose proof (same_eq _ _ _ Hheld _ Hg Hs) as Heq. subst e.
           destruct (ts <=? g_ts r0) eqn:Hle; unfold done in Hstep; inv Hstep.
           ++ apply post_done_same; try assumption; try reflexivity. unfold commit_ok. cbn.
              rewrite (abs_some _ _ _ Hg). rewrite Hle. reflexivity.
           ++ eapply post_done_set with (s1 := s); try assumption; try reflexivity.
              ** first [apply tbl_publish_replace | reflexivity].
              ** first [apply nid_publish_replace | reflexivity].
              ** cbn. rewrite (abs_some _ _ _ Hg). rewrite Hle, Hv. reflexivity.
      * unfold goto in Hstep. inv Hstep. apply post_goto; try assumption; try reflexivity; try exact I.
Qed.

(* ---- whole executions ---- *)
Definition astate := N -> kstate.

(* a legal sequential history with the permitted refusals: each commit, applied to the state
   left by the previous ones, is what the sequential spec does (or a flagged refusal that
   changes nothing) *)
Inductive lin_rel : astate -> list commit -> astate -> Prop :=
| lin_nil st st' : (forall k, st' k = st k) -> lin_rel st [] st'
| lin_snoc st log st1 c st2 :
    lin_rel st log st1 ->
    (forall k', k' <> key_of (c_op c) -> st2 k' = st1 k') ->
    commit_ok (st1 (key_of (c_op c))) c (st2 (key_of (c_op c))) ->
    lin_rel st (log ++ [c]) st2.

Lemma lin_rel_ext st log st1 st2 : lin_rel st log st1 -> (forall k, st2 k = st1 k) -> lin_rel st log st2.
Proof.
  intros H Heq. inversion H as [sa sb Hab | sa lg sb c sc Hrel Hoth Hc]; subst.
  - apply lin_nil. intros k. rewrite Heq. apply Hab.
  - eapply lin_snoc; [exact Hrel | |].
    + intros k' Hne. rewrite Heq. apply Hoth. exact Hne.
    + rewrite Heq. exact Hc.
Qed.

Lemma nth_error_set_nth_same {A} (l : list A) i a x :
  nth_error l i = Some x -> nth_error (set_nth i a l) i = Some a.
Proof.
  revert i. induction l as [|y t IH]; intros [|i] H; cbn in *; try discriminate; [reflexivity | exact (IH i H)].
Qed.

Lemma nth_error_set_nth_other {A} (l : list A) i j a :
  i <> j -> nth_error (set_nth i a l) j = nth_error l j.
Proof.
  revert i j. induction l as [|y t IH]; intros [|i] [|j] Hne; cbn; try reflexivity; try congruence.
  apply IH. congruence.
Qed.

Definition commits_of (i : nat) (log : list (nat * commit)) : list commit :=
  map snd (filter (fun ic => Nat.eqb (fst ic) i) log).

Lemma commits_of_snoc_same i log c : commits_of i (log ++ [(i, c)]) = commits_of i log ++ [c].
Proof. unfold commits_of. rewrite filter_app, map_app. cbn. rewrite Nat.eqb_refl. reflexivity. Qed.

Lemma commits_of_snoc_other i j log c : i <> j -> commits_of j (log ++ [(i, c)]) = commits_of j log.
Proof.
  intros Hne. unfold commits_of. rewrite filter_app, map_app. cbn.
  destruct (Nat.eqb i j) eqn:E; [apply Nat.eqb_eq in E; congruence | cbn; apply app_nil_r].
Qed.

Record WInv (progs : list (list op)) (st0 : astate) (w : world) : Prop := {
  wi_table : table_ok (w_sh w);
  wi_len : length (w_th w) = length progs;
  wi_pc : forall i th, nth_error (w_th w) i = Some th ->
          match t_ops th with o :: _ => pc_ok (w_sh w) o (t_pc th) | [] => True end;
  wi_lin : lin_rel st0 (map snd (w_log w)) (abs (w_sh w));
  wi_out : forall i th, nth_error (w_th w) i = Some th ->
           rev (t_out th) = map c_resp (commits_of i (w_log w));
  wi_prog : forall i th, nth_error (w_th w) i = Some th ->
            nth_error progs i = Some (map c_op (commits_of i (w_log w)) ++ t_ops th)
}.

Lemma pc_ok_start s o : pc_ok s o PStart.
Proof. destruct o; exact I. Qed.

Lemma length_set_nth {A} i (a : A) l : length (set_nth i a l) = length l.
Proof. revert i. induction l as [|x t IH]; intros [|i]; cbn; try reflexivity. rewrite IH. reflexivity. Qed.

Theorem tstep_WInv progs st0 w i : WInv progs st0 w -> WInv progs st0 (tstep w i).
Proof.
  intros [Htab Hlen Hpc Hlin Hout Hprog]. unfold tstep.
  destruct (nth_error (w_th w) i) as [th|] eqn:Hth; [|constructor; assumption].
  destruct (t_ops th) as [|o rest] eqn:Hops; [constructor; assumption|].
  destruct (opstep (w_sh w) o (t_pc th)) as [[s' r] c] eqn:Hstep.
  pose proof (Hpc i th Hth) as Hpci. rewrite Hops in Hpci.
  destruct (opstep_sim _ _ _ _ _ _ Htab Hpci Hstep) as [Htab' [Hext [Hoth Hc]]].
  constructor; cbn [w_sh w_th w_log].
  - exact Htab'.
  - rewrite length_set_nth. exact Hlen.
  - intros j thj Hj. destruct (Nat.eq_dec i j) as [<-|Hne].
    + rewrite (nth_error_set_nth_same _ _ _ _ Hth) in Hj. inversion Hj. subst thj. clear Hj.
      destruct c as [cm|].
      * destruct Hc as [Hr _]. subst r. cbn. destruct rest as [|o2 rest2]; [exact I | apply pc_ok_start].
      * destruct Hc as [_ [p' [Hr Hp']]]. subst r. cbn. exact Hp'.
    + rewrite (nth_error_set_nth_other _ _ _ _ Hne) in Hj. pose proof (Hpc j thj Hj) as H.
      destruct (t_ops thj) as [|oj restj]; [exact I|]. exact (pc_ok_ext _ _ _ _ H Hext).
  - destruct c as [cm|].
    + destruct Hc as [_ [Hop Hcm]]. rewrite map_app. cbn.
      eapply lin_snoc; [exact Hlin | rewrite Hop; exact Hoth | rewrite Hop; exact Hcm].
    + destruct Hc as [Hsame _]. apply lin_rel_ext with (st1 := abs (w_sh w)); [exact Hlin|].
      intros k. destruct (N.eq_dec k (key_of o)) as [->|Hne]; [exact Hsame | exact (Hoth k Hne)].
  - intros j thj Hj. destruct (Nat.eq_dec i j) as [<-|Hne].
    + rewrite (nth_error_set_nth_same _ _ _ _ Hth) in Hj. inversion Hj. subst thj. clear Hj.
      destruct c as [cm|].
      * destruct Hc as [Hr _]. subst r. cbn. rewrite commits_of_snoc_same, map_app. cbn.
        rewrite (Hout i th Hth). reflexivity.
      * destruct Hc as [_ [p' [Hr _]]]. subst r. cbn. exact (Hout i th Hth).
    + rewrite (nth_error_set_nth_other _ _ _ _ Hne) in Hj.
      destruct c as [cm|]; [rewrite (commits_of_snoc_other _ _ _ _ Hne)|]; exact (Hout j thj Hj).
  - intros j thj Hj. destruct (Nat.eq_dec i j) as [<-|Hne].
    + rewrite (nth_error_set_nth_same _ _ _ _ Hth) in Hj. inversion Hj. subst thj. clear Hj.
      pose proof (Hprog i th Hth) as Hp. rewrite Hops in Hp.
      destruct c as [cm|].
      * destruct Hc as [Hr [Hop _]]. subst r. cbn. rewrite commits_of_snoc_same, map_app. cbn.
        rewrite Hop. rewrite <- app_assoc. exact Hp.
      * destruct Hc as [_ [p' [Hr _]]]. subst r. cbn. exact Hp.
    + rewrite (nth_error_set_nth_other _ _ _ _ Hne) in Hj.
      destruct c as [cm|]; [rewrite (commits_of_snoc_other _ _ _ _ Hne)|]; exact (Hprog j thj Hj).
Qed.

Lemma run_WInv progs st0 sched : forall w, WInv progs st0 w -> WInv progs st0 (run w sched).
Proof.
  unfold run. induction sched as [|i t IH]; intros w H; cbn; [exact H|].
  apply IH. apply tstep_WInv. exact H.
Qed.

Lemma finish_WInv progs st0 fuel : forall w, WInv progs st0 w -> WInv progs st0 (finish fuel w).
Proof.
  induction fuel as [|f IH]; intros w H; cbn; [exact H|].
  destruct (first_unfinished (w_th w) 0); [apply IH; apply tstep_WInv; exact H | exact H].
Qed.

Lemma init_WInv shards progs : WInv progs (fun _ => None) (init_world shards progs).
Proof.
  constructor; cbn.
  - split; intros; discriminate.
  - apply map_length.
  - intros i th H. rewrite nth_error_map in H. destruct (nth_error progs i); [|discriminate].
    inversion H. cbn. destruct l; [exact I | apply pc_ok_start].
  - apply lin_nil. reflexivity.
  - intros i th H. rewrite nth_error_map in H. destruct (nth_error progs i); [|discriminate].
    inversion H. reflexivity.
  - intros i th H. rewrite nth_error_map in H. destruct (nth_error progs i); [|discriminate].
    inversion H. reflexivity.
Qed.

(* MAIN THEOREM: for every set of programs, every schedule and any amount of completion,
   the commit log is a legal sequential history from the empty store to the final contents,
   every thread received exactly the responses of its own commits, in program order.  Commits
   are logged at the step that answers the call, so the order of the log is the order of the
   responses: a call that answered before another one started is linearized before it. *)
Theorem every_schedule_linearizable shards progs sched fuel :
  let w := finish fuel (run (init_world shards progs) sched) in
  lin_rel (fun _ => None) (map snd (w_log w)) (abs (w_sh w)) /\
  forall i th, nth_error (w_th w) i = Some th ->
    nth_error progs i = Some (map c_op (commits_of i (w_log w)) ++ t_ops th) /\
    rev (t_out th) = map c_resp (commits_of i (w_log w)).
Proof.
  intros w.
  assert (H : WInv progs (fun _ => None) w).
  { apply finish_WInv. apply run_WInv. apply init_WInv. }
  split; [exact (wi_lin _ _ _ H)|].
  intros i th Hth. split; [exact (wi_prog _ _ _ H i th Hth) | exact (wi_out _ _ _ H i th Hth)].
Qed.

(* a commit is produced by a step of the thread whose current call it answers *)
Theorem commit_is_own_step w i c :
  w_log (tstep w i) = w_log w ++ [(i, c)] ->
  exists th rest, nth_error (w_th w) i = Some th /\ t_ops th = c_op c :: rest /\
                  (table_ok (w_sh w) -> pc_ok (w_sh w) (c_op c) (t_pc th) ->
                   nth_error (w_th (tstep w i)) i = Some (mkth rest PStart (c_resp c :: t_out th))).
Proof.
  unfold tstep. destruct (nth_error (w_th w) i) as [th|] eqn:Hth.
  2:{ intros H. apply (f_equal (@length _)) in H. rewrite app_length in H. cbn in H. lia. }
  destruct (t_ops th) as [|o rest] eqn:Hops.
  { intros H. apply (f_equal (@length _)) in H. rewrite app_length in H. cbn in H. lia. }
  destruct (opstep (w_sh w) o (t_pc th)) as [[s' r] c0] eqn:Hstep. cbn [w_log w_th].
  destruct c0 as [cm|].
  2:{ intros H. apply (f_equal (@length _)) in H. rewrite app_length in H. cbn in H. lia. }
  intros H. apply app_inv_head in H. inversion H. subst cm.
  exists th, rest.
  assert (Hop : table_ok (w_sh w) -> pc_ok (w_sh w) o (t_pc th) -> c_op c = o /\ r = inr (c_resp c)).
  { intros Ht Hp. destruct (opstep_sim _ _ _ _ _ _ Ht Hp Hstep) as [_ [_ [_ [Hr [Ho _]]]]]. split; assumption. }
  (* the operation recorded in a commit is syntactically the stepped one *)
  assert (Ho : c_op c = o).
  { clear Hop H. unfold opstep, done, goto in Hstep.
    destruct o; repeat match type of Hstep with
                | context [match ?x with _ => _ end] => destruct x
                | context [if ?b then _ else _] => destruct b
                end; inversion Hstep; reflexivity. }
  split; [reflexivity|]. split; [rewrite Ho; exact Hops|].
  intros Ht Hp. rewrite Ho in Hp. destruct (Hop Ht Hp) as [_ Hr]. subst r.
  rewrite (nth_error_set_nth_same _ _ _ _ Hth). reflexivity.
Qed.

(* ---- consequences, read off the sequential witness ---- *)

(* an accepted modification never lands on a state carrying an equal or newer timestamp *)
Theorem accepted_write_on_older st1 c st2 v0 t0 :
  commit_ok st1 c st2 -> st1 = Some (v0, t0) -> st2 <> st1 -> t0 < c_ts c.
Proof.
  unfold commit_ok. intros H Hst Hne. subst st1.
  destruct (c_dev c); [destruct H as [H _]; congruence|].
  assert (Hle : (c_ts c <=? t0) = false -> t0 < c_ts c).
  { intros Hb. apply N.leb_gt in Hb. exact Hb. }
  destruct (c_op c) as [k|k v tso|k tso|k e n tso|k d tso|k v|k pj tso]; cbn in H.
  - inversion H. congruence.
  - destruct (c_ts c <=? t0) eqn:E; inversion H; subst; [congruence | (apply Hle; reflexivity)].
  - destruct (c_ts c <=? t0) eqn:E; inversion H; subst; [congruence | (apply Hle; reflexivity)].
  - destruct (val_eqb v0 e); [|inversion H; congruence].
    destruct (c_ts c <=? t0) eqn:E; inversion H; subst; [congruence | (apply Hle; reflexivity)].
  - destruct (c_ex c && (c_ts c <=? t0)); [inversion H; congruence|].
    destruct v0; try (inversion H; congruence).
    destruct (c_ts c <=? t0) eqn:E; inversion H; subst; [congruence | (apply Hle; reflexivity)].
  - inversion H. congruence.
  - destruct (c_ts c <=? t0) eqn:E; [inversion H; congruence|].
    destruct v0; inversion H; subst; try congruence; (apply Hle; reflexivity).
Qed.

(* no increment is lost: when the only calls that touch k are successful increments, the key
   holds the (saturating) sum of all their deltas *)
Definition incr_commit (k : N) (c : commit) : Prop :=
  key_of (c_op c) = k -> exists d t z, c_op c = OIncr k d t /\ c_dev c = false /\ c_resp c = RInt z.

Definition cnt_step (k : N) (acc : option Z) (c : commit) : option Z :=
  if key_of (c_op c) =? k then
    match c_op c with
    | OIncr _ d _ => Some (match acc with None => d | Some z => sat_add_i64 z d end)
    | _ => acc
    end
  else acc.

Definition counter_after (k : N) (log : list commit) : option Z := fold_left (cnt_step k) log None.

Theorem no_lost_increment k st0 log st :
  lin_rel st0 log st -> st0 k = None -> Forall (incr_commit k) log ->
  match counter_after k log with
  | None => st k = None
  | Some z => exists t, st k = Some (VC z, t)
  end.
Proof.
  intros Hrel H0. induction Hrel as [sa sb Hab | sa lg sb c sc Hrel IH Hoth Hc]; intros Hall.
  - cbn. rewrite Hab. exact H0.
  - apply Forall_app in Hall. destruct Hall as [Hall Hc1]. inversion Hc1 as [|? ? Hic _]; subst.
    specialize (IH H0 Hall). unfold counter_after in *. rewrite fold_left_app. cbn [fold_left].
    set (acc := fold_left (cnt_step k) lg None) in *.
    unfold cnt_step. destruct (key_of (c_op c) =? k) eqn:Ek.
    + apply N.eqb_eq in Ek. destruct (Hic Ek) as [d [t [z [Hop [Hdev Hresp]]]]].
      unfold commit_ok in Hc. rewrite Hdev, Hresp, Ek in Hc. rewrite Hop in Hc |- *.
      destruct acc as [z0|].
      * destruct IH as [t0 IH]. rewrite IH in Hc. cbn in Hc.
        destruct (c_ex c && (c_ts c <=? t0)); [inversion Hc|].
        destruct (c_ts c <=? t0); inversion Hc. eexists. reflexivity.
      * rewrite IH in Hc. cbn in Hc. inversion Hc. eexists. reflexivity.
    + apply N.eqb_neq in Ek. rewrite (Hoth k (fun H => Ek (eq_sym H))). exact IH.
Qed.

(* exactly one of several racing insert-if-absent calls wins, as long as nobody deletes the key *)
Definition ifabsent_win (k : N) (c : commit) : bool :=
  match c_op c, c_resp c with
  | OIfAbsent k' _, RBool true => k' =? k
  | _, _ => false
  end.

Definition not_delete_of (k : N) (c : commit) : Prop :=
  match c_op c with ODelete k' _ => k' <> k \/ c_resp c <> RUnit | _ => True end.

Theorem one_winner_insert_if_absent k st0 log st :
  lin_rel st0 log st -> Forall (not_delete_of k) log ->
  (length (filter (ifabsent_win k) log) + (match st0 k with Some _ => 1 | None => 0 end) <= 1)%nat /\
  (length (filter (ifabsent_win k) log) = 1%nat \/ st0 k <> None -> st k <> None).
Proof.
  intros Hrel. induction Hrel as [sa sb Hab | sa lg sb c sc Hrel IH Hoth Hc]; intros Hall.
  - cbn. split; [destruct (sa k); lia|]. rewrite Hab. intros [H|H]; [discriminate | exact H].
  - apply Forall_app in Hall. destruct Hall as [Hall Hc1]. inversion Hc1 as [|? ? Hnd _]; subst.
    destruct (IH Hall) as [IH1 IH2]. rewrite filter_app, app_length.
    destruct (N.eq_dec (key_of (c_op c)) k) as [Ek|Ek].
    2:{ assert (Hw : ifabsent_win k c = false).
        { unfold ifabsent_win. destruct (c_op c); try reflexivity. destruct (c_resp c); try reflexivity.
          destruct b; [|reflexivity]. cbn in Ek. apply N.eqb_neq. exact Ek. }
        cbn [filter]. rewrite Hw. cbn [length]. rewrite Nat.add_0_r.
        rewrite (Hoth k (fun H => Ek (eq_sym H))). split; assumption. }
    (* the commit is on k *)
    unfold commit_ok in Hc. rewrite Ek in Hc.
    assert (Hpres : sb k <> None -> sc k <> None /\ ifabsent_win k c = false).
    { intros Hp. destruct (sb k) as [[v0 t0]|] eqn:Esb; [clear Hp|congruence].
      destruct (c_dev c).
      - destruct Hc as [Hc Hr]. rewrite Hc. split; [discriminate|].
        unfold ifabsent_win. destruct (c_op c); try reflexivity. destruct Hr as [->| ->]; reflexivity.
      - unfold not_delete_of in Hnd. unfold ifabsent_win.
        destruct (c_op c) as [k1|k1 v tso|k1 tso|k1 e n tso|k1 d tso|k1 v|k1 pj tso]; cbn in Hc, Ek; subst k1.
        + inversion Hc. split; [discriminate | reflexivity].
        + destruct (c_ts c <=? t0); inversion Hc; split; try discriminate; reflexivity.
        + destruct (c_ts c <=? t0); inversion Hc; subst.
          * split; [discriminate | reflexivity].
          * destruct Hnd as [Hnd|Hnd]; [congruence | rewrite <- H1 in Hnd; congruence].
        + destruct (val_eqb v0 e); [destruct (c_ts c <=? t0)|]; inversion Hc; split; try discriminate; reflexivity.
        + destruct (c_ex c && (c_ts c <=? t0)); [inversion Hc; split; [discriminate | reflexivity]|].
          destruct v0; [inversion Hc; split; [discriminate | reflexivity] | inversion Hc; split; [discriminate | reflexivity] |].
          destruct (c_ts c <=? t0); inversion Hc; split; try discriminate; reflexivity.
        + inversion Hc. split; [discriminate|]. reflexivity.
        + destruct (c_ts c <=? t0); [inversion Hc; split; [discriminate | reflexivity]|].
          destruct v0; inversion Hc; split; try discriminate; reflexivity. }
    assert (Habs : sb k = None -> ifabsent_win k c = true -> sc k <> None).
    { intros Hn Hw. rewrite Hn in Hc. unfold ifabsent_win in Hw.
      destruct (c_op c) eqn:Eop; try discriminate. destruct (c_resp c) eqn:Er; try discriminate.
      destruct b; [|discriminate].
      destruct (c_dev c); [destruct Hc as [_ [Hc|Hc]]; discriminate|].
      cbn in Hc. inversion Hc. discriminate. }
    cbn [filter]. destruct (ifabsent_win k c) eqn:Hw; cbn [length].
    + (* a winner: the key was absent before *)
      assert (Hn : sb k = None).
      { destruct (sb k) eqn:E; [|reflexivity]. assert (Hx : Some p <> None) by discriminate.
        destruct (Hpres Hx) as [_ Hf]. congruence. }
      assert (Hz : length (filter (ifabsent_win k) lg) = 0%nat /\ sa k = None).
      { destruct (length (filter (ifabsent_win k) lg)) eqn:El.
        - split; [reflexivity|]. destruct (sa k) eqn:Es; [|reflexivity].
          exfalso. assert (Hsa : Some p <> None) by discriminate. exact (IH2 (or_intror Hsa) Hn).
        - exfalso. assert (n = 0%nat) by (destruct (sa k); lia). subst n.
          apply (IH2 (or_introl eq_refl)). exact Hn. }
      destruct Hz as [Hz1 Hz2]. rewrite Hz1, Hz2. split; [cbn; lia|].
      intros _. exact (Habs Hn eq_refl).
    + rewrite Nat.add_0_r. split; [exact IH1|].
      intros H. exact (proj1 (Hpres (IH2 H))).
Qed.
