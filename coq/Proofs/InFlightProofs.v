From Coq Require Import List Arith Bool Lia.
From Feox Require Import Model.InFlight.
Import ListNotations.

Lemma nth_set_same {A} (l : list A) i a d : i < length l -> nth i (set i a l) d = a.
Proof. revert i. induction l as [|x t IH]; intros [|i] H; cbn in *; try lia; [reflexivity | apply IH; lia]. Qed.
Lemma nth_set_other {A} (l : list A) i j a d : i <> j -> nth j (set i a l) d = nth j l d.
Proof. revert i j. induction l as [|x t IH]; intros [|i] [|j] H; cbn; try reflexivity; try congruence. apply IH. congruence. Qed.
Lemma length_set {A} (l : list A) i a : length (set i a l) = length l.
Proof. revert i. induction l as [|x t IH]; intros [|i]; cbn; try reflexivity. rewrite IH. reflexivity. Qed.

(* the invariant: same lengths; the kernel references only buffers marked in flight; a buffer the
   kernel may reference has not been freed *)
Record IFInv (s : ifb) : Prop := {
  if_len1 : length (inflight s) = length (bufs s);
  if_len2 : length (kern s) = length (bufs s);
  if_sub : forall i, nth i (kern s) false = true -> nth i (inflight s) false = true;
  if_safe : forall i, nth i (kern s) false = true -> nth i (bufs s) Owned <> Freed;
  if_owned : dropped s = false -> forall i, nth i (bufs s) Owned = Owned
}.

Lemma ifinit_IFInv : IFInv ifinit.
Proof. constructor; cbn; try reflexivity; try (intros [|i] H; discriminate). intros _ [|i]; reflexivity. Qed.

Lemma nth_drop_all bs : forall fl i, length fl = length bs ->
  nth i (drop_all bs fl) Owned = if i <? length bs then drop_one (nth i bs Owned) (nth i fl false) else Owned.
Proof.
  induction bs as [|b bt IH]; intros fl i Hl; cbn.
  - destruct i; reflexivity.
  - destruct fl as [|f ft]; [discriminate|]. cbn in Hl. destruct i as [|i]; cbn; [reflexivity|].
    rewrite IH by lia. reflexivity.
Qed.

Lemma nth_true_lt (l : list bool) i : nth i l false = true -> i < length l.
Proof. intros H. destruct (Nat.lt_ge_cases i (length l)) as [Hl|Hl]; [exact Hl|]. rewrite nth_overflow in H by exact Hl. discriminate. Qed.

Theorem ifstep_IFInv s e : IFInv s -> IFInv (ifstep s e).
Proof.
  intros Hinv. unfold ifstep. destruct (dropped s) eqn:Hd; [exact Hinv|].
  destruct Hinv as [L1 L2 Hsub Hsafe Hown]. specialize (Hown Hd).
  assert (Hsafe' : forall (k : list bool) i, nth i k false = true -> nth i (bufs s) Owned <> Freed).
  { intros k i _. rewrite Hown. discriminate. }
  destruct e as [|i|i|i|i|]; cbn.
  - constructor; cbn.
    + rewrite !app_length. cbn. lia.
    + rewrite !app_length. cbn. lia.
    + intros i H. destruct (Nat.lt_ge_cases i (length (kern s))) as [Hl|Hl].
      * rewrite app_nth1 in H by exact Hl. rewrite app_nth1 by lia. exact (Hsub i H).
      * rewrite app_nth2 in H by exact Hl. destruct (i - length (kern s)) as [|[|k]]; discriminate.
    + intros i H. destruct (Nat.lt_ge_cases i (length (bufs s))) as [Hl|Hl].
      * rewrite app_nth1 by exact Hl. rewrite Hown. discriminate.
      * rewrite app_nth2 by exact Hl. destruct (i - length (bufs s)) as [|[|k]]; discriminate.
    + intros _ i. destruct (Nat.lt_ge_cases i (length (bufs s))) as [Hl|Hl].
      * rewrite app_nth1 by exact Hl. apply Hown.
      * rewrite app_nth2 by exact Hl. destruct (i - length (bufs s)) as [|[|k]]; reflexivity.
  - constructor; cbn; try assumption.
    + rewrite length_set. exact L1.
    + intros j H. destruct (Nat.eq_dec i j) as [<-|Hne].
      * apply nth_set_same. rewrite L1, <- L2. exact (nth_true_lt _ _ H).
      * rewrite nth_set_other by exact Hne. exact (Hsub j H).
    + intros _. exact Hown.
  - destruct (nth i (inflight s) false) eqn:Ef; [|constructor; try assumption; intros _; exact Hown].
    constructor; cbn; try assumption.
    + rewrite length_set. exact L2.
    + intros j H. destruct (Nat.eq_dec i j) as [<-|Hne]; [exact Ef|].
      rewrite nth_set_other in H by exact Hne. exact (Hsub j H).
    + intros j _. rewrite Hown. discriminate.
    + intros _. exact Hown.
  - destruct (nth i (kern s) false) eqn:Ek; [constructor; try assumption; intros _; exact Hown|].
    constructor; cbn; try assumption.
    + rewrite length_set. exact L1.
    + intros j H. destruct (Nat.eq_dec i j) as [<-|Hne]; [congruence|].
      rewrite nth_set_other by exact Hne. exact (Hsub j H).
    + intros _. exact Hown.
  - destruct (nth i (kern s) false) eqn:Ek; [|constructor; try assumption; intros _; exact Hown].
    constructor; cbn.
    + rewrite length_set. exact L1.
    + rewrite length_set. exact L2.
    + intros j H. destruct (Nat.eq_dec i j) as [<-|Hne].
      * rewrite nth_set_same in H by (exact (nth_true_lt _ _ Ek)). discriminate.
      * rewrite nth_set_other in H by exact Hne. rewrite nth_set_other by exact Hne. exact (Hsub j H).
    + intros j _. rewrite Hown. discriminate.
    + intros _. exact Hown.
  - constructor; cbn; try assumption.
    + clear -L1. revert L1. generalize (inflight s). induction (bufs s) as [|b bt IH]; intros fl Hl; cbn; [exact Hl|].
      destruct fl as [|f ft]; [discriminate|]. cbn in *. f_equal. rewrite <- (IH ft) by lia. lia.
    + rewrite L2. clear -L1. revert L1. generalize (inflight s). induction (bufs s) as [|b bt IH]; intros fl Hl; cbn; [reflexivity|].
      destruct fl as [|f ft]; [discriminate|]. cbn in *. f_equal. apply (IH ft). lia.
    + intros j H. rewrite nth_drop_all by exact L1.
      pose proof (nth_true_lt _ _ H) as Hl. rewrite L2 in Hl. apply Nat.ltb_lt in Hl. rewrite Hl.
      rewrite (Hsub j H). rewrite Hown. cbn. discriminate.
    + discriminate.
Qed.

Theorem ifrun_IFInv evs : forall s, IFInv s -> IFInv (ifrun s evs).
Proof.
  unfold ifrun. induction evs as [|e t IH]; intros s H; cbn; [exact H | apply IH; apply ifstep_IFInv; exact H].
Qed.

(* MAIN: whatever the order of pushes, submissions, failures, completions and the final drop,
   a buffer the kernel may still read from is never freed *)
Theorem kernel_referenced_buffer_never_freed evs i :
  let s := ifrun ifinit evs in
  nth i (kern s) false = true -> nth i (bufs s) Owned <> Freed.
Proof. intros s H. exact (if_safe _ (ifrun_IFInv evs _ ifinit_IFInv) i H). Qed.

(* and nothing is leaked needlessly: a buffer is leaked only if it was marked in flight at the drop *)
Theorem leaked_only_if_in_flight evs i :
  let s := ifrun ifinit evs in
  nth i (bufs s) Owned = Leaked -> nth i (inflight s) false = true.
Proof.
  intros s. subst s. unfold ifrun.
  assert (G : forall evs s, IFInv s -> (nth i (bufs s) Owned = Leaked -> nth i (inflight s) false = true) ->
              nth i (bufs (fold_left ifstep evs s) ) Owned = Leaked -> nth i (inflight (fold_left ifstep evs s)) false = true).
  { clear. induction evs as [|e t IH]; intros s Hinv Hs; cbn; [exact Hs|].
    apply IH; [apply ifstep_IFInv; exact Hinv|].
    unfold ifstep. destruct (dropped s) eqn:Hd; [exact Hs|].
    pose proof (if_owned _ Hinv Hd) as Hown. pose proof (if_len1 _ Hinv) as L1.
    destruct e as [|j|j|j|j|]; cbn.
    - intros H. destruct (Nat.lt_ge_cases i (length (bufs s))) as [Hl|Hl].
      + rewrite app_nth1 in H by exact Hl. rewrite Hown in H. discriminate.
      + rewrite app_nth2 in H by exact Hl. destruct (i - length (bufs s)) as [|[|k]]; discriminate.
    - intros H. rewrite Hown in H. discriminate.
    - destruct (nth j (inflight s) false); cbn; intros H; rewrite Hown in H; discriminate.
    - destruct (nth j (kern s) false); cbn; intros H; rewrite Hown in H; discriminate.
    - destruct (nth j (kern s) false); cbn; intros H; rewrite Hown in H; discriminate.
    - intros H. destruct (Nat.lt_ge_cases i (length (bufs s))) as [Hl|Hl].
      + rewrite nth_drop_all in H by exact L1. apply Nat.ltb_lt in Hl. rewrite Hl in H.
        rewrite Hown in H. cbn in H. destruct (nth i (inflight s) false); [reflexivity | discriminate].
      + rewrite nth_overflow in H; [discriminate|].
        clear -Hl L1. revert Hl L1. generalize (inflight s). generalize i. induction (bufs s) as [|b bt IHb]; intros k fl Hl L1; cbn; [lia|].
        destruct fl as [|f ft]; [discriminate|]. cbn in *. destruct k as [|k]; [lia|]. apply le_n_S. apply (IHb k ft); lia. }
  apply G; [exact ifinit_IFInv|]. cbn. destruct i; discriminate.
Qed.
