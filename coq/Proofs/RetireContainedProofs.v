(* C05 / C03 / C04 at the byte level: what a retirement (retire_extents: at run time and inside
   recovery) and a journal replay can change in the file.  Whatever the extents, the journal
   position and the chunking: the length of the file stays, and a block that lies neither in a
   journal slot nor inside one of the named extents keeps every byte -- in particular both metadata
   copies and every record outside the named extents. *)
From Coq Require Import List NArith Bool Lia Arith.
From Feox Require Import Gen.Constants Model.Bytes Model.Crc32c Model.Codec Model.MetaJournal Model.Recovery
                         Proofs.CodecProofs Proofs.MetaJournalProofs Proofs.JournalLayoutProofs.
Import ListNotations.
Local Open Scope N_scope.

Definition in_exts (l : list (N * N)) (b : N) : Prop := exists s n, In (s, n) l /\ s <= b < s + n.

Lemma marker_run_len sector remaining k : length (marker_run sector remaining k) = k.
Proof. revert sector remaining. induction k as [|k IH]; intros; cbn [marker_run length]; [reflexivity|]. rewrite IH. reflexivity. Qed.

(* set_blocks without any premise on the device *)
Lemma set_blocks_len img sector bs : length (set_blocks img sector bs) = length img.
Proof. unfold set_blocks. rewrite !app_length, !firstn_length, skipn_length. lia. Qed.

Lemma set_blocks_out img sector bs k :
  (k < N.to_nat sector \/ N.to_nat sector + length bs <= k)%nat ->
  nth k (set_blocks img sector bs) [] = nth k img [].
Proof.
  intros Hk. unfold set_blocks. set (i := N.to_nat sector) in *.
  destruct (Nat.le_gt_cases (length img) k) as [Big|Small].
  { rewrite (nth_overflow img) by exact Big. apply nth_overflow.
    rewrite !app_length, !firstn_length, skipn_length. lia. }
  destruct Hk as [Hk|Hk].
  - rewrite app_nth1 by (rewrite firstn_length; lia).
    rewrite <- (firstn_skipn i img) at 2. rewrite app_nth1 by (rewrite firstn_length; lia). reflexivity.
  - assert (Li : (i + length bs <= length img)%nat) by lia.
    rewrite (firstn_all2 bs) by lia.
    rewrite app_nth2 by (rewrite firstn_length; lia). rewrite firstn_length, Nat.min_l by lia.
    rewrite app_nth2 by lia.
    rewrite <- (firstn_skipn (i + length bs) img) at 2.
    rewrite app_nth2 by (rewrite firstn_length; lia). rewrite firstn_length, Nat.min_l by lia.
    f_equal. lia.
Qed.

Lemma write_markers_len exts : forall img, length (write_markers img exts) = length img.
Proof. induction exts as [|[s n] t IH]; intros img; cbn [write_markers]; [reflexivity|]. rewrite IH, set_blocks_len. reflexivity. Qed.

Lemma write_markers_out exts : forall img k,
  ~ in_exts exts (N.of_nat k) -> nth k (write_markers img exts) [] = nth k img [].
Proof.
  induction exts as [|[s n] t IH]; intros img k Hk; cbn [write_markers]; [reflexivity|].
  rewrite IH by (intros (s' & n' & Hin & Hb); apply Hk; exists s', n'; split; [right; exact Hin|exact Hb]).
  apply set_blocks_out. rewrite marker_run_len.
  destruct (Nat.lt_ge_cases k (N.to_nat s)) as [A|A]; [left; exact A|].
  destruct (Nat.le_gt_cases (N.to_nat s + N.to_nat n) k) as [B|B]; [right; exact B|].
  exfalso. apply Hk. exists s, n. split; [left; reflexivity|lia].
Qed.

(* ---- coalesce names no block its argument does not name ---- *)
Lemma insert_by_start_in x : forall l y, In y (insert_by_start x l) <-> y = x \/ In y l.
Proof.
  induction l as [|z t IH]; intros y; cbn [insert_by_start].
  - cbn. intuition.
  - destruct (fst x <? fst z); cbn [In]; [intuition|]. rewrite IH. intuition.
Qed.

Lemma sort_by_start_in l : forall y, In y (sort_by_start l) <-> In y l.
Proof.
  unfold sort_by_start. induction l as [|x t IH]; intros y; cbn [fold_right]; [tauto|].
  rewrite insert_by_start_in, IH. cbn. intuition.
Qed.

Lemma coalesce_sorted_within : forall l acc co, coalesce_sorted l acc = Some co ->
  forall b, in_exts co b -> in_exts l b \/ in_exts acc b.
Proof.
  induction l as [|[s n] t IH]; intros acc co H b Hb; cbn [coalesce_sorted] in H.
  - injection H as <-. right. destruct Hb as (s' & n' & Hin & R). exists s', n'. split; [apply in_rev; exact Hin|exact R].
  - destruct (n =? 0); [discriminate|]. destruct acc as [|[ps pn] acc'].
    + destruct (IH _ _ H b Hb) as [(s' & n' & Hin & R)|(s' & n' & Hin & R)].
      * left. exists s', n'. split; [right; exact Hin|exact R].
      * left. exists s', n'. split; [left; destruct Hin as [E|[]]; exact E|exact R].
    + destruct (s <? ps + pn); [discriminate|]. destruct (N.eqb_spec s (ps + pn)) as [E|NE].
      * destruct (IH _ _ H b Hb) as [(s' & n' & Hin & R)|(s' & n' & Hin & R)].
        -- left. exists s', n'. split; [right; exact Hin|exact R].
        -- destruct Hin as [E'|Hin].
           ++ injection E' as <- <-. destruct (N.lt_ge_cases b (ps + pn)) as [A|A].
              ** right. exists ps, pn. split; [left; reflexivity|lia].
              ** left. exists s, n. split; [left; reflexivity|lia].
           ++ right. exists s', n'. split; [right; exact Hin|exact R].
      * destruct (IH _ _ H b Hb) as [(s' & n' & Hin & R)|(s' & n' & Hin & R)].
        -- left. exists s', n'. split; [right; exact Hin|exact R].
        -- destruct Hin as [E'|Hin].
           ++ left. exists s', n'. split; [left; exact E'|exact R].
           ++ right. exists s', n'. split; [exact Hin|exact R].
Qed.

Lemma coalesce_within l co : coalesce l = Some co -> forall b, in_exts co b -> in_exts l b.
Proof.
  unfold coalesce. intros H b Hb. destruct (coalesce_sorted_within _ _ _ H b Hb) as [(s & n & Hin & R)|(s & n & [] & _)].
  exists s, n. split; [apply sort_by_start_in; exact Hin|exact R].
Qed.

Lemma firstn_in {A} : forall k (l : list A) x, In x (firstn k l) -> In x l.
Proof. induction k as [|k IH]; intros [|a t] x H; cbn [firstn] in H; try contradiction. destruct H as [<-|H]; [left; reflexivity|right; exact (IH _ _ H)]. Qed.

Lemma skipn_in {A} : forall k (l : list A) x, In x (skipn k l) -> In x l.
Proof. induction k as [|k IH]; intros [|a t] x H; cbn [skipn] in H; try contradiction; try exact H. right. exact (IH _ _ H). Qed.

Lemma chunks_in {A} : forall fuel k (l c : list A) x, In c (chunks fuel k l) -> In x c -> In x l.
Proof.
  induction fuel as [|f IH]; intros k l c x Hc Hx; [destruct Hc|]. cbn [chunks] in Hc.
  destruct l as [|a t]; [destruct Hc|]. destruct Hc as [<-|Hc].
  - exact (firstn_in _ _ _ Hx).
  - specialize (IH _ _ _ _ Hc Hx). exact (skipn_in _ _ _ IH).
Qed.

Lemma chunks_len {A} : forall fuel k (l c : list A), In c (chunks fuel k l) -> (length c <= k)%nat.
Proof.
  induction fuel as [|f IH]; intros k l c Hc; [destruct Hc|]. cbn [chunks] in Hc.
  destruct l as [|a t]; [destruct Hc|]. destruct Hc as [<-|Hc]; [apply firstn_le_length|exact (IH _ _ _ Hc)].
Qed.

Definition outside_journal (k : nat) : Prop :=
  (k <= N.to_nat FEOX_METADATA_BLOCK \/ N.to_nat FEOX_METADATA_BACKUP_BLOCK <= k)%nat.

Lemma jnext_slot p : j_slot (jnext p) < ALLOCATION_JOURNAL_SLOTS.
Proof. cbn [jnext j_slot]. apply N.mod_lt. vm_compute. discriminate. Qed.

Lemma write_journal_contained img slot g st exts :
  slot < ALLOCATION_JOURNAL_SLOTS -> N.of_nat (length exts) <= ALLOCATION_JOURNAL_MAX_ENTRIES ->
  (N.to_nat FEOX_METADATA_BACKUP_BLOCK <= length img)%nat ->
  length (write_journal img slot g st exts) = length img /\
  forall k, outside_journal k -> nth k (write_journal img slot g st exts) [] = nth k img [].
Proof.
  intros Hs Hc Hl. split; [exact (proj1 (journal_write_stays_in_its_slot img slot g st exts 0 Hs Hc Hl))|].
  intros k Hk. apply (proj2 (journal_write_stays_in_its_slot img slot g st exts k Hs Hc Hl)).
  destruct (journal_slots_lie_between_the_metadata_copies slot Hs) as (A & B & _).
  unfold outside_journal in Hk. cbv zeta in A, B. lia.
Qed.

Definition same_outside (exts : list (N * N)) (img img' : image) : Prop :=
  length img' = length img /\
  forall k, outside_journal k -> ~ in_exts exts (N.of_nat k) -> nth k img' [] = nth k img [].

Lemma same_outside_refl exts img : same_outside exts img img.
Proof. split; [reflexivity|intros; reflexivity]. Qed.

Lemma same_outside_trans exts a b c : same_outside exts a b -> same_outside exts b c -> same_outside exts a c.
Proof. intros [L1 H1] [L2 H2]. split; [congruence|]. intros k O N. rewrite (H2 k O N). exact (H1 k O N). Qed.

Theorem retirement_is_contained img p exts :
  (N.to_nat FEOX_METADATA_BACKUP_BLOCK <= length img)%nat ->
  same_outside exts img (fst (fst (retire_extents img p exts))).
Proof.
  intros Hl. unfold retire_extents. destruct exts as [|e0 et]; [apply same_outside_refl|].
  set (exts := e0 :: et). destruct (coalesce exts) as [co|] eqn:Eco; [|apply same_outside_refl].
  pose proof (coalesce_within _ _ Eco) as W.
  set (cs := chunks (S (length co)) (N.to_nat ALLOCATION_JOURNAL_MAX_ENTRIES) co).
  assert (Hcs : forall c, In c cs -> (forall x, In x c -> In x co) /\ N.of_nat (length c) <= ALLOCATION_JOURNAL_MAX_ENTRIES).
  { intros c Hc. split; [intros x Hx; exact (chunks_in _ _ _ _ _ Hc Hx)|]. pose proof (chunks_len _ _ _ _ Hc). lia. }
  clearbody cs.
  assert (G : forall acc, same_outside exts img (fst (fst acc)) ->
              same_outside exts img (fst (fst (fold_left (fun (acc : image * jpos * bool) (chunk : list (N * N)) =>
                let '(im, q, ok) := acc in
                if negb ok then acc
                else if negb (jnext_ok q) then (im, q, false) else
                  let q1 := jnext q in
                  let im1 := write_journal im (j_slot q1) (j_gen q1) JOURNAL_ACTIVE chunk in
                  let im2 := write_markers im1 chunk in
                  if negb (jnext_ok q1) then (im2, q1, false) else
                  let q2 := jnext q1 in
                  (write_journal im2 (j_slot q2) (j_gen q2) JOURNAL_CLEAR [], q2, true)) cs acc)))).
  { induction cs as [|c t IH]; intros acc Hacc; [exact Hacc|]. cbn [fold_left]. apply IH; [intros c' Hc'; apply Hcs; right; exact Hc'|].
    destruct acc as [[im q] ok]. cbn [fst] in Hacc. destruct ok; cbn [negb]; [|exact Hacc].
    destruct (jnext_ok q); cbn [negb]; [|exact Hacc].
    destruct (Hcs c (or_introl eq_refl)) as [Hin Hlen].
    assert (Lim : (N.to_nat FEOX_METADATA_BACKUP_BLOCK <= length im)%nat) by (rewrite (proj1 Hacc); exact Hl).
    destruct (write_journal_contained im (j_slot (jnext q)) (j_gen (jnext q)) JOURNAL_ACTIVE c (jnext_slot q) Hlen Lim) as [L1 O1].
    set (im1 := write_journal im _ _ _ c) in *.
    assert (S1 : same_outside exts im im1) by (split; [exact L1|intros k O _; exact (O1 k O)]).
    set (im2 := write_markers im1 c).
    assert (S2 : same_outside exts im1 im2).
    { split; [apply write_markers_len|]. intros k _ Nk. apply write_markers_out.
      intros (s & n & Hsn & R). apply Nk. apply W. exists s, n. split; [apply Hin; exact Hsn|exact R]. }
    assert (S12 : same_outside exts img im2) by (eapply same_outside_trans; [exact Hacc|eapply same_outside_trans; [exact S1|exact S2]]).
    destruct (jnext_ok (jnext q)); cbn [negb fst]; [|exact S12].
    assert (Lim2 : (N.to_nat FEOX_METADATA_BACKUP_BLOCK <= length im2)%nat) by (rewrite (proj1 S12); exact Hl).
    destruct (write_journal_contained im2 (j_slot (jnext (jnext q))) (j_gen (jnext (jnext q))) JOURNAL_CLEAR [] (jnext_slot _) ltac:(cbn; lia) Lim2) as [L3 O3].
    eapply same_outside_trans; [exact S12|]. split; [exact L3|intros k O _; exact (O3 k O)]. }
  apply G. apply same_outside_refl.
Qed.

Theorem replay_is_contained img p exts :
  (N.to_nat FEOX_METADATA_BACKUP_BLOCK <= length img)%nat ->
  match replay img p exts with
  | ReplayOk img' _ | ReplayExhausted img' => same_outside exts img img'
  | ReplayCoalesce => True
  end.
Proof.
  intros Hl. unfold replay. destruct exts as [|e0 et]; [apply same_outside_refl|].
  set (exts := e0 :: et). destruct (coalesce exts) as [co|] eqn:Eco; [|exact I].
  pose proof (coalesce_within _ _ Eco) as W.
  assert (S1 : same_outside exts img (write_markers img co)).
  { split; [apply write_markers_len|]. intros k _ Nk. apply write_markers_out. intros Hb. apply Nk. apply W. exact Hb. }
  destruct (jnext_ok p); cbn [negb]; [|exact S1].
  assert (Lim : (N.to_nat FEOX_METADATA_BACKUP_BLOCK <= length (write_markers img co))%nat) by (rewrite write_markers_len; exact Hl).
  destruct (write_journal_contained _ (j_slot (jnext p)) (j_gen (jnext p)) JOURNAL_CLEAR [] (jnext_slot _) ltac:(cbn; lia) Lim) as [L3 O3].
  eapply same_outside_trans; [exact S1|]. split; [exact L3|intros k O _; exact (O3 k O)].
Qed.

(* ---- so every extent that is not named survives, byte for byte ---- *)
Lemma nth_skipn_plus {A} (d : A) : forall a (l : list A) i, nth i (skipn a l) d = nth (a + i) l d.
Proof. induction a as [|a IH]; intros [|x t] i; cbn [skipn nth plus]; try reflexivity; [destruct i; reflexivity|apply IH]. Qed.

Lemma nth_firstn_lt {A} (d : A) : forall n (l : list A) i, (i < n)%nat -> nth i (firstn n l) d = nth i l d.
Proof. induction n as [|n IH]; intros [|x t] i H; cbn [firstn nth]; try reflexivity; [lia|]. destruct i; [reflexivity|]. apply IH. lia. Qed.

Lemma window_eq (l l' : image) a n :
  length l' = length l -> (forall k, (a <= k < a + n)%nat -> nth k l' [] = nth k l []) ->
  firstn n (skipn a l') = firstn n (skipn a l).
Proof.
  intros L H. apply (nth_ext _ _ [] []).
  - rewrite !firstn_length, !skipn_length, L. reflexivity.
  - intros i Hi. rewrite firstn_length in Hi.
    rewrite !nth_firstn_lt by lia. rewrite !nth_skipn_plus. apply H. lia.
Qed.

Theorem retirement_keeps_every_other_extent img p exts a n :
  (N.to_nat FEOX_METADATA_BACKUP_BLOCK <= length img)%nat ->
  FEOX_METADATA_BACKUP_BLOCK <= a ->
  (forall b, a <= b < a + n -> ~ in_exts exts b) ->
  let img' := fst (fst (retire_extents img p exts)) in
  length img' = length img /\
  firstn (N.to_nat n) (skipn (N.to_nat a) img') = firstn (N.to_nat n) (skipn (N.to_nat a) img).
Proof.
  intros Hl Ha Hout img'. destruct (retirement_is_contained img p exts Hl) as [L O]. fold img' in L, O.
  split; [exact L|]. apply window_eq; [exact L|]. intros k Hk. apply O; [right; lia|]. apply Hout. lia.
Qed.

(* extents in the data area (what the journal codec and the scan produce): both metadata copies
   keep every byte *)
Theorem retirement_keeps_the_metadata img p exts :
  (N.to_nat FEOX_METADATA_BACKUP_BLOCK <= length img)%nat ->
  Forall (fun e => FEOX_DATA_START_BLOCK <= fst e) exts ->
  let img' := fst (fst (retire_extents img p exts)) in
  nth (N.to_nat FEOX_METADATA_BLOCK) img' [] = nth (N.to_nat FEOX_METADATA_BLOCK) img [] /\
  nth (N.to_nat FEOX_METADATA_BACKUP_BLOCK) img' [] = nth (N.to_nat FEOX_METADATA_BACKUP_BLOCK) img [].
Proof.
  intros Hl Hd img'. destruct (retirement_is_contained img p exts Hl) as [L O]. fold img' in L, O.
  assert (B : FEOX_METADATA_BACKUP_BLOCK < FEOX_DATA_START_BLOCK) by (vm_compute; reflexivity).
  assert (Z : FEOX_METADATA_BLOCK <= FEOX_METADATA_BACKUP_BLOCK) by (vm_compute; discriminate).
  rewrite Forall_forall in Hd.
  split; apply O; try (left; lia); try (right; lia); intros (s & n' & Hin & R); specialize (Hd _ Hin); cbn [fst] in Hd; lia.
Qed.
