From Coq Require Import List NArith Bool Lia Arith.
From Feox Require Import Gen.Constants Model.FreeSpace Proofs.FreeSpaceProofs Model.FailPath Proofs.FailPathProofs Model.FailBatches.
Import ListNotations.
Local Open Scope N_scope.

Lemma fres_eq_dec (a b : fres) : {a = b} + {a <> b}.
Proof. decide equality. Qed.

Lemma core_split f u b rest D : Core f u (b ++ rest) D -> Core f u b (D ++ exts_of rest).
Proof.
  intros C. assert (P : forall x, cnt x (exts_of b ++ D ++ exts_of rest) = cnt x (exts_of (b ++ rest) ++ D)).
  { intros x. rewrite exts_of_app, !cnt_app. lia. }
  split.
  - exact (co_fs _ _ _ _ C).
  - intros x. rewrite P. exact (co_one _ _ _ _ C x).
  - intros x Hx. rewrite P. exact (co_part _ _ _ _ C x Hx).
  - intros x Hx. apply (co_ext _ _ _ _ C). rewrite exts_of_app.
    apply in_app_or in Hx. destruct Hx as [Hx|Hx]; [apply in_or_app; left; apply in_or_app; left; exact Hx|].
    apply in_app_or in Hx. destruct Hx as [Hx|Hx]; [apply in_or_app; right; exact Hx|apply in_or_app; left; apply in_or_app; right; exact Hx].
  - rewrite (co_usage _ _ _ _ C). rewrite exts_of_app, !sum_blocks_app. lia.
  - intros e He. apply (co_flags _ _ _ _ C). apply in_or_app. left. exact He.
Qed.

Lemma core_join f u b rest D : Core f u b (D ++ exts_of rest) -> (forall e, In e rest -> flags_ok e) -> Core f u (b ++ rest) D.
Proof.
  intros C Hf. assert (P : forall x, cnt x (exts_of (b ++ rest) ++ D) = cnt x (exts_of b ++ D ++ exts_of rest)).
  { intros x. rewrite exts_of_app, !cnt_app. lia. }
  split.
  - exact (co_fs _ _ _ _ C).
  - intros x. rewrite P. exact (co_one _ _ _ _ C x).
  - intros x Hx. rewrite P. exact (co_part _ _ _ _ C x Hx).
  - intros x Hx. apply (co_ext _ _ _ _ C). rewrite exts_of_app in Hx.
    apply in_app_or in Hx. destruct Hx as [Hx|Hx]; [|apply in_or_app; right; apply in_or_app; left; exact Hx].
    apply in_app_or in Hx. destruct Hx as [Hx|Hx]; [apply in_or_app; left; exact Hx|apply in_or_app; right; apply in_or_app; right; exact Hx].
  - rewrite (co_usage _ _ _ _ C). rewrite exts_of_app, !sum_blocks_app. lia.
  - intros e He. apply in_app_or in He. destruct He as [He|He]; [exact (co_flags _ _ _ _ C e He)|exact (Hf e He)].
Qed.

Lemma exts_of_prefix a b n x : (length a <= n)%nat -> In x (exts_of a) -> In x (exts_of (firstn n (a ++ b))).
Proof.
  intros Hl Hx. rewrite firstn_app. rewrite firstn_all2 by exact Hl. rewrite exts_of_app. apply in_or_app. left. exact Hx.
Qed.

(* the invariant of the batched write path: what may hold unscrubbed data sits in the first batch *)
Record PInv (X : list (N * N)) (st : fstate) : Prop := {
  pv_core : Core (f_fs st) (f_usage st) (f_queue st) (map snd (f_durable st) ++ X);
  pv_may : forall x, In x (f_maydata st) -> In x (exts_of (firstn BATCH (f_queue st)));
  pv_dirty : forall e, In e (f_queue st) -> pe_res e <> None -> pe_dirty e = true
}.

Section WithOracle.
Variable fault : N -> bool.
Variable X : list (N * N).

Lemma batch_finv st : PInv X st ->
  FInv (X ++ exts_of (skipn BATCH (f_queue st))) (set_queue st (firstn BATCH (f_queue st))).
Proof.
  intros [C M Dt]. split; cbn [set_queue f_fs f_queue f_durable f_usage f_poison f_calls f_maydata].
  - rewrite app_assoc. apply core_split. rewrite firstn_skipn. exact C.
  - exact M.
  - intros e He. apply Dt. rewrite <- (firstn_skipn BATCH (f_queue st)). apply in_or_app. left. exact He.
Qed.

Definition ids (q : list pent) : list N := map pe_id q.

Lemma pass_spec fuel : forall st st' r,
  PInv X st -> (length (f_queue st) < fuel)%nat -> pass fault fuel st = (st', r) ->
  PInv X st' /\
  (exists pub, f_durable st' = pub ++ f_durable st /\
               (forall i, In i (ids (f_queue st)) <-> In i (map fst pub) \/ In i (ids (f_queue st'))) /\
               (length pub + length (f_queue st') = length (f_queue st))%nat) /\
  (r = ROk -> f_queue st' = []) /\
  (f_poison st = true -> f_poison st' = true) /\
  (f_poison st = true -> f_queue st <> [] -> r = RIndet \/ r = RSpace) /\
  (r = RIndet -> f_poison st' = true).
Proof.
  induction fuel as [|k IH]; intros st st' r I Hl H; [lia|].
  cbn [pass] in H. destruct (f_queue st) as [|e0 q0] eqn:Q.
  - inversion H; subst st' r. split; [exact I|]. split.
    + exists []. rewrite Q. cbn. split; [reflexivity|]. split; [tauto|reflexivity].
    + repeat split; try tauto; try discriminate.
  - set (q := e0 :: q0) in *. assert (Qq : f_queue st = q) by exact Q.
    pose proof (batch_finv st I) as FI. rewrite Qq in FI.
    destruct (attempt fault (set_queue st (firstn BATCH q))) as [st1 r1] eqn:EA.
    destruct (attempt_spec fault _ _ st1 r1 FI EA) as (I1 & Ok1 & No1 & Po1 & Pf1 & Pi1 & _).
    cbn [set_queue f_fs f_queue f_durable f_usage f_poison f_calls f_maydata] in Ok1, No1, Po1, Pf1.
    assert (Hfl : forall e, In e (skipn BATCH q) -> flags_ok e).
    { intros e He. apply (co_flags _ _ _ _ (pv_core _ _ I)). rewrite Qq. rewrite <- (firstn_skipn BATCH q). apply in_or_app. right. exact He. }
    assert (Hnr : forall e, In e (skipn BATCH q) -> pe_res e <> None -> pe_dirty e = true).
    { intros e He. apply (pv_dirty _ _ I). rewrite Qq. rewrite <- (firstn_skipn BATCH q). apply in_or_app. right. exact He. }
    assert (Hb : (0 < BATCH)%nat) by (unfold BATCH, ALLOCATION_JOURNAL_MAX_ENTRIES; lia).
    assert (Hfn : firstn BATCH q <> []).
    { unfold q. destruct BATCH; [lia|]. cbn. discriminate. }
    assert (Hids : forall i, In i (ids q) <-> In i (ids (firstn BATCH q)) \/ In i (ids (skipn BATCH q))).
    { intros i. unfold ids. rewrite <- (firstn_skipn BATCH q) at 1. rewrite map_app, in_app_iff. tauto. }
    assert (Hlen : (length (firstn BATCH q) + length (skipn BATCH q) = length q)%nat).
    { rewrite <- (firstn_skipn BATCH q) at 3. rewrite app_length. reflexivity. }
    destruct (fres_eq_dec r1 ROk) as [E1|N1].
    + (* the batch went through: go on with the rest *)
      subst r1. destruct (Ok1 eq_refl) as [Q1 [pub1 [D1 F1]]].
      assert (I2 : PInv X (set_queue st1 (skipn BATCH q))).
      { split; cbn [set_queue f_fs f_queue f_durable f_usage f_poison f_calls f_maydata].
        - pose proof (fv_core _ _ I1) as C1. rewrite Q1 in C1. rewrite app_assoc in C1.
          apply (core_join _ _ [] (skipn BATCH q)) in C1; [exact C1|exact Hfl].
        - intros x Hx. pose proof (fv_may _ _ I1 x Hx) as H1. rewrite Q1 in H1. contradiction.
        - exact Hnr. }
      assert (Hl2 : (length (f_queue (set_queue st1 (skipn BATCH q))) < k)%nat).
      { cbn [set_queue f_queue]. cbn [length] in *. 
        assert (0 < length (firstn BATCH q))%nat by (destruct (firstn BATCH q); [congruence|cbn; lia]). unfold q in *. cbn [length] in *. lia. }
      destruct (IH _ _ _ I2 Hl2 H) as (I' & [pub2 [D2 [F2 L2]]] & Ok2 & Po2 & Pf2 & Pi2).
      cbn [set_queue f_fs f_queue f_durable f_usage f_poison f_calls f_maydata] in D2, F2, L2, Po2, Pf2.
      split; [exact I'|]. split.
      * exists (pub2 ++ pub1). split; [rewrite D2, D1, app_assoc; reflexivity|]. split.
        -- intros i. rewrite Hids. rewrite map_app, in_app_iff. rewrite (F2 i).
           unfold ids at 1. rewrite <- F1. tauto.
        -- rewrite app_length. assert (length pub1 = length (firstn BATCH q)) by (rewrite <- (map_length fst pub1), F1, map_length; reflexivity). lia.
      * split; [exact Ok2|]. split; [intros Hp; apply Po2; apply Po1; exact Hp|].
        split; [|exact Pi2].
        intros Hp _. exfalso. destruct (Pf1 Hp Hfn) as [Z|Z]; discriminate.
    + (* the batch failed: what it gives back, then everything not yet attempted *)
      assert (H' : (set_queue st1 (f_queue st1 ++ skipn BATCH q), r1) = (st', r)) by (destruct r1; try exact H; congruence).
      inversion H'; subst st' r. clear H'.
      destruct (No1 N1) as [D1 Q1].
      assert (Lq : length (f_queue st1) = length (firstn BATCH q)) by (rewrite <- (map_length pe_id (f_queue st1)), Q1, map_length; reflexivity).
      split.
      * split; cbn [set_queue f_fs f_queue f_durable f_usage f_poison f_calls f_maydata].
        -- pose proof (fv_core _ _ I1) as C1. rewrite app_assoc in C1. apply core_join in C1; [exact C1|exact Hfl].
        -- intros x Hx. apply exts_of_prefix; [rewrite Lq; apply firstn_le_length|exact (fv_may _ _ I1 x Hx)].
        -- intros e He. apply in_app_or in He. destruct He as [He|He]; [exact (fv_dirty _ _ I1 e He)|exact (Hnr e He)].
      * cbn [set_queue f_fs f_queue f_durable f_usage f_poison f_calls f_maydata]. split.
        -- exists []. split; [exact D1|]. split.
           ++ intros i. rewrite Hids. unfold ids. rewrite map_app, in_app_iff. fold (ids (f_queue st1)). unfold ids. rewrite Q1. cbn. tauto.
           ++ rewrite app_length, Lq. rewrite <- Hlen. reflexivity.
        -- split; [intros Z; contradiction|]. split; [exact Po1|]. split; [|exact Pi1].
           intros Hp _. exact (Pf1 Hp Hfn).
Qed.

End WithOracle.

Lemma pinv_finv X st : PInv X st -> FInv X st.
Proof.
  intros [C M Dt]. split; [exact C| |exact Dt].
  intros x Hx. specialize (M x Hx). rewrite <- (firstn_skipn BATCH (f_queue st)). rewrite exts_of_app. apply in_or_app. left. exact M.
Qed.

Lemma penqueue_inv X st id blocks : PInv X st -> 0 < blocks -> PInv X (enqueue st id blocks).
Proof.
  intros I Hb. pose proof (enqueue_inv X st id blocks (pinv_finv X st I) Hb) as F.
  split; [exact (fv_core _ _ F)| |exact (fv_dirty _ _ F)].
  unfold enqueue. cbn [f_maydata f_queue]. intros x Hx. pose proof (pv_may _ _ I x Hx) as M.
  rewrite firstn_app, exts_of_app. apply in_or_app. left. exact M.
Qed.

Lemma pflush_spec fault X st st' r : PInv X st -> pflush fault st = (st', r) ->
  PInv X st' /\
  (r = ROk -> f_queue st' = [] /\ f_poison st' = false) /\
  (exists pub, f_durable st' = pub ++ f_durable st /\
               (forall i, In i (ids (f_queue st)) <-> In i (map fst pub) \/ In i (ids (f_queue st'))) /\
               (length pub + length (f_queue st') = length (f_queue st))%nat) /\
  (f_poison st = true -> f_poison st' = true /\ r <> ROk).
Proof.
  intros I H. unfold pflush, pass_all in H.
  destruct (pass fault (S (length (f_queue st))) st) as [st1 r1] eqn:EP.
  destruct (pass_spec fault X _ st st1 r1 I (Nat.lt_succ_diag_r _) EP) as (I1 & Pub & Ok1 & Po1 & Pf1 & Pi1).
  destruct (fres_eq_dec r1 ROk) as [E|N].
  - subst r1. destruct (f_poison st1) eqn:P1.
    + inversion H; subst st' r. split; [exact I1|]. split; [discriminate|]. split; [exact Pub|].
      intros _. split; [exact P1|discriminate].
    + destruct (write_and_sync fault st1) as [ok st2] eqn:E2. pose proof (write_and_sync_sbc fault st1) as S2. rewrite E2 in S2. cbn [snd] in S2.
      destruct S2 as (A1 & A2 & A3 & A4 & A5 & A6). inversion H; subst st' r.
      assert (I2 : PInv X st2).
      { split.
        - rewrite A1, A2, A3, A4. exact (pv_core _ _ I1).
        - rewrite A6, A2. exact (pv_may _ _ I1).
        - rewrite A2. exact (pv_dirty _ _ I1). }
      split; [exact I2|]. split; [intros _; split; [rewrite A2; exact (Ok1 eq_refl)|congruence]|].
      split; [rewrite A2, A3; exact Pub|].
      intros Hp. specialize (Po1 Hp). congruence.
  - assert (H' : (st1, r1) = (st', r)) by (destruct r1; try exact H; congruence).
    inversion H'; subst st' r. split; [exact I1|]. split; [intros Z; contradiction|]. split; [exact Pub|].
    intros Hp. split; [exact (Po1 Hp)|exact N].
Qed.

(* ---- sequences of calls over the batched pass ---- *)
Definition pcall_step (fault : N -> bool) (st : fstate) (c : fcall) : fstate :=
  match c with
  | CInsert id blocks => if 0 <? blocks then enqueue st id blocks else st
  | CFlush => fst (pflush fault st)
  end.

Definition pcalls (fault : N -> bool) (st : fstate) (cs : list fcall) : fstate := fold_left (pcall_step fault) cs st.

Lemma finit_pinv d f : d < U64 -> initialize d = FOk f -> PInv [] (finit f).
Proof.
  intros Hd Hi. pose proof (finit_inv d f Hd Hi) as F. split; [exact (fv_core _ _ F)| |exact (fv_dirty _ _ F)].
  cbn. intros x [].
Qed.

Lemma pcalls_inv fault cs : forall st, PInv [] st -> PInv [] (pcalls fault st cs).
Proof.
  unfold pcalls. induction cs as [|c t IH]; intros st I; [exact I|]. cbn [fold_left]. apply IH.
  destruct c as [id blocks|]; cbn [pcall_step].
  - destruct (0 <? blocks) eqn:E; [apply penqueue_inv; [exact I | apply N.ltb_lt; exact E] | exact I].
  - destruct (pflush fault st) as [st' r] eqn:EF. exact (proj1 (pflush_spec fault [] st st' r I EF)).
Qed.

(* C05 through failures, any queue length: the data area stays exactly partitioned *)
Theorem ownership_partition_through_failures_batched fault d f cs :
  d < U64 -> initialize d = FOk f ->
  let st := pcalls fault (finit f) cs in
  let owned := exts_of (f_queue st) ++ map snd (f_durable st) in
  Inv (f_fs st) /\
  (forall b, (cnt b owned <= 1)%nat) /\
  (forall b, DS <= b < dev_sectors (f_fs st) -> (free (f_fs st) b <-> cnt b owned = O)) /\
  f_usage st = sum_blocks owned.
Proof.
  intros Hd Hi. cbv zeta. pose proof (pv_core _ _ (pcalls_inv fault cs _ (finit_pinv d f Hd Hi))) as C. rewrite app_nil_r in C.
  split; [exact (co_fs _ _ _ _ C)|]. split; [exact (co_one _ _ _ _ C)|]. split; [exact (co_part _ _ _ _ C)|exact (co_usage _ _ _ _ C)].
Qed.

(* C09: a flush over any number of batches answers Ok only when nothing is left and the device is
   not poisoned; whatever it answers, every queued entry is afterwards either published or still
   queued -- the entries of batches that were not attempted included -- and none is counted twice *)
Theorem batched_flush_is_honest fault d f cs :
  d < U64 -> initialize d = FOk f ->
  let st := pcalls fault (finit f) cs in
  forall st' r, pflush fault st = (st', r) ->
  (r = ROk -> f_queue st' = [] /\ f_poison st' = false) /\
  (exists pub, f_durable st' = pub ++ f_durable st /\
               (forall i, In i (ids (f_queue st)) <-> In i (map fst pub) \/ In i (ids (f_queue st'))) /\
               (length pub + length (f_queue st') = length (f_queue st))%nat) /\
  (f_poison st = true -> f_poison st' = true /\ r <> ROk).
Proof.
  intros Hd Hi. cbv zeta. intros st' r H.
  exact (proj2 (pflush_spec fault [] _ st' r (pcalls_inv fault cs _ (finit_pinv d f Hd Hi)) H)).
Qed.

Theorem unscrubbed_extents_are_never_free_batched fault d f cs x b :
  d < U64 -> initialize d = FOk f ->
  let st := pcalls fault (finit f) cs in
  In x (f_maydata st) -> blk_in b x -> ~ free (f_fs st) b.
Proof.
  intros Hd Hi. cbv zeta. intros Hx Hb. pose proof (pinv_finv _ _ (pcalls_inv fault cs _ (finit_pinv d f Hd Hi))) as I.
  apply (core_not_free _ _ _ _ b (fv_core _ _ I)). apply cnt_pos. exists x. split; [|exact Hb].
  apply in_or_app. left. exact (fv_may _ _ I x Hx).
Qed.
