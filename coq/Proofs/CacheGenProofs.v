From Coq Require Import List NArith Bool Lia.
From Feox Require Import Model.Sched Model.CacheGen Proofs.SchedProofs.
Import ListNotations.
Local Open Scope N_scope.

(* ---------- layer A: where entries come from ---------- *)

Lemma cg_remove_sub c k g e : In e (cg_remove c k g) -> In e c.
Proof.
  induction c as [|x t IH]; cbn [cg_remove]; intros H; [exact H|].
  destruct ((ce_k x =? k) && _); [right; exact H|].
  destruct H as [H|H]; [left; exact H|right; apply IH; exact H].
Qed.

Lemma cg_insert_sub gens c k v g e : In e (cg_insert gens c k v g) -> In e c \/ e = mkcent k g v.
Proof.
  induction c as [|x t IH]; cbn [cg_insert]; intros H.
  - destruct H as [H|[]]. right. symmetry. exact H.
  - destruct (ce_k x =? k).
    + destruct (can_replace gens (ce_tag x) g).
      * destruct H as [H|H]; [right; symmetry; exact H|left; right; exact H].
      * left. exact H.
    + destruct H as [H|H]; [left; left; exact H|].
      destruct (IH H) as [H1|H1]; [left; right; exact H1|right; exact H1].
Qed.

Lemma cg_get_in c k g v : cg_get c k (Some g) = Some v -> exists e, In e c /\ ce_k e = k /\ ce_tag e = Some g /\ ce_v e = v.
Proof.
  induction c as [|x t IH]; cbn [cg_get]; intros H; [discriminate|].
  destruct ((ce_k x =? k) && tag_is g x) eqn:E.
  - apply andb_true_iff in E. destruct E as [Ek Et]. apply N.eqb_eq in Ek.
    unfold tag_is in Et. destruct (ce_tag x) as [t0|] eqn:T; [|discriminate]. apply N.eqb_eq in Et. subst t0.
    exists x. repeat split; try assumption; [left; reflexivity|congruence].
  - destruct (IH H) as [e [Hi He]]. exists e. split; [right; exact Hi|exact He].
Qed.

Lemma cg_entry_value_get c k g : cg_entry_value c k g = cg_get c k (Some g).
Proof. induction c as [|x t IH]; cbn [cg_entry_value cg_get]; [reflexivity|]. rewrite IH. reflexivity. Qed.

(* at most one entry per key *)
Definition ckeys (c : list cent) : list N := map ce_k c.

Lemma cg_remove_keys_sub c k g x : In x (ckeys (cg_remove c k g)) -> In x (ckeys c).
Proof.
  unfold ckeys. rewrite !in_map_iff. intros [e [He Hi]]. exists e. split; [exact He|eapply cg_remove_sub; exact Hi].
Qed.

Lemma cg_remove_nodup c k g : NoDup (ckeys c) -> NoDup (ckeys (cg_remove c k g)).
Proof.
  induction c as [|x t IH]; cbn [cg_remove]; intros H; [exact H|].
  inversion H as [|? ? Hn Ht]; subst.
  destruct ((ce_k x =? k) && _); [exact Ht|].
  cbn [ckeys map]. constructor; [|apply IH; exact Ht].
  intros Hc. apply Hn. eapply cg_remove_keys_sub. exact Hc.
Qed.

Lemma cg_insert_keys gens c k v g x : In x (ckeys (cg_insert gens c k v g)) -> In x (ckeys c) \/ x = k.
Proof.
  induction c as [|y t IH]; cbn [cg_insert]; intros H.
  - cbn in H. destruct H as [H|[]]. right. symmetry. exact H.
  - destruct (ce_k y =? k) eqn:E.
    + apply N.eqb_eq in E. destruct (can_replace gens (ce_tag y) g).
      * cbn [ckeys map ce_k] in H |- *. destruct H as [H|H]; [right; symmetry; exact H|left; right; exact H].
      * left. exact H.
    + cbn [ckeys map] in H |- *. destruct H as [H|H]; [left; left; exact H|].
      destruct (IH H) as [H1|H1]; [left; right; exact H1|right; exact H1].
Qed.

Lemma cg_insert_nodup gens c k v g : NoDup (ckeys c) -> NoDup (ckeys (cg_insert gens c k v g)).
Proof.
  induction c as [|y t IH]; cbn [cg_insert]; intros H.
  - cbn. constructor; [intros []|constructor].
  - inversion H as [|? ? Hn Ht]; subst. destruct (ce_k y =? k) eqn:E.
    + apply N.eqb_eq in E. destruct (can_replace gens (ce_tag y) g); [|exact H].
      cbn [ckeys map ce_k]. constructor; [rewrite <- E; exact Hn|exact Ht].
    + cbn [ckeys map]. constructor; [|apply IH; exact Ht].
      intros Hc. destruct (cg_insert_keys _ _ _ _ _ _ Hc) as [H1|H1]; [apply Hn; exact H1|].
      apply N.eqb_neq in E. apply E. exact H1.
Qed.

(* ---------- layer B ---------- *)

(* what every generation-changing step does to the generation table: it only grows, and a
   generation's key, value, timestamp and expiry never change *)
Definition gext (g1 g2 : list (N * grec)) : Prop :=
  forall g r, aget g g1 = Some r ->
    exists r', aget g g2 = Some r' /\ gr_val r' = gr_val r /\ gr_key r' = gr_key r /\ gr_exp r' = gr_exp r.

Lemma gext_refl g : gext g g.
Proof. intros x r H. exists r. repeat split; assumption. Qed.

Lemma gext_trans a b c : gext a b -> gext b c -> gext a c.
Proof.
  intros H1 H2 g r H. destruct (H1 _ _ H) as [r1 [A [B [C D]]]]. destruct (H2 _ _ A) as [r2 [A2 [B2 [C2 D2]]]].
  exists r2. repeat split; congruence.
Qed.

Lemma gext_upd gens g f :
  (forall r, gr_val (f r) = gr_val r /\ gr_key (f r) = gr_key r /\ gr_exp (f r) = gr_exp r) -> gext gens (upd_gen gens g f).
Proof.
  intros Hf x r H. unfold upd_gen. destruct (aget g gens) as [r0|] eqn:G; [|exists r; repeat split; assumption].
  destruct (N.eq_dec x g) as [->|Hne].
  - rewrite aget_aset_same. exists (f r0). assert (r0 = r) by congruence. subst r0. destruct (Hf r) as [A [B C]]. repeat split; assumption.
  - rewrite aget_aset_other by exact Hne. exists r. repeat split; assumption.
Qed.

Lemma gext_kill gens g : gext gens (kill gens g).
Proof. unfold kill. apply gext_upd. intros r. cbn. repeat split. Qed.

Lemma gext_new gens n r0 : aget n gens = None -> gext gens (aset n r0 gens).
Proof.
  intros Hn x r H. destruct (N.eq_dec x n) as [->|Hne]; [congruence|].
  rewrite aget_aset_other by exact Hne. exists r. repeat split; assumption.
Qed.

Lemma upd_gen_dom gens g f x : aget x (upd_gen gens g f) = None <-> aget x gens = None.
Proof.
  unfold upd_gen. destruct (aget g gens) as [r0|] eqn:G; [|tauto].
  destruct (N.eq_dec x g) as [->|Hne].
  - rewrite aget_aset_same. rewrite G. split; discriminate.
  - rewrite aget_aset_other by exact Hne. tauto.
Qed.

Record BInv (s : bst) : Prop := mkBInv {
  bi_fresh : forall g, b_nid s <= g -> aget g (b_gens s) = None;
  bi_cache : forall e g, In e (b_cache s) -> ce_tag e = Some g ->
               exists r, aget g (b_gens s) = Some r /\ ce_v e = gr_val r;
  bi_tbl : forall k g, aget k (b_tbl s) = Some g -> exists r, aget g (b_gens s) = Some r /\ gr_key r = k;
  bi_hold : forall i k g, aget i (b_rd s) = Some (RHold k g) -> exists r, aget g (b_gens s) = Some r /\ gr_key r = k;
  bi_loaded : forall i k g v, aget i (b_rd s) = Some (RLoaded k g v) ->
               exists r, aget g (b_gens s) = Some r /\ gr_key r = k /\ gr_val r = v;
  bi_out : forall i k g v, In (i, k, Some (g, v)) (b_out s) ->
               exists r, aget g (b_gens s) = Some r /\ gr_key r = k /\ gr_val r = v;
  bi_nodup : NoDup (ckeys (b_cache s))
}.

Lemma binit_inv : BInv binit.
Proof. constructor; cbn; intros; try discriminate; try contradiction; try reflexivity. constructor. Qed.

(* carrying the invariant over a step that extends the generations and leaves the rest, or
   changes it in the listed ways *)
Lemma binv_transport s gens' tbl' res' nid' now' cache' rd' out' :
  BInv s ->
  gext (b_gens s) gens' ->
  (forall g, nid' <= g -> aget g gens' = None) ->
  (forall e g, In e cache' -> ce_tag e = Some g -> In e (b_cache s) \/ exists r, aget g gens' = Some r /\ ce_v e = gr_val r) ->
  (forall k g, aget k tbl' = Some g -> aget k (b_tbl s) = Some g \/ exists r, aget g gens' = Some r /\ gr_key r = k) ->
  (forall i k g, aget i rd' = Some (RHold k g) -> aget i (b_rd s) = Some (RHold k g) \/ exists r, aget g gens' = Some r /\ gr_key r = k) ->
  (forall i k g v, aget i rd' = Some (RLoaded k g v) -> aget i (b_rd s) = Some (RLoaded k g v) \/ exists r, aget g gens' = Some r /\ gr_key r = k /\ gr_val r = v) ->
  (forall i k g v, In (i, k, Some (g, v)) out' -> In (i, k, Some (g, v)) (b_out s) \/ exists r, aget g gens' = Some r /\ gr_key r = k /\ gr_val r = v) ->
  NoDup (ckeys cache') ->
  BInv (mkbst gens' tbl' res' nid' now' cache' rd' out').
Proof.
  intros I Hx Hf Hc Ht Hh Hl Ho Hn. constructor; cbn [b_gens b_tbl b_res b_nid b_now b_cache b_rd b_out].
  - exact Hf.
  - intros e g He Hg. destruct (Hc e g He Hg) as [H|H]; [|exact H].
    destruct (bi_cache s I e g H Hg) as [r [A B]]. destruct (Hx _ _ A) as [r' [A' [B' _]]]. exists r'. split; [exact A'|congruence].
  - intros k g H. destruct (Ht k g H) as [H1|H1]; [|exact H1].
    destruct (bi_tbl s I k g H1) as [r [A B]]. destruct (Hx _ _ A) as [r' [A' [_ [C' _]]]]. exists r'. split; [exact A'|congruence].
  - intros i k g H. destruct (Hh i k g H) as [H1|H1]; [|exact H1].
    destruct (bi_hold s I i k g H1) as [r [A B]]. destruct (Hx _ _ A) as [r' [A' [_ [C' _]]]]. exists r'. split; [exact A'|congruence].
  - intros i k g v H. destruct (Hl i k g v H) as [H1|H1]; [|exact H1].
    destruct (bi_loaded s I i k g v H1) as [r [A [B C]]]. destruct (Hx _ _ A) as [r' [A' [B' [C' _]]]]. exists r'. repeat split; [exact A'|congruence|congruence].
  - intros i k g v H. destruct (Ho i k g v H) as [H1|H1]; [|exact H1].
    destruct (bi_out s I i k g v H1) as [r [A [B C]]]. destruct (Hx _ _ A) as [r' [A' [B' [C' _]]]]. exists r'. repeat split; [exact A'|congruence|congruence].
  - exact Hn.
Qed.

Lemma aget_aset_inv {A} i j (a b : A) l : aget i (aset j a l) = Some b -> (i = j /\ b = a) \/ (i <> j /\ aget i l = Some b).
Proof.
  intros H. destruct (N.eq_dec i j) as [->|Hne].
  - rewrite aget_aset_same in H. left. split; [reflexivity|congruence].
  - rewrite aget_aset_other in H by exact Hne. right. split; assumption.
Qed.

Lemma aget_adel_inv {A} i j (b : A) l : aget i (adel j l) = Some b -> aget i l = Some b.
Proof. intros H. apply aget_adel_some in H. tauto. Qed.

Lemma kill_fresh gens o n : (forall g, n <= g -> aget g gens = None) -> forall g, n <= g -> aget g (kill gens o) = None.
Proof. intros H g Hg. unfold kill. apply upd_gen_dom. apply H. exact Hg. Qed.

Lemma new_gen_fresh {A} (gens : list (N * A)) n r0 : (forall g, n <= g -> aget g gens = None) -> forall g, n + 1 <= g -> aget g (aset n r0 gens) = None.
Proof. intros H g Hg. rewrite aget_aset_other by lia. apply H. lia. Qed.

Theorem bstep_inv on s e : BInv s -> BInv (bstep on s e).
Proof.
  intros I. destruct e as [d|k v ts exp|k|k g|k ts exp|g|g|k|i k|i stale|i big]; cbn [bstep].
  - (* tick *) apply (binv_transport s); cbn [b_gens b_tbl b_res b_nid b_now b_cache b_rd b_out]; auto using gext_refl, (bi_fresh s I), (bi_nodup s I).
  - (* put *)
    set (gens := match aget k (b_tbl s) with Some o => kill (b_gens s) o | None => b_gens s end).
    assert (Hx : gext (b_gens s) gens) by (unfold gens; destruct (aget k (b_tbl s)); [apply gext_kill|apply gext_refl]).
    assert (Hf : forall g, b_nid s <= g -> aget g gens = None)
      by (unfold gens; destruct (aget k (b_tbl s)); [apply kill_fresh|]; exact (bi_fresh s I)).
    apply (binv_transport s); cbn [b_gens b_tbl b_res b_nid b_now b_cache b_rd b_out]; auto using (bi_nodup s I).
    + eapply gext_trans; [exact Hx|]. apply gext_new. apply Hf. lia.
    + apply new_gen_fresh. exact Hf.
    + intros k0 g H. apply aget_aset_inv in H. destruct H as [[-> ->]|[_ H]]; [|left; exact H].
      right. eexists. rewrite aget_aset_same. split; reflexivity.
  - (* delete *)
    destruct (aget k (b_tbl s)) as [o|] eqn:T; [|exact I].
    apply (binv_transport s); cbn [b_gens b_tbl b_res b_nid b_now b_cache b_rd b_out]; auto using gext_kill, (bi_nodup s I).
    + apply kill_fresh. exact (bi_fresh s I).
    + intros k0 g H. left. eapply aget_adel_inv. exact H.
  - (* uncache *)
    destruct on; [|exact I].
    apply (binv_transport s); cbn [b_gens b_tbl b_res b_nid b_now b_cache b_rd b_out]; auto using gext_refl, (bi_fresh s I).
    + intros e g0 He _. left. eapply cg_remove_sub. exact He.
    + apply cg_remove_nodup. exact (bi_nodup s I).
  - (* ttl *)
    destruct (aget k (b_tbl s)) as [o|] eqn:T; [|exact I].
    destruct (aget o (b_gens s)) as [r|] eqn:G; [|exact I].
    destruct (expired r (b_now s)); [exact I|].
    set (cached := if on && negb (resident s o) then cg_entry_value (b_cache s) k o else None).
    assert (Hv : match cached with Some v' => v' | None => gr_val r end = gr_val r).
    { destruct cached as [v'|] eqn:C; [|reflexivity].
      unfold cached in C. destruct (on && negb (resident s o)); [|discriminate].
      rewrite cg_entry_value_get in C. destruct (cg_get_in _ _ _ _ C) as [e [Hi [_ [Ht Hev]]]].
      destruct (bi_cache s I e o Hi Ht) as [r' [A B]]. congruence. }
    apply (binv_transport s); cbn [b_gens b_tbl b_res b_nid b_now b_cache b_rd b_out]; auto.
    + eapply gext_trans; [apply gext_kill|]. apply gext_new. apply kill_fresh with (n := b_nid s); [exact (bi_fresh s I)|lia].
    + apply new_gen_fresh. apply kill_fresh. exact (bi_fresh s I).
    + intros e g He _. left. destruct cached; [eapply cg_remove_sub; exact He|exact He].
    + intros k0 g H. apply aget_aset_inv in H. destruct H as [[-> ->]|[_ H]]; [|left; exact H].
      right. eexists. rewrite aget_aset_same. split; reflexivity.
    + destruct cached; [apply cg_remove_nodup|]; exact (bi_nodup s I).
  - (* offload *) apply (binv_transport s); cbn [b_gens b_tbl b_res b_nid b_now b_cache b_rd b_out]; auto using gext_refl, (bi_fresh s I), (bi_nodup s I).
  - (* drop *)
    destruct (aget g (b_gens s)) as [r|] eqn:G; [|exact I].
    destruct (gr_live r || held s g); [exact I|].
    apply (binv_transport s); cbn [b_gens b_tbl b_res b_nid b_now b_cache b_rd b_out]; auto using (bi_nodup s I).
    + apply gext_upd. intros r0. cbn. repeat split.
    + intros g0 Hg. apply upd_gen_dom. apply (bi_fresh s I). exact Hg.
  - (* evict *)
    apply (binv_transport s); cbn [b_gens b_tbl b_res b_nid b_now b_cache b_rd b_out]; auto using gext_refl, (bi_fresh s I).
    + intros e g0 He _. left. eapply cg_remove_sub. exact He.
    + apply cg_remove_nodup. exact (bi_nodup s I).
  - (* start *)
    destruct (aget k (b_tbl s)) as [g|] eqn:T.
    + apply (binv_transport s); cbn [b_gens b_tbl b_res b_nid b_now b_cache b_rd b_out]; auto using gext_refl, (bi_fresh s I), (bi_nodup s I).
      * intros i0 k0 g0 H. apply aget_aset_inv in H. destruct H as [[-> E]|[_ H]]; [|left; exact H].
        inversion E; subst. right. exact (bi_tbl s I _ _ T).
      * intros i0 k0 g0 v0 H. apply aget_aset_inv in H. destruct H as [[_ E]|[_ H]]; [discriminate|left; exact H].
    + apply (binv_transport s); cbn [b_gens b_tbl b_res b_nid b_now b_cache b_rd b_out]; auto using gext_refl, (bi_fresh s I), (bi_nodup s I).
      * intros i0 k0 g0 H. left. eapply aget_adel_inv. exact H.
      * intros i0 k0 g0 v0 H. left. eapply aget_adel_inv. exact H.
      * intros i0 k0 g0 v0 [H|H]; [discriminate|left; exact H].
  - (* resolve *)
    destruct (aget i (b_rd s)) as [[k g|k g v]|] eqn:R; try exact I.
    assert (Fin : forall o, (forall g' v', o = Some (g', v') -> False) ->
              BInv (mkbst (b_gens s) (b_tbl s) (b_res s) (b_nid s) (b_now s) (b_cache s) (adel i (b_rd s)) ((i, k, o) :: b_out s))).
    { intros o Ho. apply (binv_transport s); cbn [b_gens b_tbl b_res b_nid b_now b_cache b_rd b_out]; auto using gext_refl, (bi_fresh s I), (bi_nodup s I).
      - intros i0 k0 g0 H. left. eapply aget_adel_inv. exact H.
      - intros i0 k0 g0 v0 H. left. eapply aget_adel_inv. exact H.
      - intros i0 k0 g0 v0 [H|H]; [|left; exact H]. exfalso. inversion H; subst. eapply Ho. reflexivity. }
    assert (Ld : forall v r, aget g (b_gens s) = Some r -> gr_val r = v ->
              BInv (mkbst (b_gens s) (b_tbl s) (b_res s) (b_nid s) (b_now s) (b_cache s) (aset i (RLoaded k g v) (b_rd s)) (b_out s))).
    { intros v r G Hv. apply (binv_transport s); cbn [b_gens b_tbl b_res b_nid b_now b_cache b_rd b_out]; auto using gext_refl, (bi_fresh s I), (bi_nodup s I).
      - intros i0 k0 g0 H. apply aget_aset_inv in H. destruct H as [[_ E]|[_ H]]; [discriminate|left; exact H].
      - intros i0 k0 g0 v0 H. apply aget_aset_inv in H. destruct H as [[-> E]|[_ H]]; [|left; exact H].
        inversion E; subst. right. destruct (bi_hold s I _ _ _ R) as [r' [A B]]. exists r. repeat split; congruence. }
    destruct (aget g (b_gens s)) as [r|] eqn:G; [|apply Fin; discriminate].
    destruct (expired r (b_now s)); [apply Fin; discriminate|].
    destruct (resident s g); [eapply Ld; [reflexivity|reflexivity]|].
    destruct (if on then cg_get (b_cache s) k (Some g) else None) as [v|] eqn:C.
    + destruct on; [|discriminate].
      destruct (cg_get_in _ _ _ _ C) as [e [Hi [_ [Ht Hev]]]].
      destruct (bi_cache s I e g Hi Ht) as [r' [A B]]. eapply Ld; [reflexivity|congruence].
    + destruct stale; [|eapply Ld; reflexivity].
      destruct (aget k (b_tbl s)) as [g'|] eqn:T; [|apply Fin; discriminate].
      apply (binv_transport s); cbn [b_gens b_tbl b_res b_nid b_now b_cache b_rd b_out]; auto using gext_refl, (bi_fresh s I), (bi_nodup s I).
      * intros i0 k0 g0 H. apply aget_aset_inv in H. destruct H as [[-> E]|[_ H]]; [|left; exact H].
        inversion E; subst. right. exact (bi_tbl s I _ _ T).
      * intros i0 k0 g0 v0 H. apply aget_aset_inv in H. destruct H as [[_ E]|[_ H]]; [discriminate|left; exact H].
  - (* fill / return *)
    destruct (aget i (b_rd s)) as [[k g|k g v]|] eqn:R; try exact I.
    destruct (bi_loaded s I _ _ _ _ R) as [r [G [Hk Hv]]].
    apply (binv_transport s); cbn [b_gens b_tbl b_res b_nid b_now b_cache b_rd b_out]; auto using gext_refl, (bi_fresh s I).
    + intros e g0 He Hg. destruct (on && negb big); [|left; exact He].
      destruct (cg_insert_sub _ _ _ _ _ _ He) as [H|H]; [left; exact H|].
      right. subst e. cbn in Hg. inversion Hg; subst. exists r. split; [exact G|cbn; congruence].
    + intros i0 k0 g0 H. left. eapply aget_adel_inv. exact H.
    + intros i0 k0 g0 v0 H. left. eapply aget_adel_inv. exact H.
    + intros i0 k0 g0 v0 [H|H]; [|left; exact H]. inversion H; subst. right. exists r. repeat split; assumption.
    + destruct (on && negb big); [apply cg_insert_nodup|]; exact (bi_nodup s I).
Qed.

Theorem brun_inv on es : forall s, BInv s -> BInv (brun on s es).
Proof.
  induction es as [|e t IH]; intros s I; [exact I|]. unfold brun. cbn [fold_left]. apply IH. apply bstep_inv. exact I.
Qed.

(* a hit serves the bytes of exactly the generation asked for *)
Theorem hit_serves_the_generation on es k g v :
  cg_get (b_cache (brun on binit es)) k (Some g) = Some v ->
  exists r, aget g (b_gens (brun on binit es)) = Some r /\ gr_val r = v.
Proof.
  intros H. pose proof (brun_inv on es binit binit_inv) as I.
  destruct (cg_get_in _ _ _ _ H) as [e [Hi [_ [Ht Hv]]]].
  destruct (bi_cache _ I e g Hi Ht) as [r [A B]]. exists r. split; [exact A|congruence].
Qed.

Theorem results_are_genuine on es i k g v :
  In (i, k, Some (g, v)) (b_out (brun on binit es)) ->
  exists r, aget g (b_gens (brun on binit es)) = Some r /\ gr_key r = k /\ gr_val r = v.
Proof. intros H. exact (bi_out _ (brun_inv on es binit binit_inv) i k g v H). Qed.

Theorem one_entry_per_key on es : NoDup (ckeys (b_cache (brun on binit es))).
Proof. exact (bi_nodup _ (brun_inv on es binit binit_inv)). Qed.

(* ---------- refinement: cache on is a behaviour of cache off ---------- *)

(* does the resolve step of reader i read the device in state s (cache on)? *)
Definition reads_device (s : bst) (i : N) : bool :=
  match aget i (b_rd s) with
  | Some (RHold k g) =>
      match aget g (b_gens s) with
      | Some r => negb (expired r (b_now s)) && negb (resident s g)
                  && match cg_get (b_cache s) k (Some g) with Some _ => false | None => true end
      | None => false
      end
  | _ => false
  end.

(* the same schedule for the cacheless store: where the cached store did not touch the device,
   the staleness answer of the device is immaterial, so the cacheless read (which does touch it)
   is given a good read *)
Definition adjust1 (s : bst) (e : bev) : bev :=
  match e with
  | BResolve i stale => BResolve i (stale && reads_device s i)
  | _ => e
  end.

Fixpoint adjust (s : bst) (es : list bev) : list bev :=
  match es with
  | [] => []
  | e :: t => adjust1 s e :: adjust (bstep true s e) t
  end.

Definition erase (e : bev) : bev := match e with BResolve i _ => BResolve i false | _ => e end.

Lemma adjust_same_calls es : forall s, map erase (adjust s es) = map erase es.
Proof.
  induction es as [|e t IH]; intros s; cbn [adjust map]; [reflexivity|]. rewrite IH. f_equal. destruct e; reflexivity.
Qed.

Definition all_good_reads (es : list bev) : Prop :=
  forall i stale, In (BResolve i stale) es -> stale = false.

Lemma adjust_id es : all_good_reads es -> forall s, adjust s es = es.
Proof.
  induction es as [|e t IH]; intros H s; cbn [adjust]; [reflexivity|].
  rewrite IH by (intros i st Hi; apply (H i st); right; exact Hi). f_equal.
  destruct e; try reflexivity. cbn. rewrite (H i stale) by (left; reflexivity). reflexivity.
Qed.

(* the two worlds agree on everything but the cache and on which values are resident: a value
   resident without the cache is resident with it *)
Record BRel (s1 s0 : bst) : Prop := mkBRel {
  br_gens : b_gens s1 = b_gens s0;
  br_tbl : b_tbl s1 = b_tbl s0;
  br_nid : b_nid s1 = b_nid s0;
  br_now : b_now s1 = b_now s0;
  br_rd : b_rd s1 = b_rd s0;
  br_out : b_out s1 = b_out s0;
  br_res : forall g, resident s0 g = true -> resident s1 g = true
}.

Lemma res_aset (l : list (N * bool)) g b x :
  match aget x (aset g b l) with Some c => c | None => false end
  = if x =? g then b else match aget x l with Some c => c | None => false end.
Proof.
  destruct (N.eqb_spec x g) as [->|Hne]; [rewrite aget_aset_same; reflexivity|rewrite aget_aset_other by exact Hne; reflexivity].
Qed.

Lemma held_eq s1 s0 g : b_rd s1 = b_rd s0 -> held s1 g = held s0 g.
Proof. intros H. unfold held. rewrite H. reflexivity. Qed.

Theorem bstep_rel s1 s0 e : BInv s1 -> BRel s1 s0 -> BRel (bstep true s1 e) (bstep false s0 (adjust1 s1 e)).
Proof.
  intros I [Eg Et En Ew Er Eo Hr].
  destruct s0 as [g0 t0 r0 n0 w0 c0 rd0 o0]. cbn [b_gens b_tbl b_res b_nid b_now b_cache b_rd b_out] in Eg, Et, En, Ew, Er, Eo.
  subst g0 t0 n0 w0 rd0 o0. unfold resident in Hr. cbn [b_res] in Hr.
  assert (Triv : BRel s1 (mkbst (b_gens s1) (b_tbl s1) r0 (b_nid s1) (b_now s1) c0 (b_rd s1) (b_out s1)))
    by (constructor; try reflexivity; exact Hr).
  destruct e as [d|k v ts exp|k|k g|k ts exp|g|g|k|i k|i stale|i big]; cbn [bstep adjust1 b_gens b_tbl b_res b_nid b_now b_cache b_rd b_out].
  - constructor; try reflexivity; exact Hr.
  - constructor; try reflexivity.
    intros g. unfold resident. cbn [b_res]. rewrite !res_aset.
    destruct (g =? b_nid s1); [reflexivity|apply Hr].
  - destruct (aget k (b_tbl s1)); [|exact Triv]. constructor; try reflexivity; exact Hr.
  - constructor; try reflexivity; exact Hr.
  - destruct (aget k (b_tbl s1)) as [o|] eqn:T; [|exact Triv].
    destruct (aget o (b_gens s1)) as [r|] eqn:G; [|exact Triv].
    destruct (expired r (b_now s1)); [exact Triv|].
    cbn [andb].
    set (cached := if negb (resident s1 o) then cg_entry_value (b_cache s1) k o else None).
    assert (Hv : match cached with Some v' => v' | None => gr_val r end = gr_val r).
    { destruct cached as [v'|] eqn:C; [|reflexivity].
      unfold cached in C. destruct (negb (resident s1 o)); [|discriminate].
      rewrite cg_entry_value_get in C. destruct (cg_get_in _ _ _ _ C) as [e [Hi [_ [Ht Hev]]]].
      destruct (bi_cache s1 I e o Hi Ht) as [r' [A B]]. congruence. }
    constructor; cbn [b_gens b_tbl b_res b_nid b_now b_cache b_rd b_out]; try reflexivity.
    + rewrite Hv. reflexivity.
    + intros g. unfold resident. cbn [b_res]. rewrite !res_aset.
      destruct (g =? b_nid s1); [|apply Hr].
      intros H. rewrite orb_false_r in H. rewrite (Hr _ H). reflexivity.
  - constructor; try reflexivity.
    intros x. unfold resident. cbn [b_res]. rewrite !res_aset. destruct (x =? g); [discriminate|apply Hr].
  - destruct (aget g (b_gens s1)) as [r|] eqn:G; [|exact Triv].
    replace (held (mkbst (b_gens s1) (b_tbl s1) r0 (b_nid s1) (b_now s1) c0 (b_rd s1) (b_out s1)) g) with (held s1 g) by reflexivity.
    destruct (gr_live r || held s1 g); [exact Triv|].
    constructor; try reflexivity; exact Hr.
  - constructor; try reflexivity; exact Hr.
  - destruct (aget k (b_tbl s1)); constructor; try reflexivity; exact Hr.
  - (* resolve *)
    unfold reads_device.
    destruct (aget i (b_rd s1)) as [[k g|k g v]|] eqn:R; try exact Triv.
    destruct (aget g (b_gens s1)) as [r|] eqn:G; [|constructor; try reflexivity; exact Hr].
    destruct (expired r (b_now s1)); [constructor; try reflexivity; exact Hr|].
    cbn [negb andb].
    unfold resident at 2. cbn [b_res].
    destruct (resident s1 g) eqn:R1.
    + (* resident with the cache: the cacheless store has it resident or reads it from the device *)
      cbn [negb andb]. rewrite andb_false_r.
      destruct (match aget g r0 with Some b => b | None => false end); constructor; try reflexivity; exact Hr.
    + assert (R0 : match aget g r0 with Some b => b | None => false end = false).
      { destruct (match aget g r0 with Some b => b | None => false end) eqn:X; [|reflexivity].
        unfold resident in R1. rewrite (Hr _ X) in R1. discriminate. }
      rewrite R0. cbn [negb andb].
      destruct (cg_get (b_cache s1) k (Some g)) as [v|] eqn:C.
      * rewrite andb_false_r.
        destruct (cg_get_in _ _ _ _ C) as [e [Hi [_ [Ht Hev]]]].
        destruct (bi_cache s1 I e g Hi Ht) as [r' [A B]].
        assert (Hvv : v = gr_val r) by congruence. rewrite Hvv.
        constructor; try reflexivity; exact Hr.
      * rewrite andb_true_r. destruct stale.
        -- destruct (aget k (b_tbl s1)); constructor; try reflexivity; exact Hr.
        -- constructor; try reflexivity; exact Hr.
  - destruct (aget i (b_rd s1)) as [[k g|k g v]|] eqn:R; try exact Triv.
    constructor; try reflexivity; exact Hr.
Qed.

Theorem brun_rel es : forall s1 s0, BInv s1 -> BRel s1 s0 -> BRel (brun true s1 es) (brun false s0 (adjust s1 es)).
Proof.
  induction es as [|e t IH]; intros s1 s0 I R; [exact R|].
  unfold brun. cbn [adjust fold_left]. apply IH; [apply bstep_inv; exact I|apply bstep_rel; assumption].
Qed.

Lemma brel_init : BRel binit binit.
Proof. constructor; try reflexivity. intros g H. exact H. Qed.

(* every run with the cache on produces the results of a run of the cacheless store under the same
   schedule of calls and background steps (only device-staleness answers the cached run never
   asked for are replaced) *)
Theorem cached_store_refines_cacheless es :
  exists es', map erase es' = map erase es /\
              b_out (brun false binit es') = b_out (brun true binit es) /\
              b_tbl (brun false binit es') = b_tbl (brun true binit es) /\
              b_gens (brun false binit es') = b_gens (brun true binit es).
Proof.
  exists (adjust binit es). split; [apply adjust_same_calls|].
  destruct (brun_rel es binit binit binit_inv brel_init) as [Eg Et _ _ _ Eo _]. repeat split; congruence.
Qed.

(* with no refused device reads -- in particular in every sequential execution, where nothing is
   retired under a reader -- the results are identical, step for step *)
Theorem cache_is_transparent_without_stale_reads es :
  all_good_reads es ->
  b_out (brun true binit es) = b_out (brun false binit es) /\
  b_tbl (brun true binit es) = b_tbl (brun false binit es) /\
  b_gens (brun true binit es) = b_gens (brun false binit es).
Proof.
  intros H. destruct (brun_rel es binit binit binit_inv brel_init) as [Eg Et _ _ _ Eo _].
  rewrite (adjust_id es H) in *. repeat split; congruence.
Qed.
