(* Soundness of the history checker: when lin_check accepts, there is a witness -- an order of
   all calls of the history that respects real time, in which every call either behaves exactly
   as the sequential last-writer-wins spec says (with the response it really gave) or is one of
   the two permitted refusals, justified by a concurrent accepted modification. *)
From Coq Require Import List NArith ZArith Bool Lia Permutation.
From Feox Require Import Model.Sched Model.Lin.
Import ListNotations.
Local Open Scope N_scope.

Inductive item := Lin (x : hop) | Drop (x : hop).
Definition item_hop (i : item) : hop := match i with Lin x | Drop x => x end.

Fixpoint replay (all : list hop) (m : kmap) (w : list item) : Prop :=
  match w with
  | [] => True
  | Lin x :: t => let '(m', r) := apply_hop m x in resp_eqb r (h_resp x) = true /\ replay all m' t
  | Drop x :: t => justified all x = true /\ replay all m t
  end.

(* nobody placed later answered before this call was invoked *)
Fixpoint rt_ok (w : list item) : Prop :=
  match w with
  | [] => True
  | a :: t => Forall (fun b => (h_res (item_hop b) <? h_inv (item_hop a)) = false) t /\ rt_ok t
  end.

Lemma ids_unique_NoDup h : ids_unique h = true -> NoDup (map h_id h).
Proof.
  induction h as [|x t IH]; cbn; intros H; [constructor|].
  apply andb_true_iff in H. destruct H as [Hx Ht]. constructor; [|exact (IH Ht)].
  intros Hin. apply in_map_iff in Hin. destruct Hin as [y [Hy Hin]].
  apply negb_true_iff in Hx. assert (existsb (fun y0 => h_id y0 =? h_id x) t = true).
  { apply existsb_exists. exists y. split; [exact Hin | apply N.eqb_eq; exact Hy]. }
  congruence.
Qed.

Lemma without_perm pend x :
  NoDup (map h_id pend) -> In x pend -> Permutation (x :: without x pend) pend /\ NoDup (map h_id (without x pend)).
Proof.
  induction pend as [|y t IH]; cbn; intros Hnd Hin; [contradiction|].
  inversion Hnd as [|? ? Hny Hndt]; subst.
  destruct Hin as [->|Hin].
  - rewrite N.eqb_refl. cbn.
    assert (Hw : without x t = t).
    { unfold without. clear IH Hnd Hndt. induction t as [|z t2 IH2]; cbn; [reflexivity|].
      destruct (h_id z =? h_id x) eqn:E.
      - exfalso. apply Hny. cbn. left. apply N.eqb_eq. exact E.
      - cbn. f_equal. apply IH2. intros H. apply Hny. cbn. right. exact H. }
    fold (without x t). rewrite Hw. split; [apply Permutation_refl | exact Hndt].
  - destruct (h_id y =? h_id x) eqn:E.
    + exfalso. apply Hny. apply N.eqb_eq in E. rewrite E. apply in_map. exact Hin.
    + cbn. fold (without x t). destruct (IH Hndt Hin) as [Hp Hn]. split.
      * eapply Permutation_trans; [apply perm_swap|]. apply perm_skip. exact Hp.
      * cbn. constructor; [|exact Hn].
        intros H. apply Hny. apply in_map_iff in H. destruct H as [z [Hz Hzin]].
        apply in_map_iff. exists z. split; [exact Hz|]. unfold without in Hzin. apply filter_In in Hzin. tauto.
Qed.

Lemma minimal_forall x pend (w : list item) :
  minimal x pend = true -> Permutation (map item_hop w) (without x pend) ->
  Forall (fun b => (h_res (item_hop b) <? h_inv x) = false) w.
Proof.
  intros Hmin Hp. apply Forall_forall. intros b Hb.
  assert (Hin : In (item_hop b) (without x pend)).
  { eapply Permutation_in; [exact Hp|]. apply in_map. exact Hb. }
  unfold without in Hin. apply filter_In in Hin. destruct Hin as [Hin Hne].
  unfold minimal in Hmin. rewrite forallb_forall in Hmin. specialize (Hmin _ Hin).
  apply negb_true_iff in Hne. rewrite Hne in Hmin. cbn in Hmin. apply negb_true_iff in Hmin. exact Hmin.
Qed.

Theorem search_sound all : forall fuel pend m,
  NoDup (map h_id pend) -> search fuel all pend m = true ->
  exists w, Permutation (map item_hop w) pend /\ rt_ok w /\ replay all m w.
Proof.
  induction fuel as [|f IH]; intros pend m Hnd Hs; cbn in Hs; [discriminate|].
  destruct pend as [|p0 pt] eqn:Hpend.
  - exists []. cbn. split; [apply perm_nil | split; exact I].
  - rewrite <- Hpend in *. clear Hpend.
    apply existsb_exists in Hs. destruct Hs as [x [Hin Hx]].
    apply andb_true_iff in Hx. destruct Hx as [Hmin Hx].
    destruct (without_perm _ _ Hnd Hin) as [Hperm Hnd'].
    apply orb_true_iff in Hx. destruct Hx as [Ha|Hb].
    + destruct (apply_hop m x) as [m' r] eqn:Hap.
      apply andb_true_iff in Ha. destruct Ha as [Hr Hrest].
      destruct (IH _ _ Hnd' Hrest) as [w [Hpw [Hrt Hrep]]].
      exists (Lin x :: w). split; [|split].
      * cbn. eapply Permutation_trans; [apply perm_skip; exact Hpw | exact Hperm].
      * cbn. split; [exact (minimal_forall _ _ _ Hmin Hpw) | exact Hrt].
      * cbn. rewrite Hap. split; assumption.
    + apply andb_true_iff in Hb. destruct Hb as [Hj Hrest].
      destruct (IH _ _ Hnd' Hrest) as [w [Hpw [Hrt Hrep]]].
      exists (Drop x :: w). split; [|split].
      * cbn. eapply Permutation_trans; [apply perm_skip; exact Hpw | exact Hperm].
      * cbn. split; [exact (minimal_forall _ _ _ Hmin Hpw) | exact Hrt].
      * cbn. split; assumption.
Qed.

Theorem lin_check_sound h :
  lin_check h = true ->
  exists w, Permutation (map item_hop w) h /\ rt_ok w /\ replay h [] w.
Proof.
  unfold lin_check. intros H. apply andb_true_iff in H. destruct H as [H Hs].
  apply andb_true_iff in H. destruct H as [Hu _].
  exact (search_sound h _ _ _ (ids_unique_NoDup _ Hu) Hs).
Qed.

(* a dropped call is a refusal: it claimed no effect *)
Theorem dropped_is_refusal all x :
  justified all x = true ->
  h_resp x = ROlder \/ (h_resp x = RBool false /\ exists k e n t, h_op x = OCas k e n t).
Proof.
  unfold justified. destruct (h_resp x) as [| | |b| | | |]; try discriminate.
  - intros _. left. reflexivity.
  - destruct b; [destruct (h_op x); discriminate|].
    destruct (h_op x) eqn:E; try discriminate. intros _. right. split; [reflexivity|]. eauto.
Qed.
