(* Expired winners (C11, recovery clause): after the scan has kept the newest generation of every
   key, remove_expired_recovery_winners takes out the entries whose expiry has passed.  A key whose
   newest generation is expired is absent afterwards -- no older generation takes its place --, every
   other key keeps its entry, and every release of the pass succeeds. *)
From Coq Require Import List NArith Bool Lia Arith.
From Feox Require Import Gen.Constants Model.Bytes Model.Crc32c Model.Codec Proofs.CodecProofs
                         Model.FreeSpace Proofs.FreeSpaceProofs Model.MetaJournal Model.Recovery
                         Proofs.ScanAcceptsProofs Proofs.ScanQuiescentProofs Proofs.ScanGenerationsProofs.
Import ListNotations.
Local Open Scope N_scope.
Local Transparent FEOX_BLOCK_SIZE FEOX_DATA_START_BLOCK.

(* ---- the ordered index ---- *)
Lemma idx_find_In k l e : idx_find k l = Some e -> In e l /\ list_eqb (e_key e) k = true.
Proof.
  induction l as [|x t IH]; cbn [idx_find]; [discriminate|]. destruct (list_eqb (e_key x) k) eqn:E.
  - intros H. inversion H; subst. split; [left; reflexivity|exact E].
  - intros H. destruct (IH H) as [A B]. split; [right; exact A|exact B].
Qed.

Lemma key_ltb_irrefl a : key_ltb a a = false.
Proof. induction a as [|x a IH]; cbn; [reflexivity|]. rewrite N.ltb_irrefl, N.eqb_refl, IH. reflexivity. Qed.

Lemma key_ltb_trans a : forall b c, key_ltb a b = true -> key_ltb b c = true -> key_ltb a c = true.
Proof.
  induction a as [|x a IH]; intros [|y b] [|z c] H1 H2; cbn in *; try discriminate; try reflexivity.
  apply orb_true_iff in H1. apply orb_true_iff in H2. apply orb_true_iff.
  destruct H1 as [H1|H1]; destruct H2 as [H2|H2].
  - left. apply N.ltb_lt in H1. apply N.ltb_lt in H2. apply N.ltb_lt. lia.
  - apply andb_true_iff in H2. destruct H2 as [E _]. apply N.eqb_eq in E. subst z. left. exact H1.
  - apply andb_true_iff in H1. destruct H1 as [E _]. apply N.eqb_eq in E. subst y. left. exact H2.
  - apply andb_true_iff in H1. apply andb_true_iff in H2. destruct H1 as [E1 L1]. destruct H2 as [E2 L2].
    apply N.eqb_eq in E1. apply N.eqb_eq in E2. subst. right. rewrite N.eqb_refl. cbn. exact (IH _ _ L1 L2).
Qed.

Lemma key_trichotomy a : forall b, key_ltb a b = false -> list_eqb a b = false -> key_ltb b a = true.
Proof.
  induction a as [|x a IH]; intros [|y b] H1 H2; cbn in *; try discriminate; try reflexivity.
  apply orb_false_iff in H1. destruct H1 as [L E]. apply N.ltb_ge in L.
  destruct (N.eqb_spec x y) as [->|Hne].
  - cbn in E, H2. rewrite N.ltb_irrefl, N.eqb_refl. cbn. exact (IH _ E H2).
  - assert (y < x) by lia. apply orb_true_iff. left. apply N.ltb_lt. assumption.
Qed.

Lemma key_ltb_not_eq a b : key_ltb a b = true -> list_eqb a b = false.
Proof.
  intros H. destruct (list_eqb a b) eqn:E; [|reflexivity]. apply list_eqb_eq in E. subst b. rewrite key_ltb_irrefl in H. discriminate.
Qed.

Fixpoint isorted (l : list entry) : Prop :=
  match l with
  | [] => True
  | e :: t => (forall e', In e' t -> key_ltb (e_key e) (e_key e') = true) /\ isorted t
  end.

Lemma In_upsert_weak x l e : In e (idx_upsert x l) -> e = x \/ In e l.
Proof.
  induction l as [|y t IH]; cbn [idx_upsert]; intros H.
  - destruct H as [H|[]]. left. symmetry. exact H.
  - destruct (list_eqb (e_key y) (e_key x)).
    + destruct H as [H|H]; [left; symmetry; exact H|right; right; exact H].
    + destruct (key_ltb (e_key x) (e_key y)).
      * destruct H as [H|H]; [left; symmetry; exact H|right; exact H].
      * destruct H as [H|H]; [right; left; exact H|]. destruct (IH H) as [A|A]; [left; exact A|right; right; exact A].
Qed.

Lemma isorted_upsert x l : isorted l -> isorted (idx_upsert x l).
Proof.
  induction l as [|y t IH]; cbn [idx_upsert isorted]; intros H.
  - split; [intros e' []|exact I].
  - destruct H as [Hy Ht]. destruct (list_eqb (e_key y) (e_key x)) eqn:E.
    + apply list_eqb_eq in E. cbn [isorted]. split; [|exact Ht]. intros e' He'. rewrite <- E. exact (Hy e' He').
    + destruct (key_ltb (e_key x) (e_key y)) eqn:L.
      * cbn [isorted]. split; [|split; [exact Hy|exact Ht]].
        intros e' [<-|He']; [exact L|]. exact (key_ltb_trans _ _ _ L (Hy e' He')).
      * cbn [isorted]. split; [|exact (IH Ht)].
        intros e' He'. destruct (In_upsert_weak _ _ _ He') as [->|Hin]; [|exact (Hy e' Hin)].
        apply key_trichotomy; [exact L|]. rewrite list_eqb_sym. exact E.
Qed.

Lemma isorted_find l : isorted l -> forall e, In e l -> idx_find (e_key e) l = Some e.
Proof.
  induction l as [|y t IH]; intros H e He; [destruct He|]. destruct H as [Hy Ht]. cbn [idx_find].
  destruct He as [<-|He]; [rewrite list_eqb_refl; reflexivity|].
  rewrite (key_ltb_not_eq _ _ (Hy e He)). exact (IH Ht e He).
Qed.

Lemma idx_find_remove_other k' l k : list_eqb k' k = false -> idx_find k (idx_remove k' l) = idx_find k l.
Proof.
  intros H. induction l as [|y t IH]; cbn [idx_remove idx_find]; [reflexivity|].
  destruct (list_eqb (e_key y) k') eqn:E.
  - apply list_eqb_eq in E. rewrite E, H. reflexivity.
  - cbn [idx_find]. destruct (list_eqb (e_key y) k); [reflexivity|exact IH].
Qed.

Lemma In_remove_weak k l e : In e (idx_remove k l) -> In e l.
Proof.
  induction l as [|y t IH]; cbn [idx_remove]; intros H; [exact H|].
  destruct (list_eqb (e_key y) k); [right; exact H|]. destruct H as [H|H]; [left; exact H|right; exact (IH H)].
Qed.

Lemma isorted_remove k l : isorted l -> isorted (idx_remove k l).
Proof.
  induction l as [|y t IH]; cbn [idx_remove isorted]; intros H; [exact I|]. destruct H as [Hy Ht].
  destruct (list_eqb (e_key y) k); [exact Ht|]. cbn [isorted]. split; [|exact (IH Ht)].
  intros e' He'. exact (Hy e' (In_remove_weak _ _ _ He')).
Qed.

Lemma idx_find_remove_same k l : isorted l -> idx_find k (idx_remove k l) = None.
Proof.
  induction l as [|y t IH]; cbn [idx_remove idx_find isorted]; intros H; [reflexivity|]. destruct H as [Hy Ht].
  destruct (list_eqb (e_key y) k) eqn:E.
  - (* every later key is greater than y's = k *)
    apply list_eqb_eq in E. subst k. destruct (idx_find (e_key y) t) as [e|] eqn:F; [|reflexivity].
    destruct (idx_find_In _ _ _ F) as [Hin Hk]. pose proof (key_ltb_not_eq _ _ (Hy e Hin)) as Hn. rewrite list_eqb_sym in Hn. congruence.
  - cbn [idx_find]. rewrite E. exact (IH Ht).
Qed.

(* ---- the pass ---- *)
Definition expired (now : N) (e : entry) : bool := (0 <? e_exp e) && (e_exp e <? now).
Definition hit (now : N) (k : list N) (todo : list entry) : bool :=
  existsb (fun x => list_eqb (e_key x) k && expired now x) todo.

Lemma hit_none now k l : (forall x, In x l -> list_eqb (e_key x) k = false) -> hit now k l = false.
Proof.
  induction l as [|y t IH]; intros H; [reflexivity|]. cbn [hit existsb]. rewrite (H y (or_introl eq_refl)). cbn [andb orb].
  apply IH. intros x Hx. apply H. right. exact Hx.
Qed.

Lemma hit_sorted now k l : isorted l ->
  hit now k l = match idx_find k l with Some e => expired now e | None => false end.
Proof.
  induction l as [|y t IH]; intros H; [reflexivity|]. destruct H as [Hy Ht]. cbn [hit existsb idx_find].
  destruct (list_eqb (e_key y) k) eqn:E.
  - cbn [andb]. apply list_eqb_eq in E. subst k.
    assert (Z : hit now (e_key y) t = false).
    { apply hit_none. intros x Hx. pose proof (key_ltb_not_eq _ _ (Hy x Hx)) as N0. rewrite list_eqb_sym. exact N0. }
    unfold hit in Z. rewrite Z, orb_false_r. reflexivity.
  - cbn [andb orb]. exact (IH Ht).
Qed.

Section Pass.
Variable version : N.
Variable c : rcfg.
Variable total now : N.
Hypothesis Hrw : c_ro c = false.

Theorem expire_winners_spec : forall todo sector st,
  sector <= total ->
  SJ version total sector st -> isorted (rs_idx st) -> isorted todo ->
  (forall e, In e todo -> idx_find (e_key e) (rs_idx st) = Some e) ->
  exists st',
    expire_winners c version now todo st = Ok st' /\
    SJ version total sector st' /\ isorted (rs_idx st') /\
    (forall k, idx_find k (rs_idx st') = if hit now k todo then None else idx_find k (rs_idx st)).
Proof.
  induction todo as [|e t IH]; intros sector st Hsec J Hs Hts Hfound.
  - exists st. split; [reflexivity|]. split; [exact J|]. split; [exact Hs|]. intros k. reflexivity.
  - destruct Hts as [Hte Htt]. cbn [expire_winners]. fold (expired now e).
    assert (Hft : forall e', In e' t -> idx_find (e_key e') (rs_idx st) = Some e') by (intros e' He'; apply Hfound; right; exact He').
    destruct (expired now e) eqn:X.
    + pose proof (Hfound e (or_introl eq_refl)) as Fe.
      destruct J as [I D Lo Hi Fr Xt Dj]. destruct (Xt _ _ Fe) as (X1 & X2 & X3).
      assert (Rok : release_ok (e_sector e) (eblocks version e) (rs_fs st)).
      { unfold release_ok. split; [lia|]. split; [lia|]. split; [rewrite D; lia|]. intros b Hb Hfree.
        destruct (Fr b Hfree) as [_ Nu]. apply Nu. exists (e_key e), e. split; [exact Fe|exact Hb]. }
      destruct (fs_release_ok st _ _ I Rok) as (st1 & R1 & I1 & C1 & T1 & L1 & M1 & K1 & A1 & Inv1 & D1 & F1).
      fold (eblocks version e). rewrite R1. cbn [bind]. unfold push_retired. rewrite Hrw.
      cbn [rs_idx rs_fs rs_count rs_mem rs_disk rs_retired rs_last_end rs_ambiguous].
      set (st2 := mkrs (idx_remove (e_key e) (rs_idx st1)) (rs_fs st1) (wsub (rs_count st1) 1)
                       (wsub (rs_mem st1) (record_size c (N.of_nat (length (e_key e))) (e_vlen e)))
                       (wsub (rs_disk st1) (eblocks version e * FEOX_BLOCK_SIZE))
                       ((e_sector e, eblocks version e) :: rs_retired st1) (rs_last_end st1) (rs_ambiguous st1)).
      assert (Fnd : forall k e2, idx_find k (idx_remove (e_key e) (rs_idx st)) = Some e2 ->
                    list_eqb (e_key e) k = false /\ idx_find k (rs_idx st) = Some e2).
      { intros k e2 H. destruct (list_eqb (e_key e) k) eqn:E.
        - apply list_eqb_eq in E. subst k. rewrite idx_find_remove_same in H by exact Hs. discriminate.
        - split; [reflexivity|]. rewrite idx_find_remove_other in H by exact E. exact H. }
      assert (J2 : SJ version total sector st2).
      { constructor; cbn [st2 rs_fs rs_last_end rs_idx]; rewrite ?I1, ?L1; try assumption.
        - rewrite D1. exact D.
        - intros b Hb. apply F1 in Hb. split.
          + destruct Hb as [Hb|Hb]; [exact (proj1 (Fr b Hb))|unfold in_ext in *; lia].
          + intros (k & e2 & Fk & Ib). destruct (Fnd _ _ Fk) as [Nk Fk0]. destruct Hb as [Hb|Hb].
            * destruct (Fr b Hb) as [_ Nu]. apply Nu. exists k, e2. split; assumption.
            * assert (Hne : e_key e <> k) by (intros E0; rewrite E0, list_eqb_refl in Nk; discriminate).
              exact (Dj _ _ _ _ Fe Fk0 Hne b Hb Ib).
        - intros k e2 Fk. destruct (Fnd _ _ Fk) as [_ Fk0]. exact (Xt _ _ Fk0).
        - intros k1 k2 e1 e2 Fa Fb Hne. destruct (Fnd _ _ Fa) as [_ Fa0]. destruct (Fnd _ _ Fb) as [_ Fb0]. exact (Dj _ _ _ _ Fa0 Fb0 Hne). }
      assert (Hs2 : isorted (rs_idx st2)) by (cbn [st2 rs_idx]; rewrite I1; apply isorted_remove; exact Hs).
      assert (Hf2 : forall e', In e' t -> idx_find (e_key e') (rs_idx st2) = Some e').
      { intros e' He'. cbn [st2 rs_idx]. rewrite I1. rewrite idx_find_remove_other; [exact (Hft e' He')|].
        exact (key_ltb_not_eq _ _ (Hte e' He')). }
      destruct (IH sector st2 Hsec J2 Hs2 Htt Hf2) as (st' & E' & J' & S' & Spec').
      exists st'. split; [exact E'|]. split; [exact J'|]. split; [exact S'|].
      intros k. rewrite Spec'. cbn [hit existsb]. rewrite X. cbn [st2 rs_idx]. rewrite I1.
      destruct (list_eqb (e_key e) k) eqn:E; cbn [andb orb].
      * apply list_eqb_eq in E. subst k. rewrite idx_find_remove_same by exact Hs. destruct (hit now (e_key e) t); reflexivity.
      * fold (hit now k t). rewrite idx_find_remove_other by exact E. reflexivity.
    + destruct (IH sector st Hsec J Hs Htt Hft) as (st' & E' & J' & S' & Spec').
      exists st'. split; [exact E'|]. split; [exact J'|]. split; [exact S'|].
      intros k. rewrite Spec'. cbn [hit existsb]. rewrite X, andb_false_r. cbn [orb]. reflexivity.
Qed.

(* the whole index handed to the pass (what open_image does): a key is exposed afterwards exactly
   when its entry is not expired -- and then with that very entry *)
Theorem expired_winners_disappear sector st :
  sector <= total ->
  SJ version total sector st -> isorted (rs_idx st) ->
  exists st',
    expire_winners c version now (rs_idx st) st = Ok st' /\
    SJ version total sector st' /\
    (forall k, idx_find k (rs_idx st') =
               match idx_find k (rs_idx st) with
               | Some e => if expired now e then None else Some e
               | None => None
               end).
Proof.
  intros Hsec J Hs.
  destruct (expire_winners_spec (rs_idx st) sector st Hsec J Hs Hs (isorted_find _ Hs)) as (st' & E & J' & _ & Spec).
  exists st'. split; [exact E|]. split; [exact J'|]. intros k. rewrite Spec, hit_sorted by exact Hs.
  destruct (idx_find k (rs_idx st)) as [e|]; [destruct (expired now e); reflexivity|reflexivity].
Qed.

End Pass.

(* the index the scan builds is ordered *)
Lemma sem_fold_sorted version ps : forall a, isorted (s_idx a) -> isorted (s_idx (fold_left (sem_step version) ps a)).
Proof.
  induction ps as [|[r s] t IH]; intros a H; [exact H|]. cbn [fold_left]. apply IH. unfold sem_step.
  destruct (idx_find (r_key r) (s_idx a)) as [ex|]; [destruct (r_ts r <? e_ts ex)|]; cbn [s_idx]; try exact H; apply isorted_upsert; exact H.
Qed.

(* recovery with TTL on: scan, then the expiry pass over the whole index.  A key is exposed
   afterwards exactly when its newest generation on the device has not expired, and then with that
   generation; a key whose newest generation has expired is absent although older generations of
   it are on the device *)
Theorem recovery_hides_keys_whose_newest_generation_expired c version total now jl img its st0 fuel :
  c_ro c = false -> has_token version = true -> total <= U64MAX ->
  (length its < fuel)%nat ->
  rs_fs st0 = mkfs [] (total * FEOX_BLOCK_SIZE) 0 0 -> rs_last_end st0 = FEOX_DATA_START_BLOCK -> rs_idx st0 = [] ->
  total * FEOX_BLOCK_SIZE < U64 ->
  Forall (item_ok version) its ->
  skipn (N.to_nat FEOX_DATA_START_BLOCK) img = ilayout version FEOX_DATA_START_BLOCK its ->
  total = FEOX_DATA_START_BLOCK + isum version its -> 0 < isum version its ->
  exists st1 st2,
    scan fuel c version total img FEOX_DATA_START_BLOCK st0 jl = Ok st1 /\
    expire_winners c version now (rs_idx st1) st1 = Ok st2 /\
    (forall r s, In (r, s) (placed version FEOX_DATA_START_BLOCK its) ->
                 exists e, idx_find (r_key r) (rs_idx st1) = Some e /\ r_ts r <= e_ts e) /\
    (forall k, idx_find k (rs_idx st2) =
               match idx_find k (rs_idx st1) with
               | Some e => if expired now e then None else Some e
               | None => None
               end).
Proof.
  intros Hrw Htok Hmax Hfuel Hfs Hle Hidx Hu Hok Himg Htot Hpos.
  assert (J0 : SJ version total FEOX_DATA_START_BLOCK st0).
  { constructor.
    - rewrite Hfs. constructor; cbn.
      + unfold dev_sectors. cbn. rewrite N.div_mul by (unfold FEOX_BLOCK_SIZE; lia). lia.
      + exact Hu.
      + exact I.
      + reflexivity.
      + reflexivity.
    - rewrite Hfs. unfold dev_sectors. cbn. apply N.div_mul. unfold FEOX_BLOCK_SIZE. lia.
    - rewrite Hle. lia.
    - rewrite Hle. lia.
    - rewrite Hfs. intros b Hb. exfalso. exact (freel_nil b Hb).
    - rewrite Hidx. intros k e H. discriminate.
    - rewrite Hidx. intros k1 k2 e1 e2 H. discriminate. }
  destruct (scan_computes_the_newest_wins_fold version c total jl img Hrw Htok Hmax its fuel FEOX_DATA_START_BLOCK st0 Hok J0 Himg Htot Hfuel)
    as (st1 & Sc & J1 & Sem).
  assert (Ei : rs_idx st1 = s_idx (fold_left (sem_step version) (placed version FEOX_DATA_START_BLOCK its) (sem_of st0))) by (rewrite <- Sem; reflexivity).
  assert (S1 : isorted (rs_idx st1)).
  { rewrite Ei. apply sem_fold_sorted. cbn [sem_of s_idx]. rewrite Hidx. exact I. }
  destruct (expired_winners_disappear version c total now Hrw total st1 (N.le_refl _) J1 S1) as (st2 & E2 & _ & Spec).
  exists st1, st2. split; [exact Sc|]. split; [exact E2|]. split; [|exact Spec].
  intros r s Hin. rewrite Ei. exact (newest_generation_wins version _ _ r s Hin).
Qed.
