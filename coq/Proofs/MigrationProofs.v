(* C15: the read-only recovery used for the migration source never writes. *)
From Coq Require Import List NArith Bool.
From Feox Require Import Gen.Constants Model.Bytes Model.Codec Model.MetaJournal Model.FreeSpace Model.Recovery Model.Migration.
Import ListNotations.
Local Open Scope N_scope.

Theorem read_only_open_never_writes c img : c_ro c = true -> snd (open_image c img) = img.
Proof.
  intros RO. unfold open_image. rewrite RO.
  destruct (Nat.ltb (length img) 17); [reflexivity|].
  destruct (negb _); [reflexivity|].
  destruct (decode_meta _) as [m|]; [|reflexivity].
  destruct (decode_journal _ _ _) as [[[jgen jslot] jexts]|]; [|reflexivity].
  destruct (bind _ _) as [[st2 nl]| |]; try reflexivity.
  cbn iota beta. simpl negb. cbv iota.
  destruct (rs_last_end st2 <? _); [|reflexivity].
  destruct (fs_release st2 _ _); reflexivity.
Qed.

Theorem migration_source_untouched img allow : snd (open_image (ro_cfg allow) img) = img.
Proof. apply read_only_open_never_writes. reflexivity. Qed.

(* a migration that succeeds reports exactly the records of the read-only recovery, one per key, with
   timestamp and absolute expiry preserved; it fails for a v3 source, for a key that v3 cannot
   recover, for an existing destination, and for any failure of the source recovery *)
Theorem migrate_spec_ok src allow dst_exists r :
  migrate_spec src allow dst_exists = inl r ->
  dst_exists = false /\
  exists o, fst (open_image (ro_cfg allow) src) = Ok o /\ o_version o < 3 /\
    rep_version r = o_version o /\
    map mr_key (rep_records r) = map e_key (o_idx o) /\
    map mr_ts (rep_records r) = map e_ts (o_idx o) /\
    map mr_exp (rep_records r) = map e_exp (o_idx o).
Proof.
  unfold migrate_spec. destruct (fst (open_image (ro_cfg allow) src)) as [o|e|]; [|destruct e; discriminate|discriminate].
  destruct (N.leb_spec 3 (o_version o)); [discriminate|].
  destruct (existsb _ _); [discriminate|]. destruct dst_exists; [discriminate|].
  intros [= <-]. split; auto. exists o. simpl. repeat split; auto; rewrite map_map; reflexivity.
Qed.
