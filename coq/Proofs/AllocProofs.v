(* C20, FeoxAllocator: a block is released by the path that produced it, with the Layout it was
   allocated with and the length that was mapped.  The definitions come from Gen/AllocSites.v,
   regenerated from src/utils/allocator.rs on every run (tools/gen_alloc.py). *)
From Coq Require Import NArith Bool Lia ZArith ZifyN ZifyBool.
From Feox Require Import Gen.AllocSites.
Local Open Scope N_scope.
Ltac Zify.zify_post_hook ::= Z.div_mod_to_equations.

Ltac cases :=
  repeat match goal with
         | |- context [?a <=? ?b] => destruct (N.leb_spec a b)
         | |- context [?a <? ?b] => destruct (N.ltb_spec a b)
         end.

Theorem same_path_both_ways size : alloc_small size = dealloc_small size.
Proof. unfold alloc_small, dealloc_small, A_KMALLOC_LIMIT. cases; cbn; try reflexivity; lia. Qed.

Theorem same_layout_both_ways : alloc_small_align = dealloc_small_align.
Proof. reflexivity. Qed.

Theorem unmapped_length_is_mapped_length size : dealloc_large_len size = alloc_large_len size.
Proof. unfold dealloc_large_len, alloc_large_len, A_PAGE_MASK, A_PAGE_SIZE. lia. Qed.

(* the mapping covers the request, is made of whole pages and wastes less than a page *)
Theorem mapped_length_is_the_page_rounding size :
  size <= alloc_large_len size /\ alloc_large_len size < size + A_PAGE_SIZE /\
  alloc_large_len size mod A_PAGE_SIZE = 0 /\ (0 < size -> 0 < alloc_large_len size).
Proof. unfold alloc_large_len, A_PAGE_MASK, A_PAGE_SIZE. repeat split; lia. Qed.

Theorem release_matches_allocation size :
  alloc_small size = dealloc_small size /\
  alloc_small_align = dealloc_small_align /\
  dealloc_large_len size = alloc_large_len size /\
  size <= alloc_large_len size /\ alloc_large_len size < size + A_PAGE_SIZE /\
  alloc_large_len size mod A_PAGE_SIZE = 0.
Proof.
  pose proof (mapped_length_is_the_page_rounding size) as [A [B [C _]]].
  split; [apply same_path_both_ways|]. split; [apply same_layout_both_ways|]. split; [apply unmapped_length_is_mapped_length|].
  repeat split; assumption.
Qed.
