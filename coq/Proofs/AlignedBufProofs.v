From Coq Require Import NArith List Lia.
From Feox Require Import Model.AlignedBuf.
Import ListNotations.
Local Open Scope N_scope.

Lemma round_up_ge n : n <= round_up n.
Proof.
  unfold round_up, BLOCK. pose proof (N.div_mod (n + 4096 - 1) 4096 ltac:(lia)) as H.
  pose proof (N.mod_lt (n + 4096 - 1) 4096 ltac:(lia)). lia.
Qed.

Lemma round_up_block n : (round_up n) mod BLOCK = 0.
Proof. unfold round_up. apply N.mod_mul. unfold BLOCK. lia. Qed.

Definition ab_ok (b : abuf) : Prop := ab_len b <= ab_cap b /\ ab_cap b <= ab_alloc b.

Lemma ab_step_ok b o : ab_ok b -> ab_ok (fst (ab_step b o)).
Proof.
  intros [H1 H2]. unfold ab_ok. destruct o as [n|]; cbn.
  - destruct (n <=? ab_cap b) eqn:E; cbn; [apply N.leb_le in E; split; [exact E | exact H2] | split; assumption].
  - split; [apply N.le_0_l | exact H2].
Qed.

(* MAIN: for every requested capacity and every sequence of safe calls, the slice handed out by
   as_slice / as_mut_slice (the first len bytes) lies inside the allocation, the advertised
   capacity covers the request, and the allocation is a whole number of blocks *)
Theorem safe_slices_stay_inside_the_allocation capacity ops :
  let b := ab_run capacity ops in
  ab_len b <= ab_alloc b /\ capacity <= ab_cap b /\ ab_cap b <= ab_alloc b /\ ab_alloc b mod BLOCK = 0.
Proof.
  cbv zeta. unfold ab_run.
  assert (G : forall ops b, ab_ok b -> ab_ok (fold_left (fun b o => fst (ab_step b o)) ops b) /\
              ab_cap (fold_left (fun b o => fst (ab_step b o)) ops b) = ab_cap b /\
              ab_alloc (fold_left (fun b o => fst (ab_step b o)) ops b) = ab_alloc b).
  { clear. induction ops as [|o t IH]; intros b Hb; [repeat split; apply Hb|].
    cbn [fold_left]. destruct (IH _ (ab_step_ok b o Hb)) as (A & B & C). split; [exact A|].
    rewrite B, C. destruct o as [n|]; cbn; [destruct (n <=? ab_cap b)|]; split; reflexivity. }
  assert (H0 : ab_ok (ab_new capacity)) by (unfold ab_ok, ab_new; cbn; lia).
  destruct (G ops _ H0) as ([A1 A2] & B & C). rewrite C, B in *. cbn [ab_new ab_cap ab_alloc] in *.
  split; [lia|]. split; [apply round_up_ge|]. split; [lia | apply round_up_block].
Qed.

(* a set_len beyond the capacity is refused and changes nothing *)
Theorem oversized_set_len_is_refused b n : ab_cap b < n -> ab_step b (ASetLen n) = (b, APanic).
Proof. intros H. cbn. destruct (n <=? ab_cap b) eqn:E; [apply N.leb_le in E; lia | reflexivity]. Qed.
