(* What the write path puts on the device, the recovery scan accepts and indexes (C10 / C02, the
   link between Model/Codec.v and Model/Recovery.v): one iteration of the scan loop at the head of
   an extent image produced by encode_extent (serialize, pad, stamp the sector- and content-bound
   token) advances exactly over that extent and indexes exactly the record's key, timestamp,
   expiry, value length and sector. *)
From Coq Require Import List NArith Bool Lia Arith.
From Feox Require Import Gen.Constants Model.Bytes Model.Crc32c Model.Codec Proofs.CodecProofs Model.FreeSpace Model.Recovery.
Import ListNotations.
Local Open Scope N_scope.

Lemma chunk_blocks_length d k : length (chunk_blocks d k) = k.
Proof. revert d. induction k as [|k IH]; intros d; cbn; [reflexivity|]. rewrite IH. reflexivity. Qed.

Lemma concat_chunk_blocks k : forall d, length d = (k * BLOCK)%nat -> concat (chunk_blocks d k) = d.
Proof.
  induction k as [|k IH]; intros d H; cbn [chunk_blocks concat].
  - destruct d; [reflexivity|cbn in H; lia].
  - rewrite IH; [apply firstn_skipn|]. rewrite skipn_length. lia.
Qed.

Lemma skipn_add {A} a : forall b (l : list A), skipn (a + b) l = skipn b (skipn a l).
Proof. induction a as [|a IH]; intros b l; [reflexivity|]. destruct l; cbn; [destruct b; reflexivity|apply IH]. Qed.

Lemma block_pos : (0 < BLOCK)%nat.
Proof. unfold BLOCK, FEOX_BLOCK_SIZE. lia. Qed.


Lemma header_klen version tok key vlen ts exp rest : length tok = 2%nat -> N.of_nat (length key) < 65536 ->
  u16_at (header_bytes version tok key vlen ts exp ++ rest) 4 = N.of_nat (length key).
Proof.
  intros Ht Hk. set (p1 := le_bytes 2 SECTOR_MARKER ++ tok).
  assert (D : header_bytes version tok key vlen ts exp ++ rest =
              p1 ++ le_bytes 2 (N.of_nat (length key)) ++ (key ++ le_bytes 8 vlen ++ le_bytes 8 ts ++ (if has_expiry version then le_bytes 8 exp else []) ++ rest)).
  { unfold header_bytes, p1. rewrite <- !app_assoc. reflexivity. }
  assert (L1 : length p1 = 4%nat) by (unfold p1; rewrite app_length, le_bytes_length, Ht; reflexivity).
  unfold u16_at. rewrite D, sub_app_ge by lia. rewrite L1. simpl Nat.sub.
  rewrite sub_0_app by (rewrite le_bytes_length; reflexivity). apply (le_num_le_bytes 2). exact Hk.
Qed.

Lemma header_marker version tok key vlen ts exp rest :
  u16_at (header_bytes version tok key vlen ts exp ++ rest) 0 = SECTOR_MARKER.
Proof.
  unfold u16_at, header_bytes. rewrite <- !app_assoc. rewrite sub_0_app by (rewrite le_bytes_length; reflexivity).
  apply (le_num_le_bytes 2). unfold SECTOR_MARKER. lia.
Qed.

Lemma header_token version tok key vlen ts exp rest : length tok = 2%nat ->
  u16_at (header_bytes version tok key vlen ts exp ++ rest) 2 = le_num tok.
Proof.
  intros Ht. unfold u16_at, header_bytes. rewrite <- !app_assoc.
  rewrite sub_app_ge by (rewrite le_bytes_length; lia). rewrite le_bytes_length. simpl Nat.sub.
  rewrite sub_0_app by (symmetry; exact Ht). reflexivity.
Qed.

Lemma header_not_deleted version tok key vlen ts exp rest :
  list_eqb (firstn 8 (header_bytes version tok key vlen ts exp ++ rest)) DELETED_TAG = false.
Proof. unfold header_bytes. cbn [le_bytes app]. rewrite <- !app_assoc. cbn [app firstn]. vm_compute. reflexivity. Qed.

Lemma header_range version tok key vlen ts exp rest : length tok = 2%nat ->
  0 < N.of_nat (length key) -> N.of_nat (length key) < 65536 ->
  (6 + length key + 16 + (if has_expiry version then 8 else 0) <= BLOCK)%nat ->
  header_range_ok version (header_bytes version tok key vlen ts exp ++ rest) = true.
Proof.
  intros Ht K0 Hk Hfit. unfold header_range_ok.
  pose proof (header_bytes_length version tok key vlen ts exp Ht) as HL.
  rewrite app_length, HL.
  destruct (Nat.ltb_spec (6 + length key + 16 + (if has_expiry version then 8 else 0) + length rest) 6); [lia|].
  rewrite header_klen by assumption.
  destruct (N.eqb_spec (N.of_nat (length key)) 0); [lia|].
  assert (E : header_size version (N.of_nat (length key)) = N.of_nat (6 + length key + 16 + (if has_expiry version then 8 else 0))).
  { unfold header_size, SECTOR_HEADER_SIZE. destruct (has_expiry version); lia. }
  rewrite E. unfold BLOCK in Hfit.
  destruct (N.ltb_spec FEOX_BLOCK_SIZE (N.of_nat (6 + length key + 16 + (if has_expiry version then 8 else 0)))); [lia|]. cbn [orb].
  destruct (N.ltb_spec (N.of_nat (6 + length key + 16 + (if has_expiry version then 8 else 0) + length rest)) (N.of_nat (6 + length key + 16 + (if has_expiry version then 8 else 0)))); [lia|reflexivity].
Qed.

Lemma splice_header version key vlen ts exp rest tok : length tok = 2%nat ->
  splice (header_bytes version [0; 0] key vlen ts exp ++ rest) 2 tok = header_bytes version tok key vlen ts exp ++ rest.
Proof.
  intros Ht. destruct tok as [|t0 [|t1 [|]]]; try discriminate. unfold header_bytes. cbn [le_bytes app]. reflexivity.
Qed.

Lemma idx_find_upsert_same x l : idx_find (e_key x) (idx_upsert x l) = Some x.
Proof.
  induction l as [|e t IH]; cbn [idx_upsert idx_find].
  - rewrite list_eqb_refl. reflexivity.
  - destruct (list_eqb (e_key e) (e_key x)) eqn:E.
    + cbn [idx_find]. rewrite list_eqb_refl. reflexivity.
    + destruct (key_ltb (e_key x) (e_key e)); cbn [idx_find]; [rewrite list_eqb_refl; reflexivity|].
      rewrite E. exact IH.
Qed.

Lemma idx_find_upsert_other x l k : list_eqb (e_key x) k = false -> idx_find k (idx_upsert x l) = idx_find k l.
Proof.
  intros H. induction l as [|e t IH]; cbn [idx_upsert idx_find].
  - rewrite H. reflexivity.
  - destruct (list_eqb (e_key e) (e_key x)) eqn:E.
    + cbn [idx_find]. rewrite H. apply list_eqb_eq in E. rewrite E, H. reflexivity.
    + destruct (key_ltb (e_key x) (e_key e)); cbn [idx_find]; [rewrite H; reflexivity|].
      destruct (list_eqb (e_key e) k); [reflexivity|exact IH].
Qed.


Section OneRecord.
Variable version sector : N.
Variable r : rec.
Let klen := N.of_nat (length (r_key r)).
Let vlen := N.of_nat (length (r_value r)).
Let need := extent_blocks version klen vlen.
Let hdr := (6 + length (r_key r) + 16 + (if has_expiry version then 8 else 0))%nat.

Hypothesis Hk0 : 0 < klen.
Hypothesis Hfit : (hdr <= BLOCK)%nat.
Hypothesis Hv0 : 0 < vlen.
Hypothesis Hv : vlen <= MAX_VALUE_SIZE.
Hypothesis Hts : r_ts r < 2 ^ 64.
Hypothesis Hexp : r_exp r < 2 ^ 64.

Lemma klen_small : klen < 65536.
Proof. unfold klen, hdr, BLOCK, FEOX_BLOCK_SIZE in *. destruct (has_expiry version); lia. Qed.

Lemma hdr_is_header_size : N.of_nat hdr = header_size version klen.
Proof. unfold hdr, header_size, klen, SECTOR_HEADER_SIZE. destruct (has_expiry version); lia. Qed.

Lemma need_pos : 0 < need /\ N.of_nat hdr + vlen <= need * FEOX_BLOCK_SIZE /\ (need - 1) * FEOX_BLOCK_SIZE < N.of_nat hdr + vlen.
Proof.
  unfold need, extent_blocks, blocks_for, total_size. rewrite <- hdr_is_header_size. unfold FEOX_BLOCK_SIZE.
  assert (Z4 : 4096 <> 0) by lia.
  assert (X0 : 0 < N.of_nat hdr + vlen) by lia.
  generalize dependent (N.of_nat hdr + vlen). intros x X0.
  pose proof (N.div_mod (x + 4096 - 1) 4096 Z4) as D.
  pose proof (N.mod_upper_bound (x + 4096 - 1) 4096 Z4) as M.
  generalize dependent ((x + 4096 - 1) / 4096). generalize dependent ((x + 4096 - 1) mod 4096). intros m M q D. lia.
Qed.

Lemma serialize_length : length (serialize version r) = (N.to_nat need * BLOCK)%nat.
Proof.
  destruct need_pos as (P & Q & _).
  unfold serialize. fold klen vlen need.
  set (body := le_bytes 2 SECTOR_MARKER ++ [0; 0] ++ le_bytes 2 klen ++ r_key r ++ le_bytes 8 vlen ++ le_bytes 8 (r_ts r) ++
               (if has_expiry version then le_bytes 8 (r_exp r) else []) ++ r_value r).
  assert (BL : length body = (hdr + length (r_value r))%nat).
  { unfold body, hdr. rewrite !app_length, !le_bytes_length. destruct (has_expiry version); cbn [length]; rewrite ?le_bytes_length; lia. }
  rewrite app_length. unfold zeros. rewrite repeat_length.
  assert (E : N.to_nat (need * FEOX_BLOCK_SIZE) = (N.to_nat need * BLOCK)%nat) by (unfold BLOCK; lia).
  rewrite E. assert ((length body <= N.to_nat need * BLOCK)%nat).
  { rewrite BL. rewrite <- E. unfold vlen in Q. lia. }
  lia.
Qed.

(* the extent image: header with the token bytes the write path leaves there, value, padding *)
Lemma encode_shape :
  exists tok pad, length tok = 2%nat /\
    encode_extent version sector r = header_bytes version tok (r_key r) vlen (r_ts r) (r_exp r) ++ (r_value r ++ pad) /\
    le_num tok = (if has_token version then record_token sector (encode_extent version sector r) else 0) /\
    (has_token version = true -> le_num tok <> 0) /\
    length (encode_extent version sector r) = (N.to_nat need * BLOCK)%nat.
Proof.
  destruct (serialize_shape version r) as (pad & S). fold vlen in S.
  assert (LS : forall tk, length tk = 2%nat ->
            length (header_bytes version tk (r_key r) vlen (r_ts r) (r_exp r) ++ r_value r ++ pad) = (N.to_nat need * BLOCK)%nat).
  { intros tk Htk. rewrite <- serialize_length, S, !app_length, !header_bytes_length by (reflexivity || exact Htk). reflexivity. }
  unfold encode_extent. destruct (has_token version) eqn:T.
  - assert (HR : header_range_ok version (serialize version r) = true).
    { rewrite S. apply header_range; [reflexivity|exact Hk0|exact klen_small|exact Hfit]. }
    destruct (stamp_self_consistent version sector _ HR) as (A & _ & C).
    unfold stamp in *. rewrite HR in *.
    set (t := record_token sector (serialize version r)) in *.
    exists (le_bytes 2 t), pad. split; [apply le_bytes_length|].
    assert (SP : splice (serialize version r) 2 (le_bytes 2 t) = header_bytes version (le_bytes 2 t) (r_key r) vlen (r_ts r) (r_exp r) ++ r_value r ++ pad).
    { rewrite S. apply splice_header. apply le_bytes_length. }
    split; [exact SP|].
    assert (E : le_num (le_bytes 2 t) = u16_at (splice (serialize version r) 2 (le_bytes 2 t)) 2).
    { rewrite SP. symmetry. apply header_token. apply le_bytes_length. }
    split; [rewrite E; exact A|]. split; [intros _; rewrite E; exact C|].
    rewrite SP. apply LS. apply le_bytes_length.
  - exists [0; 0], pad. split; [reflexivity|]. split; [exact S|]. split; [reflexivity|]. split; [discriminate|].
    rewrite S. apply LS. reflexivity.
Qed.

(* the value an index entry for this extent is read back with (load_value_from_disk): the whole
   extent is re-read, checked against the entry (marker, key, value length, timestamp) and the
   value bytes are taken at the header size *)
Theorem read_value_returns_the_value img rest0 :
  skipn (N.to_nat sector) img = chunk_blocks (encode_extent version sector r) (N.to_nat need) ++ rest0 ->
  read_value version img (mkentry (r_key r) (r_ts r) (if has_expiry version then r_exp r else 0) vlen sector) = Some (r_value r).
Proof.
  intros Himg. destruct encode_shape as (tok & pad & Lt & ES & _ & _ & EL).
  pose proof klen_small as KS.
  pose proof (header_bytes_length version tok (r_key r) vlen (r_ts r) (r_exp r) Lt) as HL. fold hdr in HL.
  unfold read_value. cbn [e_key e_vlen e_ts e_sector]. fold klen need.
  rewrite Himg, firstn_app, chunk_blocks_length, Nat.sub_diag. cbn [firstn]. rewrite app_nil_r.
  rewrite firstn_all2 by (rewrite chunk_blocks_length; lia).
  rewrite concat_chunk_blocks by exact EL.
  set (E := encode_extent version sector r) in *.
  assert (VL : (length (r_value r) <= length (r_value r ++ pad))%nat) by (rewrite app_length; lia).
  assert (LE : (hdr + length (r_value r) <= length E)%nat) by (rewrite ES, app_length, HL; lia).
  assert (PH : parse_head version E = Some (Some (r_key r, vlen, r_ts r, if has_expiry version then r_exp r else 0))).
  { rewrite ES. apply parse_header_bytes; [exact Lt|exact KS|unfold MAX_VALUE_SIZE in Hv; lia|exact Hts|exact Hexp]. }
  assert (K4 : u16_at E 4 = klen) by (rewrite ES; apply header_klen; [exact Lt|exact KS]).
  assert (M0 : u16_at E 0 = SECTOR_MARKER) by (rewrite ES; apply header_marker).
  unfold parse_head in PH. rewrite K4 in PH. unfold klen in PH at 1 2 3 4 5. rewrite Nat2N.id in PH.
  destruct (Nat.ltb_spec (length E) 6) as [L6|L6]; [unfold hdr in LE; lia|].
  destruct (Nat.ltb_spec (length E) (6 + length (r_key r) + (if has_expiry version then 24 else 16))) as [L7|L7];
    [unfold hdr in LE; destruct (has_expiry version); lia|].
  rewrite !sub_opt_ok in PH by (unfold hdr in LE; destruct (has_expiry version); lia).
  assert (S1 : sub E 6 (length (r_key r)) = r_key r /\ le_num (sub E (6 + length (r_key r)) 8) = vlen /\ le_num (sub E (6 + length (r_key r) + 8) 8) = r_ts r).
  { destruct (has_expiry version); rewrite ?sub_opt_ok in PH by (unfold hdr in LE; lia); injection PH; intros; repeat split; assumption. }
  destruct S1 as (S1 & S2 & S3).
  unfold sector_holds. destruct (Nat.ltb_spec (length E) 6); [lia|]. rewrite M0, N.eqb_refl. cbn [negb].
  assert (KN : N.to_nat klen = length (r_key r)) by (unfold klen; apply Nat2N.id).
  rewrite K4, !KN. rewrite Nat.eqb_refl. cbn [negb].
  destruct (Nat.ltb_spec (length E) (6 + length (r_key r) + 16)); [unfold hdr in LE; lia|].
  rewrite S1, list_eqb_refl. unfold u64_at. rewrite S2, S3, !N.eqb_refl. cbn [andb].
  assert (VN : N.to_nat vlen = length (r_value r)) by (unfold vlen; apply Nat2N.id).
  rewrite <- hdr_is_header_size. rewrite Nat2N.id, !VN.
  destruct (Nat.leb_spec (hdr + length (r_value r)) (length E)); [|lia].
  f_equal. rewrite ES. rewrite sub_app_ge by lia. rewrite HL, Nat.sub_diag. apply sub_0_app. reflexivity.
Qed.

Variable c : rcfg.
Variable total : N.
Variable st : rstate.
Variable jl : list (N * N).
Variable rest' : image.

Hypothesis Hkmax : klen <= MAX_KEY_SIZE.
Hypothesis Hin : sector + need <= total.

(* what scan_step does once every check on the bytes has passed: the index decides *)
Definition after_checks : res step_result :=
  let key := r_key r in
  let ts := r_ts r in
  let exp := if has_expiry version then r_exp r else 0 in
  let extent_end := sector + need in
  match idx_find key (rs_idx st) with
  | Some ex =>
      if ts <? e_ts ex then
        Ok (Advance extent_end (push_retired c st (sector, need)) jl)
      else
        let exn := extent_blocks version (N.of_nat (length (e_key ex))) (e_vlen ex) in
        do st1 <- fs_release st (e_sector ex) exn;
        let st2 := mkrs (rs_idx st1) (rs_fs st1) (rs_count st1)
                        (wsub (rs_mem st1) (record_size c (N.of_nat (length (e_key ex))) (e_vlen ex)))
                        (wsub (rs_disk st1) (exn * FEOX_BLOCK_SIZE))
                        (rs_retired st1) (rs_last_end st1) (rs_ambiguous st1) in
        let st3 := push_retired c st2 (e_sector ex, exn) in
        do st4 <- (if rs_last_end st3 <? sector
                   then fs_release st3 (rs_last_end st3) (sector - rs_last_end st3)
                   else Ok st3);
        Ok (Advance extent_end
              (mkrs (idx_upsert (mkentry key ts exp vlen sector) (rs_idx st4)) (rs_fs st4)
                    (rs_count st4) (wrap64 (rs_mem st4 + record_size c klen vlen))
                    (wrap64 (rs_disk st4 + need * FEOX_BLOCK_SIZE))
                    (rs_retired st4) extent_end (rs_ambiguous st4)) jl)
  | None =>
      do st4 <- (if rs_last_end st <? sector
                 then fs_release st (rs_last_end st) (sector - rs_last_end st)
                 else Ok st);
      Ok (Advance extent_end
            (mkrs (idx_upsert (mkentry key ts exp vlen sector) (rs_idx st4)) (rs_fs st4)
                  (rs_count st4 + 1) (wrap64 (rs_mem st4 + record_size c klen vlen))
                  (wrap64 (rs_disk st4 + need * FEOX_BLOCK_SIZE))
                  (rs_retired st4) extent_end (rs_ambiguous st4)) jl)
  end.

(* read-write, or read-only with nothing journaled *)
Lemma scan_step_on_encoded :
  c_ro c = false \/ jl = [] ->
  scan_step c version total sector (chunk_blocks (encode_extent version sector r) (N.to_nat need) ++ rest') st jl = after_checks.
Proof.
  intros Hmode.
  destruct encode_shape as (tok & pad & Lt & ES & Tk & Tnz & EL).
  destruct need_pos as (NP & _ & _).
  pose proof klen_small as KS.
  pose proof (header_bytes_length version tok (r_key r) vlen (r_ts r) (r_exp r) Lt) as HL. fold hdr in HL.
  set (E := encode_extent version sector r) in *.
  set (hb := header_bytes version tok (r_key r) vlen (r_ts r) (r_exp r)) in *.
  destruct (N.to_nat need) as [|k'] eqn:NK; [lia|].
  cbn [chunk_blocks app].
  (* the head block *)
  assert (HD : firstn BLOCK E = hb ++ firstn (BLOCK - hdr) (r_value r ++ pad)).
  { rewrite ES, firstn_app, HL. rewrite firstn_all2 by (rewrite HL; exact Hfit). reflexivity. }
  set (rest1 := firstn (BLOCK - hdr) (r_value r ++ pad)) in *.
  assert (TL : firstn (N.to_nat (need - 1)) (chunk_blocks (skipn BLOCK E) k' ++ rest') = chunk_blocks (skipn BLOCK E) k').
  { replace (N.to_nat (need - 1)) with k' by lia. rewrite firstn_app, chunk_blocks_length, Nat.sub_diag. cbn [firstn].
    rewrite app_nil_r. apply firstn_all2. rewrite chunk_blocks_length. lia. }
  assert (WH : firstn BLOCK E ++ concat (chunk_blocks (skipn BLOCK E) k') = E).
  { change (concat (chunk_blocks E (S k')) = E). apply concat_chunk_blocks. exact EL. }
  assert (F1 : list_eqb (firstn 8 (hb ++ rest1)) DELETED_TAG = false) by (unfold hb; apply header_not_deleted).
  assert (F2 : u16_at (hb ++ rest1) 0 = SECTOR_MARKER) by (unfold hb; apply header_marker).
  assert (F3 : header_range_ok version (hb ++ rest1) = true) by (unfold hb; apply header_range; [exact Lt|exact Hk0|exact KS|exact Hfit]).
  assert (F4 : u16_at (hb ++ rest1) 2 = le_num tok) by (unfold hb; apply header_token; exact Lt).
  assert (F5 : parse_head version (hb ++ rest1) = Some (Some (r_key r, vlen, r_ts r, if has_expiry version then r_exp r else 0))).
  { unfold hb. apply parse_header_bytes; [exact Lt|exact KS|unfold MAX_VALUE_SIZE in Hv; lia|exact Hts|exact Hexp]. }
  assert (SEQ : (negb (has_token version) && negb (le_num tok =? 0) || has_token version && (le_num tok =? 0)) = false).
  { destruct (has_token version) eqn:T.
    - cbn [negb andb orb]. destruct (N.eqb_spec (le_num tok) 0) as [e|]; [exfalso; exact (Tnz eq_refl e)|reflexivity].
    - rewrite Tk. reflexivity. }
  assert (B1 : ((MAX_KEY_SIZE <? klen) || (vlen =? 0) || (MAX_VALUE_SIZE <? vlen)) = false).
  { destruct (N.ltb_spec MAX_KEY_SIZE klen); [lia|]. destruct (N.eqb_spec vlen 0); [lia|]. destruct (N.ltb_spec MAX_VALUE_SIZE vlen); [lia|]. reflexivity. }
  assert (B2 : ((need =? 0) || (total <? sector + need)) = false).
  { destruct (N.eqb_spec need 0); [lia|]. destruct (N.ltb_spec total (sector + need)); [lia|]. reflexivity. }
  assert (OV : match jl with (s, _) :: _ => c_ro c && (s <? sector + need) | [] => false end = false).
  { destruct Hmode as [M|M]; [rewrite M; destruct jl as [|[s x] t]; reflexivity|rewrite M; reflexivity]. }
  assert (TOK : (if has_token version
                 then le_num tok =? record_token sector ((hb ++ rest1) ++ concat (firstn (N.to_nat (need - 1)) (chunk_blocks (skipn BLOCK E) k' ++ rest')))
                 else true) = true).
  { destruct (has_token version); [|reflexivity]. rewrite TL. rewrite <- HD. rewrite WH. rewrite Tk. apply N.eqb_refl. }
  unfold scan_step.
  assert (SK : (if c_ro c then ro_skip jl sector else (None, jl)) = (None, jl)).
  { destruct Hmode as [M|M]; [rewrite M; reflexivity|]. rewrite M. destruct (c_ro c); reflexivity. }
  rewrite SK. rewrite HD.
  rewrite F1, F2, N.eqb_refl, F3, !F4, SEQ, F5. cbn [negb]. fold klen. rewrite B1. fold need. rewrite B2, OV.
  rewrite TOK. cbn [negb]. reflexivity.
Qed.

(* a key the index does not hold yet: accepted and indexed *)
Theorem scan_step_accepts_encoded_record st4 :
  c_ro c = false \/ jl = [] ->
  idx_find (r_key r) (rs_idx st) = None ->
  (if rs_last_end st <? sector then fs_release st (rs_last_end st) (sector - rs_last_end st) else Ok st) = Ok st4 ->
  scan_step c version total sector (chunk_blocks (encode_extent version sector r) (N.to_nat need) ++ rest') st jl =
  Ok (Advance (sector + need)
        (mkrs (idx_upsert (mkentry (r_key r) (r_ts r) (if has_expiry version then r_exp r else 0) vlen sector) (rs_idx st4))
              (rs_fs st4) (rs_count st4 + 1) (wrap64 (rs_mem st4 + record_size c klen vlen))
              (wrap64 (rs_disk st4 + need * FEOX_BLOCK_SIZE)) (rs_retired st4) (sector + need) (rs_ambiguous st4)) jl).
Proof.
  intros Hmode Hnew Hgap. rewrite (scan_step_on_encoded Hmode). unfold after_checks. rewrite Hnew, Hgap. reflexivity.
Qed.

(* newest timestamp wins, whichever generation the scan meets first.  An older generation of an
   indexed key leaves the index as it is and is queued for retirement ... *)
Theorem scan_step_retires_an_older_generation ex :
  c_ro c = false ->
  idx_find (r_key r) (rs_idx st) = Some ex -> r_ts r < e_ts ex ->
  scan_step c version total sector (chunk_blocks (encode_extent version sector r) (N.to_nat need) ++ rest') st jl =
  Ok (Advance (sector + need)
        (mkrs (rs_idx st) (rs_fs st) (rs_count st) (rs_mem st) (rs_disk st) ((sector, need) :: rs_retired st)
              (rs_last_end st) (rs_ambiguous st)) jl).
Proof.
  intros Hrw Hex Hlt. rewrite (scan_step_on_encoded (or_introl Hrw)). unfold after_checks. rewrite Hex.
  destruct (N.ltb_spec (r_ts r) (e_ts ex)); [|lia]. unfold push_retired. rewrite Hrw. reflexivity.
Qed.

(* ... a generation at least as new replaces the indexed one: its extent is released and queued for
   retirement, the index entry of the key is the new generation, the number of keys is unchanged *)
Theorem scan_step_replaces_by_a_newer_generation ex st1 st4 :
  c_ro c = false ->
  idx_find (r_key r) (rs_idx st) = Some ex -> e_ts ex <= r_ts r ->
  let exn := extent_blocks version (N.of_nat (length (e_key ex))) (e_vlen ex) in
  fs_release st (e_sector ex) exn = Ok st1 ->
  let st3 := mkrs (rs_idx st1) (rs_fs st1) (rs_count st1)
                  (wsub (rs_mem st1) (record_size c (N.of_nat (length (e_key ex))) (e_vlen ex)))
                  (wsub (rs_disk st1) (exn * FEOX_BLOCK_SIZE))
                  ((e_sector ex, exn) :: rs_retired st1) (rs_last_end st1) (rs_ambiguous st1) in
  (if rs_last_end st3 <? sector then fs_release st3 (rs_last_end st3) (sector - rs_last_end st3) else Ok st3) = Ok st4 ->
  exists st', scan_step c version total sector (chunk_blocks (encode_extent version sector r) (N.to_nat need) ++ rest') st jl =
              Ok (Advance (sector + need) st' jl) /\
    idx_find (r_key r) (rs_idx st') = Some (mkentry (r_key r) (r_ts r) (if has_expiry version then r_exp r else 0) vlen sector) /\
    rs_count st' = rs_count st4 /\ rs_last_end st' = sector + need.
Proof.
  intros Hrw Hex Hge exn H1 st3 H4. rewrite (scan_step_on_encoded (or_introl Hrw)). unfold after_checks. rewrite Hex.
  destruct (N.ltb_spec (r_ts r) (e_ts ex)); [lia|]. fold exn. rewrite H1. cbn [bind].
  unfold push_retired. rewrite Hrw. cbn [rs_idx rs_fs rs_count rs_mem rs_disk rs_retired rs_last_end rs_ambiguous]. fold st3. change (rs_last_end st3) with (rs_last_end st1) in H4. rewrite H4. cbn [bind].
  eexists. split; [reflexivity|]. cbn [rs_idx rs_count rs_last_end]. split; [|split; reflexivity].
  change (r_key r) with (e_key (mkentry (r_key r) (r_ts r) (if has_expiry version then r_exp r else 0) vlen sector)) at 1.
  apply idx_find_upsert_same.
Qed.

Theorem scan_step_replaces_explicit ex st1 st4 :
  c_ro c = false ->
  idx_find (r_key r) (rs_idx st) = Some ex -> e_ts ex <= r_ts r ->
  let exn := extent_blocks version (N.of_nat (length (e_key ex))) (e_vlen ex) in
  fs_release st (e_sector ex) exn = Ok st1 ->
  let st3 := mkrs (rs_idx st1) (rs_fs st1) (rs_count st1)
                  (wsub (rs_mem st1) (record_size c (N.of_nat (length (e_key ex))) (e_vlen ex)))
                  (wsub (rs_disk st1) (exn * FEOX_BLOCK_SIZE))
                  ((e_sector ex, exn) :: rs_retired st1) (rs_last_end st1) (rs_ambiguous st1) in
  (if rs_last_end st3 <? sector then fs_release st3 (rs_last_end st3) (sector - rs_last_end st3) else Ok st3) = Ok st4 ->
  scan_step c version total sector (chunk_blocks (encode_extent version sector r) (N.to_nat need) ++ rest') st jl =
  Ok (Advance (sector + need)
        (mkrs (idx_upsert (mkentry (r_key r) (r_ts r) (if has_expiry version then r_exp r else 0) vlen sector) (rs_idx st4))
              (rs_fs st4) (rs_count st4) (wrap64 (rs_mem st4 + record_size c klen vlen))
              (wrap64 (rs_disk st4 + need * FEOX_BLOCK_SIZE)) (rs_retired st4) (sector + need) (rs_ambiguous st4)) jl).
Proof.
  intros Hrw Hex Hge exn H1 st3 H4. rewrite (scan_step_on_encoded (or_introl Hrw)). unfold after_checks. rewrite Hex.
  destruct (N.ltb_spec (r_ts r) (e_ts ex)); [lia|]. fold exn. rewrite H1. cbn [bind].
  unfold push_retired. rewrite Hrw. cbn [rs_idx rs_fs rs_count rs_mem rs_disk rs_retired rs_last_end rs_ambiguous]. fold st3.
  change (rs_last_end st3) with (rs_last_end st1) in H4. rewrite H4. cbn [bind]. reflexivity.
Qed.



End OneRecord.

(* ---- a whole data area ---- *)
Definition rec_ok (version : N) (r : rec) : Prop :=
  0 < N.of_nat (length (r_key r)) /\ N.of_nat (length (r_key r)) <= MAX_KEY_SIZE /\
  (6 + length (r_key r) + 16 + (if has_expiry version then 8 else 0) <= BLOCK)%nat /\
  0 < N.of_nat (length (r_value r)) /\ N.of_nat (length (r_value r)) <= MAX_VALUE_SIZE /\
  r_ts r < 2 ^ 64 /\ r_exp r < 2 ^ 64.

Definition need_of (version : N) (r : rec) : N :=
  extent_blocks version (N.of_nat (length (r_key r))) (N.of_nat (length (r_value r))).

(* the extents of the records laid end to end from `sector` on *)
Fixpoint layout (version sector : N) (rs : list rec) : image :=
  match rs with
  | [] => []
  | r :: t => chunk_blocks (encode_extent version sector r) (N.to_nat (need_of version r)) ++ layout version (sector + need_of version r) t
  end.

Fixpoint blocks_of (version : N) (rs : list rec) : N :=
  match rs with [] => 0 | r :: t => need_of version r + blocks_of version t end.

Definition index_one (c : rcfg) (version sector : N) (r : rec) (st : rstate) : rstate :=
  let klen := N.of_nat (length (r_key r)) in
  let vlen := N.of_nat (length (r_value r)) in
  mkrs (idx_upsert (mkentry (r_key r) (r_ts r) (if has_expiry version then r_exp r else 0) vlen sector) (rs_idx st))
       (rs_fs st) (rs_count st + 1) (wrap64 (rs_mem st + record_size c klen vlen))
       (wrap64 (rs_disk st + need_of version r * FEOX_BLOCK_SIZE)) (rs_retired st) (sector + need_of version r) (rs_ambiguous st).

Fixpoint index_all (c : rcfg) (version sector : N) (rs : list rec) (st : rstate) : rstate :=
  match rs with
  | [] => st
  | r :: t => index_all c version (sector + need_of version r) t (index_one c version sector r st)
  end.

Fixpoint distinct_keys (rs : list rec) : Prop :=
  match rs with
  | [] => True
  | r :: t => (forall r', In r' t -> list_eqb (r_key r) (r_key r') = false) /\ distinct_keys t
  end.

Lemma need_of_pos version r : rec_ok version r -> 0 < need_of version r.
Proof.
  intros (K0 & _ & Hf & V0 & Vm & Ts & Ex). exact (proj1 (need_pos version r K0 Hf V0 Vm Ts Ex)).
Qed.

Theorem scan_recovers_a_packed_data_area c version total jl img :
  c_ro c = false ->
  forall rs fuel sector st,
  Forall (rec_ok version) rs -> distinct_keys rs ->
  (forall r, In r rs -> idx_find (r_key r) (rs_idx st) = None) ->
  rs_last_end st = sector ->
  skipn (N.to_nat sector) img = layout version sector rs ->
  total = sector + blocks_of version rs ->
  (length rs < fuel)%nat ->
  scan fuel c version total img sector st jl = Ok (index_all c version sector rs st).
Proof.
  intros Hrw. induction rs as [|r t IH]; intros fuel sector st Hok Hd Hfresh Hle Himg Htot Hfuel.
  - cbn [blocks_of] in Htot. destruct fuel; cbn [scan index_all]; destruct (N.leb_spec total sector); try lia; reflexivity.
  - pose proof (Forall_inv Hok) as Hr. pose proof (Forall_inv_tail Hok) as Ht. destruct Hd as [Hd1 Hd2]. subst sector.
    pose proof (need_of_pos version r Hr) as NP. destruct Hr as (K0 & Kmax & Hf & V0 & Vmax & Ts & Ex).
    cbn [blocks_of] in Htot. destruct fuel as [|f]; [cbn in Hfuel; lia|].
    cbn [scan]. destruct (N.leb_spec total (rs_last_end st)); [lia|].
    rewrite Himg. cbn [layout].
    assert (Hgap : (if rs_last_end st <? rs_last_end st then fs_release st (rs_last_end st) (rs_last_end st - rs_last_end st) else Ok st) = Ok st).
    { destruct (N.ltb_spec (rs_last_end st) (rs_last_end st)); [lia|reflexivity]. }
    assert (Hin : rs_last_end st + extent_blocks version (N.of_nat (length (r_key r))) (N.of_nat (length (r_value r))) <= total).
    { fold (need_of version r). lia. }
    rewrite (scan_step_accepts_encoded_record version (rs_last_end st) r K0 Hf V0 Vmax Ts Ex c total st jl _ Kmax Hin st (or_introl Hrw)
               (Hfresh r (or_introl eq_refl)) Hgap).
    cbn [bind]. fold (need_of version r).
    destruct (N.leb_spec (rs_last_end st + need_of version r) (rs_last_end st)); [lia|].
    cbn [index_all]. fold (index_one c version (rs_last_end st) r st).
    apply IH.
    + exact Ht.
    + exact Hd2.
    + intros r' Hr'. cbn [index_one rs_idx]. rewrite idx_find_upsert_other; [apply Hfresh; right; exact Hr'|].
      cbn [e_key]. apply Hd1. exact Hr'.
    + reflexivity.
    + replace (N.to_nat (rs_last_end st + need_of version r)) with (N.to_nat (rs_last_end st) + N.to_nat (need_of version r))%nat by lia.
      rewrite skipn_add. rewrite Himg. cbn [layout].
      rewrite skipn_app, chunk_blocks_length, Nat.sub_diag. cbn [skipn].
      rewrite skipn_all2 by (rewrite chunk_blocks_length; lia). reflexivity.
    + lia.
    + cbn [length] in Hfuel. lia.
Qed.

(* and every record laid out is found in the index afterwards *)
Lemma index_all_keeps c version k e : forall rs sector st,
  idx_find k (rs_idx st) = Some e -> (forall r, In r rs -> list_eqb (r_key r) k = false) ->
  idx_find k (rs_idx (index_all c version sector rs st)) = Some e.
Proof.
  induction rs as [|r t IH]; intros sector st H Hn; [exact H|]. cbn [index_all]. apply IH.
  - cbn [index_one rs_idx]. rewrite idx_find_upsert_other; [exact H|]. cbn [e_key]. apply Hn. left. reflexivity.
  - intros r' Hr'. apply Hn. right. exact Hr'.
Qed.

Lemma list_eqb_sym a : forall b, list_eqb a b = list_eqb b a.
Proof.
  induction a as [|x a IH]; intros [|y b]; cbn; try reflexivity. rewrite IH, N.eqb_sym. reflexivity.
Qed.

Theorem every_laid_out_record_is_indexed c version : forall rs sector st r,
  distinct_keys rs -> In r rs ->
  exists s, idx_find (r_key r) (rs_idx (index_all c version sector rs st)) =
            Some (mkentry (r_key r) (r_ts r) (if has_expiry version then r_exp r else 0) (N.of_nat (length (r_value r))) s).
Proof.
  induction rs as [|r0 t IH]; intros sector st r Hd Hin; [destruct Hin|].
  destruct Hd as [Hd1 Hd2]. cbn [index_all]. destruct Hin as [<-|Hin].
  - exists sector. apply index_all_keeps.
    + cbn [index_one rs_idx].
      change (r_key r0) with (e_key (mkentry (r_key r0) (r_ts r0) (if has_expiry version then r_exp r0 else 0) (N.of_nat (length (r_value r0))) sector)) at 1.
      apply idx_find_upsert_same.
    + intros r' Hr'. rewrite list_eqb_sym. apply Hd1. exact Hr'.
  - apply IH; assumption.
Qed.

(* ---- retirement markers: a completed run is stepped over and not retired again ---- *)
Lemma complete_marker_facts data sector remaining :
  is_complete_marker data sector remaining = true ->
  list_eqb (firstn 8 data) DELETED_TAG = true /\ u64_at data 8 = remaining /\
  nth 18 data 0 = RETIREMENT_COMPLETE /\ marker_token sector data = u16_at data 16.
Proof.
  unfold is_complete_marker. intros H. repeat (apply andb_true_iff in H; destruct H as [H ?]).
  repeat split; try assumption; try (apply N.eqb_eq; assumption). symmetry. apply N.eqb_eq. assumption.
Qed.

Lemma tails_complete_run k : forall sector remaining,
  remaining < 2 ^ 64 -> tails_complete (marker_run sector remaining k) sector remaining = true.
Proof.
  induction k as [|k IH]; intros sector remaining Hr; cbn [marker_run tails_complete]; [reflexivity|].
  rewrite marker_roundtrip by exact Hr. cbn [andb]. apply IH. lia.
Qed.

Lemma marker_run_length sector remaining k : length (marker_run sector remaining k) = k.
Proof. revert sector remaining. induction k as [|k IH]; intros; cbn; [reflexivity|]. rewrite IH. reflexivity. Qed.

Theorem scan_step_skips_a_complete_marker_run c version total sector n st jl rest' :
  (c_ro c = false \/ jl = []) -> has_token version = true ->
  0 < n -> sector + n <= total -> total <= U64MAX ->
  scan_step c version total sector (marker_run sector n (N.to_nat n) ++ rest') st jl = Ok (Advance (sector + n) st jl).
Proof.
  intros Hmode Ht Hn Hin Hmax. assert (Hr : n < 2 ^ 64) by (unfold U64MAX in Hmax; lia).
  assert (SK : (if c_ro c then ro_skip jl sector else (None, jl)) = (None, jl)).
  { destruct Hmode as [M|M]; [rewrite M; reflexivity|]. rewrite M. destruct (c_ro c); reflexivity. }
  destruct (N.to_nat n) as [|k] eqn:NK; [lia|]. cbn [marker_run app].
  pose proof (marker_roundtrip sector n Hr) as MR.
  destruct (complete_marker_facts _ _ _ MR) as (F1 & F2 & F3 & F4).
  unfold scan_step. rewrite SK, F1, Ht. cbn [negb andb]. rewrite F4, N.eqb_refl. cbn [negb]. rewrite F2.
  destruct (N.ltb_spec U64MAX (sector + n)); [lia|].
  destruct (N.eqb_spec n 0); [lia|]. destruct (N.ltb_spec total (sector + n)); [lia|]. cbn [orb].
  rewrite F3, N.eqb_refl. cbn [negb].
  destruct (1 <? n); [|reflexivity].
  replace (N.to_nat (n - 1)) with k by lia. rewrite firstn_app, marker_run_length, Nat.sub_diag. cbn [firstn]. rewrite app_nil_r.
  rewrite firstn_all2 by (rewrite marker_run_length; lia). rewrite tails_complete_run by lia. reflexivity.
Qed.

(* a zero block (free space) is stepped over, one block at a time *)
Theorem scan_step_skips_a_zero_block c version total sector st jl rest' :
  c_ro c = false \/ jl = [] ->
  scan_step c version total sector (zeros BLOCK :: rest') st jl = Ok (Advance (sector + 1) st jl).
Proof.
  intros Hmode. unfold scan_step.
  assert (SK : (if c_ro c then ro_skip jl sector else (None, jl)) = (None, jl)).
  { destruct Hmode as [M|M]; [rewrite M; reflexivity|]. rewrite M. destruct (c_ro c); reflexivity. }
  rewrite SK.
  assert (B8 : (8 <= BLOCK)%nat) by (unfold BLOCK, FEOX_BLOCK_SIZE; lia).
  destruct (zero_block_is_neither BLOCK B8) as [Z1 Z2].
  destruct (list_eqb (firstn 8 (zeros BLOCK)) DELETED_TAG) eqn:E; [apply list_eqb_eq in E; contradiction|].
  destruct (N.eqb_spec (u16_at (zeros BLOCK) 0) SECTOR_MARKER); [contradiction|]. reflexivity.
Qed.
