(* Proofs about Model/FreeSpace.v: invariant, soundness and completeness of
   allocate/release, canonical form. *)
From Coq Require Import List NArith Bool Lia.
From Feox Require Import Gen.Constants Model.FreeSpace.
Import ListNotations.
Local Open Scope N_scope.

Arguments N.add : simpl never.
Arguments N.sub : simpl never.
Arguments N.mul : simpl never.
Arguments N.div : simpl never.
Arguments N.modulo : simpl never.
Arguments N.ltb : simpl never.
Arguments N.leb : simpl never.
Arguments N.eqb : simpl never.

Notation DS := FEOX_DATA_START_BLOCK.
Notation BS := FEOX_BLOCK_SIZE.

Lemma BS_pos : 0 < BS. Proof. reflexivity. Qed.
Global Opaque FEOX_BLOCK_SIZE FEOX_DATA_START_BLOCK.

Ltac bN :=
  repeat match goal with
  | H : context [N.ltb ?a ?b] |- _ => destruct (N.ltb_spec a b)
  | H : context [N.leb ?a ?b] |- _ => destruct (N.leb_spec a b)
  | H : context [N.eqb ?a ?b] |- _ => destruct (N.eqb_spec a b)
  | |- context [N.ltb ?a ?b] => destruct (N.ltb_spec a b)
  | |- context [N.leb ?a ?b] => destruct (N.leb_spec a b)
  | |- context [N.eqb ?a ?b] => destruct (N.eqb_spec a b)
  end.

(* ------------------------------------------------------------------ *)
(* The representation invariant                                        *)
(* ------------------------------------------------------------------ *)

(* runs ascending, non-empty, inside [lo,hi), never adjacent *)
Fixpoint wf (lo hi : N) (l : list run) : Prop :=
  match l with
  | [] => True
  | r :: t => lo <= fst r /\ 0 < snd r /\ fst r + snd r <= hi /\ wf (fst r + snd r + 1) hi t
  end.

Definition inr (b : N) (r : run) : Prop := fst r <= b /\ b < fst r + snd r.
Definition freel (l : list run) (b : N) : Prop := exists r, In r l /\ inr b r.
Definition free (s : fs) (b : N) : Prop := freel (runs s) b.

Definition frag_of (l : list run) : N :=
  if sum_sizes l * BS =? 0 then 0
  else if N.of_nat (length l) <=? 1 then 0
  else ((sum_sizes l * BS - max_size l * BS) * 100 / (sum_sizes l * BS)) mod 4294967296.

Record Inv (s : fs) : Prop := {
  inv_dev : DS < dev_sectors s;
  inv_u64 : dev_bytes s < U64;
  inv_wf : wf DS (dev_sectors s) (runs s);
  inv_total : total_free s = sum_sizes (runs s) * BS;
  inv_frag : frag s = frag_of (runs s)
}.

(* ------------------------------------------------------------------ *)
(* wf: basic consequences                                              *)
(* ------------------------------------------------------------------ *)

Lemma wf_weaken lo lo' hi l : wf lo hi l -> lo' <= lo -> wf lo' hi l.
Proof. destruct l as [|r t]; simpl; [tauto|]. intros (H1 & H2 & H3 & H4) Hle; repeat split; auto; lia. Qed.

Lemma wf_In lo hi l r : wf lo hi l -> In r l -> lo <= fst r /\ 0 < snd r /\ fst r + snd r <= hi.
Proof.
  revert lo; induction l as [|x t IH]; simpl; intros lo Hwf Hin; [tauto|].
  destruct Hwf as (H1 & H2 & H3 & H4). destruct Hin as [->|Hin]; [auto|].
  destruct (IH _ H4 Hin) as (A & B & C). repeat split; auto; lia.
Qed.

Lemma wf_head_sep lo hi x t r : wf lo hi (x :: t) -> In r t -> fst x + snd x < fst r.
Proof. simpl; intros (_ & _ & _ & H4) Hin. destruct (wf_In _ _ _ _ H4 Hin) as (A & _). lia. Qed.

Lemma wf_tail lo hi x t : wf lo hi (x :: t) -> wf (fst x + snd x + 1) hi t.
Proof. simpl; tauto. Qed.

Lemma freel_ge lo hi l b : wf lo hi l -> freel l b -> lo <= b /\ b < hi.
Proof. intros Hwf (r & Hin & Hb & Hb'). destruct (wf_In _ _ _ _ Hwf Hin). lia. Qed.

Lemma freel_cons x t b : freel (x :: t) b <-> inr b x \/ freel t b.
Proof.
  unfold freel; simpl; split.
  - intros (r & [->|Hin] & Hb); [left; auto|right; eauto].
  - intros [Hb|(r & Hin & Hb)]; eauto.
Qed.

Lemma freel_nil b : ~ freel [] b.
Proof. intros (r & [] & _). Qed.

(* distinct members of a wf list are separated by at least one block *)
Lemma wf_sep lo hi l r1 r2 : wf lo hi l -> In r1 l -> In r2 l -> r1 = r2 \/
  fst r1 + snd r1 < fst r2 \/ fst r2 + snd r2 < fst r1.
Proof.
  revert lo; induction l as [|x t IH]; simpl; intros lo Hwf H1 H2; [tauto|].
  destruct H1 as [<-|H1], H2 as [<-|H2]; auto.
  - right; left. eapply wf_head_sep with (t := t); [exact Hwf|assumption].
  - right; right. eapply wf_head_sep with (t := t); [exact Hwf|assumption].
  - destruct Hwf as (_ & _ & _ & H4). eauto.
Qed.

Lemma wf_start_unique lo hi l r1 r2 : wf lo hi l -> In r1 l -> In r2 l -> fst r1 = fst r2 -> r1 = r2.
Proof.
  intros Hwf H1 H2 Heq. destruct (wf_sep _ _ _ _ _ Hwf H1 H2) as [|[|]]; auto;
  destruct (wf_In _ _ _ _ Hwf H1) as (_ & ? & _); destruct (wf_In _ _ _ _ Hwf H2) as (_ & ? & _); lia.
Qed.

(* ------------------------------------------------------------------ *)
(* membership lemmas for the list operations                           *)
(* ------------------------------------------------------------------ *)

Lemma In_insert_sorted x l y : In y (insert_sorted x l) <-> y = x \/ In y l.
Proof.
  induction l as [|r t IH]; simpl; [intuition|].
  destruct (fst x <? fst r); simpl; [intuition|]. rewrite IH; intuition.
Qed.

Lemma In_remove_start lo hi a l y : wf lo hi l ->
  (In y (remove_start a l) <-> In y l /\ fst y <> a).
Proof.
  revert lo; induction l as [|r t IH]; simpl; intros lo Hwf; [intuition|].
  destruct (N.eqb_spec (fst r) a) as [E|E].
  - split.
    + intros Hy. split; [auto|]. pose proof (wf_head_sep lo hi r t y Hwf Hy).
      destruct Hwf as (_ & ? & _). lia.
    + intros ([<-|Hy] & Hne); [congruence|auto].
  - simpl. rewrite (IH _ (wf_tail lo hi r t Hwf)). split.
    + intros [<-|(A & B)]; auto.
    + intros ([<-|A] & B); auto.
Qed.

Lemma has_start_spec a l : has_start a l = true <-> exists r, In r l /\ fst r = a.
Proof.
  induction l as [|r t IH]; simpl.
  - split; [discriminate|intros (? & [] & _)].
  - rewrite orb_true_iff, IH, N.eqb_eq. split.
    + intros [E|(r' & A & B)]; eauto.
    + intros (r' & [<-|A] & B); eauto.
Qed.

(* ------------------------------------------------------------------ *)
(* wf is preserved by remove / insert of a separated run               *)
(* ------------------------------------------------------------------ *)

Lemma wf_remove lo hi a l : wf lo hi l -> wf lo hi (remove_start a l).
Proof.
  revert lo; induction l as [|r t IH]; simpl; intros lo Hwf; [auto|].
  destruct Hwf as (H1 & H2 & H3 & H4).
  destruct (fst r =? a).
  - eapply wf_weaken; eauto. lia.
  - simpl; repeat split; auto.
Qed.

Definition separated (x : run) (l : list run) : Prop :=
  forall r, In r l -> fst x + snd x < fst r \/ fst r + snd r < fst x.

Lemma wf_insert lo hi x l : wf lo hi l -> lo <= fst x -> 0 < snd x -> fst x + snd x <= hi ->
  separated x l -> wf lo hi (insert_sorted x l).
Proof.
  revert lo; induction l as [|r t IH]; simpl; intros lo Hwf Hlo Hpos Hhi Hsep.
  - repeat split; auto.
  - destruct Hwf as (H1 & H2 & H3 & H4).
    destruct (N.ltb_spec (fst x) (fst r)) as [L|L]; simpl.
    + repeat split; auto; try lia.
      destruct (Hsep r (or_introl eq_refl)); lia.
    + repeat split; auto.
      apply IH; auto.
      * destruct (Hsep r (or_introl eq_refl)); lia.
      * intros r' Hr'. apply Hsep; right; auto.
Qed.

(* ------------------------------------------------------------------ *)
(* sums and maxima                                                     *)
(* ------------------------------------------------------------------ *)

Lemma sum_insert x l : sum_sizes (insert_sorted x l) = snd x + sum_sizes l.
Proof. induction l as [|r t IH]; simpl; [lia|]. destruct (fst x <? fst r); simpl; lia. Qed.

Lemma sum_remove lo hi l r : wf lo hi l -> In r l ->
  sum_sizes (remove_start (fst r) l) + snd r = sum_sizes l.
Proof.
  revert lo; induction l as [|x t IH]; simpl; intros lo Hwf Hin; [tauto|].
  destruct (N.eqb_spec (fst x) (fst r)) as [E|E].
  - assert (x = r) as ->.
    { apply (wf_start_unique lo hi (x :: t)); simpl; auto. }
    lia.
  - destruct Hin as [->|Hin]; [congruence|]. simpl.
    specialize (IH _ (wf_tail lo hi x t Hwf) Hin). lia.
Qed.

Lemma sum_ge_In l r : In r l -> snd r <= sum_sizes l.
Proof. induction l as [|x t IH]; simpl; [tauto|]. intros [->|H]; [lia|]. specialize (IH H). lia. Qed.

Lemma max_size_ge l r : In r l -> snd r <= max_size l.
Proof. induction l as [|x t IH]; simpl; [tauto|]. intros [->|H]; [lia|]. specialize (IH H). lia. Qed.

Lemma max_size_In l : l <> [] -> exists r, In r l /\ snd r = max_size l.
Proof.
  induction l as [|x t IH]; [congruence|]. intros _. simpl.
  destruct t as [|y t'].
  - exists x; simpl; split; auto; lia.
  - destruct IH as (r & Hin & Hr); [congruence|].
    destruct (N.max_spec (snd x) (max_size (y :: t'))) as [[A B]|[A B]]; rewrite B.
    + exists r; split; auto.
    + exists x; split; auto.
Qed.

(* ------------------------------------------------------------------ *)
(* best_fit                                                            *)
(* ------------------------------------------------------------------ *)

Lemma best_fit_some n l r : best_fit n l = Some r -> In r l /\ n <= snd r.
Proof.
  revert r; induction l as [|x t IH]; simpl; intros r; [discriminate|].
  destruct (N.leb_spec n (snd x)) as [L|L].
  - destruct (best_fit n t) as [r'|] eqn:E.
    + destruct (lex_lt r' x); intros [= <-]; [destruct (IH _ eq_refl); auto|auto].
    + intros [= <-]; auto.
  - intros H; destruct (IH _ H); auto.
Qed.

Lemma best_fit_none n l : best_fit n l = None <-> forall r, In r l -> snd r < n.
Proof.
  induction l as [|x t IH]; simpl; [intuition|].
  destruct (N.leb_spec n (snd x)) as [L|L].
  - split.
    + destruct (best_fit n t) as [r'|]; [destruct (lex_lt r' x)|]; discriminate.
    + intros H. specialize (H x (or_introl eq_refl)). lia.
  - rewrite IH. split; intros H r; [intros [<-|Hin]; auto|auto].
Qed.


(* ------------------------------------------------------------------ *)
(* free sets of remove / insert                                        *)
(* ------------------------------------------------------------------ *)

Lemma freel_insert x l b : freel (insert_sorted x l) b <-> inr b x \/ freel l b.
Proof.
  unfold freel. split.
  - intros (r & Hin & Hb). apply In_insert_sorted in Hin. destruct Hin as [->|Hin]; eauto.
  - intros [Hb|(r & Hin & Hb)].
    + exists x; split; auto. apply In_insert_sorted; auto.
    + exists r; split; auto. apply In_insert_sorted; auto.
Qed.

Lemma freel_remove lo hi l r b : wf lo hi l -> In r l ->
  (freel (remove_start (fst r) l) b <-> freel l b /\ ~ inr b r).
Proof.
  intros Hwf Hr. unfold freel. split.
  - intros (r' & Hin & Hb). rewrite (In_remove_start lo hi) in Hin by auto. destruct Hin as (Hin & Hne).
    split; [eauto|]. intros Hb'.
    destruct (wf_sep _ _ _ _ _ Hwf Hin Hr) as [->|[S|S]]; [congruence| |]; unfold inr in *; lia.
  - intros ((r' & Hin & Hb) & Hnb). exists r'. split; auto.
    rewrite (In_remove_start lo hi) by auto. split; auto.
    intros E. assert (r' = r) by (eapply wf_start_unique; eauto). subst; auto.
Qed.

(* ------------------------------------------------------------------ *)
(* partial invariant (everything but the cached fragmentation)         *)
(* ------------------------------------------------------------------ *)

Record PInv (s : fs) : Prop := {
  pinv_dev : DS < dev_sectors s;
  pinv_u64 : dev_bytes s < U64;
  pinv_wf : wf DS (dev_sectors s) (runs s);
  pinv_total : total_free s = sum_sizes (runs s) * BS
}.

Lemma Inv_PInv s : Inv s -> PInv s.
Proof. intros []; constructor; auto. Qed.

Lemma dev_sectors_le s : dev_sectors s <= dev_bytes s.
Proof.
  unfold dev_sectors. pose proof BS_pos.
  apply N.div_le_upper_bound; [lia|]. nia.
Qed.

Lemma dev_bytes_pos s : DS < dev_sectors s -> 0 < dev_bytes s.
Proof. intros H. pose proof (dev_sectors_le s). lia. Qed.

Lemma update_fragmentation_Inv s : PInv s -> Inv (update_fragmentation s).
Proof.
  intros [H1 H2 H3 H4]. unfold update_fragmentation.
  destruct (N.eqb_spec (total_free s) 0) as [E|E];
    [|destruct (N.leb_spec (N.of_nat (length (runs s))) 1) as [L|L]];
    constructor; simpl; auto; unfold frag_of; rewrite <- H4.
  - rewrite E. reflexivity.
  - destruct (N.eqb_spec (total_free s) 0); [congruence|].
    destruct (N.leb_spec (N.of_nat (length (runs s))) 1); [reflexivity|lia].
  - destruct (N.eqb_spec (total_free s) 0); [congruence|].
    destruct (N.leb_spec (N.of_nat (length (runs s))) 1); [lia|reflexivity].
Qed.

Lemma update_fragmentation_runs s : runs (update_fragmentation s) = runs s.
Proof. unfold update_fragmentation. destruct (_ =? _); [|destruct (_ <=? _)]; reflexivity. Qed.

Lemma update_fragmentation_dev s : dev_bytes (update_fragmentation s) = dev_bytes s.
Proof. unfold update_fragmentation. destruct (_ =? _); [|destruct (_ <=? _)]; reflexivity. Qed.

Lemma remove_run_PInv s r : PInv s -> In r (runs s) -> PInv (remove_run s r).
Proof.
  intros [H1 H2 H3 H4] Hin. constructor; simpl; auto.
  - apply wf_remove; auto.
  - pose proof (sum_remove _ _ _ _ H3 Hin). rewrite H4. rewrite <- H. nia.
Qed.

Lemma insert_free_space_ok s x : PInv s ->
  DS <= fst x -> 0 < snd x -> fst x + snd x <= dev_sectors s -> separated x (runs s) ->
  exists s', insert_free_space s x = FOk s' /\ PInv s' /\
    runs s' = insert_sorted x (runs s) /\ dev_bytes s' = dev_bytes s.
Proof.
  intros [H1 H2 H3 H4] Hlo Hpos Hhi Hsep.
  unfold insert_free_space.
  destruct (N.eqb_spec (snd x) 0); [lia|].
  assert (V : valid_free_space s x = true).
  { unfold valid_free_space. pose proof (dev_sectors_le s). pose proof (dev_bytes_pos s H1).
    destruct (N.ltb_spec (fst x) DS); [lia|].
    destruct (N.ltb_spec 0 (dev_bytes s)); [|lia].
    destruct (N.leb_spec (dev_sectors s) (fst x)); [lia|].
    destruct (N.leb_spec U64 (fst x + snd x)); [lia|].
    destruct (N.ltb_spec (dev_sectors s) (fst x + snd x)); [lia|reflexivity]. }
  rewrite V; simpl.
  destruct (has_start (fst x) (runs s)) eqn:HS.
  { apply has_start_spec in HS. destruct HS as (r & Hin & E).
    destruct (Hsep _ Hin); destruct (wf_In _ _ _ _ H3 Hin) as (_ & ? & _); lia. }
  eexists; split; [reflexivity|]. split; [|split; reflexivity].
  constructor; simpl; auto.
  - apply wf_insert; auto.
  - rewrite sum_insert, H4. nia.
Qed.

(* ------------------------------------------------------------------ *)
(* allocate                                                            *)
(* ------------------------------------------------------------------ *)

Definition alloc_post (n : N) (s : fs) (a : N) (s' : fs) : Prop :=
  DS <= a /\ a + n <= dev_sectors s /\
  (forall b, a <= b < a + n -> free s b) /\
  Inv s' /\ dev_bytes s' = dev_bytes s /\
  (forall b, free s' b <-> free s b /\ ~ (a <= b < a + n)).

Lemma alloc_cases n s : Inv s ->
  (n = 0 /\ alloc n s = (FErr EArg, s)) \/
  (0 < n /\ (forall r, In r (runs s) -> snd r < n) /\ alloc n s = (FErr ESpace, s)) \/
  (0 < n /\ exists a s', alloc n s = (FOk a, s') /\ alloc_post n s a s').
Proof.
  intros HI. pose proof (Inv_PInv _ HI) as HP. destruct HP as [H1 H2 H3 H4].
  unfold alloc. destruct (N.eqb_spec n 0) as [->|Hn]; [left; auto|right].
  assert (0 < n) as Hpos by lia.
  destruct (best_fit n (runs s)) as [r|] eqn:BF.
  2:{ left. rewrite best_fit_none in BF. auto. }
  right. split; auto.
  destruct (best_fit_some _ _ _ BF) as (Hin & Hge).
  destruct (wf_In _ _ _ _ H3 Hin) as (R1 & R2 & R3).
  assert (V : valid_free_space s r = true).
  { unfold valid_free_space. pose proof (dev_sectors_le s). pose proof (dev_bytes_pos s H1).
    destruct (N.ltb_spec (fst r) DS); [lia|].
    destruct (N.ltb_spec 0 (dev_bytes s)); [|lia].
    destruct (N.leb_spec (dev_sectors s) (fst r)); [lia|].
    destruct (N.leb_spec U64 (fst r + snd r)); [lia|].
    destruct (N.ltb_spec (dev_sectors s) (fst r + snd r)); [lia|reflexivity]. }
  rewrite V; simpl.
  pose proof (remove_run_PInv s r (Inv_PInv _ HI) Hin) as HP1.
  assert (FR : forall b, freel (runs (remove_run s r)) b <-> free s b /\ ~ inr b r).
  { intros b. simpl. apply (freel_remove DS (dev_sectors s)); auto. }
  destruct (N.ltb_spec n (snd r)) as [Hlt|Hge'].
  - (* split: remainder goes back *)
    assert (SEP : separated (fst r + n, snd r - n) (runs (remove_run s r))).
    { intros r' Hr'. simpl in Hr'. rewrite (In_remove_start DS (dev_sectors s)) in Hr' by auto.
      destruct Hr' as (Hr' & Hne).
      destruct (wf_sep _ _ _ _ _ H3 Hr' Hin) as [->|[S|S]]; [congruence| |]; simpl; lia. }
    assert (DV0 : dev_sectors (remove_run s r) = dev_sectors s) by reflexivity.
    destruct (insert_free_space_ok (remove_run s r) (fst r + n, snd r - n) HP1) as (s2 & E2 & HP2 & RU & DV);
      [simpl; lia|simpl; lia|simpl; rewrite DV0; lia|exact SEP|].
    rewrite E2. exists (fst r), (update_fragmentation s2). split; [reflexivity|].
    unfold alloc_post. split; [lia|]. split; [lia|]. split.
    { intros b Hb. exists r. split; auto. unfold inr; lia. }
    split; [apply update_fragmentation_Inv; auto|].
    split; [rewrite update_fragmentation_dev; auto|].
    intros b. unfold free at 1. rewrite update_fragmentation_runs, RU, freel_insert, FR.
    unfold inr; simpl. split.
    + intros [Hb|(Hf & Hnb)].
      * split; [exists r; split; auto; unfold inr; lia|lia].
      * split; auto. lia.
    + intros (Hf & Hnb).
      destruct (N.le_gt_cases (fst r) b); [destruct (N.lt_ge_cases b (fst r + snd r))|]; try (right; split; auto; lia).
      left; lia.
  - (* exact fit *)
    assert (snd r = n) by lia. subst n.
    exists (fst r), (update_fragmentation (remove_run s r)). split; [reflexivity|].
    unfold alloc_post. split; [lia|]. split; [lia|]. split.
    { intros b Hb. exists r. split; auto. }
    split; [apply update_fragmentation_Inv; auto|].
    split; [rewrite update_fragmentation_dev; auto|].
    intros b. unfold free at 1. rewrite update_fragmentation_runs, FR. unfold inr. tauto.
Qed.

(* ------------------------------------------------------------------ *)
(* release                                                             *)
(* ------------------------------------------------------------------ *)

Lemma preceding_spec lo hi l st : wf lo hi l ->
  match preceding st l with
  | Some p => In p l /\ fst p < st /\ (forall r, In r l -> fst r < st -> fst r <= fst p)
  | None => forall r, In r l -> st <= fst r
  end.
Proof.
  revert lo; induction l as [|x t IH]; intros lo Hwf; [simpl; tauto|].
  pose proof (wf_tail lo hi x t Hwf) as Ht. specialize (IH _ Ht).
  cbn [preceding]. destruct (N.ltb_spec (fst x) st) as [L|L].
  - destruct (preceding st t) as [p|].
    + destruct IH as (A & B & C). split; [right; auto|]. split; auto.
      intros r [<-|Hr] Hlt; auto.
      pose proof (wf_head_sep lo hi x t p Hwf A).
      destruct Hwf as (_ & ? & _). lia.
    + split; [left; auto|]. split; auto.
      intros r [<-|Hr] Hlt; [lia|]. specialize (IH _ Hr). lia.
  - intros r [<-|Hr]; auto.
    pose proof (wf_head_sep lo hi x t r Hwf Hr). destruct Hwf as (_ & ? & _). lia.
Qed.

Lemma following_spec lo hi l st en : wf lo hi l ->
  match following st en l with
  | Some f => In f l /\ st <= fst f /\ fst f <= en /\ (forall r, In r l -> st <= fst r -> fst f <= fst r)
  | None => forall r, In r l -> fst r < st \/ en < fst r
  end.
Proof.
  revert lo; induction l as [|x t IH]; intros lo Hwf; [simpl; tauto|].
  pose proof (wf_tail lo hi x t Hwf) as Ht. specialize (IH _ Ht).
  cbn [following]. destruct (N.ltb_spec (fst x) st) as [L|L].
  - destruct (following st en t) as [f|].
    + destruct IH as (A & B & C & D). split; [right; auto|]. repeat split; auto.
      intros r [<-|Hr] Hge; [lia|auto].
    + intros r [<-|Hr]; auto.
  - destruct (N.leb_spec (fst x) en) as [L2|L2].
    + split; [left; auto|]. repeat split; auto.
      intros r [<-|Hr] Hge; [lia|].
      pose proof (wf_head_sep lo hi x t r Hwf Hr). destruct Hwf as (_ & ? & _). lia.
    + intros r [<-|Hr]; [lia|].
      pose proof (wf_head_sep lo hi x t r Hwf Hr). destruct Hwf as (_ & ? & _). lia.
Qed.

Definition release_ok (st c : N) (s : fs) : Prop :=
  DS <= st /\ 0 < c /\ st + c <= dev_sectors s /\ (forall b, st <= b < st + c -> ~ free s b).

Definition release_post (st c : N) (s s' : fs) : Prop :=
  Inv s' /\ dev_bytes s' = dev_bytes s /\ (forall b, free s' b <-> free s b \/ st <= b < st + c).

Lemma release_cases st c s : Inv s ->
  (exists e, release st c s = (FErr e, s) /\ ~ release_ok st c s) \/
  (exists s', release st c s = (FOk tt, s') /\ release_ok st c s /\ release_post st c s s').
Proof.
  intros HI. pose proof (Inv_PInv _ HI) as HP. destruct HP as [H1 H2 H3 H4].
  pose proof (dev_sectors_le s) as DLE. pose proof (dev_bytes_pos s H1) as DPOS.
  unfold release.
  destruct (N.ltb_spec st DS) as [L0|L0]; simpl.
  { left; eexists; split; [reflexivity|]. unfold release_ok; lia. }
  destruct (N.eqb_spec c 0) as [C0|C0]; simpl.
  { left; eexists; split; [reflexivity|]. unfold release_ok; lia. }
  unfold valid_sector_range.
  destruct (N.ltb_spec st DS); [lia|]. destruct (N.eqb_spec c 0); [lia|]. simpl.
  destruct (N.ltb_spec 0 (dev_bytes s)); [|lia].
  destruct (N.leb_spec (dev_sectors s) st); simpl.
  { left; eexists; split; [reflexivity|]. unfold release_ok; lia. }
  destruct (N.leb_spec U64 (st + c)); simpl.
  { left; eexists; split; [reflexivity|]. unfold release_ok; lia. }
  destruct (N.leb_spec (st + c) (dev_sectors s)); simpl.
  2:{ left; eexists; split; [reflexivity|]. unfold release_ok; lia. }
  unfold try_merge.
  destruct (N.leb_spec U64 (st + c)); [lia|].
  pose proof (preceding_spec _ _ _ st H3) as PS.
  pose proof (following_spec _ _ _ st (st + c) H3) as FS.
  set (pre := preceding st (runs s)) in *. set (fol := following st (st + c) (runs s)) in *.
  (* overlap with the preceding run *)
  destruct (overlaps_pre st pre) eqn:OP.
  { left; eexists; split; [reflexivity|]. intros (_ & _ & _ & NF).
    destruct pre as [p|]; simpl in OP; [|discriminate].
    destruct PS as (A & B & _). apply N.ltb_lt in OP.
    apply (NF st); [lia|]. exists p; split; auto. unfold inr; lia. }
  destruct (overlaps_fol (st + c) fol) eqn:OF.
  { left; eexists; split; [reflexivity|]. intros (_ & _ & _ & NF).
    destruct fol as [f|]; simpl in OF; [|discriminate].
    destruct FS as (A & B & C & _). apply N.ltb_lt in OF.
    destruct (wf_In _ _ _ _ H3 A) as (_ & ? & _).
    apply (NF (fst f)); [lia|]. exists f; split; auto. unfold inr; lia. }
  right.
  (* facts about an arbitrary run of s relative to [st, st+c) *)
  assert (NOFREE : forall b, st <= b < st + c -> ~ free s b).
  { intros b Hb (r & Hr & Hin). unfold inr in Hin.
    destruct (wf_In _ _ _ _ H3 Hr) as (_ & RP & _).
    destruct (N.lt_ge_cases (fst r) st) as [LT|GE].
    - destruct pre as [p|]; [|specialize (PS _ Hr); lia].
      destruct PS as (A & B & C). specialize (C _ Hr LT). simpl in OP. apply N.ltb_ge in OP.
      destruct (wf_In _ _ _ _ H3 A) as (_ & ? & _).
      destruct (wf_sep _ _ _ _ _ H3 Hr A) as [->|[S|S]]; lia.
    - destruct fol as [f|]; [|destruct (FS _ Hr); lia].
      destruct FS as (A & B & C & D). specialize (D _ Hr GE). simpl in OF. apply N.ltb_ge in OF. lia. }
  assert (OK : release_ok st c s) by (unfold release_ok; repeat split; auto; lia).
  (* the state after removing the merged neighbours, and the merged run *)
  set (prev := match pre with Some p => if fst p + snd p =? st then Some p else None | None => None end).
  set (next := match fol with Some f => if fst f =? st + c then Some f else None | None => None end).
  set (s1 := match prev with Some p => remove_run s p | None => s end).
  set (s2 := match next with Some f => remove_run s1 f | None => s1 end).
  set (ms := match prev with Some p => fst p | None => st end).
  set (msz1 := match prev with Some p => c + snd p | None => c end).
  set (msz := match next with Some f => msz1 + snd f | None => msz1 end).
  assert (PREV : match prev with
                 | Some p => In p (runs s) /\ fst p + snd p = st /\ pre = Some p
                 | None => match pre with Some p => fst p + snd p < st | None => True end end).
  { unfold prev. destruct pre as [p|]; auto. destruct PS as (A & B & C).
    simpl in OP. apply N.ltb_ge in OP.
    destruct (N.eqb_spec (fst p + snd p) st); auto. lia. }
  assert (NEXT : match next with
                 | Some f => In f (runs s) /\ fst f = st + c /\ fol = Some f
                 | None => match fol with Some f => st + c < fst f | None => True end end).
  { unfold next. destruct fol as [f|]; auto. destruct FS as (A & B & C & D).
    simpl in OF. apply N.ltb_ge in OF.
    destruct (N.eqb_spec (fst f) (st + c)); auto. lia. }
  assert (P1 : PInv s1 /\ dev_sectors s1 = dev_sectors s /\
               (forall r, In r (runs s1) <-> In r (runs s) /\ match prev with Some p => fst r <> fst p | None => True end)).
  { unfold s1. destruct prev as [p|].
    - destruct PREV as (A & _). split; [apply remove_run_PInv; auto; constructor; auto|].
      split; [reflexivity|]. intros r. simpl. apply (In_remove_start DS (dev_sectors s)); auto.
    - split; [constructor; auto|]. split; [reflexivity|]. tauto. }
  destruct P1 as (HP1 & DV1 & IN1).
  assert (P2 : PInv s2 /\ dev_sectors s2 = dev_sectors s /\ dev_bytes s2 = dev_bytes s /\
               (forall r, In r (runs s2) <-> In r (runs s1) /\ match next with Some f => fst r <> fst f | None => True end)).
  { unfold s2. destruct next as [f|].
    - destruct NEXT as (A & B & _).
      assert (In f (runs s1)).
      { apply IN1. split; auto. destruct prev as [p|]; auto. destruct PREV as (A' & B' & _).
        destruct (wf_In _ _ _ _ H3 A') as (_ & ? & _). lia. }
      split; [apply remove_run_PInv; auto|]. split; [exact DV1|].
      split; [unfold s1; destruct prev; reflexivity|].
      intros r. simpl. destruct HP1 as [_ _ W1 _]. apply (In_remove_start DS (dev_sectors s1)); auto.
    - split; auto. split; auto. split; [unfold s1; destruct prev; reflexivity|]. tauto. }
  destruct P2 as (HP2 & DV2 & DB2 & IN2).
  assert (MS : DS <= ms /\ ms + msz1 = st + c /\ ms <= st /\
               (st + c <= ms + msz) /\ 0 < msz /\ ms + msz <= dev_sectors s).
  { unfold ms, msz, msz1. destruct prev as [p|], next as [f|];
      repeat match goal with
             | H : In ?r (runs s) /\ _ |- _ =>
                 let A := fresh "A" in let B := fresh "B" in
                 destruct H as (A & B & _); destruct (wf_In _ _ _ _ H3 A) as (? & ? & ?) end; lia. }
  destruct MS as (M1 & M2 & M3 & M4 & M5 & M6).
  assert (SEP : separated (ms, msz) (runs s2)).
  { intros r Hr. apply IN2 in Hr. destruct Hr as (Hr & NE2). apply IN1 in Hr. destruct Hr as (Hr & NE1).
    destruct (wf_In _ _ _ _ H3 Hr) as (_ & RP & _). simpl.
    destruct (N.lt_ge_cases (fst r) st) as [LT|GE].
    - right.
      destruct pre as [p|]; [|specialize (PS _ Hr); lia].
      destruct PS as (A & B & C). specialize (C _ Hr LT).
      destruct (wf_In _ _ _ _ H3 A) as (_ & PP & _).
      unfold ms. destruct prev as [p'|].
      + destruct PREV as (_ & _ & [= <-]).
        destruct (wf_sep _ _ _ _ _ H3 Hr A) as [->|[S|S]]; [congruence|lia|lia].
      + destruct (wf_sep _ _ _ _ _ H3 Hr A) as [->|[S|S]]; lia.
    - left.
      destruct (N.le_gt_cases (fst r) (st + c)) as [LE|GT].
      + destruct fol as [f|]; [|destruct (FS _ Hr); lia].
        destruct FS as (A & B & C & D). specialize (D _ Hr GE).
        destruct (wf_In _ _ _ _ H3 A) as (_ & FP & _).
        unfold msz. destruct next as [f'|].
        * destruct NEXT as (_ & E & [= <-]).
          destruct (wf_sep _ _ _ _ _ H3 Hr A) as [->|[S|S]]; [congruence|lia|lia].
        * simpl in OF. apply N.ltb_ge in OF.
          destruct (wf_sep _ _ _ _ _ H3 Hr A) as [->|[S|S]]; lia.
      + unfold msz. destruct next as [f'|]; [|lia].
        destruct NEXT as (A & E & _).
        destruct (wf_sep _ _ _ _ _ H3 Hr A) as [->|[S|S]]; lia. }
  destruct (insert_free_space_ok s2 (ms, msz) HP2) as (s3 & E3 & HP3 & RU & DV3);
    [simpl; lia|simpl; lia|simpl; rewrite DV2; lia|exact SEP|].
  fold prev next s1 ms msz1 s2 msz. rewrite E3.
  exists (update_fragmentation s3). split; [reflexivity|]. split; [exact OK|].
  unfold release_post. split; [apply update_fragmentation_Inv; auto|].
  split; [rewrite update_fragmentation_dev; congruence|].
  intros b. unfold free. rewrite update_fragmentation_runs, RU, freel_insert.
  (* free set of s2 *)
  assert (F2 : freel (runs s2) b <-> freel (runs s) b /\
               match prev with Some p => ~ inr b p | None => True end /\
               match next with Some f => ~ inr b f | None => True end).
  { unfold freel. split.
    - intros (r & Hr & Hb). apply IN2 in Hr. destruct Hr as (Hr & NE2). apply IN1 in Hr. destruct Hr as (Hr & NE1).
      split; [eauto|]. split.
      + destruct prev as [p|]; auto. destruct PREV as (A & _). intros Hb'.
        destruct (wf_sep _ _ _ _ _ H3 Hr A) as [->|[S|S]]; [congruence| |]; unfold inr in *; lia.
      + destruct next as [f|]; auto. destruct NEXT as (A & _). intros Hb'.
        destruct (wf_sep _ _ _ _ _ H3 Hr A) as [->|[S|S]]; [congruence| |]; unfold inr in *; lia.
    - intros ((r & Hr & Hb) & NP & NN). exists r. split; auto.
      apply IN2. split; [apply IN1; split; auto|].
      + destruct prev as [p|]; auto. destruct PREV as (A & _). intros E.
        assert (r = p) by (eapply wf_start_unique; eauto). subst; auto.
      + destruct next as [f|]; auto. destruct NEXT as (A & _). intros E.
        assert (r = f) by (eapply wf_start_unique; eauto). subst; auto. }
  rewrite F2. clear F2. unfold inr at 1. simpl.
  assert (PF : match prev with Some p => forall b, inr b p -> freel (runs s) b | None => True end).
  { destruct prev as [p|]; auto. destruct PREV as (A & _). intros b' Hb'. exists p; auto. }
  assert (NF : match next with Some f => forall b, inr b f -> freel (runs s) b | None => True end).
  { destruct next as [f|]; auto. destruct NEXT as (A & _). intros b' Hb'. exists f; auto. }
  unfold ms, msz, msz1 in *. unfold inr in *.
  destruct prev as [p|], next as [f|];
    repeat match goal with
           | H : In ?r (runs s) /\ _ |- _ => destruct H as (?A & ?B & _) end.
  - split.
    + intros [Hb|(Hf & N1 & N2)]; [|auto].
      destruct (N.lt_ge_cases b st); [left; apply PF; lia|].
      destruct (N.lt_ge_cases b (st + c)); [right; lia|left; apply NF; lia].
    + intros [Hf|Hb]; [|left; lia].
      destruct (N.lt_ge_cases b (fst p)); [right; repeat split; auto; lia|].
      destruct (N.lt_ge_cases b (fst f + snd f)); [left; lia|right; repeat split; auto; lia].
  - split.
    + intros [Hb|(Hf & N1 & N2)]; [|auto].
      destruct (N.lt_ge_cases b st); [left; apply PF; lia|right; lia].
    + intros [Hf|Hb]; [|left; lia].
      destruct (N.lt_ge_cases b (fst p)); [right; repeat split; auto; lia|].
      destruct (N.lt_ge_cases b (st + c)); [left; lia|right; repeat split; auto; lia].
  - split.
    + intros [Hb|(Hf & N1 & N2)]; [|auto].
      destruct (N.lt_ge_cases b (st + c)); [right; lia|left; apply NF; lia].
    + intros [Hf|Hb]; [|left; lia].
      destruct (N.lt_ge_cases b st); [right; repeat split; auto; lia|].
      destruct (N.lt_ge_cases b (fst f + snd f)); [left; lia|right; repeat split; auto; lia].
  - split.
    + intros [Hb|(Hf & N1 & N2)]; [right; lia|auto].
    + intros [Hf|Hb]; [|left; lia].
      destruct (N.lt_ge_cases b st); [right; repeat split; auto; lia|].
      destruct (N.lt_ge_cases b (st + c)); [left; lia|right; repeat split; auto; lia].
Qed.

(* ------------------------------------------------------------------ *)
(* initialize, reachability                                            *)
(* ------------------------------------------------------------------ *)

Lemma initialize_Inv d s : initialize d = FOk s -> d < U64 ->
  Inv s /\ dev_bytes s = d /\ (forall b, free s b <-> DS <= b < d / BS).
Proof.
  unfold initialize. intros H Hd.
  destruct (N.leb_spec (d / BS) DS) as [L|L]; [discriminate|].
  assert (HP : PInv (mkfs [] d 0 0)).
  { constructor; simpl; auto; unfold dev_sectors; simpl; auto. }
  destruct (insert_free_space_ok (mkfs [] d 0 0) (DS, d / BS - DS) HP) as (s' & E & HP' & RU & DV);
    simpl; try lia.
  { unfold dev_sectors; simpl. lia. }
  { intros r []. }
  rewrite E in H. injection H as <-. simpl in RU.
  split; [|split; auto].
  - destruct HP' as [A B C D]. constructor; auto.
    rewrite RU in *. destruct s'; simpl in *. unfold insert_free_space in E.
    destruct (_ =? _); [discriminate|]. destruct (negb _); [discriminate|]. simpl in E.
    injection E as <- <- <- <-. unfold frag_of. simpl.
    destruct (_ =? _); reflexivity.
  - intros b. unfold free. rewrite RU. unfold freel, inr; simpl. split.
    + intros (r & [<-|[]] & Hb). simpl in Hb. lia.
    + intros Hb. exists (DS, d / BS - DS). split; auto. simpl. lia.
Qed.

Lemma fstep_Inv s o : Inv s -> Inv (fst (fstep s o)) /\ dev_bytes (fst (fstep s o)) = dev_bytes s.
Proof.
  intros HI. destruct o as [n|a c]; simpl.
  - destruct (alloc_cases n s HI) as [(_ & E)|[(_ & _ & E)|(_ & a & s' & E & P)]]; rewrite E; simpl; auto.
    destruct P as (_ & _ & _ & I' & D & _); auto.
  - destruct (release_cases a c s HI) as [(e & E & _)|(s' & E & _ & P)]; rewrite E; simpl; auto.
    destruct P as (I' & D & _); auto.
Qed.

Lemma frun_Inv ops : forall s, Inv s -> Inv (frun s ops) /\ dev_bytes (frun s ops) = dev_bytes s.
Proof.
  induction ops as [|o ops IH]; intros s HI; [simpl; auto|].
  unfold frun in *. simpl. destruct (fstep_Inv s o HI) as (I1 & D1).
  destruct (IH _ I1) as (I2 & D2). split; auto. congruence.
Qed.

(* a block that is not free stays not free as long as no release names it *)
Lemma fstep_keeps_used s o b : Inv s -> ~ free s b ->
  (forall a c, o = ORelease a c -> ~ (a <= b < a + c)) -> ~ free (fst (fstep s o)) b.
Proof.
  intros HI NF NR. destruct o as [n|a c]; simpl.
  - destruct (alloc_cases n s HI) as [(_ & E)|[(_ & _ & E)|(_ & a & s' & E & P)]]; rewrite E; simpl; auto.
    destruct P as (_ & _ & _ & _ & _ & F). rewrite F. tauto.
  - destruct (release_cases a c s HI) as [(e & E & _)|(s' & E & _ & P)]; rewrite E; simpl; auto.
    destruct P as (_ & _ & F). rewrite F. specialize (NR a c eq_refl). tauto.
Qed.

Lemma frun_keeps_used ops : forall s b, Inv s -> ~ free s b ->
  (forall a c, In (ORelease a c) ops -> ~ (a <= b < a + c)) -> ~ free (frun s ops) b.
Proof.
  induction ops as [|o ops IH]; intros s b HI NF NR; [simpl; auto|].
  unfold frun in *. simpl. apply IH.
  - apply fstep_Inv; auto.
  - apply fstep_keeps_used; auto. intros a c ->. apply NR. left; auto.
  - intros a c Hin. apply NR. right; auto.
Qed.

(* ------------------------------------------------------------------ *)
(* canonical form: the run list is determined by the free set          *)
(* ------------------------------------------------------------------ *)

Lemma wf_canonical hi l1 : forall lo l2, wf lo hi l1 -> wf lo hi l2 ->
  (forall b, freel l1 b <-> freel l2 b) -> l1 = l2.
Proof.
  induction l1 as [|x t1 IH]; intros lo l2 W1 W2 EQ.
  - destruct l2 as [|y t2]; auto. exfalso.
    destruct W2 as (_ & P & _). apply (freel_nil (fst y)). apply EQ. exists y; split; [left; auto|unfold inr; lia].
  - destruct l2 as [|y t2].
    + exfalso. destruct W1 as (_ & P & _). apply (freel_nil (fst x)). apply EQ. exists x; split; [left; auto|unfold inr; lia].
    + pose proof W1 as W1'. pose proof W2 as W2'.
      destruct W1 as (X1 & X2 & X3 & X4). destruct W2 as (Y1 & Y2 & Y3 & Y4).
      (* members of the tails start beyond the heads *)
      assert (T1 : forall r, In r t1 -> fst x + snd x < fst r) by (intros r Hr; eapply wf_head_sep; eauto).
      assert (T2 : forall r, In r t2 -> fst y + snd y < fst r) by (intros r Hr; eapply wf_head_sep; eauto).
      assert (S : fst x = fst y).
      { assert (A : freel (y :: t2) (fst x)) by (apply EQ; exists x; split; [left; auto|unfold inr; lia]).
        assert (B : freel (x :: t1) (fst y)) by (apply EQ; exists y; split; [left; auto|unfold inr; lia]).
        destruct A as (r & [<-|Hr] & (A1 & A2)), B as (r' & [<-|Hr'] & (B1 & B2)); try lia.
        - specialize (T1 _ Hr'). lia.
        - specialize (T2 _ Hr). lia.
        - specialize (T1 _ Hr'). specialize (T2 _ Hr). lia. }
      assert (Z : snd x = snd y).
      { destruct (N.lt_trichotomy (snd x) (snd y)) as [L|[E|L]]; auto; exfalso.
        - assert (A : freel (x :: t1) (fst x + snd x)) by (apply EQ; exists y; split; [left; auto|unfold inr; lia]).
          destruct A as (r & [<-|Hr] & (A1 & A2)); [lia|]. specialize (T1 _ Hr). lia.
        - assert (A : freel (y :: t2) (fst y + snd y)) by (apply EQ; exists x; split; [left; auto|unfold inr; lia]).
          destruct A as (r & [<-|Hr] & (A1 & A2)); [lia|]. specialize (T2 _ Hr). lia. }
      assert (x = y) as -> by (destruct x, y; simpl in *; congruence).
      f_equal. apply (IH (fst y + snd y + 1)); auto.
      intros b. split; intros (r & Hr & Hb).
      * assert (A : freel (y :: t2) b) by (apply EQ; exists r; split; [right; auto|auto]).
        destruct A as (r' & [<-|Hr'] & Hb'); [|exists r'; auto].
        specialize (T1 _ Hr). unfold inr in *. lia.
      * assert (A : freel (y :: t1) b) by (apply EQ; exists r; split; [right; auto|auto]).
        destruct A as (r' & [<-|Hr'] & Hb'); [|exists r'; auto].
        specialize (T2 _ Hr). unfold inr in *. lia.
Qed.

(* every run of a wf list is a maximal interval of the free set *)
Lemma wf_maximal lo hi l r : wf lo hi l -> In r l ->
  (forall b, inr b r -> freel l b) /\ ~ freel l (fst r + snd r) /\ (forall b, b + 1 = fst r -> ~ freel l b).
Proof.
  intros W Hr. destruct (wf_In _ _ _ _ W Hr) as (_ & P & _). split; [intros b Hb; exists r; auto|]. split.
  - intros (r' & Hr' & Hb). destruct (wf_sep _ _ _ _ _ W Hr Hr') as [->|[S|S]]; unfold inr in *; lia.
  - intros b Hb (r' & Hr' & Hb'). destruct (wf_sep _ _ _ _ _ W Hr Hr') as [->|[S|S]]; unfold inr in *; lia.
Qed.

(* the cached statistics are functions of the run list *)
Lemma Inv_stats s : Inv s ->
  get_total_free s = sum_sizes (runs s) * BS /\
  get_largest s = max_size (runs s) * BS /\
  get_chunks s = N.of_nat (length (runs s)) /\
  get_fragmentation s = frag_of (runs s).
Proof. intros [A B C D E]. unfold get_total_free, get_largest, get_chunks, get_fragmentation. auto. Qed.

(* sum of sizes = number of free blocks (cardinality by counting over [lo, hi)) *)
Fixpoint count_free (l : list run) (lo : N) (k : nat) : N :=
  match k with
  | O => 0
  | S k' => (if existsb (fun r => (fst r <=? lo) && (lo <? fst r + snd r)) l then 1 else 0) + count_free l (lo + 1) k'
  end.

Lemma count_free_none l lo k : (forall r, In r l -> lo + N.of_nat k <= fst r) -> count_free l lo k = 0.
Proof.
  revert lo; induction k as [|k IH]; intros lo H; [reflexivity|]. cbn [count_free].
  rewrite IH by (intros r Hr; specialize (H r Hr); lia).
  destruct (existsb _ l) eqn:E; [|reflexivity].
  apply existsb_exists in E. destruct E as (r & Hr & Hb). specialize (H r Hr).
  apply andb_true_iff in Hb. destruct Hb as (A & B). apply N.leb_le in A. lia.
Qed.

Lemma count_free_cons_skip x t lo k : fst x + snd x <= lo \/ lo + N.of_nat k <= fst x ->
  count_free (x :: t) lo k = count_free t lo k.
Proof.
  revert lo; induction k as [|k IH]; intros lo H; [reflexivity|]. cbn [count_free existsb].
  rewrite IH by lia.
  destruct (N.leb_spec (fst x) lo), (N.ltb_spec lo (fst x + snd x)); simpl; try reflexivity; lia.
Qed.

Lemma count_free_split l lo k1 k2 :
  count_free l lo (k1 + k2) = count_free l lo k1 + count_free l (lo + N.of_nat k1) k2.
Proof.
  revert lo; induction k1 as [|k1 IH]; intros lo;
    [change (N.of_nat 0) with 0; cbn [Nat.add count_free]; rewrite N.add_0_r, N.add_0_l; reflexivity|].
  cbn [count_free Nat.add]. rewrite IH. replace (lo + 1 + N.of_nat k1) with (lo + N.of_nat (S k1)) by lia. lia.
Qed.

Lemma count_free_full x t lo hi k : wf lo hi (x :: t) ->
  count_free (x :: t) (fst x) k = N.of_nat k -> True.
Proof. auto. Qed.

Lemma count_free_inside x t lo k : fst x <= lo -> lo + N.of_nat k <= fst x + snd x ->
  count_free (x :: t) lo k = N.of_nat k.
Proof.
  revert lo; induction k as [|k IH]; intros lo H1 H2; [reflexivity|]. cbn [count_free existsb].
  rewrite IH by lia.
  destruct (N.leb_spec (fst x) lo), (N.ltb_spec lo (fst x + snd x)); simpl; lia.
Qed.

Lemma sum_is_cardinal hi l : forall lo, wf lo hi l -> lo <= hi ->
  sum_sizes l = count_free l lo (N.to_nat (hi - lo)).
Proof.
  induction l as [|x t IH]; intros lo W Hle.
  - simpl. rewrite count_free_none; auto. intros r [].
  - pose proof W as W'. destruct W as (X1 & X2 & X3 & X4).
    (* [lo, fst x) ++ [fst x, end) ++ [end, hi) *)
    replace (N.to_nat (hi - lo)) with
      (N.to_nat (fst x - lo) + (N.to_nat (snd x) + N.to_nat (hi - (fst x + snd x))))%nat by lia.
    rewrite !count_free_split.
    rewrite (count_free_none (x :: t) lo).
    2:{ intros r [<-|Hr]; [lia|]. pose proof (wf_head_sep _ _ _ _ _ W' Hr). lia. }
    replace (lo + N.of_nat (N.to_nat (fst x - lo))) with (fst x) by lia.
    rewrite count_free_inside by lia.
    rewrite count_free_cons_skip by lia.
    replace (fst x + N.of_nat (N.to_nat (snd x))) with (fst x + snd x) by lia.
    destruct (N.eq_dec (fst x + snd x) hi) as [E|NE].
    + (* nothing can follow *)
      destruct t as [|y t'].
      * simpl. rewrite count_free_none by (intros r []). lia.
      * exfalso. destruct X4 as (Y1 & Y2 & Y3 & _). lia.
    + cbn [sum_sizes]. rewrite (IH (fst x + snd x + 1)) by (auto; lia).
      replace (N.to_nat (hi - (fst x + snd x))) with (1 + N.to_nat (hi - (fst x + snd x + 1)))%nat by lia.
      rewrite count_free_split. cbn [count_free Nat.add].
      assert (Z : existsb (fun r => (fst r <=? fst x + snd x) && (fst x + snd x <? fst r + snd r)) t = false).
      { match goal with |- ?e = false => destruct e eqn:E; auto end.
        apply existsb_exists in E. destruct E as (r & Hr & Hb).
        pose proof (wf_head_sep _ _ _ _ _ W' Hr). apply andb_true_iff in Hb. destruct Hb as (A & B).
        apply N.leb_le in A. lia. }
      rewrite Z. simpl N.of_nat. lia.
Qed.
