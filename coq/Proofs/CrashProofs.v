(* Crash safety of the journal protocol (Model/Device.v): for every reachable state, every crash
   image (any subset of the un-synced writes, each possibly torn) recovers -- the open succeeds,
   no torn cell surfaces -- to the logical contents before or after the transaction in flight. *)
From Coq Require Import List NArith Bool Arith Lia.
From Feox Require Import Model.Device.
Import ListNotations.
Local Open Scope N_scope.

(* ---------------- set_nth / wipe ---------------- *)
Lemma set_nth_length {A} (l : list A) i x : length (set_nth l i x) = length l.
Proof. revert i; induction l as [|h t IH]; intros [|i]; simpl; auto. Qed.

Lemma set_nth_set_nth_same {A} (l : list A) i x y : set_nth (set_nth l i x) i y = set_nth l i y.
Proof. revert i; induction l as [|h t IH]; intros [|i]; simpl; auto. f_equal; auto. Qed.

Lemma set_nth_comm {A} (l : list A) i j x y : i <> j ->
  set_nth (set_nth l i x) j y = set_nth (set_nth l j y) i x.
Proof.
  revert i j; induction l as [|h t IH]; intros [|i] [|j] H; simpl; auto; try congruence.
  f_equal. apply IH. congruence.
Qed.

Lemma wipe_length exts : forall l, length (wipe exts l) = length l.
Proof. induction exts as [|i t IH]; intros l; simpl; auto. rewrite IH. apply set_nth_length. Qed.

(* a cell inside the wiped extents does not matter *)
Lemma wipe_absorbs exts : forall l i c, In i exts -> wipe exts (set_nth l i c) = wipe exts l.
Proof.
  induction exts as [|j t IH]; intros l i c Hin; [destruct Hin|]. simpl.
  destruct (Nat.eq_dec j i) as [->|NE].
  - rewrite set_nth_set_nth_same. reflexivity.
  - destruct Hin as [E|Hin]; [congruence|].
    rewrite set_nth_comm by congruence. apply IH; auto.
Qed.

Lemma wipe_absorbs_writes exts (ws : list (nat * cell)) : forall l,
  (forall i c, In (i, c) ws -> In i exts) ->
  wipe exts (fold_left (fun l ic => set_nth l (fst ic) (snd ic)) ws l) = wipe exts l.
Proof.
  induction ws as [|[i c] t IH]; intros l H; simpl; auto.
  rewrite IH by (intros; eapply H; right; eauto). apply wipe_absorbs. eapply H; left; eauto.
Qed.

(* ---------------- junk ---------------- *)
Definition junk_free (l : list cell) : Prop := existsb is_junk l = false.

Lemma junk_free_set l i c : junk_free l -> c <> CJunk -> junk_free (set_nth l i c).
Proof.
  unfold junk_free. revert i; induction l as [|h t IH]; intros [|i] H Hc; simpl in *; auto.
  - apply orb_false_iff in H. destruct H as (_ & H). rewrite H. destruct c; simpl; auto. congruence.
  - apply orb_false_iff in H. destruct H as (H1 & H2). rewrite H1. simpl. apply IH; auto.
Qed.

Lemma junk_free_wipe exts : forall l, junk_free l -> junk_free (wipe exts l).
Proof. induction exts as [|i t IH]; intros l H; simpl; auto. apply IH. apply junk_free_set; auto. discriminate. Qed.

Lemma junk_free_apply_new t l : junk_free l -> (forall i c, In (i, c) (t_new t) -> c <> CJunk) ->
  junk_free (apply_new t l).
Proof.
  unfold apply_new. revert l. induction (t_new t) as [|[i c] r IH]; intros l H Hc; simpl; auto.
  apply IH; [|intros; eapply Hc; right; eauto]. apply junk_free_set; auto. eapply Hc; left; eauto.
Qed.

(* ---------------- slot selection ---------------- *)
Lemma select_cur d c g st :
  slot_of d c = SValid g st -> older_or_invalid (slot_of d (negb c)) g -> select (s0 d) (s1 d) = Some (g, st).
Proof.
  unfold slot_of, older_or_invalid. destruct c; simpl; intros H1 H2; rewrite H1.
  - destruct (s0 d) as [|g' t'|]; simpl; auto. destruct (N.ltb_spec g g'); [lia|reflexivity].
  - destruct (s1 d) as [|g' t'|]; simpl; auto. destruct (N.ltb_spec g' g); [reflexivity|lia].
Qed.

Lemma select_clear_like d c g :
  clear_like (slot_of d c) g -> older_or_invalid (slot_of d (negb c)) g ->
  exists g', select (s0 d) (s1 d) = Some (g', JClear).
Proof.
  intros [H|(-> & H)] O; [eexists; eapply select_cur; eauto|].
  unfold slot_of, older_or_invalid in *. destruct c; simpl in *; rewrite H.
  - destruct (s0 d) as [|g' t'|]; simpl; eauto. lia.
  - destruct (s1 d) as [|g' t'|]; simpl; eauto. lia.
Qed.

(* ---------------- the invariant ---------------- *)
Definition slots_clear (s : pstate) : Prop :=
  clear_like (slot_of (durable (dv s)) (cur s)) (jgen s) /\
  older_or_invalid (slot_of (durable (dv s)) (negb (cur s))) (jgen s).

Definition slots_active (s : pstate) (t : txn) : Prop :=
  slot_of (durable (dv s)) (cur s) = SValid (jgen s) (JActive (t_exts t)) /\
  older_or_invalid (slot_of (durable (dv s)) (negb (cur s))) (jgen s).

Definition PInv (s : pstate) : Prop :=
  junk_free (base s) /\
  match ph s with
  | Idle =>
      pending (dv s) = [] /\ slots_clear s /\ cells (durable (dv s)) = base s
  | ActiveWritten t =>
      pending (dv s) = [WSlot (negb (cur s)) (SValid (jgen s + 1) (JActive (t_exts t)))] /\
      slots_clear s /\ cells (durable (dv s)) = base s /\ txn_ok t (base s)
  | ActiveDurable t =>
      pending (dv s) = [] /\ slots_active s t /\ cells (durable (dv s)) = base s /\ txn_ok t (base s)
  | CellsWritten t =>
      pending (dv s) = cell_writes t /\ slots_active s t /\ cells (durable (dv s)) = base s /\ txn_ok t (base s)
  | CellsDurable t =>
      pending (dv s) = [] /\ slots_active s t /\ cells (durable (dv s)) = apply_new t (base s) /\ txn_ok t (base s)
  | ClearWritten t =>
      pending (dv s) = [WSlot (negb (cur s)) (SValid (jgen s + 1) JClear)] /\
      slots_active s t /\ cells (durable (dv s)) = apply_new t (base s) /\ txn_ok t (base s)
  end.

Lemma quiescent_PInv s : quiescent s -> PInv s.
Proof.
  intros (P & Q & C & O & J & B). unfold PInv. rewrite P, B. split; auto. repeat split; auto.
Qed.

(* applying writes to slots/cells *)
Lemma slot_of_apply_slot d b s : slot_of (apply_wr d (WSlot b s)) b = s.
Proof. destruct b; reflexivity. Qed.
Lemma slot_of_apply_slot_other d b s : slot_of (apply_wr d (WSlot b s)) (negb b) = slot_of d (negb b).
Proof. destruct b; reflexivity. Qed.
Lemma cells_apply_slot d b s : cells (apply_wr d (WSlot b s)) = cells d.
Proof. destruct b; reflexivity. Qed.

Lemma fold_cell_writes ws : forall d,
  s0 (fold_left apply_wr (map (fun ic => WCell (fst ic) (snd ic)) ws) d) = s0 d /\
  s1 (fold_left apply_wr (map (fun ic => WCell (fst ic) (snd ic)) ws) d) = s1 d /\
  cells (fold_left apply_wr (map (fun ic => WCell (fst ic) (snd ic)) ws) d) =
    fold_left (fun l ic => set_nth l (fst ic) (snd ic)) ws (cells d).
Proof.
  induction ws as [|[i c] t IH]; intros d; simpl; auto.
  destruct (IH (mkdisk (s0 d) (s1 d) (set_nth (cells d) i c))) as (A & B & C). simpl in *. auto.
Qed.

Lemma clear_like_older s g : clear_like s g -> older_or_invalid s (g + 1).
Proof. intros [->|(_ & ->)]; simpl; auto. lia. Qed.

Ltac proj := cbn [dv ph jgen cur base durable pending] in *.

Theorem pstep_PInv s s' : PInv s -> pstep s s' -> PInv s'.
Proof.
  intros (J & H) ST. destruct ST; unfold PInv, slots_clear, slots_active in *; proj.
  - (* begin *)
    destruct H as (P & SC & CE). split; [rewrite CE; auto|].
    unfold issue. proj. rewrite P. split; [reflexivity|]. split; [exact SC|]. split; [reflexivity|assumption].
  - (* sync1 *)
    destruct H as (P & (CL & OL) & CE & OK). split; auto.
    unfold fsync. proj. rewrite P. cbn [fold_left]. proj.
    split; [reflexivity|]. split; [|split; [rewrite cells_apply_slot; auto|auto]].
    split; [apply slot_of_apply_slot|].
    rewrite Bool.negb_involutive. rewrite <- (Bool.negb_involutive c) at 2.
    rewrite slot_of_apply_slot_other, Bool.negb_involutive. apply clear_like_older; auto.
  - (* cells *)
    destruct H as (P & SA & CE & OK). split; auto. rewrite P. cbn [app]. auto.
  - (* sync2 *)
    destruct H as (P & (SA1 & SA2) & CE & OK). split; auto.
    unfold fsync. proj. rewrite P. unfold cell_writes.
    destruct (fold_cell_writes (t_new t) (durable v)) as (A & B & C).
    split; [reflexivity|]. split; [|split; [rewrite C, CE; reflexivity|auto]].
    unfold slot_of in *. destruct c; cbn [negb] in *; rewrite ?A, ?B; auto.
  - (* clear *)
    destruct H as (P & SA & CE & OK). split; auto. unfold issue. proj. rewrite P. cbn [app]. auto.
  - (* sync3 *)
    destruct H as (P & (SA1 & SA2) & CE & OK).
    unfold fsync. proj. rewrite P. cbn [fold_left]. proj. rewrite cells_apply_slot, CE.
    split; [apply junk_free_apply_new; auto; intros i c0 Hin; apply (proj2 (proj1 (proj2 OK) i c0 Hin))|].
    split; [reflexivity|]. split; [|reflexivity].
    split; [left; apply slot_of_apply_slot|].
    rewrite Bool.negb_involutive. rewrite <- (Bool.negb_involutive c) at 2.
    rewrite slot_of_apply_slot_other, Bool.negb_involutive. rewrite SA1. simpl. lia.
Qed.

Theorem reach_PInv s s' : PInv s -> reach s s' -> PInv s'.
Proof. intros H R. induction R as [|s2 s3 R IH ST]; [auto|]. eapply pstep_PInv; [apply IH; auto|exact ST]. Qed.

(* ---------------- crash images ---------------- *)
Lemma crash_from_nil d d' : crash_from d [] d' -> d' = d.
Proof. inversion 1; auto. Qed.

Lemma crash_from_one d w d' : crash_from d [w] d' -> d' = d \/ d' = apply_wr d w \/ d' = apply_wr d (torn w).
Proof.
  inversion 1 as [|? ? ? ? ? SV CF]; subst. apply crash_from_nil in CF. subst.
  inversion SV; subst; auto.
Qed.

(* only cell writes inside exts are pending: the slots are untouched and the wiped cells are those of the base *)
Lemma crash_from_cells exts ws : forall d d',
  (forall i c, In (i, c) ws -> In i exts) ->
  crash_from d (map (fun ic => WCell (fst ic) (snd ic)) ws) d' ->
  s0 d' = s0 d /\ s1 d' = s1 d /\ wipe exts (cells d') = wipe exts (cells d).
Proof.
  induction ws as [|[i c] t IH]; intros d d' Hin CF; simpl in CF.
  - apply crash_from_nil in CF. subst. auto.
  - inversion CF as [|? ? ? d1 ? SV CF']; subst.
    assert (Hin' : forall i c, In (i, c) t -> In i exts) by (intros; eapply Hin; right; eauto).
    destruct (IH _ _ Hin' CF') as (A & B & C). rewrite A, B, C.
    assert (Hi : In i exts) by (eapply Hin; left; eauto).
    inversion SV; subst; simpl; auto; repeat split; auto; apply wipe_absorbs; auto.
Qed.

(* what recovery returns on a disk *)
Lemma recover_clear d seen :
  (exists g, select (s0 d) (s1 d) = Some (g, JClear)) -> junk_free (cells d) -> seen = cells d ->
  recover d = Some seen.
Proof. intros (g & S) J ->. unfold recover. rewrite S. unfold junk_free in J. rewrite J. reflexivity. Qed.

Lemma recover_active d g exts :
  select (s0 d) (s1 d) = Some (g, JActive exts) -> junk_free (wipe exts (cells d)) ->
  recover d = Some (wipe exts (cells d)).
Proof. intros S J. unfold recover. rewrite S. unfold junk_free in J. rewrite J. reflexivity. Qed.

(* ---------------- the main theorem ---------------- *)
Theorem crash_atomic s d :
  PInv s -> crash_image (dv s) d ->
  exists seen, recover d = Some seen /\
    ((forall k, contents seen k = before s k) \/ (forall k, contents seen k = after s k)).
Proof.
  intros (J & H) CI. unfold crash_image in CI. unfold before, after.
  destruct (ph s) as [|t|t|t|t|t] eqn:PH.
  - (* Idle *)
    destruct H as (P & (CL & OL) & CE). rewrite P in CI. apply crash_from_nil in CI. subst d.
    exists (base s). split; [|left; auto].
    apply recover_clear; auto; [eapply select_clear_like; eauto|rewrite CE; auto].
  - (* ActiveWritten *)
    destruct H as (P & (CL & OL) & CE & OK). rewrite P in CI.
    destruct (crash_from_one _ _ _ CI) as [->|[->| ->]].
    + exists (base s). split; [|left; auto].
      apply recover_clear; auto; [eapply select_clear_like; eauto|rewrite CE; auto].
    + (* the active slot made it: the extents are wiped, which changes nothing logically *)
      exists (wipe (t_exts t) (base s)). split; [|left; apply OK].
      rewrite <- CE. rewrite <- (cells_apply_slot (durable (dv s)) (negb (cur s)) (SValid (jgen s + 1) (JActive (t_exts t)))).
      eapply recover_active.
      * apply (select_cur _ (negb (cur s))); [apply slot_of_apply_slot|].
        rewrite Bool.negb_involutive. rewrite <- (Bool.negb_involutive (cur s)) at 2.
        rewrite slot_of_apply_slot_other, Bool.negb_involutive. apply clear_like_older; auto.
      * rewrite cells_apply_slot, CE. apply junk_free_wipe; auto.
    + (* torn journal write: the other slot still holds the clear state *)
      exists (base s). split; [|left; auto]. simpl torn.
      apply recover_clear; [|rewrite cells_apply_slot, CE; auto|rewrite cells_apply_slot; auto].
      destruct CL as [CL|(G0 & CL)].
      * eexists. apply (select_cur _ (cur s)).
        -- rewrite <- (Bool.negb_involutive (cur s)) at 2. rewrite slot_of_apply_slot_other, Bool.negb_involutive. eauto.
        -- rewrite slot_of_apply_slot. simpl. auto.
      * exists 0. unfold slot_of in *. destruct (cur s); simpl in *; rewrite CL; reflexivity.
  - (* ActiveDurable *)
    destruct H as (P & (SA & OL) & CE & OK). rewrite P in CI. apply crash_from_nil in CI. subst d.
    exists (wipe (t_exts t) (base s)). split; [|left; apply OK].
    rewrite <- CE. eapply recover_active; [eapply select_cur; eauto|rewrite CE; apply junk_free_wipe; auto].
  - (* CellsWritten: whatever subset / tearing of the cell writes survives lies inside the wiped extents *)
    destruct H as (P & (SA & OL) & CE & OK). rewrite P in CI. unfold cell_writes in CI.
    destruct (crash_from_cells (t_exts t) (t_new t) _ _ (fun i c Hin => proj1 (proj1 (proj2 OK) i c Hin)) CI) as (A & B & C).
    exists (wipe (t_exts t) (base s)). split; [|left; apply OK].
    rewrite <- CE, <- C. eapply recover_active.
    + apply (select_cur _ (cur s)); unfold slot_of in *; destruct (cur s); simpl in *; rewrite ?A, ?B; eauto.
    + rewrite C, CE. apply junk_free_wipe; auto.
  - (* CellsDurable *)
    destruct H as (P & (SA & OL) & CE & OK). rewrite P in CI. apply crash_from_nil in CI. subst d.
    exists (wipe (t_exts t) (base s)). split; [|left; apply OK].
    assert (W : wipe (t_exts t) (cells (durable (dv s))) = wipe (t_exts t) (base s)).
    { rewrite CE. unfold apply_new. apply wipe_absorbs_writes. intros i c Hin. apply (proj1 (proj2 OK) i c Hin). }
    rewrite <- W. eapply recover_active; [eapply select_cur; eauto|rewrite W; apply junk_free_wipe; auto].
  - (* ClearWritten *)
    destruct H as (P & (SA & OL) & CE & OK). rewrite P in CI.
    assert (W : wipe (t_exts t) (cells (durable (dv s))) = wipe (t_exts t) (base s)).
    { rewrite CE. unfold apply_new. apply wipe_absorbs_writes. intros i c Hin. apply (proj1 (proj2 OK) i c Hin). }
    destruct (crash_from_one _ _ _ CI) as [->|[->| ->]].
    + exists (wipe (t_exts t) (base s)). split; [|left; apply OK].
      rewrite <- W. eapply recover_active; [eapply select_cur; eauto|rewrite W; apply junk_free_wipe; auto].
    + (* the clear made it: the new cells are visible *)
      exists (apply_new t (base s)). split; [|right; auto].
      apply recover_clear.
      * eexists. apply (select_cur _ (negb (cur s))); [apply slot_of_apply_slot|].
        rewrite Bool.negb_involutive. rewrite <- (Bool.negb_involutive (cur s)) at 2.
        rewrite slot_of_apply_slot_other, Bool.negb_involutive. rewrite SA. simpl. lia.
      * rewrite cells_apply_slot, CE. apply junk_free_apply_new; auto.
        intros i c Hin. apply (proj2 (proj1 (proj2 OK) i c Hin)).
      * rewrite cells_apply_slot; auto.
    + (* torn clear: the active slot still rules *)
      exists (wipe (t_exts t) (base s)). split; [|left; apply OK]. simpl torn.
      rewrite <- W, <- (cells_apply_slot (durable (dv s)) (negb (cur s)) SJunk).
      eapply recover_active.
      * apply (select_cur _ (cur s)).
        -- rewrite <- (Bool.negb_involutive (cur s)) at 2. rewrite slot_of_apply_slot_other, Bool.negb_involutive. eauto.
        -- rewrite slot_of_apply_slot. simpl. auto.
      * rewrite cells_apply_slot, W. apply junk_free_wipe; auto.
Qed.

(* ---------------- admissible transactions ---------------- *)
Definition lt_opt (o : option gen) (n : N) : Prop := match o with None => True | Some a => gts a < n end.

(* two accumulators that a later, strictly newer generation of the key will both lose to give the same result *)
Lemma best_merge k l : forall a b,
  (a = b \/ exists g', In (CGen g') l /\ gk g' = k /\ lt_opt a (gts g') /\ lt_opt b (gts g')) ->
  best k l a = best k l b.
Proof.
  induction l as [|c t IH]; intros a b H.
  - destruct H as [->|(g' & [] & _)]; reflexivity.
  - destruct H as [->|(g' & Hin & Hk & La & Lb)]; [reflexivity|].
    destruct c as [|g| |]; cbn [best];
      try (apply IH; right; exists g'; destruct Hin as [E|Hin]; [discriminate|auto]).
    destruct (N.eqb_spec (gk g) k) as [Ek|Nk].
    2:{ apply IH. right. exists g'. destruct Hin as [E|Hin]; [injection E as ->; congruence|auto]. }
    (* the head is a generation of k *)
    assert (STEP : forall o, exists o', (match o with
                     | Some a0 => if gts g <? gts a0 then best k t o else best k t (Some g)
                     | None => best k t (Some g) end) = best k t o' /\
                     (o' = o \/ o' = Some g) /\ (o' = o -> lt_opt o (gts g) -> False \/ True)).
    { intros o. destruct o as [a0|]; [destruct (gts g <? gts a0)|]; eexists; split; eauto. }
    destruct Hin as [E|Hin].
    + (* the head is the dominator: both accumulators are replaced by it *)
      injection E as ->. unfold lt_opt in La, Lb.
      destruct a as [a0|], b as [b0|];
        repeat match goal with |- context [gts g' <? gts ?x] => destruct (N.ltb_spec (gts g') (gts x)); [lia|] end;
        reflexivity.
    + (* dominator further down *)
      set (ua := match a with Some a0 => if gts g <? gts a0 then a else Some g | None => Some g end).
      set (ub := match b with Some b0 => if gts g <? gts b0 then b else Some g | None => Some g end).
      assert (EA : match a with Some a0 => if gts g <? gts a0 then best k t a else best k t (Some g) | None => best k t (Some g) end = best k t ua)
        by (unfold ua; destruct a as [a0|]; [destruct (gts g <? gts a0)|]; reflexivity).
      assert (EB : match b with Some b0 => if gts g <? gts b0 then best k t b else best k t (Some g) | None => best k t (Some g) end = best k t ub)
        by (unfold ub; destruct b as [b0|]; [destruct (gts g <? gts b0)|]; reflexivity).
      rewrite EA, EB.
      destruct (N.lt_ge_cases (gts g) (gts g')) as [LT|GE].
      * apply IH. right. exists g'. repeat split; auto.
        -- unfold ua, lt_opt in *. destruct a as [a0|]; [destruct (gts g <? gts a0)|]; auto.
        -- unfold ub, lt_opt in *. destruct b as [b0|]; [destruct (gts g <? gts b0)|]; auto.
      * (* the head is at least as new as the dominator: it replaces both *)
        assert (ua = Some g).
        { unfold ua, lt_opt in *. destruct a as [a0|]; auto. destruct (N.ltb_spec (gts g) (gts a0)); [lia|auto]. }
        assert (ub = Some g).
        { unfold ub, lt_opt in *. destruct b as [b0|]; auto. destruct (N.ltb_spec (gts g) (gts b0)); [lia|auto]. }
        congruence.
Qed.

Lemma best_mono_acc k l : forall a r, best k l a = r -> forall n, ~ lt_opt a n -> ~ lt_opt r n.
Proof.
  induction l as [|c t IH]; intros a r H n Hn; [simpl in H; subst; auto|].
  destruct c as [|g| |]; cbn [best] in H; eauto.
  destruct (gk g =? k); eauto.
  destruct a as [a0|]; [|simpl in Hn; tauto].
  destruct (N.ltb_spec (gts g) (gts a0)); eauto.
  eapply IH; eauto. unfold lt_opt in *. lia.
Qed.

(* wiping a cell that holds no generation changes nothing *)
Lemma best_wipe_nongen k : forall l i a,
  (forall g, nth i l CZero <> CGen g) -> best k (set_nth l i CMarker) a = best k l a.
Proof.
  induction l as [|c t IH]; intros [|i] a H; simpl in *; auto.
  - destruct c; auto. exfalso. eapply H; eauto.
  - destruct c as [|g| |]; auto. destruct (gk g =? k); auto.
    destruct a as [a0|]; [destruct (gts g <? gts a0)|]; auto.
Qed.

Lemma nth_gen_In (l : list cell) : forall j g, nth j l CZero = CGen g -> In (CGen g) l.
Proof.
  induction l as [|x t IH]; intros [|j] g H; simpl in *; try discriminate; auto.
  right. eapply IH; eauto.
Qed.

(* wiping a generation that a strictly newer generation of the same key (elsewhere) supersedes changes nothing *)
Lemma best_wipe_superseded k : forall l i a g g' j,
  nth i l CZero = CGen g -> nth j l CZero = CGen g' -> i <> j -> gk g' = gk g -> gts g < gts g' ->
  best k (set_nth l i CMarker) a = best k l a.
Proof.
  induction l as [|c t IH]; intros [|i] a g g' [|j] Hi Hj Hne Hk Hts; simpl in *; try congruence; try discriminate.
  - (* the wiped cell is the head; the dominator is in the tail *)
    subst c. destruct (N.eqb_spec (gk g) k) as [Ek|Nk]; auto.
    assert (Hin : In (CGen g') t) by (eapply nth_gen_In; eauto).
    destruct a as [a0|].
    + destruct (N.ltb_spec (gts g) (gts a0)); auto.
      apply best_merge. right. exists g'. split; [auto|]. split; [congruence|]. split; simpl; lia.
    + apply best_merge. right. exists g'. split; [auto|]. split; [congruence|]. split; simpl; auto; lia.
  - (* the dominator is the head; the wiped cell is in the tail *)
    subst c. destruct (N.eqb_spec (gk g') k) as [Ek|Nk].
    + (* after the head the accumulator is at least as new as g' > g: g never wins *)
      assert (DROP : forall acc, ~ lt_opt acc (gts g') -> best k (set_nth t i CMarker) acc = best k t acc).
      { clear -Hi Hts Hk Ek. revert i Hi. induction t as [|x t IH]; intros [|i] Hi acc Hacc; simpl in *; try discriminate; auto.
        - subst x. destruct (N.eqb_spec (gk g) k); auto.
          destruct acc as [a0|]; [|simpl in Hacc; tauto].
          simpl in Hacc. destruct (N.ltb_spec (gts g) (gts a0)); [auto|lia].
        - destruct x as [|gx| |]; auto. destruct (gk gx =? k); auto.
          destruct acc as [a0|]; [|simpl in Hacc; tauto].
          destruct (N.ltb_spec (gts gx) (gts a0)); auto.
          apply IH; auto. simpl in *. lia. }
      destruct a as [a0|]; [destruct (N.ltb_spec (gts g') (gts a0))|]; apply DROP; simpl; lia.
    + (* key of the dominator is not k, hence g is not of key k either: irrelevant *)
      assert (NK : gk g <> k) by congruence.
      clear -Hi NK. revert i a Hi. induction t as [|x t IH]; intros [|i] a Hi; simpl in *; try discriminate; auto.
      * subst x. destruct (N.eqb_spec (gk g) k); [congruence|auto].
      * destruct x as [|gx| |]; auto. destruct (gk gx =? k); auto.
        destruct a as [a0|]; [destruct (gts gx <? gts a0)|]; auto.
  - (* both in the tail *)
    destruct c as [|gc| |]; eauto. destruct (gk gc =? k); eauto.
    destruct a as [a0|]; [destruct (gts gc <? gts a0)|]; eauto.
Qed.

Lemma nth_set_nth_other {A} (l : list A) i j x d : i <> j -> nth j (set_nth l i x) d = nth j l d.
Proof. revert i j; induction l as [|h t IH]; intros [|i] [|j] H; simpl; auto; congruence. Qed.

(* a batch of new records into free cells is admissible *)
Theorem write_batch_ok (t : txn) (c0 : list cell) :
  (forall i, In i (t_exts t) -> (i < length c0)%nat /\ forall g, nth i c0 CZero <> CGen g) ->
  (forall i c, In (i, c) (t_new t) -> In i (t_exts t) /\ c <> CJunk) ->
  txn_ok t c0.
Proof.
  intros Hfree Hnew. split; [intros i Hi; apply Hfree; auto|]. split; auto.
  intros k. unfold contents. clear Hnew. revert c0 Hfree. generalize (t_exts t). intros exts.
  induction exts as [|i r IH]; intros c0 Hfree; simpl; auto.
  rewrite IH.
  - apply best_wipe_nongen. apply Hfree. left; auto.
  - intros j Hj. rewrite set_nth_length. split; [apply Hfree; right; auto|].
    intros g. destruct (Nat.eq_dec i j) as [->|NE].
    + clear. revert j. induction c0 as [|h t' IH']; intros [|j]; simpl; auto; discriminate.
    + rewrite nth_set_nth_other by auto. apply Hfree. right; auto.
Qed.

(* retiring extents whose generations are each superseded by a strictly newer generation of the same
   key that lives outside the retired extents is admissible *)
Theorem retire_ok (exts : list nat) (c0 : list cell) :
  NoDup exts ->
  (forall i, In i exts -> (i < length c0)%nat) ->
  (forall i g, In i exts -> nth i c0 CZero = CGen g ->
     exists j g', ~ In j exts /\ nth j c0 CZero = CGen g' /\ gk g' = gk g /\ gts g < gts g') ->
  txn_ok (mktxn exts (map (fun i => (i, CMarker)) exts)) c0.
Proof.
  intros ND Hlen Hsup. split; [exact Hlen|]. split.
  { intros i c Hin. simpl in Hin. apply in_map_iff in Hin. destruct Hin as (j & [= <- <-] & Hj). split; auto. discriminate. }
  simpl. intros k. unfold contents. revert c0 Hlen Hsup.
  induction exts as [|i r IH]; intros c0 Hlen Hsup; simpl; auto.
  inversion ND as [|? ? Hni ND']; subst.
  rewrite IH; auto.
  - destruct (nth i c0 CZero) as [|g| |] eqn:E; try (apply best_wipe_nongen; intros g0; congruence).
    destruct (Hsup i g (or_introl eq_refl) E) as (j & g' & Hj & Ej & Hk & Hts).
    eapply best_wipe_superseded; eauto. intros ->. apply Hj. left; auto.
  - intros j Hj. rewrite set_nth_length. apply Hlen. right; auto.
  - intros j g Hj Ej.
    assert (NE : i <> j) by (intros ->; auto).
    rewrite nth_set_nth_other in Ej by auto.
    destruct (Hsup j g (or_intror Hj) Ej) as (j' & g' & Hj' & Ej' & Hk & Hts).
    exists j', g'. split; [intros H; apply Hj'; right; auto|]. split; auto.
    rewrite nth_set_nth_other; auto. intros ->. apply Hj'. left; auto.
Qed.

(* ---------------- acknowledged state is never lost ---------------- *)
Lemma complete_txn s t :
  PInv s -> ph s = ActiveWritten t ->
  exists s', reach s s' /\ ph s' = Idle /\ PInv s' /\ cells (durable (dv s')) = apply_new t (base s).
Proof.
  intros HI PH. destruct s as [v p g c b]. simpl in PH. subst p.
  set (s1 := mkps (fsync v) (ActiveDurable t) (g + 1) (negb c) b).
  set (s2 := mkps (mkdev (durable (fsync v)) (pending (fsync v) ++ cell_writes t)) (CellsWritten t) (g + 1) (negb c) b).
  set (s3 := mkps (fsync (dv s2)) (CellsDurable t) (g + 1) (negb c) b).
  set (s4 := mkps (issue (dv s3) (WSlot (negb (negb c)) (SValid (g + 1 + 1) JClear))) (ClearWritten t) (g + 1) (negb c) b).
  set (s5 := mkps (fsync (dv s4)) Idle (g + 1 + 1) (negb (negb c)) (cells (durable (fsync (dv s4))))).
  assert (P1 : pstep (mkps v (ActiveWritten t) g c b) s1) by constructor.
  assert (P2 : pstep s1 s2) by constructor.
  assert (P3 : pstep s2 s3) by constructor.
  assert (P4 : pstep s3 s4) by constructor.
  assert (P5 : pstep s4 s5) by constructor.
  pose proof (pstep_PInv _ _ HI P1) as I1. pose proof (pstep_PInv _ _ I1 P2) as I2.
  pose proof (pstep_PInv _ _ I2 P3) as I3. pose proof (pstep_PInv _ _ I3 P4) as I4.
  pose proof (pstep_PInv _ _ I4 P5) as I5.
  exists s5. split; [|split; [reflexivity|split; [exact I5|]]].
  - eapply reach_step; [|exact P5]. eapply reach_step; [|exact P4]. eapply reach_step; [|exact P3].
    eapply reach_step; [|exact P2]. eapply reach_step; [apply reach_refl|exact P1].
  - destruct I4 as (_ & P & _ & CE & _). destruct I5 as (_ & _ & _ & CE5).
    cbn [ph dv base] in *. unfold s5. cbn [dv]. unfold fsync. rewrite P. cbn [fold_left durable].
    rewrite cells_apply_slot. exact CE.
Qed.

(* Once a quiescent state is reached (flush acknowledged), every crash image of every later state
   recovers to the contents of some quiescent state at or after that acknowledgement: nothing
   acknowledged is lost, no earlier state comes back. *)
Theorem ack_durable s_ack s d :
  PInv s_ack -> ph s_ack = Idle -> reach s_ack s -> crash_image (dv s) d ->
  exists s_i seen, reach s_ack s_i /\ ph s_i = Idle /\ recover d = Some seen /\
    forall k, contents seen k = contents (cells (durable (dv s_i))) k.
Proof.
  intros HA PA R CI.
  assert (HS : PInv s) by (eapply reach_PInv; eauto).
  (* the quiescent states bracketing the transaction in flight *)
  assert (BR : exists sb sa, reach s_ack sb /\ ph sb = Idle /\ cells (durable (dv sb)) = base s /\
                             reach s_ack sa /\ ph sa = Idle /\ (forall k, contents (cells (durable (dv sa))) k = after s k)).
  { clear CI d. induction R as [|s2 s3 R IH ST].
    - exists s_ack, s_ack. destruct HA as (_ & H). rewrite PA in H. destruct H as (_ & _ & CE).
      repeat split; auto using reach_refl. intros k. unfold after. rewrite PA, CE. reflexivity.
    - assert (H2 : PInv s2) by exact (reach_PInv _ _ HA R).
      specialize (IH H2). destruct IH as (sb & sa & Rb & Pb & Cb & Ra & Pa & Ca).
      inversion ST; subst.
      + (* begin: before = this quiescent state, after = the completed transaction *)
        destruct (complete_txn _ t HS eq_refl) as (s' & R' & P' & I' & C').
        exists (mkps v Idle g c b), s'.
        split; [exact R|]. split; [reflexivity|]. split; [reflexivity|].
        split.
        { assert (R3 : reach s_ack (mkps (issue v (WSlot (negb c) (SValid (g + 1) (JActive (t_exts t))))) (ActiveWritten t) g c (cells (durable v))))
            by (eapply reach_step; [exact R|exact ST]).
          clear -R3 R'. induction R' as [|x y R' IH' ST']; [exact R3|eapply reach_step; [exact IH'|exact ST']]. }
        split; [exact P'|].
        intros k. unfold after. cbn [ph base]. rewrite C'. reflexivity.
      + exists sb, sa. repeat split; auto.
      + exists sb, sa. repeat split; auto.
      + exists sb, sa. repeat split; auto.
      + exists sb, sa. repeat split; auto.
      + (* sync3: the transaction is complete: this state is both *)
        exists (mkps (fsync v) Idle (g + 1) (negb c) (cells (durable (fsync v)))),
               (mkps (fsync v) Idle (g + 1) (negb c) (cells (durable (fsync v)))).
        assert (R3 : reach s_ack (mkps (fsync v) Idle (g + 1) (negb c) (cells (durable (fsync v)))))
          by (eapply reach_step; [exact R|exact ST]).
        split; [exact R3|]. split; [reflexivity|]. split; [reflexivity|].
        split; [exact R3|]. split; [reflexivity|]. intros k. reflexivity. }
  destruct BR as (sb & sa & Rb & Pb & Cb & Ra & Pa & Ca).
  destruct (crash_atomic s d HS CI) as (seen & RC & [B|A]).
  - exists sb, seen. repeat split; auto. intros k. rewrite B, Cb. reflexivity.
  - exists sa, seen. repeat split; auto. intros k. rewrite A, Ca. reflexivity.
Qed.

(* ---------------- recovery's own repair (journal replay) is idempotent and restartable ---------------- *)
Definition marker_writes (exts : list nat) : list wr := map (fun i => WCell i CMarker) exts.

Lemma fold_marker_writes exts : forall d,
  fold_left apply_wr (marker_writes exts) d = mkdisk (s0 d) (s1 d) (wipe exts (cells d)).
Proof.
  induction exts as [|i t IH]; intros d; simpl; [destruct d; reflexivity|].
  rewrite IH. reflexivity.
Qed.

Lemma wipe_idem exts : forall l, wipe exts (wipe exts l) = wipe exts l.
Proof.
  intros l. 
  assert (G : forall ws l0, (forall i c, In (i, c) ws -> In i exts) ->
              wipe exts (fold_left (fun l ic => set_nth l (fst ic) (snd ic)) ws l0) = wipe exts l0)
    by (intros; apply wipe_absorbs_writes; auto).
  specialize (G (map (fun i => (i, CMarker)) exts) l).
  assert (E : fold_left (fun l ic => set_nth l (fst ic) (snd ic)) (map (fun i => (i, CMarker)) exts) l = wipe exts l).
  { clear G. revert l. induction exts as [|i t IH]; intros l; simpl; auto. }
  rewrite E in G. apply G. intros i c Hin. apply in_map_iff in Hin. destruct Hin as (j & [= <- <-] & Hj). auto.
Qed.

(* the disk recovery starts from: journal ACTIVE(exts) selected in slot c *)
Definition replay_start (d : disk) (c : bool) (g : N) (exts : list nat) : Prop :=
  slot_of d c = SValid g (JActive exts) /\ older_or_invalid (slot_of d (negb c)) g /\
  junk_free (wipe exts (cells d)).

(* stage 1: marker writes issued, not yet synced.  stage 2: markers durable, clear issued. *)
Definition replay_stage1 (d : disk) (exts : list nat) : dev := mkdev d (marker_writes exts).
Definition replay_stage2 (d : disk) (c : bool) (g : N) (exts : list nat) : dev :=
  mkdev (mkdisk (s0 d) (s1 d) (wipe exts (cells d))) [WSlot (negb c) (SValid (g + 1) JClear)].
Definition replay_done (d : disk) (c : bool) (g : N) (exts : list nat) : disk :=
  apply_wr (mkdisk (s0 d) (s1 d) (wipe exts (cells d))) (WSlot (negb c) (SValid (g + 1) JClear)).

Theorem replay_restartable d c g exts :
  replay_start d c g exts ->
  let seen := wipe exts (cells d) in
  recover d = Some seen /\
  (forall d', crash_image (replay_stage1 d exts) d' -> recover d' = Some seen) /\
  (forall d', crash_image (replay_stage2 d c g exts) d' -> recover d' = Some seen) /\
  recover (replay_done d c g exts) = Some seen /\
  (* the repair writes only cells the recovered contents do not own *)
  (forall i, In i exts -> (i < length (cells d))%nat -> nth i seen CZero = CMarker).
Proof.
  intros (SL & OL & JF) seen. split; [|split; [|split; [|split]]].
  - eapply recover_active; [eapply select_cur; eauto|auto].
  - intros d' CI. unfold crash_image, replay_stage1 in CI. simpl in CI. unfold marker_writes in CI.
    assert (CI' : crash_from d (map (fun ic => WCell (fst ic) (snd ic)) (map (fun i => (i, CMarker)) exts)) d')
      by (rewrite map_map; exact CI).
    assert (HIN : forall i c0, In (i, c0) (map (fun i => (i, CMarker)) exts) -> In i exts).
    { intros i c0 Hin. apply in_map_iff in Hin. destruct Hin as (j & [= <- <-] & Hj). auto. }
    destruct (crash_from_cells exts _ _ _ HIN CI') as (A & B & C).
    unfold seen. rewrite <- C. eapply recover_active.
    + apply (select_cur _ c); unfold slot_of in *; destruct c; simpl in *; rewrite ?A, ?B; eauto.
    + rewrite C. auto.
  - intros d' CI. unfold crash_image, replay_stage2 in CI. simpl in CI.
    set (D2 := mkdisk (s0 d) (s1 d) (wipe exts (cells d))) in *.
    assert (S2 : slot_of D2 c = SValid g (JActive exts) /\ older_or_invalid (slot_of D2 (negb c)) g)
      by (unfold slot_of, D2 in *; destruct c; simpl in *; auto).
    destruct S2 as (SL2 & OL2).
    assert (W2 : wipe exts (cells D2) = seen) by (unfold D2, seen; simpl; apply wipe_idem).
    destruct (crash_from_one _ _ _ CI) as [->|[->| ->]].
    + rewrite <- W2. eapply recover_active; [eapply select_cur; eauto|rewrite W2; auto].
    + apply recover_clear; [|rewrite cells_apply_slot; auto|rewrite cells_apply_slot; reflexivity].
      eexists. apply (select_cur _ (negb c)); [apply slot_of_apply_slot|].
      rewrite Bool.negb_involutive. rewrite <- (Bool.negb_involutive c) at 2.
      rewrite slot_of_apply_slot_other, Bool.negb_involutive. rewrite SL2. simpl. lia.
    + simpl torn. rewrite <- W2. rewrite <- (cells_apply_slot D2 (negb c) SJunk).
      eapply recover_active.
      * apply (select_cur _ c).
        -- rewrite <- (Bool.negb_involutive c) at 2. rewrite slot_of_apply_slot_other, Bool.negb_involutive. eauto.
        -- rewrite slot_of_apply_slot. simpl. auto.
      * rewrite cells_apply_slot, W2. auto.
  - unfold replay_done.
    set (D2 := mkdisk (s0 d) (s1 d) (wipe exts (cells d))) in *.
    assert (SL2 : slot_of D2 c = SValid g (JActive exts)) by (unfold slot_of, D2 in *; destruct c; simpl in *; auto).
    apply recover_clear; [|rewrite cells_apply_slot; auto|rewrite cells_apply_slot; reflexivity].
    eexists. apply (select_cur _ (negb c)); [apply slot_of_apply_slot|].
    rewrite Bool.negb_involutive. rewrite <- (Bool.negb_involutive c) at 2.
    rewrite slot_of_apply_slot_other, Bool.negb_involutive. rewrite SL2. simpl. lia.
  - intros i Hi Hlen. unfold seen. clear -Hi Hlen. revert Hlen. generalize (cells d). 
    induction exts as [|j t IH]; intros l Hlen; [destruct Hi|]. simpl.
    destruct (in_dec Nat.eq_dec i t) as [Hin|Hnin].
    + apply IH; auto. rewrite set_nth_length. auto.
    + destruct Hi as [->|Hi]; [|contradiction].
      (* i is wiped here and not touched again *)
      assert (K : forall t' l', ~ In i t' -> nth i (wipe t' l') CZero = nth i l' CZero).
      { induction t' as [|x t' IH']; intros l' Hn; simpl; auto.
        rewrite IH' by (intros H; apply Hn; right; auto).
        apply nth_set_nth_other. intros ->. apply Hn. left; auto. }
      rewrite K by auto. clear -Hlen. revert i Hlen. induction l as [|h t' IH']; intros [|i] H; simpl in *; auto; try lia.
      apply IH'. lia.
Qed.

(* ---------------- failures (C09) ---------------- *)
(* A write that fails before reaching the device, and an fsync that fails, leave the device state
   (durable, pending) as it was: the set of crash images is unchanged, so every guarantee above
   still holds at that point.  A write that fails after reaching the device is an ordinary
   un-synced write. *)
Theorem failed_call_keeps_crash_images v d : crash_image v d <-> crash_image (mkdev (durable v) (pending v)) d.
Proof. destruct v; simpl. tauto. Qed.

(* Whatever subset of a batch's cell writes reached the device (applied or torn), wiping the
   journaled extents gives the same cells: this is why a failed batch can always be scrubbed back
   to the pre-batch contents, and why a crash before the scrub recovers them. *)
Theorem journaled_writes_are_contained exts ws d d' :
  (forall i c, In (i, c) ws -> In i exts) ->
  crash_from d (map (fun ic => WCell (fst ic) (snd ic)) ws) d' ->
  s0 d' = s0 d /\ s1 d' = s1 d /\ wipe exts (cells d') = wipe exts (cells d).
Proof. apply crash_from_cells. Qed.

(* ---------------- the run-time scrub of a failed batch (C09) ---------------- *)
(* A batch fails while its journal intent ACTIVE(exts) is durable in slot c (any failing write
   or fsync of the record writes).  Some of its cell writes may still be un-synced (`ws`, all
   inside the journaled extents); under the fail-stop model they stay pending and the next
   successful fsync makes them durable.  The scrub (cleanup_failed_allocations -> retire_extents)
   journals ACTIVE(exts) again -- next generation, other slot -- and then does exactly what the
   replay does: markers, fsync, clear, fsync. *)
Definition cellws (ws : list (nat * cell)) : list wr := map (fun ic => WCell (fst ic) (snd ic)) ws.

Definition scrub_stage0 (d : disk) (ws : list (nat * cell)) : dev := mkdev d (cellws ws).
Definition scrub_stage1 (d : disk) (c : bool) (g : N) (exts : list nat) (ws : list (nat * cell)) : dev :=
  mkdev d (cellws ws ++ [WSlot (negb c) (SValid (g + 1) (JActive exts))]).
Definition scrub_synced (d : disk) (c : bool) (g : N) (exts : list nat) (ws : list (nat * cell)) : disk :=
  durable (fsync (scrub_stage1 d c g exts ws)).

Lemma crash_from_app a : forall b d d',
  crash_from d (a ++ b) d' -> exists dm, crash_from d a dm /\ crash_from dm b d'.
Proof.
  induction a as [|w t IH]; intros b d d' H; simpl in H.
  - exists d. split; [constructor | exact H].
  - inversion H as [|? ? ? d1 ? SV CF]; subst.
    destruct (IH _ _ _ CF) as (dm & A & B). exists dm. split; [econstructor; eauto | exact B].
Qed.

Theorem scrub_restartable d c g exts ws :
  replay_start d c g exts -> (forall i cl, In (i, cl) ws -> In i exts) ->
  let seen := wipe exts (cells d) in
  (* at the failure and while the new intent is in flight: every crash image recovers the pre-batch cells *)
  (forall d', crash_image (scrub_stage0 d ws) d' -> recover d' = Some seen) /\
  (forall d', crash_image (scrub_stage1 d c g exts ws) d' -> recover d' = Some seen) /\
  (* once the new intent is durable the situation is the one recovery's replay starts from,
     with the same recovered cells: replay_restartable covers the markers, the clear and the end *)
  replay_start (scrub_synced d c g exts ws) (negb c) (g + 1) exts /\
  wipe exts (cells (scrub_synced d c g exts ws)) = seen.
Proof.
  intros (SL & OL & JF) HIN seen.
  assert (ST0 : forall dm, crash_from d (cellws ws) dm ->
            slot_of dm c = SValid g (JActive exts) /\ older_or_invalid (slot_of dm (negb c)) g /\
            wipe exts (cells dm) = seen).
  { intros dm CF. destruct (crash_from_cells exts _ _ _ HIN CF) as (A & B & C).
    unfold slot_of in *. destruct c; simpl in *; rewrite ?A, ?B; auto. }
  split; [|split; [|split]].
  - intros d' CI. unfold crash_image, scrub_stage0 in CI. simpl in CI.
    destruct (ST0 _ CI) as (S1 & O1 & W1). rewrite <- W1.
    eapply recover_active; [eapply select_cur; eauto | rewrite W1; exact JF].
  - intros d' CI. unfold crash_image, scrub_stage1 in CI. simpl in CI.
    destruct (crash_from_app _ _ _ _ CI) as (dm & CA & CB).
    destruct (ST0 _ CA) as (S1 & O1 & W1).
    destruct (crash_from_one _ _ _ CB) as [->|[->| ->]].
    + rewrite <- W1. eapply recover_active; [eapply select_cur; eauto | rewrite W1; exact JF].
    + rewrite <- W1. rewrite <- (cells_apply_slot dm (negb c) (SValid (g + 1) (JActive exts))).
      eapply recover_active.
      * apply (select_cur _ (negb c)); [apply slot_of_apply_slot|].
        rewrite Bool.negb_involutive. rewrite <- (Bool.negb_involutive c) at 2.
        rewrite slot_of_apply_slot_other, Bool.negb_involutive. rewrite S1. simpl. lia.
      * rewrite cells_apply_slot, W1. exact JF.
    + simpl torn. rewrite <- W1. rewrite <- (cells_apply_slot dm (negb c) SJunk).
      eapply recover_active.
      * apply (select_cur _ c).
        -- rewrite <- (Bool.negb_involutive c) at 2. rewrite slot_of_apply_slot_other, Bool.negb_involutive. exact S1.
        -- rewrite slot_of_apply_slot. simpl. auto.
      * rewrite cells_apply_slot, W1. exact JF.
  - unfold scrub_synced, scrub_stage1, fsync. cbn [durable pending]. rewrite fold_left_app. cbn [fold_left].
    destruct (fold_cell_writes ws d) as (A & B & C). fold (cellws ws) in A, B, C.
    set (D1 := fold_left apply_wr (cellws ws) d) in *.
    assert (W1 : wipe exts (cells D1) = seen) by (rewrite C; apply wipe_absorbs_writes; exact HIN).
    assert (S1 : slot_of D1 c = SValid g (JActive exts)) by (unfold slot_of in *; destruct c; simpl in *; rewrite ?A, ?B; auto).
    split; [|split].
    + apply slot_of_apply_slot.
    + rewrite Bool.negb_involutive.
      replace (slot_of (apply_wr D1 (WSlot (negb c) (SValid (g + 1) (JActive exts)))) c) with (slot_of D1 c)
        by (destruct c; reflexivity).
      rewrite S1. simpl. lia.
    + rewrite cells_apply_slot, W1. exact JF.
  - unfold scrub_synced, scrub_stage1, fsync. cbn [durable pending]. rewrite fold_left_app. cbn [fold_left].
    destruct (fold_cell_writes ws d) as (A & B & C). fold (cellws ws) in C.
    rewrite cells_apply_slot, C. apply wipe_absorbs_writes. exact HIN.
Qed.

(* put together with replay_restartable: from the failure to the end of the scrub, every crash
   image -- and the device as it stands at each fsync -- recovers the cells the batch found, so
   the contents are those before the batch (txn_ok: wiping the journaled extents changes no key) *)
Corollary scrub_preserves_contents d c g exts ws :
  replay_start d c g exts -> (forall i cl, In (i, cl) ws -> In i exts) ->
  let seen := wipe exts (cells d) in
  let d1 := scrub_synced d c g exts ws in
  (forall d', crash_image (scrub_stage0 d ws) d' -> recover d' = Some seen) /\
  (forall d', crash_image (scrub_stage1 d c g exts ws) d' -> recover d' = Some seen) /\
  recover d1 = Some seen /\
  (forall d', crash_image (replay_stage1 d1 exts) d' -> recover d' = Some seen) /\
  (forall d', crash_image (replay_stage2 d1 (negb c) (g + 1) exts) d' -> recover d' = Some seen) /\
  recover (replay_done d1 (negb c) (g + 1) exts) = Some seen.
Proof.
  intros RS HIN seen d1.
  destruct (scrub_restartable d c g exts ws RS HIN) as (A & B & RS1 & W1).
  destruct (replay_restartable d1 (negb c) (g + 1) exts RS1) as (R0 & R1 & R2 & R3 & _).
  fold d1 in W1. rewrite W1 in R0, R1, R2, R3.
  repeat split; assumption.
Qed.
