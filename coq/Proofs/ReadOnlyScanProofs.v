(* C15: the read-only scan (what migrate() runs on its source).  It steps over every extent the
   journal names without looking at a byte of it, and -- on any image, whatever it meets -- it never
   queues an extent for retirement. *)
From Coq Require Import List NArith Bool Lia Arith.
From Feox Require Import Gen.Constants Model.Bytes Model.Crc32c Model.Codec Model.MetaJournal Model.FreeSpace Model.Recovery.
Import ListNotations.
Local Open Scope N_scope.

(* inside the first journaled extent: jump to its end, whatever the blocks hold *)
Theorem read_only_scan_steps_over_a_journaled_extent_unread c version total sector rest rest2 st s n t :
  c_ro c = true -> s <= sector < s + n ->
  scan_step c version total sector rest st ((s, n) :: t) = Ok (Advance (s + n) st t) /\
  scan_step c version total sector rest st ((s, n) :: t) = scan_step c version total sector rest2 st ((s, n) :: t).
Proof.
  intros RO H. unfold scan_step. rewrite RO. cbn [ro_skip].
  destruct (N.ltb_spec sector s); [lia|]. destruct (N.ltb_spec sector (s + n)); [|lia]. split; reflexivity.
Qed.

Lemma fs_release_retired st a n st1 : fs_release st a n = Ok st1 -> rs_retired st1 = rs_retired st.
Proof. unfold fs_release. destruct (release _ _ _) as [[x|e] f']; [|discriminate]. intros [= <-]. reflexivity. Qed.

Lemma gap_retired st sector st4 :
  (if rs_last_end st <? sector then fs_release st (rs_last_end st) (sector - rs_last_end st) else Ok st) = Ok st4 ->
  rs_retired st4 = rs_retired st.
Proof. destruct (_ <? _); [apply fs_release_retired|intros [= <-]; reflexivity]. Qed.

Lemma legacy_skip_same version sector st jl next st' jl' :
  legacy_skip version sector st jl = Ok (Advance next st' jl') -> st' = st.
Proof. unfold legacy_skip. destruct (has_token version); [discriminate|]. intros [= _ <- _]. reflexivity. Qed.

Lemma ro_scan_step_queues_nothing c version total sector rest st jl next st' jl' :
  c_ro c = true ->
  scan_step c version total sector rest st jl = Ok (Advance next st' jl') -> rs_retired st' = rs_retired st.
Proof.
  intros RO. unfold scan_step. rewrite RO.
  destruct (ro_skip jl sector) as [jump jl1].
  destruct jump as [nxt|]; [intros [= _ <- _]; reflexivity|].
  destruct rest as [|data tails]; [discriminate|].
  destruct (list_eqb (firstn 8 data) DELETED_TAG).
  { destruct (negb (has_token version) && all_zero (skipn 8 data)).
    - destruct (negb (c_allow_ambiguous c)); [discriminate|]. intros [= _ <- _]. reflexivity.
    - destruct (negb (marker_token sector data =? u16_at data 16)); [discriminate|]. cbv zeta.
      destruct (U64MAX <? sector + u64_at data 8); [discriminate|].
      destruct ((u64_at data 8 =? 0) || (total <? sector + u64_at data 8)); [discriminate|].
      intros [= _ <- _].
      match goal with |- rs_retired (if ?b then _ else _) = _ => destruct b end; [unfold push_retired; rewrite RO; reflexivity|reflexivity]. }
  destruct (negb (u16_at data 0 =? SECTOR_MARKER)); [intros [= _ <- _]; reflexivity|].
  destruct (negb (header_range_ok version data)); [intros H; rewrite (legacy_skip_same _ _ _ _ _ _ _ H); reflexivity|].
  cbv zeta.
  destruct (_ || _); [discriminate|].
  destruct (parse_head version data) as [[[[[key vlen] ts] exp]|]|]; [| intros H; rewrite (legacy_skip_same _ _ _ _ _ _ _ H); reflexivity|discriminate].
  destruct (_ || _ || _); [intros H; rewrite (legacy_skip_same _ _ _ _ _ _ _ H); reflexivity|].
  destruct (_ || _); [intros H; rewrite (legacy_skip_same _ _ _ _ _ _ _ H); reflexivity|].
  match goal with |- context [if ?b then Rej ECorrupt else _] => destruct b end; [discriminate|].
  match goal with |- context [if negb ?b then Rej ECorrupt else _] => destruct b end; cbn [negb]; [|discriminate].
  destruct (idx_find key (rs_idx st)) as [ex|] eqn:F.
  - destruct (ts <? e_ts ex); [intros [= _ <- _]; unfold push_retired; rewrite RO; reflexivity|].
    destruct (fs_release st (e_sector ex) _) as [st1| |] eqn:R1; cbn [bind]; try discriminate.
    pose proof (fs_release_retired _ _ _ _ R1) as E1.
    unfold push_retired. rewrite RO.
    match goal with |- context [bind ?g _] => destruct g as [st4| |] eqn:G end; cbn [bind]; try discriminate.
    pose proof (gap_retired _ _ _ G) as E4. cbn [rs_retired] in E4.
    intros [= _ <- _]. cbn [rs_retired]. rewrite E4. exact E1.
  - match goal with |- context [bind ?g _] => destruct g as [st4| |] eqn:G end; cbn [bind]; try discriminate.
    pose proof (gap_retired _ _ _ G) as E4.
    intros [= _ <- _]. cbn [rs_retired]. exact E4.
Qed.

(* the whole read-only scan, on any image from any state: nothing is queued for retirement *)
Theorem read_only_scan_queues_nothing c version total img : forall fuel sector st jl st',
  c_ro c = true ->
  scan fuel c version total img sector st jl = Ok st' -> rs_retired st' = rs_retired st.
Proof.
  induction fuel as [|f IH]; intros sector st jl st' RO; cbn [scan].
  - destruct (total <=? sector); [intros [= <-]; reflexivity|discriminate].
  - destruct (total <=? sector); [intros [= <-]; reflexivity|].
    destruct (scan_step c version total sector (skipn (N.to_nat sector) img) st jl) as [[next st1 jl1]| |] eqn:E; cbn [bind]; try discriminate.
    destruct (next <=? sector); [discriminate|]. intros H.
    rewrite (IH _ _ _ _ RO H). exact (ro_scan_step_queues_nothing _ _ _ _ _ _ _ _ _ _ RO E).
Qed.
