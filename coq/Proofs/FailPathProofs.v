(* C09 failure handling / C05 ownership through failures: theorems over Model/FailPath.v for every
   fault oracle (every choice of failing device calls). *)
From Coq Require Import List NArith Bool Lia Arith.
From Feox Require Import Gen.Constants Model.FreeSpace Proofs.FreeSpaceProofs Model.FailPath.
Import ListNotations.
Local Open Scope N_scope.

Definition blk_in (b : N) (x : N * N) : Prop := fst x <= b /\ b < fst x + snd x.
Definition blk_inb (b : N) (x : N * N) : bool := (fst x <=? b) && (b <? fst x + snd x).

Lemma blk_inb_spec b x : blk_inb b x = true <-> blk_in b x.
Proof. unfold blk_inb, blk_in. rewrite andb_true_iff, N.leb_le, N.ltb_lt. tauto. Qed.

(* how many extents of the list contain block b *)
Fixpoint cnt (b : N) (l : list (N * N)) : nat :=
  match l with [] => O | x :: t => ((if blk_inb b x then 1 else 0) + cnt b t)%nat end.

Lemma cnt_app b l1 l2 : cnt b (l1 ++ l2) = (cnt b l1 + cnt b l2)%nat.
Proof. induction l1 as [|x t IH]; cbn; [reflexivity | rewrite IH; lia]. Qed.

Lemma cnt_pos b l : (0 < cnt b l)%nat <-> exists x, In x l /\ blk_in b x.
Proof.
  induction l as [|x t IH]; cbn; [split; [lia | intros [x [[] _]]]|].
  destruct (blk_inb b x) eqn:E.
  - split; [intros _; exists x; split; [left; reflexivity | apply blk_inb_spec; exact E] | lia].
  - rewrite Nat.add_0_l, IH. split.
    + intros [y [Hy Hb]]. exists y. split; [right; exact Hy | exact Hb].
    + intros [y [[<-|Hy] Hb]]; [apply blk_inb_spec in Hb; congruence | exists y; split; assumption].
Qed.

Lemma cnt_zero b l : cnt b l = O <-> forall x, In x l -> ~ blk_in b x.
Proof.
  split.
  - intros H x Hx Hb. assert (0 < cnt b l)%nat by (apply cnt_pos; exists x; split; assumption). lia.
  - intros H. destruct (cnt b l) eqn:E; [reflexivity|]. assert (P : (0 < cnt b l)%nat) by lia.
    apply cnt_pos in P. destruct P as [x [Hx Hb]]. exfalso. exact (H x Hx Hb).
Qed.

Fixpoint sum_blocks (l : list (N * N)) : N := match l with [] => 0 | x :: t => snd x + sum_blocks t end.
Lemma sum_blocks_app l1 l2 : sum_blocks (l1 ++ l2) = sum_blocks l1 + sum_blocks l2.
Proof. induction l1 as [|x t IH]; cbn; [reflexivity | rewrite IH; lia]. Qed.

Definition ext_ok (f : fs) (x : N * N) : Prop := DS <= fst x /\ 0 < snd x /\ fst x + snd x <= dev_sectors f.

(* ---- sorting and coalescing ---- *)
Lemma in_insert_ext x l y : In y (insert_ext x l) <-> y = x \/ In y l.
Proof.
  induction l as [|z t IH]; cbn; [intuition congruence|].
  destruct (fst x <=? fst z); cbn; [intuition congruence | rewrite IH; intuition congruence].
Qed.

Lemma in_sort_exts l y : In y (sort_exts l) <-> In y l.
Proof.
  unfold sort_exts. induction l as [|x t IH]; cbn [fold_right]; [tauto|]. rewrite in_insert_ext, IH. cbn. intuition congruence.
Qed.

Fixpoint sorted_start (l : list (N * N)) : Prop :=
  match l with
  | [] => True
  | x :: t => (forall y, In y t -> fst x <= fst y) /\ sorted_start t
  end.

Lemma insert_ext_sorted x l : sorted_start l -> sorted_start (insert_ext x l).
Proof.
  induction l as [|z t IH]; cbn; intros H; [split; [intros y []|exact I]|].
  destruct H as [H1 H2]. destruct (fst x <=? fst z) eqn:E.
  - apply N.leb_le in E. cbn. split; [|split; assumption].
    intros y [<-|Hy]; [exact E | specialize (H1 y Hy); lia].
  - apply N.leb_gt in E. cbn. split; [|exact (IH H2)].
    intros y Hy. apply in_insert_ext in Hy. destruct Hy as [->|Hy]; [lia | exact (H1 y Hy)].
Qed.

Lemma sort_exts_sorted l : sorted_start (sort_exts l).
Proof. unfold sort_exts. induction l as [|x t IH]; cbn [fold_right]; [exact I | apply insert_ext_sorted; exact IH]. Qed.

Lemma cnt_insert_ext b x l : cnt b (insert_ext x l) = cnt b (x :: l).
Proof.
  induction l as [|z t IH]; cbn; [reflexivity|].
  destruct (fst x <=? fst z); cbn; [reflexivity|]. rewrite IH. cbn. lia.
Qed.

Lemma cnt_sort_exts b l : cnt b (sort_exts l) = cnt b l.
Proof. unfold sort_exts. induction l as [|x t IH]; cbn [fold_right]; [reflexivity|]. rewrite cnt_insert_ext. cbn [cnt]. rewrite IH. reflexivity. Qed.

Lemma sum_insert_ext x l : sum_blocks (insert_ext x l) = snd x + sum_blocks l.
Proof. induction l as [|z t IH]; cbn; [lia|]. destruct (fst x <=? fst z); cbn; [lia | rewrite IH; lia]. Qed.

Lemma sum_sort_exts l : sum_blocks (sort_exts l) = sum_blocks l.
Proof. unfold sort_exts. induction l as [|x t IH]; cbn [fold_right]; [reflexivity|]. rewrite sum_insert_ext, IH. reflexivity. Qed.

(* separated groups: each ends strictly before the next begins *)
Fixpoint separated (l : list (N * N)) : Prop :=
  match l with
  | [] => True
  | x :: t => 0 < snd x /\ (forall y, In y t -> fst x + snd x < fst y) /\ separated t
  end.

(* the result of coalescing a start-sorted list of positive extents none of whose blocks is
   covered twice: same blocks, same total, separated groups whose starts are starts of the input *)
Lemma coalesce_spec l :
  sorted_start l -> (forall x, In x l -> 0 < snd x) -> (forall b, (cnt b l <= 1)%nat) ->
  exists g, coalesce l = Some g /\ separated g /\ sum_blocks g = sum_blocks l /\
    (forall b, (0 < cnt b g)%nat <-> (0 < cnt b l)%nat) /\
    (forall y, In y g -> exists x, In x l /\ fst x = fst y) /\
    (forall y, In y g -> exists x, In x l /\ fst x + snd x = fst y + snd y) /\
    (match l, g with x :: _, y :: _ => fst y = fst x | [], [] => True | _, _ => False end).
Proof.
  induction l as [|x t IH]; intros Hs Hp Hc.
  - exists []. cbn. repeat split; try tauto; intros y [].
  - destruct Hs as [Hs1 Hs2].
    assert (Hc' : forall b, (cnt b t <= 1)%nat) by (intros b; specialize (Hc b); cbn in Hc; lia).
    destruct (IH Hs2 (fun y Hy => Hp y (or_intror Hy)) Hc') as (g & Eg & Sg & Sum & Blk & St & En & Hd).
    pose proof (Hp x (or_introl eq_refl)) as Px.
    cbn [coalesce]. rewrite Eg. destruct g as [|y r].
    + destruct t as [|t0 tt]; [|contradiction].
      exists [x]. split; [reflexivity|].
      split; [cbn; split; [exact Px | split; [intros y [] | exact I]]|].
      split; [reflexivity|]. split; [intros b; tauto|].
      split; [intros y [<-|[]]; exists x; split; [left; reflexivity | reflexivity]|].
      split; [intros y [<-|[]]; exists x; split; [left; reflexivity | reflexivity]|]. reflexivity.
    + destruct t as [|t0 tt]; [contradiction|]. cbn in Hd.
      (* fst y = fst t0, and t0 starts at or after x *)
      assert (Hxy : fst x <= fst y) by (rewrite Hd; apply Hs1; left; reflexivity).
      destruct (fst y <? fst x + snd x) eqn:E1.
      * (* overlap: block fst y would be covered twice *)
        exfalso. apply N.ltb_lt in E1. specialize (Hc (fst y)). cbn [cnt] in Hc.
        assert (A : blk_inb (fst y) x = true) by (apply blk_inb_spec; split; lia).
        assert (B : (0 < cnt (fst y) (t0 :: tt))%nat).
        { apply cnt_pos. exists t0. split; [left; reflexivity|]. pose proof (Hp t0 (or_intror (or_introl eq_refl))). split; lia. }
        rewrite A in Hc. cbn [cnt] in B. lia.
      * apply N.ltb_ge in E1. destruct Sg as (Py & Sy & Sr).
        destruct (fst y =? fst x + snd x) eqn:E2.
        -- apply N.eqb_eq in E2. exists ((fst x, snd x + snd y) :: r). split; [reflexivity|]. cbn [fst snd].
           split; [|split; [|split; [|split; [|split]]]].
           ++ cbn. split; [lia|]. split; [|exact Sr]. intros z Hz. cbn. specialize (Sy z Hz). lia.
           ++ cbn in Sum |- *. lia.
           ++ intros b. specialize (Blk b). cbn [cnt] in Blk |- *.
              assert (M : blk_inb b (fst x, snd x + snd y) = blk_inb b x || blk_inb b y).
              { unfold blk_inb. cbn [fst snd]. destruct (fst x <=? b) eqn:A1, (b <? fst x + (snd x + snd y)) eqn:A2,
                  (b <? fst x + snd x) eqn:A3, (fst y <=? b) eqn:A4, (b <? fst y + snd y) eqn:A5; cbn; try reflexivity; exfalso;
                  rewrite ?N.leb_le, ?N.leb_gt, ?N.ltb_lt, ?N.ltb_ge in *; lia. }
              rewrite M. destruct (blk_inb b x), (blk_inb b y); cbn in *; lia.
           ++ intros z [<-|Hz]; cbn.
              ** exists x. split; [left; reflexivity | reflexivity].
              ** destruct (St z (or_intror Hz)) as [w [Hw Ew]]. exists w. split; [right; exact Hw | exact Ew].
           ++ intros z [<-|Hz]; cbn.
              ** destruct (En y (or_introl eq_refl)) as [w [Hw Ew]]. exists w. split; [right; exact Hw | lia].
              ** destruct (En z (or_intror Hz)) as [w [Hw Ew]]. exists w. split; [right; exact Hw | exact Ew].
           ++ reflexivity.
        -- apply N.eqb_neq in E2. exists (x :: y :: r). split; [reflexivity|].
           split; [|split; [|split; [|split; [|split]]]].
           ++ cbn. split; [exact Px|]. split; [|split; [exact Py | split; [exact Sy | exact Sr]]].
              intros z [<-|Hz]; [lia | specialize (Sy z Hz); lia].
           ++ cbn in Sum |- *. lia.
           ++ intros b. specialize (Blk b). cbn [cnt] in Blk |- *. destruct (blk_inb b x); lia.
           ++ intros z [<-|Hz]; [exists x; split; [left; reflexivity | reflexivity]|].
              destruct (St z Hz) as [w [Hw Ew]]. exists w. split; [right; exact Hw | exact Ew].
           ++ intros z [<-|Hz]; [exists x; split; [left; reflexivity | reflexivity]|].
              destruct (En z Hz) as [w [Hw Ew]]. exists w. split; [right; exact Hw | exact Ew].
           ++ reflexivity.
Qed.

(* ---- the allocator side ---- *)
Lemma dev_sectors_same f f' : dev_bytes f' = dev_bytes f -> dev_sectors f' = dev_sectors f.
Proof. unfold dev_sectors. intros ->. reflexivity. Qed.

Lemma free_in_data f b : Inv f -> free f b -> DS <= b /\ b < dev_sectors f.
Proof. intros I H. exact (freel_ge _ _ _ _ (inv_wf _ I) H). Qed.

Lemma separated_not_in x t b : separated (x :: t) -> blk_in b x -> cnt b t = O.
Proof.
  intros (Px & Sx & St) [B1 B2]. apply cnt_zero. intros y Hy [C1 C2]. specialize (Sx y Hy). lia.
Qed.

Lemma release_groups_ok groups : forall f u,
  Inv f -> separated groups ->
  (forall g, In g groups -> DS <= fst g /\ fst g + snd g <= dev_sectors f) ->
  (forall g b, In g groups -> blk_in b g -> ~ free f b) ->
  exists f', release_groups f u groups = (f', u - sum_blocks groups, true) /\ Inv f' /\ dev_bytes f' = dev_bytes f /\
             forall b, free f' b <-> free f b \/ (0 < cnt b groups)%nat.
Proof.
  induction groups as [|g t IH]; intros f u I S Hb Hn.
  - exists f. cbn. rewrite N.sub_0_r. split; [reflexivity|]. split; [exact I|]. split; [reflexivity|].
    intros b. split; [intros H; left; exact H | intros [H|H]; [exact H | lia]].
  - cbn [release_groups sum_blocks]. destruct S as (Pg & Sg & St).
    destruct (Hb g (or_introl eq_refl)) as [B1 B2].
    assert (Rok : release_ok (fst g) (snd g) f).
    { unfold release_ok. repeat split; try assumption. intros b Hbk. apply (Hn g b (or_introl eq_refl)). unfold blk_in. lia. }
    destruct (release_cases (fst g) (snd g) f I) as [[e [_ Hno]]|[f1 [E1 [_ (I1 & D1 & F1)]]]]; [contradiction|].
    rewrite E1.
    destruct (IH f1 (u - snd g) I1 St) as (f' & E' & I' & D' & F').
    + intros g' Hg'. rewrite (dev_sectors_same _ _ D1). apply Hb. right. exact Hg'.
    + intros g' b Hg' Hbk Hf. apply F1 in Hf. destruct Hf as [Hf|Hf]; [exact (Hn g' b (or_intror Hg') Hbk Hf)|].
      specialize (Sg g' Hg'). destruct Hbk. lia.
    + exists f'. rewrite E'. split; [f_equal; f_equal; lia|]. split; [exact I'|]. split; [congruence|].
      intros b. rewrite F', F1. cbn [cnt]. destruct (blk_inb b g) eqn:Eb.
      * apply blk_inb_spec in Eb. destruct Eb. split; [intros _; right; lia | intros _; left; right; lia].
      * assert (~ (fst g <= b < fst g + snd g)) by (intros [A B]; assert (blk_inb b g = true) by (apply blk_inb_spec; split; assumption); congruence).
        split; [intros [[H0|H0]|H0]; [left; exact H0 | contradiction | right; exact H0] | intros [H0|H0]; [left; left; exact H0 | right; lia]].
Qed.

Lemma exts_of_app l1 l2 : exts_of (l1 ++ l2) = exts_of l1 ++ exts_of l2.
Proof. induction l1 as [|e t IH]; cbn; [reflexivity|]. destruct (ext_of e); cbn; rewrite IH; reflexivity. Qed.

(* the ownership core: allocator + the extents held by queued entries (q) and published records (D) *)
Definition flags_ok (e : pent) : Prop :=
  0 < pe_blocks e /\ (pe_res e = None -> pe_dirty e = false /\ pe_quar e = false) /\ (pe_quar e = true -> pe_dirty e = true).

Record Core (f : fs) (u : N) (q : list pent) (D : list (N * N)) : Prop := {
  co_fs : Inv f;
  co_one : forall b, (cnt b (exts_of q ++ D) <= 1)%nat;
  co_part : forall b, DS <= b < dev_sectors f -> (free f b <-> cnt b (exts_of q ++ D) = O);
  co_ext : forall x, In x (exts_of q ++ D) -> ext_ok f x;
  co_usage : u = sum_blocks (exts_of q ++ D);
  co_flags : forall e, In e q -> flags_ok e
}.

Lemma core_not_free f u q D b : Core f u q D -> (0 < cnt b (exts_of q ++ D))%nat -> ~ free f b.
Proof.
  intros C H Hf. pose proof (free_in_data f b (co_fs _ _ _ _ C) Hf) as Hd.
  apply (co_part _ _ _ _ C b Hd) in Hf. lia.
Qed.

Lemma in_exts_of e l s : In e l -> pe_res e = Some s -> In (s, pe_blocks e) (exts_of l).
Proof.
  induction l as [|x t IH]; [intros []|]. intros [<-|H] Hr; cbn.
  - unfold ext_of. rewrite Hr. left. reflexivity.
  - destruct (ext_of x); [right|]; exact (IH H Hr).
Qed.

Lemma exts_of_in x l : In x (exts_of l) -> exists e, In e l /\ pe_res e = Some (fst x) /\ pe_blocks e = snd x.
Proof.
  induction l as [|e t IH]; cbn; [intros []|]. unfold ext_of at 1. destruct (pe_res e) as [s|] eqn:R.
  - intros [<-|H]; [exists e; split; [left; reflexivity | split; [exact R | reflexivity]]|].
    destruct (IH H) as [e' [A B]]. exists e'. split; [right; exact A | exact B].
  - intros H. destruct (IH H) as [e' [A B]]. exists e'. split; [right; exact A | exact B].
Qed.

Lemma exts_of_cons_some e t s : pe_res e = Some s -> exts_of (e :: t) = (s, pe_blocks e) :: exts_of t.
Proof. intros H. cbn. unfold ext_of. rewrite H. reflexivity. Qed.
Lemma exts_of_cons_none e t : pe_res e = None -> exts_of (e :: t) = exts_of t.
Proof. intros H. cbn. unfold ext_of. rewrite H. reflexivity. Qed.

(* alloc_all *)
Lemma alloc_all_spec D : forall todo acc f u f' u' q' fits,
  Core f u (rev acc ++ todo) D ->
  alloc_all f u acc todo = ((f', u', q'), fits) ->
  Core f' u' q' D /\ dev_bytes f' = dev_bytes f /\ map pe_id q' = map pe_id (rev acc ++ todo) /\
  (fits = true -> (forall e, In e acc -> pe_res e <> None) -> forall e, In e q' -> pe_res e <> None) /\
  (forall e, In e (rev acc ++ todo) -> pe_res e <> None -> In e q').
Proof.
  induction todo as [|e t IH]; intros acc f u f' u' q' fits C H; cbn [alloc_all] in H.
  - inversion H; subst. rewrite app_nil_r in *. split; [exact C|]. split; [reflexivity|]. split; [reflexivity|].
    split; [intros _ Ha e He; apply Ha; apply in_rev; exact He | intros e He _; exact He].
  - destruct (pe_res e) as [s|] eqn:R.
    + assert (Eq : rev acc ++ e :: t = rev (e :: acc) ++ t) by (cbn; rewrite <- app_assoc; reflexivity).
      rewrite Eq in C. destruct (IH (e :: acc) f u f' u' q' fits C H) as (A & B & Cc & Dd & Ee).
      split; [exact A|]. split; [exact B|]. split; [rewrite Cc, Eq; reflexivity|].
      split; [|rewrite Eq; exact Ee].
      intros Hf Ha. apply (Dd Hf). intros e0 [<-|H0]; [congruence | exact (Ha e0 H0)].
    + destruct (alloc_cases (pe_blocks e) f (co_fs _ _ _ _ C)) as [[Z E]|[[P [_ E]]|[P [a [f1 [E Post]]]]]]; rewrite E in H.
      * inversion H; subst. split; [exact C|]. split; [reflexivity|]. split; [reflexivity|].
        split; [discriminate | intros e0 He _; exact He].
      * inversion H; subst. split; [exact C|]. split; [reflexivity|]. split; [reflexivity|].
        split; [discriminate | intros e0 He _; exact He].
      * destruct Post as (A1 & A2 & A3 & I1 & D1 & F1).
        set (e1 := mkpe (pe_id e) (pe_blocks e) (Some a) false false) in *.
        assert (Eq : rev acc ++ e1 :: t = rev (e1 :: acc) ++ t) by (cbn; rewrite <- app_assoc; reflexivity).
        assert (X1 : forall b, cnt b (exts_of (rev acc ++ e1 :: t) ++ D) = ((if blk_inb b (a, pe_blocks e) then 1 else 0) + cnt b (exts_of (rev acc ++ e :: t) ++ D))%nat).
        { intros b. rewrite !exts_of_app, !cnt_app. rewrite (exts_of_cons_none e t R), (exts_of_cons_some e1 t a eq_refl). cbn [cnt pe_blocks e1]. lia. }
        assert (C1 : Core f1 (u + pe_blocks e) (rev acc ++ e1 :: t) D).
        { split.
          - exact I1.
          - intros b. rewrite X1. destruct (blk_inb b (a, pe_blocks e)) eqn:Eb; [|exact (co_one _ _ _ _ C b)].
            apply blk_inb_spec in Eb. unfold blk_in in Eb. cbn in Eb.
            assert (Hfree : free f b) by (apply A3; lia).
            pose proof (free_in_data f b (co_fs _ _ _ _ C) Hfree) as Hd.
            apply (co_part _ _ _ _ C b Hd) in Hfree. lia.
          - intros b Hb. rewrite (dev_sectors_same _ _ D1) in Hb. rewrite X1, F1, (co_part _ _ _ _ C b Hb).
            destruct (blk_inb b (a, pe_blocks e)) eqn:Eb.
            + apply blk_inb_spec in Eb. unfold blk_in in Eb. cbn in Eb. split; [intros [_ Hn]; exfalso; apply Hn; lia | lia].
            + split; [intros [Hz _]; lia|]. intros Hz. split; [lia|]. intros Hr. 
              assert (blk_inb b (a, pe_blocks e) = true) by (apply blk_inb_spec; unfold blk_in; cbn; lia). congruence.
          - intros x Hx. rewrite exts_of_app, (exts_of_cons_some e1 t a eq_refl) in Hx. cbn [pe_blocks e1] in Hx.
            unfold ext_ok. rewrite (dev_sectors_same _ _ D1).
            assert (Hcase : x = (a, pe_blocks e) \/ In x (exts_of (rev acc ++ e :: t) ++ D)).
            { rewrite exts_of_app, (exts_of_cons_none e t R).
              apply in_app_or in Hx. destruct Hx as [Hx|Hx]; [apply in_app_or in Hx; destruct Hx as [Hx|[Hx|Hx]]|].
              - right. apply in_or_app. left. apply in_or_app. left. exact Hx.
              - left. symmetry. exact Hx.
              - right. apply in_or_app. left. apply in_or_app. right. exact Hx.
              - right. apply in_or_app. right. exact Hx. }
            destruct Hcase as [->|Hx']; [cbn; lia | exact (co_ext _ _ _ _ C x Hx')].
          - rewrite (co_usage _ _ _ _ C). rewrite !exts_of_app, !sum_blocks_app. rewrite (exts_of_cons_none e t R), (exts_of_cons_some e1 t a eq_refl).
            cbn [e1 pe_blocks sum_blocks snd]. lia.
          - intros e0 He0. apply in_app_or in He0. destruct He0 as [He0|[<-|He0]].
            + apply (co_flags _ _ _ _ C). apply in_or_app. left. exact He0.
            + pose proof (co_flags _ _ _ _ C e (in_or_app _ (e :: t) e (or_intror (or_introl eq_refl)))) as (F0 & _).
              unfold flags_ok, e1. cbn. split; [exact F0|]. split; [discriminate | discriminate].
            + apply (co_flags _ _ _ _ C). apply in_or_app. right. right. exact He0. }
        rewrite Eq in C1. destruct (IH (e1 :: acc) f1 (u + pe_blocks e) f' u' q' fits C1 H) as (A & B & Cc & Dd & Ee).
        split; [exact A|]. split; [congruence|].
        split; [rewrite Cc, <- Eq, !map_app; cbn; reflexivity|].
        split.
        -- intros Hf Ha. apply (Dd Hf). intros e0 [<-|H0]; [cbn; discriminate | exact (Ha e0 H0)].
        -- intros e0 He0 Hr. apply Ee; [|exact Hr]. rewrite <- Eq. apply in_app_or in He0. destruct He0 as [He0|[<-|He0]].
           ++ apply in_or_app. left. exact He0.
           ++ congruence.
           ++ apply in_or_app. right. right. exact He0.
Qed.

(* removing one owned extent from the core after the allocator took it back *)
Lemma core_release f u D pre e t s f1 :
  Core f u (pre ++ e :: t) D -> pe_res e = Some s ->
  release s (pe_blocks e) f = (FOk tt, f1) -> release_post s (pe_blocks e) f f1 ->
  Core f1 (u - pe_blocks e) (pre ++ mkpe (pe_id e) (pe_blocks e) None false false :: t) D.
Proof.
  intros C R E (I1 & D1 & F1).
  set (e0 := mkpe (pe_id e) (pe_blocks e) None false false).
  assert (X : forall b, cnt b (exts_of (pre ++ e :: t) ++ D) = ((if blk_inb b (s, pe_blocks e) then 1 else 0) + cnt b (exts_of (pre ++ e0 :: t) ++ D))%nat).
  { intros b. rewrite !exts_of_app, !cnt_app, (exts_of_cons_some e t s R), (exts_of_cons_none e0 t eq_refl). cbn [cnt]. lia. }
  assert (Hin : In (s, pe_blocks e) (exts_of (pre ++ e :: t) ++ D)).
  { apply in_or_app. left. apply in_exts_of; [apply in_or_app; right; left; reflexivity | exact R]. }
  destruct (co_ext _ _ _ _ C _ Hin) as (B1 & B2 & B3). cbn [fst snd] in *.
  split.
  - exact I1.
  - intros b. pose proof (co_one _ _ _ _ C b) as H. rewrite X in H. lia.
  - intros b Hb. rewrite (dev_sectors_same _ _ D1) in Hb. rewrite F1, (co_part _ _ _ _ C b Hb), X.
    pose proof (co_one _ _ _ _ C b) as H1. rewrite X in H1.
    destruct (blk_inb b (s, pe_blocks e)) eqn:Eb.
    + apply blk_inb_spec in Eb. unfold blk_in in Eb. cbn in Eb. split; [intros _; lia | intros _; right; lia].
    + assert (~ (s <= b < s + pe_blocks e)) by (intros [A B]; assert (blk_inb b (s, pe_blocks e) = true) by (apply blk_inb_spec; unfold blk_in; cbn; lia); congruence).
      split; [intros [H0|H0]; [lia | contradiction] | intros H0; left; lia].
  - intros x Hx. unfold ext_ok. rewrite (dev_sectors_same _ _ D1). apply (co_ext _ _ _ _ C).
    rewrite exts_of_app, (exts_of_cons_none e0 t eq_refl) in Hx. rewrite exts_of_app, (exts_of_cons_some e t s R).
    apply in_app_or in Hx. destruct Hx as [Hx|Hx]; [apply in_app_or in Hx; destruct Hx as [Hx|Hx]|].
    + apply in_or_app. left. apply in_or_app. left. exact Hx.
    + apply in_or_app. left. apply in_or_app. right. right. exact Hx.
    + apply in_or_app. right. exact Hx.
  - rewrite (co_usage _ _ _ _ C). rewrite !exts_of_app, !sum_blocks_app, (exts_of_cons_some e t s R), (exts_of_cons_none e0 t eq_refl). cbn [sum_blocks snd]. lia.
  - intros x Hx. apply in_app_or in Hx. destruct Hx as [Hx|[<-|Hx]].
    + apply (co_flags _ _ _ _ C). apply in_or_app. left. exact Hx.
    + pose proof (co_flags _ _ _ _ C e (in_or_app _ (e :: t) e (or_intror (or_introl eq_refl)))) as (F0 & _).
      unfold flags_ok, e0. cbn. split; [exact F0|]. split; [intros _; split; reflexivity | discriminate].
    + apply (co_flags _ _ _ _ C). apply in_or_app. right. right. exact Hx.
Qed.

Lemma core_release_ok f u D pre e t s :
  Core f u (pre ++ e :: t) D -> pe_res e = Some s -> release_ok s (pe_blocks e) f.
Proof.
  intros C R.
  assert (Hin : In (s, pe_blocks e) (exts_of (pre ++ e :: t) ++ D)).
  { apply in_or_app. left. apply in_exts_of; [apply in_or_app; right; left; reflexivity | exact R]. }
  destruct (co_ext _ _ _ _ C _ Hin) as (B1 & B2 & B3). cbn [fst snd] in *.
  unfold release_ok. repeat split; try assumption.
  intros b Hb. apply (core_not_free f u _ D b C). apply cnt_pos. exists (s, pe_blocks e). split; [exact Hin | unfold blk_in; cbn; lia].
Qed.

(* release_allocations *)
Lemma release_clean_spec D : forall l pre f u f' u' l',
  Core f u (pre ++ l) D -> release_clean f u l = (f', u', l') ->
  Core f' u' (pre ++ l') D /\ dev_bytes f' = dev_bytes f /\ map pe_id l' = map pe_id l /\
  (forall e, In e l -> pe_dirty e = true -> In e l') /\
  (forall e, In e l' -> pe_res e <> None -> In e l /\ pe_dirty e = true).
Proof.
  induction l as [|e t IH]; intros pre f u f' u' l' C H; cbn [release_clean] in H.
  - inversion H; subst. split; [exact C|]. split; [reflexivity|]. split; [reflexivity|]. split; [intros e [] | intros e []].
  - assert (Eq : forall x, pre ++ x :: t = (pre ++ [x]) ++ t) by (intros x; rewrite <- app_assoc; reflexivity).
    destruct (pe_res e) as [s|] eqn:R.
    + destruct (pe_dirty e) eqn:Dy.
      * destruct (release_clean f u t) as [[f2 u2] t2] eqn:E2. inversion H; subst.
        rewrite Eq in C. destruct (IH (pre ++ [e]) f u f' u' t2 C E2) as (A & B & Cc & Dd & Ee).
        rewrite <- app_assoc in A; cbn [app] in A. split; [exact A|]. split; [exact B|]. split; [cbn; rewrite Cc; reflexivity|]. split.
        -- intros x [<-|Hx] Hd; [left; reflexivity | right; exact (Dd x Hx Hd)].
        -- intros x [<-|Hx] Hr; [split; [left; reflexivity | exact Dy] | destruct (Ee x Hx Hr); split; [right; assumption | assumption]].
      * pose proof (core_release_ok f u D pre e t s C R) as Rok.
        destruct (release_cases s (pe_blocks e) f (co_fs _ _ _ _ C)) as [[er [_ Hno]]|[f1 [E1 [_ Post]]]]; [contradiction|].
        rewrite E1 in H.
        destruct (release_clean f1 (u - pe_blocks e) t) as [[f2 u2] t2] eqn:E2. inversion H; subst.
        pose proof (core_release f u D pre e t s f1 C R E1 Post) as C1.
        destruct Post as (_ & D1 & _).
        rewrite Eq in C1. destruct (IH (pre ++ [_]) f1 (u - pe_blocks e) f' u' t2 C1 E2) as (A & B & Cc & Dd & Ee).
        rewrite <- app_assoc in A; cbn [app] in A. split; [exact A|]. split; [congruence|]. split; [cbn; rewrite Cc; reflexivity|]. split.
        -- intros x [<-|Hx] Hd; [congruence | right; exact (Dd x Hx Hd)].
        -- intros x [<-|Hx] Hr; [cbn in Hr; congruence | destruct (Ee x Hx Hr); split; [right; assumption | assumption]].
    + destruct (release_clean f u t) as [[f2 u2] t2] eqn:E2. inversion H; subst.
      rewrite Eq in C. destruct (IH (pre ++ [e]) f u f' u' t2 C E2) as (A & B & Cc & Dd & Ee).
      rewrite <- app_assoc in A; cbn [app] in A. split; [exact A|]. split; [exact B|]. split; [cbn; rewrite Cc; reflexivity|]. split.
      -- intros x [<-|Hx] Hd; [left; reflexivity | right; exact (Dd x Hx Hd)].
      -- intros x [<-|Hx] Hr; [congruence | destruct (Ee x Hx Hr); split; [right; assumption | assumption]].
Qed.

(* ---- scrub bookkeeping ---- *)
Definition scrubbable (batch : list pent) : list pent := filter (fun e => negb (pe_quar e)) batch.

Lemma cnt_scrub_split b batch :
  cnt b (exts_of batch) = (cnt b (exts_of (scrubbable batch)) + cnt b (exts_of (map clear_scrubbed batch)))%nat.
Proof.
  unfold scrubbable. induction batch as [|e t IH]; [reflexivity|]. cbn [filter map].
  unfold clear_scrubbed at 1. destruct (pe_quar e) eqn:Q; cbn [negb].
  - destruct (pe_res e) as [s|] eqn:R.
    + rewrite !(exts_of_cons_some e _ s R). cbn [cnt]. rewrite IH. lia.
    + rewrite !(exts_of_cons_none e _ R). exact IH.
  - rewrite (exts_of_cons_none (mkpe (pe_id e) (pe_blocks e) None false false) _ eq_refl).
    destruct (pe_res e) as [s|] eqn:R.
    + rewrite !(exts_of_cons_some e _ s R). cbn [cnt]. rewrite IH. lia.
    + rewrite !(exts_of_cons_none e _ R). exact IH.
Qed.

Lemma sum_scrub_split batch :
  sum_blocks (exts_of batch) = sum_blocks (exts_of (scrubbable batch)) + sum_blocks (exts_of (map clear_scrubbed batch)).
Proof.
  unfold scrubbable. induction batch as [|e t IH]; [reflexivity|]. cbn [filter map].
  unfold clear_scrubbed at 1. destruct (pe_quar e) eqn:Q; cbn [negb].
  - destruct (pe_res e) as [s|] eqn:R.
    + rewrite !(exts_of_cons_some e _ s R). cbn [sum_blocks]. rewrite IH. lia.
    + rewrite !(exts_of_cons_none e _ R). exact IH.
  - rewrite (exts_of_cons_none (mkpe (pe_id e) (pe_blocks e) None false false) _ eq_refl).
    destruct (pe_res e) as [s|] eqn:R.
    + rewrite !(exts_of_cons_some e _ s R). cbn [sum_blocks]. rewrite IH. lia.
    + rewrite !(exts_of_cons_none e _ R). exact IH.
Qed.

Lemma in_exts_sub x batch : In x (exts_of (scrubbable batch)) \/ In x (exts_of (map clear_scrubbed batch)) -> In x (exts_of batch).
Proof.
  intros H. unfold scrubbable in H. induction batch as [|e t IH]; [destruct H as [[]|[]]|]. cbn [filter map] in H.
  unfold clear_scrubbed at 1 in H. destruct (pe_quar e) eqn:Q; cbn [negb] in H.
  - destruct (pe_res e) as [s|] eqn:R.
    + rewrite !(exts_of_cons_some e _ s R) in *. cbn [In] in *. destruct H as [H|[H|H]]; [right; apply IH; left; exact H | left; exact H | right; apply IH; right; exact H].
    + rewrite !(exts_of_cons_none e _ R) in *. exact (IH H).
  - rewrite (exts_of_cons_none (mkpe (pe_id e) (pe_blocks e) None false false) _ eq_refl) in H.
    destruct (pe_res e) as [s|] eqn:R.
    + rewrite !(exts_of_cons_some e _ s R) in *. cbn [In] in *. destruct H as [[H|H]|H]; [left; exact H | right; apply IH; left; exact H | right; apply IH; right; exact H].
    + rewrite !(exts_of_cons_none e _ R) in *. exact (IH H).
Qed.

Lemma in_exts_split x batch : In x (exts_of batch) -> In x (exts_of (scrubbable batch)) \/ In x (exts_of (map clear_scrubbed batch)).
Proof.
  unfold scrubbable. induction batch as [|e t IH]; [intros []|]. cbn [filter map].
  unfold clear_scrubbed at 1. destruct (pe_quar e) eqn:Q; cbn [negb].
  - destruct (pe_res e) as [s|] eqn:R.
    + rewrite !(exts_of_cons_some e _ s R). cbn [In]. intros [H|H]; [right; left; exact H | destruct (IH H); [left | right; right]; assumption].
    + rewrite !(exts_of_cons_none e _ R). exact IH.
  - rewrite (exts_of_cons_none (mkpe (pe_id e) (pe_blocks e) None false false) _ eq_refl).
    destruct (pe_res e) as [s|] eqn:R.
    + rewrite !(exts_of_cons_some e _ s R). cbn [In]. intros [H|H]; [left; left; exact H | destruct (IH H); [left; right | right]; assumption].
    + rewrite !(exts_of_cons_none e _ R). exact IH.
Qed.

Lemma ext_of_quarantine e : ext_of (quarantine e) = ext_of e.
Proof. unfold quarantine, ext_of. destruct (pe_res e) eqn:R; cbn; rewrite ?R; reflexivity. Qed.

Lemma exts_of_quarantine batch : exts_of (map quarantine batch) = exts_of batch.
Proof. induction batch as [|e t IH]; [reflexivity|]. cbn [map exts_of]. rewrite ext_of_quarantine, IH. reflexivity. Qed.

Lemma exts_of_mark_dirty q : exts_of (map mark_dirty q) = exts_of q.
Proof. induction q as [|e t IH]; [reflexivity|]. cbn [map exts_of]. rewrite IH. reflexivity. Qed.

Lemma in_group_spec s groups : in_group s groups = true <-> (0 < cnt s groups)%nat.
Proof.
  unfold in_group. rewrite existsb_exists, cnt_pos. split; intros [g [Hg Hb]]; exists g; (split; [exact Hg|]).
  - apply blk_inb_spec. exact Hb.
  - apply blk_inb_spec in Hb. exact Hb.
Qed.

Lemma in_remove_exts gone l x : In x (remove_exts gone l) -> In x l /\ in_group (fst x) gone = false.
Proof.
  induction l as [|y t IH]; cbn; [intros []|]. destruct (in_group (fst y) gone) eqn:E.
  - intros H. destruct (IH H). split; [right|]; assumption.
  - intros [<-|H]; [split; [left; reflexivity | exact E] | destruct (IH H); split; [right|]; assumption].
Qed.

(* ---- device calls only advance the call counter ---- *)
Section WithOracle.
Variable fault : N -> bool.

Definition sbc (st st' : fstate) : Prop :=
  f_fs st' = f_fs st /\ f_queue st' = f_queue st /\ f_durable st' = f_durable st /\ f_usage st' = f_usage st /\
  f_poison st' = f_poison st /\ f_maydata st' = f_maydata st.

Lemma sbc_refl st : sbc st st. Proof. repeat split. Qed.
Lemma sbc_trans a b c : sbc a b -> sbc b c -> sbc a c.
Proof. unfold sbc. intros (A1 & A2 & A3 & A4 & A5 & A6) (B1 & B2 & B3 & B4 & B5 & B6). repeat split; congruence. Qed.

Lemma call_sbc st : sbc st (snd (call fault st)). Proof. cbn. repeat split. Qed.

Lemma write_and_sync_sbc st : sbc st (snd (write_and_sync fault st)).
Proof.
  unfold write_and_sync. destruct (call fault st) as [ok1 st1] eqn:E. pose proof (call_sbc st) as H. rewrite E in H. cbn in H.
  destruct ok1; [|exact H]. eapply sbc_trans; [exact H | apply call_sbc].
Qed.

Lemma writes_sbc n : forall st, sbc st (snd (writes fault n st)).
Proof.
  induction n as [|k IH]; intros st; cbn [writes]; [apply sbc_refl|].
  destruct (call fault st) as [ok st1] eqn:E. pose proof (call_sbc st) as H. rewrite E in H. cbn in H.
  destruct ok; [eapply sbc_trans; [exact H | apply IH] | exact H].
Qed.

Lemma writes_and_sync_sbc n st : sbc st (snd (writes_and_sync fault n st)).
Proof.
  unfold writes_and_sync. destruct (writes fault n st) as [ok st1] eqn:E. pose proof (writes_sbc n st) as H. rewrite E in H. cbn in H.
  destruct ok; [eapply sbc_trans; [exact H | apply call_sbc] | exact H].
Qed.

Lemma data_phase_sbc tries n : forall st, sbc st (snd (data_phase fault tries n st)).
Proof.
  induction tries as [|k IH]; intros st; cbn [data_phase]; [apply sbc_refl|].
  destruct (writes_and_sync fault n st) as [ok st1] eqn:E. pose proof (writes_and_sync_sbc n st) as H. rewrite E in H. cbn in H.
  destruct ok; [exact H | eapply sbc_trans; [exact H | apply IH]].
Qed.

Lemma scrub_calls_sbc groups st : sbc st (snd (scrub_calls fault groups st)).
Proof.
  unfold scrub_calls. destruct (write_and_sync fault st) as [ok1 st1] eqn:E1. pose proof (write_and_sync_sbc st) as H1. rewrite E1 in H1. cbn in H1.
  destruct ok1; cbn [negb]; [|exact H1].
  destruct (writes_and_sync fault (total_marker_writes groups) st1) as [ok2 st2] eqn:E2.
  pose proof (writes_and_sync_sbc (total_marker_writes groups) st1) as H2. rewrite E2 in H2. cbn in H2.
  destruct ok2; cbn [negb]; [|eapply sbc_trans; eassumption].
  eapply sbc_trans; [exact H1|]. eapply sbc_trans; [exact H2 | apply write_and_sync_sbc].
Qed.

(* ---- the failure handler ---- *)
Lemma fail_batch_spec st batch D st' r :
  Core (f_fs st) (f_usage st) batch D ->
  (forall e, In e batch -> pe_dirty e = true /\ pe_res e <> None) ->
  (forall x, In x (f_maydata st) -> In x (exts_of batch)) ->
  fail_batch fault st batch = (st', r) ->
  Core (f_fs st') (f_usage st') (f_queue st') D /\ f_durable st' = f_durable st /\
  map pe_id (f_queue st') = map pe_id batch /\
  (r = RIo \/ r = RIndet) /\ (r = RIndet -> f_poison st' = true) /\ (r = RIo -> f_poison st' = f_poison st) /\
  (f_poison st = true -> f_poison st' = true) /\
  (forall x, In x (f_maydata st') -> In x (exts_of (f_queue st'))) /\
  (forall e, In e batch -> pe_quar e = true -> In e (f_queue st')).
Proof.
  intros C Hall Hmay H. unfold fail_batch in H. fold (scrubbable batch) in H.
  set (l := exts_of (scrubbable batch)) in *.
  (* the quarantined version of the batch: same extents, flags still fine *)
  assert (Cq : forall f u, Core f u batch D -> Core f u (map quarantine batch) D).
  { intros f u C0. split.
    - exact (co_fs _ _ _ _ C0).
    - rewrite exts_of_quarantine. exact (co_one _ _ _ _ C0).
    - rewrite exts_of_quarantine. exact (co_part _ _ _ _ C0).
    - rewrite exts_of_quarantine. exact (co_ext _ _ _ _ C0).
    - rewrite exts_of_quarantine. exact (co_usage _ _ _ _ C0).
    - intros e He. apply in_map_iff in He. destruct He as [e0 [<- He0]].
      destruct (co_flags _ _ _ _ C0 e0 He0) as (F1 & F2 & F3). destruct (Hall e0 He0) as [Hd Hr].
      unfold quarantine. destruct (pe_res e0) eqn:R; [|congruence].
      unfold flags_ok. cbn. split; [exact F1|]. split; [discriminate | intros _; exact Hd]. }
  assert (Qkeep : forall e, In e batch -> pe_quar e = true -> In e (map quarantine batch)).
  { intros e He Hq. apply in_map_iff. exists e. split; [|exact He]. unfold quarantine.
    destruct (pe_res e) eqn:R; [|reflexivity]. destruct e; cbn in *; subst; reflexivity. }
  assert (Mq : forall x, In x (f_maydata st) -> In x (exts_of (map quarantine batch))) by (intros x Hx; rewrite exts_of_quarantine; exact (Hmay x Hx)).
  (* facts about the scrubbable extents *)
  assert (Lsub : forall x, In x l -> In x (exts_of batch ++ D)) by (intros x Hx; apply in_or_app; left; apply in_exts_sub; left; exact Hx).
  assert (Lcnt : forall b, (cnt b l <= cnt b (exts_of batch ++ D))%nat) by (intros b; rewrite cnt_app, (cnt_scrub_split b batch); fold l; lia).
  destruct (coalesce_spec (sort_exts l)) as (groups & Eg & Sg & Sum & Blk & St & En & _).
  { apply sort_exts_sorted. }
  { intros x Hx. apply (proj1 (in_sort_exts _ _)) in Hx. destruct (co_ext _ _ _ _ C x (Lsub x Hx)) as (_ & P & _). exact P. }
  { intros b. rewrite cnt_sort_exts. pose proof (Lcnt b). pose proof (co_one _ _ _ _ C b). lia. }
  rewrite Eg in H.
  (* the device calls of the scrub *)
  set (calls := match groups with [] => write_and_sync fault st | _ :: _ => scrub_calls fault groups st end) in *.
  assert (Hs : sbc st (snd calls)) by (unfold calls; destruct groups; [apply write_and_sync_sbc | apply scrub_calls_sbc]).
  destruct calls as [ok st1] eqn:Ec. cbn [snd] in Hs. destruct Hs as (S1 & S2 & S3 & S4 & S5 & S6).
  destruct ok; cbn [negb] in H.
  2:{ inversion H; subst st' r. cbn. rewrite S1, S4, S3. split; [apply Cq; exact C|]. split; [reflexivity|]. split; [rewrite map_map; apply map_ext; intros e; unfold quarantine; destruct (pe_res e); reflexivity|].
      split; [right; reflexivity|]. split; [reflexivity|]. split; [discriminate|]. split; [reflexivity|].
      split; [rewrite S6; exact Mq | exact Qkeep]. }
  (* the scrub went through: the groups are given back *)
  destruct (release_groups_ok groups (f_fs st1) (f_usage st1)) as (f' & Er & I' & D' & F').
  { rewrite S1. exact (co_fs _ _ _ _ C). }
  { exact Sg. }
  { intros g Hg. rewrite S1. destruct (St g Hg) as [x [Hx Ex]]. destruct (En g Hg) as [y [Hy Ey]].
    apply (proj1 (in_sort_exts _ _)) in Hx. apply (proj1 (in_sort_exts _ _)) in Hy.
    destruct (co_ext _ _ _ _ C x (Lsub x Hx)) as (X1 & _ & _). destruct (co_ext _ _ _ _ C y (Lsub y Hy)) as (_ & _ & Y3). lia. }
  { intros g b Hg Hb. rewrite S1. apply (core_not_free _ _ _ _ b C).
    assert (0 < cnt b groups)%nat by (apply cnt_pos; exists g; split; assumption).
    apply Blk in H0. rewrite cnt_sort_exts in H0. pose proof (Lcnt b). lia. }
  rewrite Er in H. inversion H; subst st' r. cbn [f_fs f_usage f_queue f_durable f_poison f_maydata].
  assert (Hsum : sum_blocks groups = sum_blocks l) by (rewrite Sum; apply sum_sort_exts).
  assert (Hblk : forall b, (0 < cnt b groups)%nat <-> (0 < cnt b l)%nat) by (intros b; rewrite Blk, cnt_sort_exts; tauto).
  split; [|split; [exact S3|split; [|split; [left; reflexivity|split; [discriminate|split; [intros _; exact S5|split; [intros Hp; rewrite S5; exact Hp|split]]]]]]].
  - (* the core without the scrubbed extents *)
    split.
    + exact I'.
    + intros b. pose proof (co_one _ _ _ _ C b) as H1. rewrite cnt_app in *. rewrite (cnt_scrub_split b batch) in H1. lia.
    + intros b Hb. rewrite (dev_sectors_same _ _ D'), S1 in Hb. rewrite F', S1, (co_part _ _ _ _ C b Hb), Hblk.
      pose proof (co_one _ _ _ _ C b) as H1. rewrite cnt_app, (cnt_scrub_split b batch) in H1. rewrite !cnt_app, (cnt_scrub_split b batch). fold l in H1 |- *. lia.
    + intros x Hx. unfold ext_ok. rewrite (dev_sectors_same _ _ D'), S1. apply (co_ext _ _ _ _ C).
      apply in_app_or in Hx. destruct Hx as [Hx|Hx]; [apply in_or_app; left; apply in_exts_sub; right; exact Hx | apply in_or_app; right; exact Hx].
    + rewrite S4, (co_usage _ _ _ _ C), Hsum, !sum_blocks_app, (sum_scrub_split batch). fold l. lia.
    + intros e He. apply in_map_iff in He. destruct He as [e0 [<- He0]].
      pose proof (co_flags _ _ _ _ C e0 He0) as Fl. unfold clear_scrubbed. destruct (pe_quar e0) eqn:Q; [exact Fl|].
      destruct Fl as (F1 & _). unfold flags_ok. cbn. split; [exact F1|]. split; [intros _; split; reflexivity | discriminate].
  - rewrite map_map. apply map_ext_in. intros e _. unfold clear_scrubbed. destruct (pe_quar e); reflexivity.
  - (* what may still hold bytes of the failed batch belongs to quarantined entries *)
    intros x Hx. apply in_remove_exts in Hx. destruct Hx as [Hx Hg]. rewrite S6 in Hx. pose proof (Hmay x Hx) as Hb.
    destruct (in_exts_split x batch Hb) as [Hl|Hc]; [|exact Hc].
    exfalso. fold l in Hl. assert (0 < cnt (fst x) l)%nat.
    { apply cnt_pos. exists x. split; [exact Hl|]. destruct (co_ext _ _ _ _ C x (Lsub x Hl)) as (_ & P & _). unfold blk_in. lia. }
    apply Hblk in H0. apply in_group_spec in H0. congruence.
  - intros e He Hq. apply in_map_iff. exists e. split; [|exact He]. unfold clear_scrubbed. rewrite Hq. reflexivity.
Qed.

Lemma fail_batch_queue st batch st' r : fail_batch fault st batch = (st', r) ->
  f_queue st' = map quarantine batch \/ f_queue st' = map clear_scrubbed batch.
Proof.
  unfold fail_batch. destruct (coalesce _) as [groups|]; [|intros H; inversion H; left; reflexivity].
  destruct (match groups with [] => write_and_sync fault st | _ :: _ => scrub_calls fault groups st end) as [ok st1].
  destruct ok; cbn [negb]; [|intros H; inversion H; left; reflexivity].
  destruct (release_groups _ _ _) as [[f' u'] all_ok]. destruct all_ok; intros H; inversion H; [right | left]; reflexivity.
Qed.

Lemma fail_batch_dirty st batch st' r :
  (forall e, In e batch -> pe_dirty e = true) -> fail_batch fault st batch = (st', r) ->
  forall e, In e (f_queue st') -> pe_res e <> None -> pe_dirty e = true.
Proof.
  intros Hall H e He Hr. destruct (fail_batch_queue _ _ _ _ H) as [E|E]; rewrite E in He; apply in_map_iff in He; destruct He as [e0 [<- He0]].
  - unfold quarantine. destruct (pe_res e0); cbn; apply Hall; exact He0.
  - unfold clear_scrubbed in *. destruct (pe_quar e0); [apply Hall; exact He0 | cbn in Hr; congruence].
Qed.

(* ---- the invariant of the write path; X: extents owned by somebody else (records deleted and
   waiting for their retirement) ---- *)
Variable X : list (N * N).

Record FInv (st : fstate) : Prop := {
  fv_core : Core (f_fs st) (f_usage st) (f_queue st) (map snd (f_durable st) ++ X);
  fv_may : forall x, In x (f_maydata st) -> In x (exts_of (f_queue st));
  fv_dirty : forall e, In e (f_queue st) -> pe_res e <> None -> pe_dirty e = true
}.

Lemma publish_exts batch : (forall e, In e batch -> pe_res e <> None) -> map snd (publish batch) = exts_of batch /\ map fst (publish batch) = map pe_id batch.
Proof.
  induction batch as [|e t IH]; intros H; [split; reflexivity|].
  destruct (IH (fun x Hx => H x (or_intror Hx))) as [A B].
  destruct (pe_res e) as [s|] eqn:R; [|exfalso; exact (H e (or_introl eq_refl) R)].
  unfold publish in *. cbn [fold_right]. rewrite R. cbn [map fst snd]. rewrite (exts_of_cons_some e t s R). split; [f_equal; exact A | f_equal; exact B].
Qed.

(* one pass of the worker *)
Lemma attempt_spec st st' r : FInv st -> attempt fault st = (st', r) ->
  FInv st' /\
  (r = ROk -> f_queue st' = [] /\ exists pub, f_durable st' = pub ++ f_durable st /\ map fst pub = map pe_id (f_queue st)) /\
  (r <> ROk -> f_durable st' = f_durable st /\ map pe_id (f_queue st') = map pe_id (f_queue st)) /\
  (f_poison st = true -> f_poison st' = true) /\
  (f_poison st = true -> f_queue st <> [] -> r = RIndet \/ r = RSpace) /\
  (r = RIndet -> f_poison st' = true) /\
  (forall e, In e (f_queue st) -> pe_quar e = true -> r <> ROk -> In e (f_queue st')).
Proof.
  intros I H. unfold attempt in H. destruct (f_queue st) as [|e0 t0] eqn:Q.
  - inversion H; subst. split; [exact I|]. split; [intros _; split; [exact Q | exists []; split; reflexivity]|].
    split; [congruence|]. split; [tauto|]. split; [congruence|]. split; [discriminate | intros e []].
  - set (q := e0 :: t0) in *. set (D := map snd (f_durable st) ++ X).
    pose proof (fv_core _ I) as C. rewrite Q in C. fold q D in C.
    destruct (alloc_all (f_fs st) (f_usage st) [] q) as [[[f1 u1] q1] fits] eqn:EA.
    destruct (alloc_all_spec D q [] (f_fs st) (f_usage st) f1 u1 q1 fits C EA) as (C1 & D1 & Id1 & Fit1 & Keep1).
    cbn [rev app] in Id1, Keep1.
    assert (Old : forall e, In e q -> pe_res e <> None -> pe_dirty e = true) by (intros e He; apply (fv_dirty _ I); rewrite Q; exact He).
    assert (Qk1 : forall e, In e q -> pe_quar e = true -> In e q1).
    { intros e He Hq. apply Keep1; [exact He|]. destruct (co_flags _ _ _ _ C e He) as (_ & F2 & _). intros Hn. destruct (F2 Hn). congruence. }
    destruct fits; cbn [negb] in H.
    2:{ (* the allocator refused: clean reservations go back, everything is requeued *)
      destruct (release_clean f1 u1 q1) as [[f2 u2] q2] eqn:ER. inversion H; subst st' r.
      destruct (release_clean_spec D q1 [] f1 u1 f2 u2 q2 C1 ER) as (C2 & D2 & Id2 & Keep2 & Only2). cbn [app] in C2.
      split.
      - split; cbn.
        + exact C2.
        + intros x Hx. pose proof (fv_may _ I x Hx) as Hx0. rewrite Q in Hx0. fold q in Hx0.
          destruct (exts_of_in x q Hx0) as [e [He [Hr Hb]]].
          assert (Hrn : pe_res e <> None) by congruence.
          pose proof (Keep2 e (Keep1 e He Hrn) (Old e He Hrn)) as He2.
          pose proof (in_exts_of e q2 (fst x) He2 Hr) as G. rewrite Hb in G. destruct x; exact G.
        + intros e He Hr. exact (proj2 (Only2 e He Hr)).
      - split; [discriminate|]. split; [intros _; cbn [f_durable f_queue]; split; [reflexivity | rewrite Id2, Id1; reflexivity]|].
        split; [tauto|]. split; [intros _ _; right; reflexivity|]. split; [discriminate|].
        intros e He Hq _. cbn. apply Keep2; [exact (Qk1 e He Hq)|].
        destruct (co_flags _ _ _ _ C e He) as (_ & _ & F3). exact (F3 Hq). }
    (* every entry has an extent; all are marked dirty *)
    assert (Res1 : forall e, In e q1 -> pe_res e <> None) by (apply Fit1; [reflexivity | intros e []]).
    set (batch := map mark_dirty q1) in *.
    assert (Cb : Core f1 u1 batch D).
    { split.
      - exact (co_fs _ _ _ _ C1).
      - unfold batch. rewrite exts_of_mark_dirty. exact (co_one _ _ _ _ C1).
      - unfold batch. rewrite exts_of_mark_dirty. exact (co_part _ _ _ _ C1).
      - unfold batch. rewrite exts_of_mark_dirty. exact (co_ext _ _ _ _ C1).
      - unfold batch. rewrite exts_of_mark_dirty. exact (co_usage _ _ _ _ C1).
      - intros e He. apply in_map_iff in He. destruct He as [e1 [<- He1]].
        destruct (co_flags _ _ _ _ C1 e1 He1) as (F1 & F2 & F3). unfold flags_ok, mark_dirty. cbn.
        split; [exact F1|]. split; [intros Hn; exfalso; exact (Res1 e1 He1 Hn) | intros _; reflexivity]. }
    assert (Hall : forall e, In e batch -> pe_dirty e = true /\ pe_res e <> None).
    { intros e He. apply in_map_iff in He. destruct He as [e1 [<- He1]]. split; [reflexivity | exact (Res1 e1 He1)]. }
    assert (Idb : map pe_id batch = map pe_id q) by (unfold batch; rewrite map_map; cbn; exact Id1).
    assert (Mb : forall x, In x (f_maydata st) -> In x (exts_of batch)).
    { intros x Hx. unfold batch. rewrite exts_of_mark_dirty. pose proof (fv_may _ I x Hx) as Hx0. rewrite Q in Hx0. fold q in Hx0.
      destruct (exts_of_in x q Hx0) as [e [He [Hr Hb]]]. assert (Hrn : pe_res e <> None) by congruence.
      pose proof (in_exts_of e q1 (fst x) (Keep1 e He Hrn) Hr) as G. rewrite Hb in G. destruct x; exact G. }
    assert (Qkb : forall e, In e q -> pe_quar e = true -> In e batch).
    { intros e He Hq. unfold batch. apply in_map_iff. exists e. split; [|exact (Qk1 e He Hq)].
      destruct (co_flags _ _ _ _ C e He) as (_ & _ & F3). specialize (F3 Hq). unfold mark_dirty. destruct e; cbn in *; subst; reflexivity. }
    (* a generic wrapper for the three places where the batch can fail *)
    assert (Fail : forall sx, sbc (mkfst f1 batch (f_durable st) u1 (f_poison st) (f_calls st) (f_maydata st)) sx \/
                       (f_fs sx = f1 /\ f_usage sx = u1 /\ f_durable sx = f_durable st /\ f_poison sx = f_poison st /\
                        forall x, In x (f_maydata sx) -> In x (exts_of batch)) ->
             forall sy ry, fail_batch fault sx batch = (sy, ry) ->
             FInv sy /\ (ry = ROk -> False) /\ f_durable sy = f_durable st /\ map pe_id (f_queue sy) = map pe_id q /\
             (f_poison st = true -> f_poison sy = true) /\ (ry = RIndet -> f_poison sy = true) /\
             (forall e, In e q -> pe_quar e = true -> In e (f_queue sy))).
    { intros sx Hsx sy ry Hf.
      assert (Fx : f_fs sx = f1 /\ f_usage sx = u1 /\ f_durable sx = f_durable st /\ f_poison sx = f_poison st /\
                   forall x, In x (f_maydata sx) -> In x (exts_of batch)).
      { destruct Hsx as [(A1 & A2 & A3 & A4 & A5 & A6)|Hx]; [|exact Hx]. cbn in *. repeat split; try assumption. rewrite A6. exact Mb. }
      destruct Fx as (X1 & X2 & X3 & X4 & X5).
      assert (Cx : Core (f_fs sx) (f_usage sx) batch D) by (rewrite X1, X2; exact Cb).
      destruct (fail_batch_spec sx batch D sy ry Cx Hall X5 Hf) as (Cy & Dy & Idy & Ry & Py & Piy & Pmy & My & Qy).
      split; [split|].
      - rewrite Dy, X3. exact Cy.
      - exact My.
      - exact (fail_batch_dirty sx batch sy ry (fun e He => proj1 (Hall e He)) Hf).
      - split; [intros ->; destruct Ry; discriminate|]. split; [congruence|]. split; [congruence|].
        split; [intros Hp; apply Pmy; congruence|]. split; [exact Py|].
        intros e He Hq. exact (Qy e (Qkb e He Hq) Hq). }
    set (st1 := mkfst f1 batch (f_durable st) u1 (f_poison st) (f_calls st) (f_maydata st)) in *.
    destruct (f_poison st) eqn:Po.
    + (* the device is poisoned: the batch is quarantined without a device call *)
      inversion H; subst st' r. unfold set_queue, st1. cbn [f_fs f_queue f_durable f_usage f_poison f_calls f_maydata].
      split; [split; cbn [f_fs f_queue f_durable f_usage f_poison f_calls f_maydata]|].
      * split.
        -- exact (co_fs _ _ _ _ Cb).
        -- rewrite exts_of_quarantine. exact (co_one _ _ _ _ Cb).
        -- rewrite exts_of_quarantine. exact (co_part _ _ _ _ Cb).
        -- rewrite exts_of_quarantine. exact (co_ext _ _ _ _ Cb).
        -- rewrite exts_of_quarantine. exact (co_usage _ _ _ _ Cb).
        -- intros e He. apply in_map_iff in He. destruct He as [e1 [<- He1]].
           destruct (co_flags _ _ _ _ Cb e1 He1) as (F1 & F2 & F3). destruct (Hall e1 He1) as [Hd Hr].
           unfold quarantine. destruct (pe_res e1) eqn:R; [|congruence].
           unfold flags_ok. cbn. split; [exact F1|]. split; [discriminate | intros _; exact Hd].
      * intros x Hx. rewrite exts_of_quarantine. exact (Mb x Hx).
      * intros e He _. apply in_map_iff in He. destruct He as [e1 [<- He1]]. unfold quarantine. destruct (pe_res e1); cbn; exact (proj1 (Hall e1 He1)).
      * split; [discriminate|]. split; [intros _; split; [reflexivity|]; rewrite map_map; rewrite <- Idb; apply map_ext; intros e; unfold quarantine; destruct (pe_res e); reflexivity|].
        split; [reflexivity|]. split; [intros _ _; left; reflexivity|]. split; [reflexivity|].
        intros e He Hq _. apply in_map_iff. exists e. split; [|exact (Qkb e He Hq)].
        unfold quarantine. destruct (pe_res e) eqn:R; [|reflexivity]. destruct e; cbn in *; subst; reflexivity.
    + destruct (write_and_sync fault st1) as [ok_i st2] eqn:E2.
      pose proof (write_and_sync_sbc st1) as S2. rewrite E2 in S2. cbn [snd] in S2.
      destruct ok_i; cbn [negb] in H.
      2:{ destruct (Fail st2 (or_introl S2) st' r H) as (A & B & Cc & Dd & Ee & Ff & Gg).
          split; [exact A|]. split; [intros Hr; destruct (B Hr)|]. split; [intros _; split; assumption|].
          split; [discriminate|]. split; [discriminate|]. split; [exact Ff | intros e He Hq _; exact (Gg e He Hq)]. }
      set (st3 := mkfst (f_fs st2) (f_queue st2) (f_durable st2) (f_usage st2) (f_poison st2) (f_calls st2) (exts_of batch ++ f_maydata st2)) in *.
      assert (S3 : f_fs st3 = f1 /\ f_usage st3 = u1 /\ f_durable st3 = f_durable st /\ f_poison st3 = false /\
                   forall x, In x (f_maydata st3) -> In x (exts_of batch)).
      { destruct S2 as (A1 & A2 & A3 & A4 & A5 & A6). cbn in *. repeat split; try assumption.
        intros x Hx. apply in_app_or in Hx. destruct Hx as [Hx|Hx]; [exact Hx | rewrite A6 in Hx; exact (Mb x Hx)]. }
      assert (Prop3 : forall sx, sbc st3 sx -> f_fs sx = f1 /\ f_usage sx = u1 /\ f_durable sx = f_durable st /\ f_poison sx = false /\
                   forall x, In x (f_maydata sx) -> In x (exts_of batch)).
      { intros sx (A1 & A2 & A3 & A4 & A5 & A6). destruct S3 as (B1 & B2 & B3 & B4 & B5). repeat split; try congruence. rewrite A6. exact B5. }
      destruct (data_phase fault 3 (length batch) st3) as [ok_d st4] eqn:E4.
      pose proof (data_phase_sbc 3 (length batch) st3) as S4. rewrite E4 in S4. cbn [snd] in S4.
      destruct ok_d; cbn [negb] in H.
      2:{ destruct (Fail st4 (or_intror (Prop3 st4 S4)) st' r H) as (A & B & Cc & Dd & Ee & Ff & Gg).
          split; [exact A|]. split; [intros Hr; destruct (B Hr)|]. split; [intros _; split; assumption|].
          split; [discriminate|]. split; [discriminate|]. split; [exact Ff | intros e He Hq _; exact (Gg e He Hq)]. }
      destruct (write_and_sync fault st4) as [ok_c st5] eqn:E5.
      pose proof (write_and_sync_sbc st4) as S5. rewrite E5 in S5. cbn [snd] in S5.
      pose proof (sbc_trans _ _ _ S4 S5) as S45.
      destruct ok_c; cbn [negb] in H.
      2:{ destruct (Fail st5 (or_intror (Prop3 st5 S45)) st' r H) as (A & B & Cc & Dd & Ee & Ff & Gg).
          split; [exact A|]. split; [intros Hr; destruct (B Hr)|]. split; [intros _; split; assumption|].
          split; [discriminate|]. split; [discriminate|]. split; [exact Ff | intros e He Hq _; exact (Gg e He Hq)]. }
      (* success: the records are published *)
      destruct (Prop3 st5 S45) as (X1 & X2 & X3 & X4 & X5).
      destruct (publish_exts batch (fun e He => proj2 (Hall e He))) as [Pe Pi].
      inversion H; subst st' r. cbn [f_fs f_queue f_durable f_usage f_poison f_calls f_maydata].
      split; [split; cbn [f_fs f_queue f_durable f_usage f_poison f_calls f_maydata]|].
      * rewrite X1, X2, X3, map_app, Pe, <- app_assoc. fold D.
        split.
        -- exact (co_fs _ _ _ _ Cb).
        -- intros b. cbn [exts_of app]. exact (co_one _ _ _ _ Cb b).
        -- intros b Hb. cbn [exts_of app]. exact (co_part _ _ _ _ Cb b Hb).
        -- intros x Hx. cbn [exts_of app] in Hx. exact (co_ext _ _ _ _ Cb x Hx).
        -- cbn [exts_of app]. exact (co_usage _ _ _ _ Cb).
        -- intros e [].
      * intros x Hx. apply in_remove_exts in Hx. destruct Hx as [Hx Hg]. exfalso.
        pose proof (X5 x Hx) as Hb. assert (0 < cnt (fst x) (exts_of batch))%nat.
        { apply cnt_pos. exists x. split; [exact Hb|]. destruct (co_ext _ _ _ _ Cb x (in_or_app _ _ _ (or_introl Hb))) as (_ & P & _). unfold blk_in. lia. }
        apply in_group_spec in H0. congruence.
      * intros e [].
      * split; [intros _; split; [reflexivity|]; exists (publish batch); split; [rewrite X3; reflexivity | rewrite Pi; exact Idb]|].
        split; [congruence|]. split; [discriminate|]. split; [discriminate|]. split; [discriminate|]. intros e He Hq Hn. congruence.
Qed.

Lemma flush_spec st st' r : FInv st -> flush fault st = (st', r) ->
  FInv st' /\
  (r = ROk -> f_poison st' = false) /\
  ((f_queue st' = [] /\ exists pub, f_durable st' = pub ++ f_durable st /\ map fst pub = map pe_id (f_queue st)) \/
   (r <> ROk /\ f_durable st' = f_durable st /\ map pe_id (f_queue st') = map pe_id (f_queue st))) /\
  (r = ROk -> f_queue st' = []) /\
  (f_poison st = true -> f_poison st' = true /\ r <> ROk) /\
  (forall e, In e (f_queue st) -> pe_quar e = true -> f_queue st' <> [] -> In e (f_queue st')).
Proof.
  intros I H. unfold flush in H. destruct (attempt fault st) as [st1 r1] eqn:EA.
  destruct (attempt_spec st st1 r1 I EA) as (I1 & Ok1 & No1 & P1 & P2 & P3 & Q1).
  destruct r1.
  - destruct (Ok1 eq_refl) as [Qe [pub [Dp Ip]]].
    destruct (f_poison st1) eqn:Po.
    + inversion H; subst st' r. split; [exact I1|]. split; [discriminate|]. split; [left; split; [exact Qe | exists pub; split; assumption]|].
      split; [discriminate|]. split; [intros _; split; [exact Po | discriminate]|]. intros e He Hq Hn. congruence.
    + destruct (write_and_sync fault st1) as [ok st2] eqn:E2. pose proof (write_and_sync_sbc st1) as S2. rewrite E2 in S2. cbn [snd] in S2.
      destruct S2 as (A1 & A2 & A3 & A4 & A5 & A6). inversion H; subst st' r.
      assert (I2 : FInv st2).
      { split.
        - rewrite A1, A2, A3, A4. exact (fv_core _ I1).
        - rewrite A6, A2. exact (fv_may _ I1).
        - rewrite A2. exact (fv_dirty _ I1). }
      split; [exact I2|]. split; [intros _; congruence|].
      split; [left; split; [congruence | exists pub; split; [congruence | exact Ip]]|].
      split; [intros _; congruence|]. split; [intros Hp; specialize (P1 Hp); congruence|]. intros e He Hq Hn. congruence.
  - inversion H; subst st' r. destruct (No1 ltac:(discriminate)) as [Dn In0].
    split; [exact I1|]. split; [discriminate|]. split; [right; split; [discriminate | split; assumption]|].
    split; [discriminate|]. split; [intros Hp; split; [exact (P1 Hp) | discriminate]|]. intros e He Hq _. apply Q1; [exact He | exact Hq | discriminate].
  - inversion H; subst st' r. destruct (No1 ltac:(discriminate)) as [Dn In0].
    split; [exact I1|]. split; [discriminate|]. split; [right; split; [discriminate | split; assumption]|].
    split; [discriminate|]. split; [intros Hp; split; [exact (P1 Hp) | discriminate]|]. intros e He Hq _. apply Q1; [exact He | exact Hq | discriminate].
  - inversion H; subst st' r. destruct (No1 ltac:(discriminate)) as [Dn In0].
    split; [exact I1|]. split; [discriminate|]. split; [right; split; [discriminate | split; assumption]|].
    split; [discriminate|]. split; [intros Hp; split; [exact (P1 Hp) | discriminate]|]. intros e He Hq _. apply Q1; [exact He | exact Hq | discriminate].
Qed.

End WithOracle.

Lemma enqueue_inv X st id blocks : FInv X st -> 0 < blocks -> FInv X (enqueue st id blocks).
Proof.
  intros I Hb. pose proof (fv_core _ _ I) as C. unfold enqueue.
  assert (E : exts_of (f_queue st ++ [mkpe id blocks None false false]) = exts_of (f_queue st)).
  { rewrite exts_of_app. cbn. rewrite app_nil_r. reflexivity. }
  split; cbn [f_fs f_queue f_durable f_usage f_poison f_calls f_maydata].
  - split.
    + exact (co_fs _ _ _ _ C).
    + rewrite E. exact (co_one _ _ _ _ C).
    + rewrite E. exact (co_part _ _ _ _ C).
    + rewrite E. exact (co_ext _ _ _ _ C).
    + rewrite E. exact (co_usage _ _ _ _ C).
    + intros e He. apply in_app_or in He. destruct He as [He|[<-|[]]]; [exact (co_flags _ _ _ _ C e He)|].
      unfold flags_ok. cbn. split; [exact Hb|]. split; [intros _; split; reflexivity | discriminate].
  - rewrite E. exact (fv_may _ _ I).
  - intros e He Hr. apply in_app_or in He. destruct He as [He|[<-|[]]]; [exact (fv_dirty _ _ I e He Hr) | cbn in Hr; congruence].
Qed.

Lemma finit_inv d f : d < U64 -> initialize d = FOk f -> FInv [] (finit f).
Proof.
  intros Hd Hi. destruct (initialize_Inv d f Hi Hd) as (I & Dv & F).
  split; cbn.
  - split; cbn.
    + exact I.
    + intros b. lia.
    + intros b Hb. rewrite F. unfold dev_sectors in Hb. rewrite Dv in Hb. split; [reflexivity | intros _; exact Hb].
    + intros x [].
    + reflexivity.
    + intros e [].
  - intros x [].
  - intros e [].
Qed.

(* ---- sequences of calls ---- *)
Inductive fcall := CInsert (id blocks : N) | CFlush.

Definition fcall_step (fault : N -> bool) (st : fstate) (c : fcall) : fstate :=
  match c with
  | CInsert id blocks => if 0 <? blocks then enqueue st id blocks else st
  | CFlush => fst (flush fault st)
  end.

Definition fcalls (fault : N -> bool) (st : fstate) (cs : list fcall) : fstate := fold_left (fcall_step fault) cs st.

Lemma fcalls_inv fault cs : forall st, FInv [] st -> FInv [] (fcalls fault st cs).
Proof.
  unfold fcalls. induction cs as [|c t IH]; intros st I; [exact I|]. cbn [fold_left]. apply IH.
  destruct c as [id blocks|]; cbn [fcall_step].
  - destruct (0 <? blocks) eqn:E; [apply enqueue_inv; [exact I | apply N.ltb_lt; exact E] | exact I].
  - destruct (flush fault st) as [st' r] eqn:EF. exact (proj1 (flush_spec fault [] st st' r I EF)).
Qed.

(* MAIN 1 (C05 through failures): on a fresh device, after any sequence of inserts and flushes and
   whatever device calls fail, every block of the data area is free exactly when no queued entry's
   reservation and no published record covers it, no block is covered twice, and the usage counter
   is the number of covered blocks *)
Theorem ownership_partition_through_failures fault d f cs :
  d < U64 -> initialize d = FOk f ->
  let st := fcalls fault (finit f) cs in
  let owned := exts_of (f_queue st) ++ map snd (f_durable st) in
  Inv (f_fs st) /\
  (forall b, (cnt b owned <= 1)%nat) /\
  (forall b, DS <= b < dev_sectors (f_fs st) -> (free (f_fs st) b <-> cnt b owned = O)) /\
  f_usage st = sum_blocks owned.
Proof.
  intros Hd Hi. cbv zeta. pose proof (fv_core _ _ (fcalls_inv fault cs _ (finit_inv d f Hd Hi))) as C. rewrite app_nil_r in C.
  split; [exact (co_fs _ _ _ _ C)|]. split; [exact (co_one _ _ _ _ C)|]. split; [exact (co_part _ _ _ _ C) | exact (co_usage _ _ _ _ C)].
Qed.

(* MAIN 2: extents that may hold bytes of a failed batch and have not been scrubbed are never free
   (hence never handed to another record): a reservation is given back only clean or scrubbed *)
Theorem unscrubbed_extents_are_never_free fault d f cs x b :
  d < U64 -> initialize d = FOk f ->
  let st := fcalls fault (finit f) cs in
  In x (f_maydata st) -> blk_in b x -> ~ free (f_fs st) b.
Proof.
  intros Hd Hi. cbv zeta. intros Hx Hb. pose proof (fcalls_inv fault cs _ (finit_inv d f Hd Hi)) as I.
  apply (core_not_free _ _ _ _ b (fv_core _ _ I)). apply cnt_pos. exists x. split; [|exact Hb].
  apply in_or_app. left. exact (fv_may _ _ I x Hx).
Qed.

(* MAIN 3 (C09): a flush answers Ok only when the device is not poisoned and every entry queued
   before it has been published; whatever it answers, no entry is lost: either all were published
   or all are still queued, in order; a poisoned device never answers Ok again; a quarantined
   reservation stays with its entry *)
Theorem flush_is_honest fault d f cs :
  d < U64 -> initialize d = FOk f ->
  let st := fcalls fault (finit f) cs in
  forall st' r, flush fault st = (st', r) ->
  (r = ROk -> f_poison st' = false /\ f_queue st' = []) /\
  ((f_queue st' = [] /\ exists pub, f_durable st' = pub ++ f_durable st /\ map fst pub = map pe_id (f_queue st)) \/
   (r <> ROk /\ f_durable st' = f_durable st /\ map pe_id (f_queue st') = map pe_id (f_queue st))) /\
  (f_poison st = true -> f_poison st' = true /\ r <> ROk) /\
  (forall e, In e (f_queue st) -> pe_quar e = true -> f_queue st' <> [] -> In e (f_queue st')).
Proof.
  intros Hd Hi. cbv zeta. intros st' r H. pose proof (fcalls_inv fault cs _ (finit_inv d f Hd Hi)) as I.
  destruct (flush_spec fault [] _ st' r I H) as (_ & A & B & C & D & E).
  split; [intros Hr; split; [exact (A Hr) | exact (C Hr)]|]. split; [exact B|]. split; [exact D | exact E].
Qed.

(* ================================================================================================
   Deletes of published records and their retirement
   ================================================================================================ *)

Lemma core_swap f u q D D' :
  (forall b, cnt b D' = cnt b D) -> sum_blocks D' = sum_blocks D -> (forall x, In x D' -> In x D) ->
  Core f u q D -> Core f u q D'.
Proof.
  intros Hc Hs Hi C. split.
  - exact (co_fs _ _ _ _ C).
  - intros b. rewrite cnt_app, Hc, <- cnt_app. exact (co_one _ _ _ _ C b).
  - intros b Hb. rewrite cnt_app, Hc, <- cnt_app. exact (co_part _ _ _ _ C b Hb).
  - intros x Hx. apply (co_ext _ _ _ _ C). apply in_app_or in Hx. destruct Hx as [Hx|Hx]; apply in_or_app; [left; exact Hx | right; exact (Hi x Hx)].
  - rewrite sum_blocks_app, Hs, <- sum_blocks_app. exact (co_usage _ _ _ _ C).
  - exact (co_flags _ _ _ _ C).
Qed.

Lemma take_durable_spec id : forall l x l', take_durable id l = (Some x, l') ->
  (forall b, cnt b (map snd l) = cnt b (x :: map snd l')) /\ sum_blocks (map snd l) = snd x + sum_blocks (map snd l') /\
  (forall y, In y (x :: map snd l') <-> In y (map snd l)) /\ map fst l' ++ [id] = map fst l' ++ [id].
Proof.
  induction l as [|[i y] t IH]; intros x l' H; cbn [take_durable] in H; [discriminate|].
  destruct (i =? id) eqn:E.
  - inversion H; subst. cbn. repeat split; try tauto; try reflexivity.
  - destruct (take_durable id t) as [r t'] eqn:ET. inversion H; subst r l'. destruct (IH x t' eq_refl) as (A & B & C & _).
    cbn [map snd cnt sum_blocks]. split; [intros b; rewrite A; cbn [cnt]; lia|]. split; [rewrite B; lia|]. split; [|reflexivity].
    intros z. cbn [In]. rewrite <- C. cbn [In]. tauto.
Qed.

Definition RInv (rs : rstate) : Prop := FInv (map snd (r_pending rs)) (r_core rs).

Lemma rdelete_inv rs id : RInv rs -> RInv (rdelete rs id).
Proof.
  unfold RInv, rdelete. intros I. destruct (take_durable id (f_durable (r_core rs))) as [[x|] d'] eqn:E; [|exact I].
  destruct (take_durable_spec id _ x d' E) as (A & B & C & _).
  cbn [r_core r_pending]. rewrite map_app. cbn [map snd].
  split; cbn [set_durable f_fs f_queue f_durable f_usage f_poison f_calls f_maydata].
  - apply (core_swap _ _ _ (map snd (f_durable (r_core rs)) ++ map snd (r_pending rs))); [| | |exact (fv_core _ _ I)].
    + intros b. rewrite !cnt_app, A. cbn [cnt]. lia.
    + rewrite !sum_blocks_app, B. cbn [sum_blocks]. lia.
    + intros y Hy. apply in_app_or in Hy. destruct Hy as [Hy|Hy].
      * apply in_or_app. left. apply C. right. exact Hy.
      * apply in_app_or in Hy. destruct Hy as [Hy|[<-|[]]]; [apply in_or_app; right; exact Hy | apply in_or_app; left; apply C; left; reflexivity].
  - exact (fv_may _ _ I).
  - exact (fv_dirty _ _ I).
Qed.

Lemma renqueue_inv rs id blocks : RInv rs -> 0 < blocks -> RInv (renqueue rs id blocks).
Proof. unfold RInv, renqueue. cbn. intros I H. apply enqueue_inv; assumption. Qed.

Section RetProofs.
Variable fault : N -> bool.

(* the retirements: everything pending is given back, or nothing is and the device is poisoned *)
Lemma retire_pending_spec rs rs' r : RInv rs -> retire_pending fault rs = (rs', r) ->
  RInv rs' /\ f_queue (r_core rs') = f_queue (r_core rs) /\ f_durable (r_core rs') = f_durable (r_core rs) /\
  (r = ROk -> r_pending rs' = []) /\ (r <> ROk -> r_pending rs' = r_pending rs /\ (r_pending rs <> [] -> r = RIndet /\ f_poison (r_core rs') = true)) /\
  (f_poison (r_core rs) = true -> f_poison (r_core rs') = true) /\ (r = ROk -> f_poison (r_core rs') = f_poison (r_core rs)).
Proof.
  unfold RInv. intros I H. unfold retire_pending in H. destruct (r_pending rs) as [|p0 pt] eqn:P.
  - inversion H; subst rs' r. split; [rewrite P; exact I|]. split; [reflexivity|]. split; [reflexivity|]. split; [intros _; exact P|].
    split; [intros Hn; exfalso; apply Hn; reflexivity|]. split; [tauto | reflexivity].
  - set (p := p0 :: pt) in *. set (st := r_core rs) in *. pose proof (fv_core _ _ I) as C. fold st in C. cbn [map] in C. fold (map snd p) in C.
    destruct (f_poison st) eqn:Po.
    { inversion H; subst rs' r. split; [rewrite P; exact I|]. split; [reflexivity|]. split; [reflexivity|]. split; [discriminate|].
      split; [intros _; split; [exact P | intros _; split; [reflexivity | exact Po]]|]. split; [intros _; exact Po | discriminate]. }
    set (l := map snd p) in *.
    assert (Lsub : forall x, In x l -> In x (exts_of (f_queue st) ++ map snd (f_durable st) ++ l)) by (intros x Hx; apply in_or_app; right; apply in_or_app; right; exact Hx).
    assert (Lcnt : forall b, (cnt b l <= cnt b (exts_of (f_queue st) ++ map snd (f_durable st) ++ l))%nat) by (intros b; rewrite !cnt_app; lia).
    destruct (coalesce_spec (sort_exts l)) as (groups & Eg & Sg & Sum & Blk & St & En & _).
    { apply sort_exts_sorted. }
    { intros x Hx. apply (proj1 (in_sort_exts _ _)) in Hx. destruct (co_ext _ _ _ _ C x (Lsub x Hx)) as (_ & Px & _). exact Px. }
    { intros b. rewrite cnt_sort_exts. pose proof (Lcnt b). pose proof (co_one _ _ _ _ C b). lia. }
    rewrite Eg in H.
    destruct (scrub_calls fault groups st) as [ok st1] eqn:Ec. pose proof (scrub_calls_sbc fault groups st) as Hs. rewrite Ec in Hs. cbn [snd] in Hs.
    destruct Hs as (S1 & S2 & S3 & S4 & S5 & S6).
    assert (I1 : FInv l st1).
    { split; [rewrite S1, S2, S3, S4; exact C | rewrite S6, S2; exact (fv_may _ _ I) | rewrite S2; exact (fv_dirty _ _ I)]. }
    destruct ok; cbn [negb] in H.
    2:{ inversion H; subst rs' r. cbn [r_core r_pending set_poison f_fs f_queue f_durable f_usage f_poison f_calls f_maydata].
        split; [split; cbn [f_fs f_queue f_durable f_usage f_poison f_calls f_maydata]; [exact (fv_core _ _ I1) | exact (fv_may _ _ I1) | exact (fv_dirty _ _ I1)]|].
        split; [exact S2|]. split; [exact S3|]. split; [discriminate|]. split; [intros _; split; [reflexivity | intros _; split; reflexivity]|]. split; [reflexivity | discriminate]. }
    destruct (release_groups_ok groups (f_fs st1) (f_usage st1)) as (f' & Er & I' & D' & F').
    { rewrite S1. exact (co_fs _ _ _ _ C). }
    { exact Sg. }
    { intros g Hg. rewrite S1. destruct (St g Hg) as [x [Hx Ex]]. destruct (En g Hg) as [y [Hy Ey]].
      apply (proj1 (in_sort_exts _ _)) in Hx. apply (proj1 (in_sort_exts _ _)) in Hy.
      destruct (co_ext _ _ _ _ C x (Lsub x Hx)) as (X1 & _ & _). destruct (co_ext _ _ _ _ C y (Lsub y Hy)) as (_ & _ & Y3). lia. }
    { intros g b Hg Hb. rewrite S1. apply (core_not_free _ _ _ _ b C).
      assert (0 < cnt b groups)%nat by (apply cnt_pos; exists g; split; assumption).
      apply Blk in H0. rewrite cnt_sort_exts in H0. pose proof (Lcnt b). lia. }
    rewrite Er in H. inversion H; subst rs' r. cbn [r_core r_pending f_fs f_queue f_durable f_usage f_poison f_calls f_maydata].
    assert (Hsum : sum_blocks groups = sum_blocks l) by (rewrite Sum; apply sum_sort_exts).
    assert (Hblk : forall b, (0 < cnt b groups)%nat <-> (0 < cnt b l)%nat) by (intros b; rewrite Blk, cnt_sort_exts; tauto).
    split; [|repeat split; try discriminate; try congruence].
    + cbn [map]. split; cbn [f_fs f_queue f_durable f_usage f_poison f_calls f_maydata].
      * rewrite app_nil_r, S2, S3. split.
        -- exact I'.
        -- intros b. pose proof (co_one _ _ _ _ C b) as H1. rewrite !cnt_app in *. lia.
        -- intros b Hb. rewrite (dev_sectors_same _ _ D'), S1 in Hb. rewrite F', S1, (co_part _ _ _ _ C b Hb), Hblk.
           pose proof (co_one _ _ _ _ C b) as H1. rewrite !cnt_app in *. lia.
        -- intros x Hx. unfold ext_ok. rewrite (dev_sectors_same _ _ D'), S1. apply (co_ext _ _ _ _ C).
           apply in_app_or in Hx. destruct Hx as [Hx|Hx]; apply in_or_app; [left; exact Hx | right; apply in_or_app; left; exact Hx].
        -- rewrite S4, (co_usage _ _ _ _ C), Hsum, !sum_blocks_app. lia.
        -- rewrite <- S2. exact (co_flags _ _ _ _ (fv_core _ _ I1)).
      * rewrite S6, S2. exact (fv_may _ _ I).
      * rewrite S2. exact (fv_dirty _ _ I).
Qed.

Lemma rfinish_spec st1 pending rs' r : RInv (mkrs st1 pending) -> rfinish fault st1 pending = (rs', r) ->
  RInv rs' /\ f_queue (r_core rs') = f_queue st1 /\ f_durable (r_core rs') = f_durable st1 /\
  (r = ROk -> r_pending rs' = [] /\ f_poison (r_core rs') = false) /\
  (r_pending rs' = pending \/ r_pending rs' = []) /\
  (f_poison st1 = true -> f_poison (r_core rs') = true /\ r <> ROk).
Proof.
  intros I H. unfold rfinish in H. destruct (retire_pending fault (mkrs st1 pending)) as [rs2 r2] eqn:ER.
  destruct (retire_pending_spec _ rs2 r2 I ER) as (I2 & Q2 & D2 & Ok2 & No2 & Po2 & Pk2). cbn [r_core r_pending] in *.
  destruct r2.
  - pose proof (Ok2 eq_refl) as Pe. specialize (Pk2 eq_refl).
    destruct (f_poison (r_core rs2)) eqn:Po.
    + inversion H; subst rs' r. split; [exact I2|]. split; [exact Q2|]. split; [exact D2|]. split; [discriminate|]. split; [right; exact Pe|].
      intros _. split; [exact Po | discriminate].
    + destruct (write_and_sync fault (r_core rs2)) as [ok st3] eqn:E3. pose proof (write_and_sync_sbc fault (r_core rs2)) as S3. rewrite E3 in S3. cbn [snd] in S3.
      destruct S3 as (A1 & A2 & A3 & A4 & A5 & A6). inversion H; subst rs' r. cbn [r_core r_pending].
      assert (I3 : RInv (mkrs st3 (r_pending rs2))).
      { unfold RInv in *. cbn [r_core r_pending]. split; [rewrite A1, A2, A3, A4; exact (fv_core _ _ I2) | rewrite A6, A2; exact (fv_may _ _ I2) | rewrite A2; exact (fv_dirty _ _ I2)]. }
      split; [exact I3|]. split; [congruence|]. split; [congruence|]. split; [intros _; split; [exact Pe | congruence]|]. split; [right; exact Pe|].
      intros Hp. rewrite Pk2 in Po. congruence.
  - inversion H; subst rs' r. destruct (No2 ltac:(discriminate)) as [Pn _].
    split; [exact I2|]. split; [exact Q2|]. split; [exact D2|]. split; [discriminate|]. split; [left; exact Pn|]. intros Hp. split; [exact (Po2 Hp) | discriminate].
  - inversion H; subst rs' r. destruct (No2 ltac:(discriminate)) as [Pn _].
    split; [exact I2|]. split; [exact Q2|]. split; [exact D2|]. split; [discriminate|]. split; [left; exact Pn|]. intros Hp. split; [exact (Po2 Hp) | discriminate].
  - inversion H; subst rs' r. destruct (No2 ltac:(discriminate)) as [Pn _].
    split; [exact I2|]. split; [exact Q2|]. split; [exact D2|]. split; [discriminate|]. split; [left; exact Pn|]. intros Hp. split; [exact (Po2 Hp) | discriminate].
Qed.

Lemma rflush_spec rs rs' r : RInv rs -> rflush fault rs = (rs', r) ->
  RInv rs' /\
  (r = ROk -> f_queue (r_core rs') = [] /\ r_pending rs' = [] /\ f_poison (r_core rs') = false) /\
  ((f_queue (r_core rs') = [] /\ exists pub, f_durable (r_core rs') = pub ++ f_durable (r_core rs) /\ map fst pub = map pe_id (f_queue (r_core rs))) \/
   (f_durable (r_core rs') = f_durable (r_core rs) /\ map pe_id (f_queue (r_core rs')) = map pe_id (f_queue (r_core rs)))) /\
  (r_pending rs' = r_pending rs \/ r_pending rs' = []) /\
  (f_poison (r_core rs) = true -> f_poison (r_core rs') = true /\ r <> ROk).
Proof.
  intros I H. unfold rflush in H. destruct (attempt fault (r_core rs)) as [st1 r1] eqn:EA.
  destruct (attempt_spec fault (map snd (r_pending rs)) (r_core rs) st1 r1 I EA) as (I1 & Ok1 & No1 & P1 & P2 & P3 & _).
  destruct r1.
  - (* the pass succeeded *)
    destruct (Ok1 eq_refl) as [Qe [pub [Dp Ip]]].
    destruct (rfinish_spec st1 (r_pending rs) rs' r I1 H) as (I2 & Q2 & D2 & Ok2 & Pe2 & Po2).
    split; [exact I2|]. split; [intros Hr; destruct (Ok2 Hr); split; [congruence | split; assumption]|].
    split; [left; split; [congruence | exists pub; split; [congruence | exact Ip]]|]. split; [exact Pe2|].
    intros Hp. exact (Po2 (P1 Hp)).
  - inversion H; subst rs' r. destruct (No1 ltac:(discriminate)) as [Dn In0]. cbn [r_core r_pending].
    split; [exact I1|]. split; [discriminate|]. split; [right; split; assumption|]. split; [left; reflexivity|]. intros Hp. split; [exact (P1 Hp) | discriminate].
  - inversion H; subst rs' r. destruct (No1 ltac:(discriminate)) as [Dn In0]. cbn [r_core r_pending].
    split; [exact I1|]. split; [discriminate|]. split; [right; split; assumption|]. split; [left; reflexivity|]. intros Hp. split; [exact (P1 Hp) | discriminate].
  - (* the allocator refused: reclaim and retry *)
    destruct (No1 ltac:(discriminate)) as [Dn In0].
    destruct (r_pending rs) as [|p0 pt] eqn:P.
    + inversion H; subst rs' r. cbn [r_core r_pending].
      split; [exact I1|]. split; [discriminate|]. split; [right; split; assumption|]. split; [left; reflexivity|]. intros Hp. split; [exact (P1 Hp) | discriminate].
    + set (p := p0 :: pt) in *.
      destruct (retire_pending fault (mkrs st1 p)) as [rs2 r2] eqn:ER.
      destruct (retire_pending_spec (mkrs st1 p) rs2 r2 I1 ER) as (I2 & Q2 & D2 & Ok2 & No2 & Po2 & Pk2). cbn [r_core r_pending] in *.
      destruct r2.
      * specialize (Ok2 eq_refl). specialize (Pk2 eq_refl).
        destruct (attempt fault (r_core rs2)) as [st3 r3] eqn:EA3.
        assert (I2' : FInv (map snd (r_pending rs2)) (r_core rs2)) by exact I2.
        destruct (attempt_spec fault (map snd (r_pending rs2)) (r_core rs2) st3 r3 I2' EA3) as (I3 & Ok3 & No3 & P31 & _ & _ & _).
        assert (Hpoison : f_poison (r_core rs) = true -> f_poison (r_core rs2) = true) by (intros Hp; rewrite Pk2; exact (P1 Hp)).
        destruct r3.
        -- destruct (Ok3 eq_refl) as [Qe [pub [Dp Ip]]].
           destruct (rfinish_spec st3 (r_pending rs2) rs' r I3 H) as (I4 & Q4 & D4 & Ok4 & Pe4 & Po4).
           split; [exact I4|]. split; [intros Hr; destruct (Ok4 Hr); split; [congruence | split; assumption]|].
           split; [left; split; [congruence | exists pub; split; [congruence | congruence]]|].
           split; [right; destruct Pe4 as [E|E]; congruence|].
           intros Hp. exact (Po4 (P31 (Hpoison Hp))).
        -- inversion H; subst rs' r. destruct (No3 ltac:(discriminate)) as [Dn3 In3]. cbn [r_core r_pending].
           split; [exact I3|]. split; [discriminate|]. split; [right; split; congruence|]. split; [right; exact Ok2|]. intros Hp. split; [exact (P31 (Hpoison Hp)) | discriminate].
        -- inversion H; subst rs' r. destruct (No3 ltac:(discriminate)) as [Dn3 In3]. cbn [r_core r_pending].
           split; [exact I3|]. split; [discriminate|]. split; [right; split; congruence|]. split; [right; exact Ok2|]. intros Hp. split; [exact (P31 (Hpoison Hp)) | discriminate].
        -- inversion H; subst rs' r. destruct (No3 ltac:(discriminate)) as [Dn3 In3]. cbn [r_core r_pending].
           split; [exact I3|]. split; [discriminate|]. split; [right; split; congruence|]. split; [right; exact Ok2|]. intros Hp. split; [exact (P31 (Hpoison Hp)) | discriminate].
      * inversion H; subst rs' r. destruct (No2 ltac:(discriminate)) as [Pn _].
        split; [exact I2|]. split; [discriminate|]. split; [right; split; congruence|]. split; [left; exact Pn|]. intros Hp. split; [exact (Po2 (P1 Hp)) | discriminate].
      * inversion H; subst rs' r. destruct (No2 ltac:(discriminate)) as [Pn _].
        split; [exact I2|]. split; [discriminate|]. split; [right; split; congruence|]. split; [left; exact Pn|]. intros Hp. split; [exact (Po2 (P1 Hp)) | discriminate].
      * inversion H; subst rs' r. destruct (No2 ltac:(discriminate)) as [Pn _].
        split; [exact I2|]. split; [discriminate|]. split; [right; split; congruence|]. split; [left; exact Pn|]. intros Hp. split; [exact (Po2 (P1 Hp)) | discriminate].
Qed.

End RetProofs.

Lemma rinit_inv d f : d < U64 -> initialize d = FOk f -> RInv (rinit f).
Proof. intros Hd Hi. unfold RInv, rinit. cbn. exact (finit_inv d f Hd Hi). Qed.

Inductive rcall := RCInsert (id blocks : N) | RCDelete (id : N) | RCFlush.

Definition rcall_step (fault : N -> bool) (rs : rstate) (c : rcall) : rstate :=
  match c with
  | RCInsert id blocks => if 0 <? blocks then renqueue rs id blocks else rs
  | RCDelete id => rdelete rs id
  | RCFlush => fst (rflush fault rs)
  end.

Definition rcalls (fault : N -> bool) (rs : rstate) (cs : list rcall) : rstate := fold_left (rcall_step fault) cs rs.

Lemma rcalls_inv fault cs : forall rs, RInv rs -> RInv (rcalls fault rs cs).
Proof.
  unfold rcalls. induction cs as [|c t IH]; intros rs I; [exact I|]. cbn [fold_left]. apply IH.
  destruct c as [id blocks|id|]; cbn [rcall_step].
  - destruct (0 <? blocks) eqn:E; [apply renqueue_inv; [exact I | apply N.ltb_lt; exact E] | exact I].
  - apply rdelete_inv. exact I.
  - destruct (rflush fault rs) as [rs' r] eqn:EF. exact (proj1 (rflush_spec fault rs rs' r I EF)).
Qed.

(* MAIN 4 (C05 with deletes): after any sequence of inserts, deletes of published records and
   flushes, whatever device calls fail, every block of the data area is free exactly when no
   reservation, no published record and no extent waiting for its retirement covers it; no block is
   covered twice; the usage counter counts the covered blocks *)
Theorem ownership_partition_with_deletes fault d f cs :
  d < U64 -> initialize d = FOk f ->
  let rs := rcalls fault (rinit f) cs in
  let st := r_core rs in
  let owned := exts_of (f_queue st) ++ map snd (f_durable st) ++ map snd (r_pending rs) in
  Inv (f_fs st) /\
  (forall b, (cnt b owned <= 1)%nat) /\
  (forall b, DS <= b < dev_sectors (f_fs st) -> (free (f_fs st) b <-> cnt b owned = O)) /\
  f_usage st = sum_blocks owned.
Proof.
  intros Hd Hi. cbv zeta. pose proof (fv_core _ _ (rcalls_inv fault cs _ (rinit_inv d f Hd Hi))) as C.
  split; [exact (co_fs _ _ _ _ C)|]. split; [exact (co_one _ _ _ _ C)|]. split; [exact (co_part _ _ _ _ C) | exact (co_usage _ _ _ _ C)].
Qed.

(* MAIN 5 (C09 with deletes): the same honesty of flush: Ok only when not poisoned, the queue
   empty and every pending retirement done; entries are published all or none; the extents
   waiting for retirement are given back all at once or not at all; poison is sticky *)
Theorem flush_with_deletes_is_honest fault d f cs :
  d < U64 -> initialize d = FOk f ->
  let rs := rcalls fault (rinit f) cs in
  forall rs' r, rflush fault rs = (rs', r) ->
  (r = ROk -> f_queue (r_core rs') = [] /\ r_pending rs' = [] /\ f_poison (r_core rs') = false) /\
  ((f_queue (r_core rs') = [] /\ exists pub, f_durable (r_core rs') = pub ++ f_durable (r_core rs) /\ map fst pub = map pe_id (f_queue (r_core rs))) \/
   (f_durable (r_core rs') = f_durable (r_core rs) /\ map pe_id (f_queue (r_core rs')) = map pe_id (f_queue (r_core rs)))) /\
  (r_pending rs' = r_pending rs \/ r_pending rs' = []) /\
  (f_poison (r_core rs) = true -> f_poison (r_core rs') = true /\ r <> ROk).
Proof.
  intros Hd Hi. cbv zeta. intros rs' r H.
  exact (proj2 (rflush_spec fault _ rs' r (rcalls_inv fault cs _ (rinit_inv d f Hd Hi)) H)).
Qed.
