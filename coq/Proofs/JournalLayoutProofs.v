(* C10 (file layout): an allocation-journal image never leaves its slot.  The encoder's image for
   at most ALLOCATION_JOURNAL_MAX_ENTRIES extents is at most ALLOCATION_JOURNAL_SLOT_BLOCKS blocks
   long, so writing it changes blocks of that slot only: the other slot, both metadata copies and
   the data area keep every byte. *)
From Coq Require Import List NArith Bool Lia Arith.
From Feox Require Import Gen.Constants Model.Bytes Model.Crc32c Model.Codec Model.MetaJournal Model.Recovery
                         Proofs.CodecProofs Proofs.MetaJournalProofs.
Import ListNotations.
Local Open Scope N_scope.

Lemma overwrite_length src : forall l, length (overwrite src l) = length l.
Proof. induction src as [|s t IH]; intros [|x l]; cbn [overwrite length]; try reflexivity. rewrite IH. reflexivity. Qed.

Lemma splice_length l : forall off src, length (splice l off src) = length l.
Proof.
  induction l as [|x t IH]; intros [|off] src; cbn [splice length]; try reflexivity.
  - destruct src; reflexivity.
  - apply overwrite_length.
  - rewrite IH. reflexivity.
Qed.

Lemma encode_journal_length g st exts :
  length (encode_journal g st exts) = N.to_nat (journal_image_size (N.of_nat (length exts))).
Proof.
  unfold encode_journal. rewrite !splice_length, app_length.
  set (raw := JOURNAL_MAGIC ++ _).
  assert (RL : length raw = (40 + 8 * length exts)%nat).
  { unfold raw. rewrite !app_length, !le_bytes_length, encode_entries_length. reflexivity. }
  unfold zeros. rewrite repeat_length. pose proof (journal_size_fits (N.of_nat (length exts))). lia.
Qed.

Lemma journal_image_blocks count : journal_image_size count = blocks_for (JOURNAL_HEADER_SIZE + count * JOURNAL_ENTRY_SIZE) * FEOX_BLOCK_SIZE.
Proof. reflexivity. Qed.

Lemma journal_blocks_bound count : count <= ALLOCATION_JOURNAL_MAX_ENTRIES ->
  blocks_for (JOURNAL_HEADER_SIZE + count * JOURNAL_ENTRY_SIZE) <= ALLOCATION_JOURNAL_SLOT_BLOCKS.
Proof.
  intros H. unfold blocks_for.
  assert (B : JOURNAL_HEADER_SIZE + ALLOCATION_JOURNAL_MAX_ENTRIES * JOURNAL_ENTRY_SIZE + FEOX_BLOCK_SIZE - 1
              < (ALLOCATION_JOURNAL_SLOT_BLOCKS + 1) * FEOX_BLOCK_SIZE) by (vm_compute; reflexivity).
  assert (P : 0 < FEOX_BLOCK_SIZE) by (vm_compute; reflexivity).
  assert (E : 0 < JOURNAL_ENTRY_SIZE) by (vm_compute; reflexivity).
  apply N.lt_succ_r. rewrite <- N.add_1_r. apply N.div_lt_upper_bound; [lia|].
  assert (count * JOURNAL_ENTRY_SIZE <= ALLOCATION_JOURNAL_MAX_ENTRIES * JOURNAL_ENTRY_SIZE) by (apply N.mul_le_mono_r; exact H).
  lia.
Qed.

Theorem journal_image_fits_its_slot g st exts :
  N.of_nat (length exts) <= ALLOCATION_JOURNAL_MAX_ENTRIES ->
  (length (encode_journal g st exts) <= N.to_nat ALLOCATION_JOURNAL_SLOT_BLOCKS * BLOCK)%nat /\
  (Nat.div (length (encode_journal g st exts)) BLOCK <= N.to_nat ALLOCATION_JOURNAL_SLOT_BLOCKS)%nat.
Proof.
  intros H. rewrite encode_journal_length, journal_image_blocks.
  pose proof (journal_blocks_bound _ H) as B. set (q := blocks_for _) in *.
  unfold BLOCK. split.
  - rewrite N2Nat.inj_mul. apply Nat.mul_le_mono_r. lia.
  - rewrite N2Nat.inj_mul, Nat.div_mul by (vm_compute; discriminate). lia.
Qed.

Lemma chunk_blocks_len d : forall k, length (chunk_blocks k d) = d.
Proof. induction d as [|d IH]; intros k; cbn [chunk_blocks length]; [reflexivity|]. rewrite IH. reflexivity. Qed.

Lemma set_blocks_length img sector bs :
  (N.to_nat sector + length bs <= length img)%nat -> length (set_blocks img sector bs) = length img.
Proof.
  intros H. unfold set_blocks. rewrite !app_length, !firstn_length, skipn_length. lia.
Qed.

Lemma set_blocks_outside img sector bs k :
  (N.to_nat sector + length bs <= length img)%nat ->
  (k < N.to_nat sector \/ N.to_nat sector + length bs <= k)%nat ->
  nth k (set_blocks img sector bs) [] = nth k img [].
Proof.
  intros H Hk. unfold set_blocks. set (i := N.to_nat sector) in *.
  rewrite (firstn_all2 bs) by lia.
  destruct Hk as [Hk|Hk].
  - rewrite app_nth1 by (rewrite firstn_length; lia).
    rewrite <- (firstn_skipn i img) at 2. rewrite app_nth1 by (rewrite firstn_length; lia). reflexivity.
  - rewrite app_nth2 by (rewrite firstn_length; lia). rewrite firstn_length, Nat.min_l by lia.
    rewrite app_nth2 by lia.
    rewrite <- (firstn_skipn (i + length bs) img) at 2.
    rewrite app_nth2 by (rewrite firstn_length; lia). rewrite firstn_length, Nat.min_l by lia.
    f_equal. lia.
Qed.

(* where the slots are: behind the primary metadata block, in front of the backup copy, which is in
   front of the data area; a slot is ALLOCATION_JOURNAL_SLOT_BLOCKS blocks = JOURNAL_SLOT_SIZE bytes *)
Theorem journal_slots_lie_between_the_metadata_copies slot :
  slot < ALLOCATION_JOURNAL_SLOTS ->
  let first := ALLOCATION_JOURNAL_START_BLOCK + slot * ALLOCATION_JOURNAL_SLOT_BLOCKS in
  FEOX_METADATA_BLOCK < first /\ first + ALLOCATION_JOURNAL_SLOT_BLOCKS <= FEOX_METADATA_BACKUP_BLOCK /\
  FEOX_METADATA_BACKUP_BLOCK < FEOX_DATA_START_BLOCK /\
  JOURNAL_SLOT_SIZE = ALLOCATION_JOURNAL_SLOT_BLOCKS * FEOX_BLOCK_SIZE /\
  ALLOCATION_JOURNAL_BLOCKS = ALLOCATION_JOURNAL_SLOTS * ALLOCATION_JOURNAL_SLOT_BLOCKS.
Proof.
  intros H first.
  assert (S : ALLOCATION_JOURNAL_START_BLOCK + ALLOCATION_JOURNAL_SLOTS * ALLOCATION_JOURNAL_SLOT_BLOCKS <= FEOX_METADATA_BACKUP_BLOCK)
    by (vm_compute; discriminate).
  assert (M : FEOX_METADATA_BLOCK < ALLOCATION_JOURNAL_START_BLOCK) by (vm_compute; reflexivity).
  assert (B : FEOX_METADATA_BACKUP_BLOCK < FEOX_DATA_START_BLOCK) by (vm_compute; reflexivity).
  assert (Z : JOURNAL_SLOT_SIZE = ALLOCATION_JOURNAL_SLOT_BLOCKS * FEOX_BLOCK_SIZE) by (vm_compute; reflexivity).
  assert (A : ALLOCATION_JOURNAL_BLOCKS = ALLOCATION_JOURNAL_SLOTS * ALLOCATION_JOURNAL_SLOT_BLOCKS) by (vm_compute; reflexivity).
  unfold first. split; [lia|]. split; [|split; [exact B|split; [exact Z|exact A]]].
  assert ((slot + 1) * ALLOCATION_JOURNAL_SLOT_BLOCKS <= ALLOCATION_JOURNAL_SLOTS * ALLOCATION_JOURNAL_SLOT_BLOCKS)
    by (apply N.mul_le_mono_r; lia).
  lia.
Qed.

(* writing a journal image into slot `slot` of a device that has the slot changes no block outside
   that slot, and not the device's length *)
Theorem journal_write_stays_in_its_slot img slot g st exts k :
  slot < ALLOCATION_JOURNAL_SLOTS -> N.of_nat (length exts) <= ALLOCATION_JOURNAL_MAX_ENTRIES ->
  (N.to_nat FEOX_METADATA_BACKUP_BLOCK <= length img)%nat ->
  let first := N.to_nat (ALLOCATION_JOURNAL_START_BLOCK + slot * ALLOCATION_JOURNAL_SLOT_BLOCKS) in
  length (write_journal img slot g st exts) = length img /\
  ((k < first \/ first + N.to_nat ALLOCATION_JOURNAL_SLOT_BLOCKS <= k)%nat ->
   nth k (write_journal img slot g st exts) [] = nth k img []).
Proof.
  intros Hs Hc Hl first. unfold write_journal.
  destruct (journal_image_fits_its_slot g st exts Hc) as [_ Q].
  destruct (journal_slots_lie_between_the_metadata_copies slot Hs) as (_ & E & _).
  set (bs := chunk_blocks _ _).
  assert (Lb : (length bs <= N.to_nat ALLOCATION_JOURNAL_SLOT_BLOCKS)%nat) by (unfold bs; rewrite chunk_blocks_len; exact Q).
  assert (In : (N.to_nat (ALLOCATION_JOURNAL_START_BLOCK + slot * ALLOCATION_JOURNAL_SLOT_BLOCKS) + length bs <= length img)%nat) by lia.
  split; [apply set_blocks_length; exact In|].
  intros Hk. apply set_blocks_outside; [exact In|]. fold first. lia.
Qed.
