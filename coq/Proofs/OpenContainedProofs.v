(* Whatever the file holds (C17: any image; C05/C10: the reserved part of the layout): an open --
   journal replay, scan, both retirements of recovery -- never changes the length of the file, the
   primary metadata block, the backup metadata block or any other block in front of the data area
   outside the journal slots.  Everything recovery writes lies in the journal area or in the data
   area. *)
From Coq Require Import List NArith Bool Lia Arith.
From Feox Require Import Gen.Constants Model.Bytes Model.Crc32c Model.Codec Model.MetaJournal Model.FreeSpace Model.Recovery
                         Proofs.CodecProofs Proofs.MetaJournalProofs Proofs.JournalLayoutProofs Proofs.RetireContainedProofs
                         Proofs.ScanExpiryProofs.
Import ListNotations.
Local Open Scope N_scope.

Definition in_data (l : list (N * N)) : Prop := Forall (fun e => FEOX_DATA_START_BLOCK <= fst e) l.

(* ---- the journal decoder only names extents in the data area ---- *)
Lemma decode_entries_in_data total : forall count d off exts,
  decode_entries d off count total = Some exts -> in_data exts.
Proof.
  induction count as [|k IH]; intros d off exts H; cbn [decode_entries] in H.
  - injection H as <-. constructor.
  - cbv zeta in H.
    destruct ((total <? u32_at d off + u32_at d (off + 4)) || (u32_at d off <? FEOX_DATA_START_BLOCK) || (u32_at d (off + 4) =? 0)) eqn:G; [discriminate|].
    destruct (decode_entries d (off + 8) k total) as [t|] eqn:E; [|discriminate]. injection H as <-.
    apply orb_false_iff in G. destruct G as [G _]. apply orb_false_iff in G. destruct G as [_ G]. apply N.ltb_ge in G.
    constructor; [exact G|exact (IH _ _ _ E)].
Qed.

Lemma decode_slot_in_data d total g exts : decode_slot d total = Some (g, exts) -> in_data exts.
Proof.
  unfold decode_slot. destruct (negb (list_eqb _ _)); [discriminate|].
  destruct (negb _); [discriminate|]. cbv zeta.
  destruct (_ || _ || _ || _ || _); [discriminate|].
  destruct (negb (_ && _)); [discriminate|].
  destruct (decode_entries _ _ _ _) as [e|] eqn:E; [|discriminate].
  destruct (no_overlap_sorted _); [|discriminate]. intros [= _ <-]. exact (decode_entries_in_data _ _ _ _ _ E).
Qed.

Lemma decode_journal_in_data s0 s1 total g slot exts :
  decode_journal s0 s1 total = Some (g, slot, exts) -> in_data exts.
Proof.
  unfold decode_journal. cbv zeta.
  destruct (if all_zero s0 then None else decode_slot s0 total) as [[g0 e0]|] eqn:E0;
  destruct (if all_zero s1 then None else decode_slot s1 total) as [[g1 e1]|] eqn:E1.
  - assert (D0 : in_data e0) by (destruct (all_zero s0); [discriminate|exact (decode_slot_in_data _ _ _ _ E0)]).
    assert (D1 : in_data e1) by (destruct (all_zero s1); [discriminate|exact (decode_slot_in_data _ _ _ _ E1)]).
    destruct (g1 <? g0); intros [= _ _ <-]; assumption.
  - assert (D0 : in_data e0) by (destruct (all_zero s0); [discriminate|exact (decode_slot_in_data _ _ _ _ E0)]).
    intros [= _ _ <-]. exact D0.
  - assert (D1 : in_data e1) by (destruct (all_zero s1); [discriminate|exact (decode_slot_in_data _ _ _ _ E1)]).
    intros [= _ _ <-]. exact D1.
  - destruct (all_zero s1); [intros [= _ _ <-]; constructor|]. destruct (all_zero s0); [intros [= _ _ <-]; constructor|discriminate].
Qed.

(* ---- the scan only queues extents of the data area ---- *)
Definition BI (st : rstate) : Prop :=
  in_data (rs_retired st) /\ Forall (fun e => FEOX_DATA_START_BLOCK <= e_sector e) (rs_idx st).

Lemma fs_release_BI st a n st1 : fs_release st a n = Ok st1 -> BI st -> BI st1.
Proof.
  unfold fs_release. destruct (release _ _ _) as [[x|e] f']; [|discriminate]. intros [= <-] H. exact H.
Qed.

Lemma gap_BI st sector st4 :
  (if rs_last_end st <? sector then fs_release st (rs_last_end st) (sector - rs_last_end st) else Ok st) = Ok st4 -> BI st -> BI st4.
Proof. destruct (_ <? _); [apply fs_release_BI|intros [= <-] H; exact H]. Qed.

Lemma push_BI c st x : FEOX_DATA_START_BLOCK <= fst x -> BI st -> BI (push_retired c st x).
Proof.
  intros Hx [R I]. unfold push_retired. destruct (c_ro c); [split; assumption|]. split; cbn [rs_retired rs_idx]; [constructor; assumption|exact I].
Qed.

Lemma upsert_BI x l : FEOX_DATA_START_BLOCK <= e_sector x -> Forall (fun e => FEOX_DATA_START_BLOCK <= e_sector e) l ->
  Forall (fun e => FEOX_DATA_START_BLOCK <= e_sector e) (idx_upsert x l).
Proof.
  intros Hx H. rewrite Forall_forall in *. intros e He. destruct (In_upsert_weak _ _ _ He) as [->|Hin]; [exact Hx|exact (H _ Hin)].
Qed.

Lemma legacy_skip_BI version sector st jl next st' jl' :
  legacy_skip version sector st jl = Ok (Advance next st' jl') -> st' = st.
Proof. unfold legacy_skip. destruct (has_token version); [discriminate|]. intros [= _ <- _]. reflexivity. Qed.

Lemma scan_step_BI c version total sector rest st jl next st' jl' :
  FEOX_DATA_START_BLOCK <= sector -> BI st ->
  scan_step c version total sector rest st jl = Ok (Advance next st' jl') -> BI st'.
Proof.
  intros Hs B. unfold scan_step.
  destruct (if c_ro c then ro_skip jl sector else (None, jl)) as [jump jl1].
  destruct jump as [nxt|]; [intros [= _ <- _]; exact B|].
  destruct rest as [|data tails]; [discriminate|].
  destruct (list_eqb (firstn 8 data) DELETED_TAG).
  { destruct (negb (has_token version) && all_zero (skipn 8 data)).
    - destruct (negb (c_allow_ambiguous c)); [discriminate|]. intros [= _ <- _]. exact B.
    - destruct (negb (marker_token sector data =? u16_at data 16)); [discriminate|]. cbv zeta.
      destruct (U64MAX <? sector + u64_at data 8); [discriminate|].
      destruct ((u64_at data 8 =? 0) || (total <? sector + u64_at data 8)); [discriminate|].
      intros [= _ <- _].
      match goal with |- BI (if ?b then _ else _) => destruct b end; [apply push_BI; [exact Hs|exact B]|exact B]. }
  destruct (negb (u16_at data 0 =? SECTOR_MARKER)); [intros [= _ <- _]; exact B|].
  destruct (negb (header_range_ok version data)); [intros H; rewrite (legacy_skip_BI _ _ _ _ _ _ _ H); exact B|].
  cbv zeta.
  destruct (_ || _); [discriminate|].
  destruct (parse_head version data) as [[[[[key vlen] ts] exp]|]|]; [| intros H; rewrite (legacy_skip_BI _ _ _ _ _ _ _ H); exact B|discriminate].
  destruct (_ || _ || _); [intros H; rewrite (legacy_skip_BI _ _ _ _ _ _ _ H); exact B|].
  destruct (_ || _); [intros H; rewrite (legacy_skip_BI _ _ _ _ _ _ _ H); exact B|].
  match goal with |- context [if ?b then Rej ECorrupt else _] => destruct b end; [discriminate|].
  match goal with |- context [if negb ?b then Rej ECorrupt else _] => destruct b end; cbn [negb]; [|discriminate].
  destruct (idx_find key (rs_idx st)) as [ex|] eqn:F.
  - destruct (ts <? e_ts ex); [intros [= _ <- _]; apply push_BI; [exact Hs|exact B]|].
    destruct (fs_release st (e_sector ex) _) as [st1| |] eqn:R1; cbn [bind]; try discriminate.
    pose proof (fs_release_BI _ _ _ _ R1 B) as B1.
    assert (Hex : FEOX_DATA_START_BLOCK <= e_sector ex).
    { destruct B as [_ I]. rewrite Forall_forall in I. apply I. exact (proj1 (idx_find_In _ _ _ F)). }
    set (st2 := mkrs (rs_idx st1) (rs_fs st1) (rs_count st1) _ _ (rs_retired st1) (rs_last_end st1) (rs_ambiguous st1)).
    assert (B2 : BI st2) by exact B1.
    pose proof (push_BI c st2 (e_sector ex, extent_blocks version (N.of_nat (length (e_key ex))) (e_vlen ex)) Hex B2) as B3.
    match goal with |- context [bind ?g _] => destruct g as [st4| |] eqn:G end; cbn [bind]; try discriminate.
    pose proof (gap_BI _ _ _ G B3) as [R4 I4].
    intros [= _ <- _]. split; cbn [rs_retired rs_idx]; [exact R4|apply upsert_BI; [exact Hs|exact I4]].
  - match goal with |- context [bind ?g _] => destruct g as [st4| |] eqn:G end; cbn [bind]; try discriminate.
    pose proof (gap_BI _ _ _ G B) as [R4 I4].
    intros [= _ <- _]. split; cbn [rs_retired rs_idx]; [exact R4|apply upsert_BI; [exact Hs|exact I4]].
Qed.

Lemma scan_BI c version total img : forall fuel sector st jl st',
  FEOX_DATA_START_BLOCK <= sector -> BI st ->
  scan fuel c version total img sector st jl = Ok st' -> BI st'.
Proof.
  induction fuel as [|f IH]; intros sector st jl st' Hs B; cbn [scan].
  - destruct (total <=? sector); [intros [= <-]; exact B|discriminate].
  - destruct (total <=? sector); [intros [= <-]; exact B|].
    destruct (scan_step c version total sector (skipn (N.to_nat sector) img) st jl) as [[next st1 jl1]| |] eqn:E; cbn [bind]; try discriminate.
    destruct (N.leb_spec next sector) as [|Hn]; [discriminate|].
    apply IH; [lia|exact (scan_step_BI _ _ _ _ _ _ _ _ _ _ Hs B E)].
Qed.

Lemma expire_winners_BI c version now : forall todo st st',
  Forall (fun e => FEOX_DATA_START_BLOCK <= e_sector e) todo -> BI st ->
  expire_winners c version now todo st = Ok st' -> BI st'.
Proof.
  induction todo as [|e t IH]; intros st st' Ht B; cbn [expire_winners]; [intros [= <-]; exact B|].
  pose proof (Forall_inv Ht) as He. pose proof (Forall_inv_tail Ht) as Ht'.
  destruct ((0 <? e_exp e) && (e_exp e <? now)); [|apply IH; assumption]. cbv zeta.
  destruct (fs_release st (e_sector e) _) as [st1| |] eqn:R1; cbn [bind]; try discriminate.
  pose proof (fs_release_BI _ _ _ _ R1 B) as [R I].
  apply IH; [exact Ht'|]. apply push_BI; [exact He|]. split; cbn [rs_retired rs_idx]; [exact R|].
  rewrite Forall_forall in *. intros x Hx. apply I. exact (In_remove_weak _ _ _ Hx).
Qed.

(* ---- blocks in front of the data area, outside the journal: never written ---- *)
Definition reserved (k : nat) : Prop :=
  (k <= N.to_nat FEOX_METADATA_BLOCK \/ (N.to_nat FEOX_METADATA_BACKUP_BLOCK <= k /\ k < N.to_nat FEOX_DATA_START_BLOCK))%nat.

Definition untouched (img img' : image) : Prop :=
  length img' = length img /\ forall k, reserved k -> nth k img' [] = nth k img [].

Lemma untouched_refl img : untouched img img.
Proof. split; [reflexivity|intros; reflexivity]. Qed.

Lemma untouched_trans a b c : untouched a b -> untouched b c -> untouched a c.
Proof. intros [L1 H1] [L2 H2]. split; [congruence|]. intros k R. rewrite (H2 k R). exact (H1 k R). Qed.

Lemma same_outside_untouched exts img img' : in_data exts -> same_outside exts img img' -> untouched img img'.
Proof.
  intros D [L O]. split; [exact L|]. intros k R. apply O.
  - unfold outside_journal. unfold reserved in R. lia.
  - intros (s & n & Hin & Hb). unfold in_data in D. rewrite Forall_forall in D. specialize (D _ Hin). cbn [fst] in D.
    unfold reserved in R.
    assert (FEOX_METADATA_BLOCK < FEOX_DATA_START_BLOCK) by (vm_compute; reflexivity). lia.
Qed.

Lemma in_data_firstn k l : in_data l -> in_data (firstn k l).
Proof. unfold in_data. rewrite !Forall_forall. intros H x Hx. apply H. exact (firstn_in _ _ _ Hx). Qed.
Lemma in_data_skipn k l : in_data l -> in_data (skipn k l).
Proof. unfold in_data. rewrite !Forall_forall. intros H x Hx. apply H. exact (skipn_in _ _ _ Hx). Qed.

Lemma retire_two_untouched img p all nlosers :
  (N.to_nat FEOX_METADATA_BACKUP_BLOCK <= length img)%nat -> in_data all ->
  untouched img (fst (fst (retire_two img p all nlosers))).
Proof.
  intros Hl D. unfold retire_two. cbv zeta.
  pose proof (retirement_is_contained img p (skipn (length all - nlosers) all) Hl) as S1.
  destruct (retire_extents img p (skipn (length all - nlosers) all)) as [[img1 p1] ok1]. cbn [fst] in S1.
  pose proof (same_outside_untouched _ _ _ (in_data_skipn _ _ D) S1) as U1.
  destruct ok1; cbn [negb fst]; [|exact U1].
  assert (Hl1 : (N.to_nat FEOX_METADATA_BACKUP_BLOCK <= length img1)%nat) by (rewrite (proj1 U1); exact Hl).
  pose proof (retirement_is_contained img1 p1 (firstn (length all - nlosers) all) Hl1) as S2.
  eapply untouched_trans; [exact U1|]. exact (same_outside_untouched _ _ _ (in_data_firstn _ _ D) S2).
Qed.

(* ---- the whole open, any configuration, any image, any outcome ---- *)
Theorem open_never_touches_the_reserved_blocks c img : untouched img (snd (open_image c img)).
Proof.
  unfold open_image. cbv zeta.
  destruct (Nat.ltb_spec (length img) 17) as [|Hlen]; [apply untouched_refl|].
  destruct (negb _); [apply untouched_refl|].
  destruct (decode_meta _) as [m|]; [|apply untouched_refl].
  destruct (decode_journal _ _ _) as [[[jgen jslot] jexts]|] eqn:EJ; [|apply untouched_refl].
  pose proof (decode_journal_in_data _ _ _ _ _ _ EJ) as DJ.
  assert (Hl : (N.to_nat FEOX_METADATA_BACKUP_BLOCK <= length img)%nat) by (change (N.to_nat FEOX_METADATA_BACKUP_BLOCK) with 7%nat; lia).
  set (p0 := mkjpos jgen jslot).
  assert (REP : match (if c_ro c then ReplayOk img p0 else replay img p0 jexts) with
                | ReplayOk img1 _ | ReplayExhausted img1 => untouched img img1
                | ReplayCoalesce => True end).
  { destruct (c_ro c); [apply untouched_refl|]. pose proof (replay_is_contained img p0 jexts Hl) as R.
    destruct (replay img p0 jexts); try exact I; exact (same_outside_untouched _ _ _ DJ R). }
  destruct (if c_ro c then ReplayOk img p0 else replay img p0 jexts) as [img1 p1| |img1]; cbn [snd]; [|apply untouched_refl|exact REP].
  set (st0 := mkrs [] _ 0 0 0 [] FEOX_DATA_START_BLOCK 0).
  assert (B0 : BI st0) by (split; constructor).
  destruct (scan (S (length img1)) c (m_version m) (N.of_nat (length img)) img1 FEOX_DATA_START_BLOCK st0 _) as [st1| |] eqn:SC; cbn [bind snd]; try exact REP.
  pose proof (scan_BI _ _ _ _ _ _ _ _ _ (N.le_refl _) B0 SC) as B1.
  assert (EW : forall st2, (match c_now c with Some now => expire_winners c (m_version m) now (rs_idx st1) st1 | None => Ok st1 end) = Ok st2 -> BI st2).
  { intros st2. destruct (c_now c) as [now|]; [|intros [= <-]; exact B1]. intros E. exact (expire_winners_BI _ _ _ _ _ _ (proj2 B1) B1 E). }
  destruct (match c_now c with Some now => expire_winners c (m_version m) now (rs_idx st1) st1 | None => Ok st1 end) as [st2| |]; cbn [bind snd]; try exact REP.
  specialize (EW st2 eq_refl).
  assert (RT : untouched img1 (fst (fst (if c_ro c then (img1, p1, true) else retire_two img1 p1 (rs_retired st2) (length (rs_retired st1)))))).
  { destruct (c_ro c); [apply untouched_refl|]. apply retire_two_untouched; [rewrite (proj1 REP); exact Hl|exact (proj1 EW)]. }
  destruct (if c_ro c then (img1, p1, true) else retire_two img1 p1 (rs_retired st2) (length (rs_retired st1))) as [[img2 p2] ok]. cbn [fst] in RT.
  pose proof (untouched_trans _ _ _ REP RT) as U2.
  destruct (negb ok); cbn [snd]; [exact U2|].
  destruct (if rs_last_end st2 <? N.of_nat (length img) then fs_release st2 (rs_last_end st2) (N.of_nat (length img) - rs_last_end st2) else Ok st2); cbn [snd]; exact U2.
Qed.
