From Coq Require Import List NArith Bool Lia.
From Feox Require Import Model.MemLimit.
Import ListNotations.
Local Open Scope N_scope.

Fixpoint owned_sum (l : list mth) : N := match l with [] => 0 | t :: r => m_owned t + owned_sum r end.

Definition held_ok (t : mth) : Prop := match m_pc t with MHeld a => a <= m_owned t | _ => True end.

Record MInv (s : mst) : Prop := {
  mi_sum : usage s = owned_sum (ths s);
  mi_lim : usage s <= limit s;
  mi_held : Forall held_ok (ths s)
}.

Lemma owned_set_nth l i t t' :
  nth_error l i = Some t -> owned_sum (set_nth i t' l) + m_owned t = owned_sum l + m_owned t'.
Proof.
  revert i. induction l as [|x r IH]; intros [|i] H; cbn in *; try discriminate.
  - inversion H. subst. lia.
  - specialize (IH i H). lia.
Qed.

Lemma Forall_set_nth {A} (P : A -> Prop) l i a : Forall P l -> P a -> Forall P (set_nth i a l).
Proof.
  revert i. induction l as [|x r IH]; intros [|i] Hl Ha; cbn; try constructor; inversion Hl; subst; auto.
Qed.

Lemma minit_MInv lim n : MInv (minit lim n).
Proof.
  constructor; cbn.
  - induction n; cbn; [reflexivity | rewrite <- IHn; reflexivity].
  - lia.
  - induction n; cbn; constructor; [exact I | exact IHn].
Qed.

Lemma nth_held l i t : Forall held_ok l -> nth_error l i = Some t -> held_ok t.
Proof. intros H Hn. rewrite Forall_forall in H. exact (H _ (nth_error_In _ _ Hn)). Qed.

Theorem mstep_MInv s e : MInv s -> MInv (mstep s e).
Proof.
  intros [Hs Hl Hh]. destruct e as [i a|i|i|i|i r]; cbn.
  - destruct (nth_error (ths s) i) as [[[|cur a'|a'] o]|] eqn:Hn; try (constructor; assumption).
    constructor; cbn; [|exact Hl|apply Forall_set_nth; [exact Hh | exact I]].
    pose proof (owned_set_nth _ _ _ (mkmth (MLoaded (usage s) a) o) Hn) as H. cbn in H. lia.
  - destruct (nth_error (ths s) i) as [[[|cur a|a] o]|] eqn:Hn; try (constructor; assumption).
    destruct (limit s <? cur + a) eqn:El.
    + constructor; cbn; [|exact Hl|apply Forall_set_nth; [exact Hh | exact I]].
      pose proof (owned_set_nth _ _ _ (mkmth MIdle o) Hn) as H. cbn in H. lia.
    + apply N.ltb_ge in El. destruct (usage s =? cur) eqn:Eu.
      * apply N.eqb_eq in Eu. constructor; cbn.
        -- pose proof (owned_set_nth _ _ _ (mkmth (MHeld a) (o + a)) Hn) as H. cbn in H. lia.
        -- exact El.
        -- apply Forall_set_nth; [exact Hh | cbn; lia].
      * constructor; cbn; [|exact Hl|apply Forall_set_nth; [exact Hh | exact I]].
        pose proof (owned_set_nth _ _ _ (mkmth (MLoaded (usage s) a) o) Hn) as H. cbn in H. lia.
  - destruct (nth_error (ths s) i) as [[[|cur a|a] o]|] eqn:Hn; try (constructor; assumption).
    constructor; cbn; [|exact Hl|apply Forall_set_nth; [exact Hh | exact I]].
    pose proof (owned_set_nth _ _ _ (mkmth MIdle o) Hn) as H. cbn in H. lia.
  - destruct (nth_error (ths s) i) as [[[|cur a|a] o]|] eqn:Hn; try (constructor; assumption).
    pose proof (nth_held _ _ _ Hh Hn) as Hk. cbn in Hk.
    pose proof (owned_set_nth _ _ _ (mkmth MIdle (o - a)) Hn) as H. cbn in H.
    assert (Ho : o <= owned_sum (ths s)).
    { clear -Hn. revert i Hn. induction (ths s) as [|x r IH]; intros [|i] Hn; cbn in *; try discriminate.
      - inversion Hn. cbn. lia.
      - specialize (IH i Hn). lia. }
    constructor; cbn; [lia | lia | apply Forall_set_nth; [exact Hh | exact I]].
  - destruct (nth_error (ths s) i) as [[[|cur a|a] o]|] eqn:Hn; try (constructor; assumption).
    destruct (r <=? o) eqn:Er; [|constructor; assumption]. apply N.leb_le in Er.
    pose proof (owned_set_nth _ _ _ (mkmth MIdle (o - r)) Hn) as H. cbn in H.
    assert (Ho : o <= owned_sum (ths s)).
    { clear -Hn. revert i Hn. induction (ths s) as [|x r0 IH]; intros [|i] Hn; cbn in *; try discriminate.
      - inversion Hn. cbn. lia.
      - specialize (IH i Hn). lia. }
    constructor; cbn; [lia | lia | apply Forall_set_nth; [exact Hh | exact I]].
Qed.

Theorem mrun_MInv evs : forall s, MInv s -> MInv (mrun s evs).
Proof. unfold mrun. induction evs as [|e t IH]; intros s H; cbn; [exact H | apply IH; apply mstep_MInv; exact H]. Qed.

(* whatever the number of threads and the interleaving of loads, compare-exchanges, commits, drops
   and releases: the counter never exceeds the limit and always equals what the threads account for *)
Theorem usage_never_exceeds_the_limit lim n evs :
  let s := mrun (minit lim n) evs in usage s <= limit s /\ limit s = lim /\ usage s = owned_sum (ths s).
Proof.
  intros s. pose proof (mrun_MInv evs _ (minit_MInv lim n)) as H. fold s in H.
  split; [exact (mi_lim _ H)|]. split; [|exact (mi_sum _ H)].
  subst s. clear H. assert (G : forall evs s0, limit (mrun s0 evs) = limit s0).
  { clear. induction evs as [|e t IH]; intros s0; [reflexivity|]. unfold mrun in *. cbn. rewrite IH.
    destruct e as [i a|i|i|i|i r]; cbn;
      destruct (nth_error (ths s0) i) as [[[|cur a0|a0] o]|]; try reflexivity;
      repeat match goal with |- context [if ?b then _ else _] => destruct b end; reflexivity. }
  apply G.
Qed.

(* a refused reservation changes nothing but the thread's own control state *)
Theorem refused_reservation_changes_nothing s i cur a o :
  nth_error (ths s) i = Some (mkmth (MLoaded cur a) o) -> limit s < cur + a ->
  usage (mstep s (MCas i)) = usage s /\ owned_sum (ths (mstep s (MCas i))) = owned_sum (ths s).
Proof.
  intros Hn Hlt. cbn. rewrite Hn. apply N.ltb_lt in Hlt. rewrite Hlt. cbn. split; [reflexivity|].
  pose proof (owned_set_nth _ _ _ (mkmth MIdle o) Hn) as H. cbn in H. lia.
Qed.
